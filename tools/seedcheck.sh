#!/bin/bash
# tools/seedcheck.sh <dir with patch.diff, demo/, meta.json> <name> <ID> [more IDs]
# Confirms a seeded change (builds, baseline passes, demo fails with it and passes without) in a scratch worktree,
# stores it under /verif/seeded/<name>/ and runs the named checks against the patched tree.
set -u
SRC="$1"; NAME="$2"; shift 2; IDS="$@"
export GOFLAGS=-mod=mod GOPROXY=off GOSUMDB=off GOTOOLCHAIN=local
WT=$(mktemp -d /tmp/seedchk.XXXXXX); rmdir "$WT"
git -C /repo worktree add -q --detach "$WT" HEAD || exit 2
trap 'git -C /repo worktree remove --force "$WT" >/dev/null 2>&1; rm -rf "$WT"' EXIT
DEMOCMD=$(python3 -c "import json;print(json.load(open('$SRC/meta.json')).get('demo_cmd',''))")
echo "== $NAME: demo_cmd: $DEMOCMD"
# demo files (everything under demo/ except RUN.md) keep their relative paths
( cd "$SRC/demo" && find . -type f ! -name RUN.md | while read f; do mkdir -p "$WT/$(dirname $f)"; cp "$f" "$WT/$f"; done )
rundemo() { ( cd "$WT" && eval "$(echo "$DEMOCMD" | sed 's#^cd [^ ;&]*\s*&&\s*##')" ) > "$WT/.demo.out" 2>&1; echo $?; }
r0=$(rundemo); echo "demo on unchanged code: exit $r0 (want 0)"; [ "$r0" != 0 ] && tail -15 "$WT/.demo.out"
git -C "$WT" apply --whitespace=nowarn "$SRC/patch.diff" || { echo "PATCH DOES NOT APPLY"; exit 2; }
( cd "$WT" && go build ./... ) || { echo "DOES NOT BUILD"; exit 2; }
r1=$(rundemo); echo "demo with the change:   exit $r1 (want != 0)"; [ "$r1" = 0 ] && tail -5 "$WT/.demo.out"
# baseline suite with the change (demo files removed so they do not count)
( cd "$SRC/demo" && find . -type f ! -name RUN.md | while read f; do rm -f "$WT/$f"; done )
( cd "$WT" && timeout 900 go test -vet=off -count=1 -timeout 300s ./... 2>&1 | grep -E '^(FAIL|--- FAIL|panic:|ok .*FAIL)' | head -8 ) > "$WT/.base.out"
if [ -s "$WT/.base.out" ]; then echo "baseline with the change: NOT CLEAN:"; cat "$WT/.base.out"; else echo "baseline with the change: all packages ok"; fi
mkdir -p /verif/seeded/$NAME && cp -r "$SRC/patch.diff" "$SRC/meta.json" "$SRC/demo" /verif/seeded/$NAME/ 2>/dev/null
for id in $IDS; do
  out=$(cd /verif && ./check $id --tier quick --repo "$WT" 2>&1 | grep -E '^VIOLATION|^INCONCLUSIVE|^property=|^  ' | head -3 | cut -c1-300 | tr '\n' '|')
  echo "check $id => $out"
done
