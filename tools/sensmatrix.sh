#!/bin/bash
# tools/sensmatrix.sh: run every deliberately broken variant sens/<ID><x>-*.diff against the quick check of <ID>
# (scratch worktrees of /repo's HEAD, 3 at a time) and write sens/RESULTS.txt.
cd /verif
export GOFLAGS=-mod=mod GOPROXY=off GOSUMDB=off GOTOOLCHAIN=local
TMP=$(mktemp -d /tmp/sensmatrix.XXXXXX)
one() {
  f=$1; n=$(basename $f .diff); id=${n:0:3}
  WT=$(mktemp -d /tmp/sensmx-wt.XXXXXX); rmdir "$WT"
  git -C /repo worktree add -q --detach "$WT" HEAD || { echo "$n: worktree failed" > $TMP/$n; return; }
  if ! git -C "$WT" apply --whitespace=nowarn $f 2>/dev/null; then
    echo "$n: patch no longer applies to HEAD" > $TMP/$n
  elif ! ( cd "$WT" && go build ./... ) >/dev/null 2>&1; then
    echo "$n: patched tree does not build" > $TMP/$n
  else
    r=$(./check $id --tier quick --repo "$WT" 2>&1 | grep -E '^VIOLATION|^INCONCLUSIVE|^property=|^  ' | head -3 | cut -c1-260 | tr '\n' '|')
    if echo "$r" | grep -q VIOLATION; then v=CAUGHT; else v=missed; fi
    echo "$n $id $v :: $r" > $TMP/$n
  fi
  git -C /repo worktree remove --force "$WT" >/dev/null 2>&1; rm -rf "$WT"
}
for f in /verif/sens/*.diff; do
  one $f &
  while [ $(jobs -r | wc -l) -ge 3 ]; do sleep 2; done
done
wait
{ echo "# own broken variants vs checks (quick tier), /repo HEAD $(git -C /repo log -1 --format=%h), /verif $(git -C /verif log -1 --format=%h), $(date -u +%FT%TZ)"; cat $TMP/*; } > /verif/sens/RESULTS.txt
rm -rf $TMP
grep -c CAUGHT /verif/sens/RESULTS.txt; grep -E " missed |no longer|does not build" /verif/sens/RESULTS.txt | cut -c1-120
