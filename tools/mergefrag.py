#!/usr/bin/env python3
"""Merge harness/*/checks.fragment.json into checks.json (fragments win for their ids)."""
import json, glob, os
ROOT = os.path.dirname(os.path.dirname(os.path.abspath(__file__)))
cfg = json.load(open(os.path.join(ROOT, "checks.json")))
for f in sorted(glob.glob(os.path.join(ROOT, "harness", "*", "checks.fragment.json"))):
    frag = json.load(open(f))
    for k, v in frag.items():
        cfg["properties"][k] = v
        print("merged", k, "from", f)
cfg["properties"] = dict(sorted(cfg["properties"].items()))
json.dump(cfg, open(os.path.join(ROOT, "checks.json"), "w"), indent=1)
