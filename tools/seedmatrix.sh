#!/bin/bash
# tools/seedmatrix.sh [name ...]: run, for every seeded change under /verif/seeded (or the named ones), the checks
# listed for it below against a scratch worktree of /repo's HEAD with the change applied; writes one line per
# (change, check) to /verif/seeded/RESULTS.txt. Nothing is applied to /repo itself. 3 changes run at a time.
cd /verif
export GOFLAGS=-mod=mod GOPROXY=off GOSUMDB=off GOTOOLCHAIN=local
declare -A CHECKS=(
 [C01-1]="C01 C02" [C01-2]="C01" [C02-1]="C02" [C02-2]="C02"
 [C03-1]="C03" [C04-1]="C04 C10" [C04-2]="C04 C11"
 [C05-1]="C05" [C05-2]="C05 C18" [C06-1]="C06 C07" [C06-2]="C06"
 [C07-1]="C07" [C07-2]="C07" [C08-1]="C08" [C08-2]="C08 C15"
 [C09-1]="C09 C02" [C09-2]="C09" [C10-1]="C10" [C10-2]="C10"
 [C11-1]="C11 C07" [C11-2]="C11" [C12-1]="C12" [C12-2]="C12"
 [C13-1]="C13" [C13-2]="C13" [C14-1]="C14" [C14-2]="C14"
 [C15-1]="C15" [C15-2]="C15" [C16-1]="C16" [C16-2]="C16"
 [C17-1]="C17" [C17-2]="C17" [C18-1]="C18" [C18-2]="C18"
 [C19-1]="C19" [C19-2]="C19" [C20-1]="C20" [C20-2]="C20"
 [C01-3]="C01 C02" [C01-4]="C01 C07" [C02-3]="C02 C07" [C02-4]="C02" [C03-3]="C03 C01" [C03-4]="C03 C07"
 [C04-3]="C04" [C04-4]="C04 C10" [C05-3]="C05 C07" [C05-4]="C05" [C06-3]="C06 C04" [C06-4]="C06 C07"
 [C07-3]="C07" [C07-4]="C07 C10 C02" [C08-3]="C08" [C08-4]="C08 C15" [C09-3]="C09" [C09-4]="C09"
 [C10-3]="C10" [C10-4]="C10 C04" [C11-3]="C11 C09" [C11-4]="C11" [C13-3]="C13" [C13-4]="C13" [C20-3]="C20" [C20-4]="C20"
 [C16-6]="C16 C04 C03" [C07-6]="C07 C02" [C02-5]="C02 C10 C07" [C02-6]="C02 C01" [C06-6]="C06 C02" [C01-5]="C01 C02" [C01-6]="C01 C07"
 [C08-5]="C08 C13" [C08-6]="C08 C15" [C11-5]="C11 C04 C10"
 [C09-8]="C09 C15" [C17-7]="C17 C05" [C17-8]="C17 C03"
 [C03-6]="C03 C17" [C04-5]="C04 C07" [C09-6]="C09 C10" [C10-5]="C10 C04" [C10-6]="C10 C04" [C16-6]="C16 C04"
)
NAMES=${@:-$(ls /verif/seeded | grep -E '^C[0-9]+-[0-9]+$')}
OUT=/verif/seeded/RESULTS.txt
TMP=$(mktemp -d /tmp/seedmatrix.XXXXXX)
one() {
  n=$1
  WT=$(mktemp -d /tmp/seedmx-wt.XXXXXX); rmdir "$WT"
  git -C /repo worktree add -q --detach "$WT" HEAD || { echo "$n: worktree failed" > $TMP/$n; return; }
  if ! git -C "$WT" apply --whitespace=nowarn /verif/seeded/$n/patch.diff 2>/dev/null; then
    echo "$n: patch no longer applies to HEAD $(git -C /repo log -1 --format=%h)" > $TMP/$n
  elif ! ( cd "$WT" && go build ./... ) >/dev/null 2>&1; then
    echo "$n: patched tree does not build" > $TMP/$n
  else
    : > $TMP/$n
    for id in ${CHECKS[$n]:-${n%%-*}}; do
      r=$(./check $id --tier quick --repo "$WT" 2>&1 | grep -E '^VIOLATION|^INCONCLUSIVE|^property=|^  ' | head -3 | cut -c1-260 | tr '\n' '|')
      if echo "$r" | grep -q VIOLATION; then v=CAUGHT; else v=missed; fi
      echo "$n $id $v :: $r" >> $TMP/$n
    done
  fi
  git -C /repo worktree remove --force "$WT" >/dev/null 2>&1; rm -rf "$WT"
}
for n in $NAMES; do
  one $n &
  while [ $(jobs -r | wc -l) -ge 3 ]; do sleep 2; done
done
wait
# lines of changes that were not re-run are kept
KEEP=$(mktemp); touch $OUT
grep -v '^#' $OUT | while read -r line; do n=${line%% *}; n=${n%:}; echo " $NAMES " | tr '\n' ' ' | grep -q " $n " || echo "$line"; done > $KEEP
{ echo "# seeded changes vs checks (quick tier, VERIF_SEED default); last run: /repo HEAD $(git -C /repo log -1 --format=%h), /verif $(git -C /verif log -1 --format=%h), $(date -u +%FT%TZ)"; { cat $KEEP; for n in $NAMES; do cat $TMP/$n; done; } | sort; } > $OUT
rm -f $KEEP
rm -rf $TMP
grep -c CAUGHT $OUT; grep -E " missed |no longer|does not build" $OUT | cut -c1-120
