#!/usr/bin/env python3
"""tools/batch2results.py <name> ...: turn the check lines of .work/seedbatch/<name>.log (written by tools/seedcheck.sh)
into lines of seeded/RESULTS.txt, for changes that seedmatrix.sh has not been run for. Existing lines are kept."""
import sys, os, re
ROOT = os.path.dirname(os.path.dirname(os.path.abspath(__file__)))
res = os.path.join(ROOT, "seeded", "RESULTS.txt")
lines = open(res).read().rstrip("\n").split("\n")
have = {tuple(l.split()[:2]) for l in lines if not l.startswith("#") and len(l.split()) > 2}
for n in sys.argv[1:]:
    p = os.path.join(ROOT, ".work", "seedbatch", n + ".log")
    if not os.path.exists(p):
        continue
    for l in open(p):
        m = re.match(r"^check (C\d\d) => (.*)$", l.rstrip("\n"))
        if not m or (n, m.group(1)) in have or "INCONCLUSIVE" in m.group(2):
            continue
        v = "CAUGHT" if "VIOLATION" in m.group(2) else "missed"
        lines.append("%s %s %s :: %s" % (n, m.group(1), v, m.group(2)[:260]))
head = [l for l in lines if l.startswith("#")]
body = sorted(l for l in lines if not l.startswith("#") and l.strip())
open(res, "w").write("\n".join(head + body) + "\n")
