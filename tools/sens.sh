#!/bin/bash
# tools/sens.sh <patch-file|-> <ID> [extra ./check args]
# Applies a patch (unified diff relative to the repository root; "-" reads it from stdin) to a scratch
# worktree of /repo's HEAD and runs ./check <ID> --repo <worktree>. The worktree is removed afterwards.
set -u
PATCH="$1"; ID="$2"; shift 2
WT=$(mktemp -d /tmp/sens-wt.XXXXXX)
rmdir "$WT"
git -C /repo worktree add -q --detach "$WT" HEAD || exit 2
trap 'git -C /repo worktree remove --force "$WT" >/dev/null 2>&1; rm -rf "$WT"' EXIT
if [ "$PATCH" = "-" ]; then git -C "$WT" apply --whitespace=nowarn - || exit 2; else git -C "$WT" apply --whitespace=nowarn "$PATCH" || exit 2; fi
( cd "$WT" && GOFLAGS=-mod=mod GOPROXY=off GOSUMDB=off GOTOOLCHAIN=local go build ./... ) || { echo "patched tree does not build"; exit 2; }
cd /verif && ./check "$ID" --repo "$WT" "$@"
