#!/usr/bin/env python3
"""tools/mkmatrix.py: rewrites the two generated tables of DESIGN.md section 9 (between the
<!-- matrix:sens --> / <!-- matrix:seeded --> markers and their <!-- /matrix --> ends) from sens/RESULTS.txt,
seeded/RESULTS.txt and the seeded changes' meta.json files."""
import json, os, re, collections

ROOT = os.path.dirname(os.path.dirname(os.path.abspath(__file__)))


def parse(path):
    head, rows = "", collections.OrderedDict()
    if not os.path.exists(path):
        return head, rows
    for line in open(path):
        line = line.rstrip("\n")
        if line.startswith("#"):
            head = line.lstrip("# ")
            continue
        m = re.match(r"^(\S+) (C\d\d) (CAUGHT|missed) :: (.*)$", line)
        if m:
            rows.setdefault(m.group(1), []).append((m.group(2), m.group(3), m.group(4)))
        elif line.strip():
            rows.setdefault(line.split(":")[0].split()[0], []).append(("-", "n/a", line))
    return head, rows


def first_msg(detail):
    parts = [p.strip() for p in detail.split("|") if p.strip()]
    for i, p in enumerate(parts):
        if p.startswith("VIOLATION") and i + 1 < len(parts):
            return parts[i + 1][:150].replace("|", "/")
    return ""


def sens_table():
    head, rows = parse(os.path.join(ROOT, "sens", "RESULTS.txt"))
    out = ["(" + head + ")", "", "| variant (sens/*.diff) | check | result | first report |", "|---|---|---|---|"]
    for n in sorted(rows):
        for cid, res, det in rows[n]:
            out.append("| %s | %s | %s | %s |" % (n, cid, "**caught**" if res == "CAUGHT" else res, first_msg(det)))
    return "\n".join(out)


def seeded_table():
    head, rows = parse(os.path.join(ROOT, "seeded", "RESULTS.txt"))
    out = ["(" + head + ")", "", "| change | what was changed (the author's title) | caught by | not caught by |", "|---|---|---|---|"]
    for n in sorted(rows):
        title = ""
        mp = os.path.join(ROOT, "seeded", n, "meta.json")
        if os.path.exists(mp):
            try:
                title = json.load(open(mp)).get("title", "")
            except Exception:
                pass
        caught = [c for c, r, _ in rows[n] if r == "CAUGHT"]
        missed = [c for c, r, _ in rows[n] if r == "missed"]
        other = [d for c, r, d in rows[n] if r == "n/a"]
        out.append("| %s | %s | %s | %s |" % (n, title.replace("|", "/")[:110], ", ".join(caught) or "–", ", ".join(missed) + ("; " + other[0][:80] if other else "") or "–"))
    tot = len(rows)
    got = sum(1 for n in rows if any(r == "CAUGHT" for _, r, _ in rows[n]))
    own = sum(1 for n in rows if any(r == "CAUGHT" and c == n[:3] for c, r, _ in rows[n]))
    out.append("")
    out.append("%d of %d changes are caught by at least one check in the quick tier; %d of them by the check of the property they were written against." % (got, tot, own))
    return "\n".join(out)


def main():
    p = os.path.join(ROOT, "DESIGN.md")
    s = open(p).read()
    for key, fn in (("sens", sens_table), ("seeded", seeded_table)):
        a, b = "<!-- matrix:%s -->" % key, "<!-- /matrix:%s -->" % key
        if a in s and b in s:
            i, j = s.index(a) + len(a), s.index(b)
            s = s[:i] + "\n" + fn() + "\n" + s[j:]
    open(p, "w").write(s)


if __name__ == "__main__":
    main()
