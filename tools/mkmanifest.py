#!/usr/bin/env python3
"""Regenerate MANIFEST.json from checks.json (single source of truth for the driver)."""
import json, os, subprocess
ROOT = os.path.dirname(os.path.dirname(os.path.abspath(__file__)))
cfg = json.load(open(os.path.join(ROOT, "checks.json")))
all_ids = [json.loads(l)["id"] for l in open(os.path.join(ROOT, "properties.jsonl")) if l.strip()]
try:
    commits = subprocess.check_output(["git", "-C", "/repo", "log", "--format=%H %s"], text=True).splitlines()
    hook_commits = [c.split()[0] for c in commits if "verif hooks" in c]
except Exception:
    hook_commits = []
checks = []
for pid in all_ids:
    P = cfg["properties"].get(pid)
    if not P or P.get("disabled") or pid in cfg.get("disabled", []):
        continue
    checks.append({
        "property_id": pid,
        "quick_cmd": "./check %s --tier quick" % pid,
        "thorough_cmd": "./check %s --tier thorough" % pid,
        "evidence_file": "/verif/evidence/%s.json" % pid,
        "replay_cmd_template": "./check %s --replay {path}" % pid,
        "engine": P["engine"],
        "level_claimed": {"category": P.get("level", "exploration"), "text": P.get("level_text", ""), "design_ref": P.get("design_ref", "DESIGN.md §5 " + pid)},
        "level_note": P.get("level_note", ""),
        "technique": P.get("technique", "property-based testing (pgregory.net/rapid) against an explicit oracle"),
    })
engines = {}
for pid, P in cfg["properties"].items():
    if P.get("disabled") or pid in cfg.get("disabled", []):
        continue
    engines.setdefault(P["engine"], []).append(pid)
man = {
    "version": 1,
    "setup_cmd": "./check --setup",
    "hooks": {
        "guard": "verif",
        "enable": "go build tag: every check builds with `go test -c -tags verif` (harness/go.mod replaces github.com/onosproject/onos-config with /repo)",
        "baseline_off_cmd": "cd /repo && GOFLAGS=-mod=mod GOPROXY=off GOSUMDB=off go test -vet=off -count=1 -timeout 25m ./...",
        "source_commits": hook_commits,
        "add_only": True,
    },
    "engines": [{"name": e, "path": "/verif/harness/" + e, "serves_properties": sorted(p), "kind_free_text": cfg.get("engines", {}).get(e, "")} for e, p in sorted(engines.items())],
    "checks": checks,
    "notes": cfg.get("notes", ""),
    "not_applicable": [{"property_id": pid, "reason": cfg.get("not_applicable", {}).get(pid, "check not built yet (work in progress); see DESIGN.md")} for pid in all_ids if pid not in [c["property_id"] for c in checks]],
}
json.dump(man, open(os.path.join(ROOT, "MANIFEST.json"), "w"), indent=1)
print("MANIFEST.json: %d checks, %d not claimed" % (len(checks), len(man["not_applicable"])))
