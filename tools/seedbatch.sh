#!/bin/bash
# tools/seedbatch.sh <round-dir> "<srcname>:<storedname>:<ID ID ...>" ... : confirm and store delivered seeded changes
# (tools/seedcheck.sh), three at a time; one log per change under .work/seedbatch/
cd /verif; mkdir -p .work/seedbatch
R=$1; shift
for spec in "$@"; do
  IFS=: read -r src name ids <<< "$spec"
  ( tools/seedcheck.sh $R/$src $name $ids > .work/seedbatch/$name.log 2>&1 ) &
  while [ $(jobs -r | wc -l) -ge 3 ]; do sleep 2; done
done
wait
for spec in "$@"; do IFS=: read -r src name ids <<< "$spec"; echo "=== $name"; grep -E "^demo|^baseline|^check|PATCH|BUILD" .work/seedbatch/$name.log | cut -c1-330; done
