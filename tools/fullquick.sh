#!/bin/bash
# tools/fullquick.sh [parallel]: every check's quick tier against /repo, evidence written; summary on stdout
cd /verif; P=${1:-3}; OUT=.work/fullquick.$(date +%s).txt; : > $OUT
for id in $(python3 -c "import json;print(' '.join(json.load(open('/verif/checks.json'))['properties'].keys()))"); do
  ( r=$(./check $id --tier quick 2>&1 | grep -E '^VIOLATION|^INCONCLUSIVE|^property=|^  ' | cut -c1-300 | tr '\n' '|'); echo "$id $r" >> $OUT ) &
  while [ $(jobs -r | wc -l) -ge $P ]; do sleep 1; done
done; wait
sort $OUT; echo "alarms: $(grep -cE 'VIOLATION|INCONCLUSIVE' $OUT)"
