#!/usr/bin/env python3
"""tools/mkbounds.py: rewrites the 'as built' cost table of DESIGN.md (between <!-- bounds --> and <!-- /bounds -->)
from checks.json, the committed evidence files (quick tier) and, if present, .work/thorough-run*.txt."""
import json, os, re, glob
ROOT = os.path.dirname(os.path.dirname(os.path.abspath(__file__)))
checks = json.load(open(os.path.join(ROOT, "checks.json")))["properties"]
thor = {}
for f in sorted(glob.glob(os.path.join(ROOT, ".work", "thorough-run*.txt"))):
    for line in open(f):
        m = re.match(r"^(C\d\d) (\d+)s .*evaluations=(\d+) distinct_nontrivial=(\d+)", line)
        if m:
            thor[m.group(1)] = (int(m.group(2)), int(m.group(3)), int(m.group(4)))
rows = ["| id | engine | level | quick: cases requested (per test) | quick: evaluations / distinct non-trivial / wall | thorough: cases requested | thorough: evaluations / distinct non-trivial / wall (one run) |", "|---|---|---|---|---|---|---|"]
for pid in sorted(checks):
    c = checks[pid]
    q = " + ".join(str(t.get("quick")) for t in c.get("tests", []))
    t = " + ".join(str(t.get("thorough")) for t in c.get("tests", []))
    if c.get("fuzz"):
        t += " + %d fuzz targets x %d s" % (len(c["fuzz"]), c["fuzz"][0].get("seconds", 0))
    ev = {}
    p = os.path.join(ROOT, "evidence", pid + ".json")
    if os.path.exists(p):
        ev = json.load(open(p))
    cov = ev.get("coverage", {})
    qs = "%s / %s / %s s" % (cov.get("evaluations", "?"), cov.get("distinct_nontrivial", "?"), int(ev.get("wall_s", 0))) if ev.get("tier") == "quick" else "(evidence file is from a thorough run)"
    ts = "%d / %d / %d s" % (thor[pid][1], thor[pid][2], thor[pid][0]) if pid in thor else "–"
    rows.append("| %s | %s | %s | %s | %s | %s | %s |" % (pid, c.get("engine"), c.get("level"), q, qs, t, ts))
p = os.path.join(ROOT, "DESIGN.md")
s = open(p).read()
a, b = "<!-- bounds -->", "<!-- /bounds -->"
if a in s and b in s:
    i, j = s.index(a) + len(a), s.index(b)
    s = s[:i] + "\n" + "\n".join(rows) + "\n" + s[j:]
    open(p, "w").write(s)
