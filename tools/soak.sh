#!/bin/bash
# tools/soak.sh "<seeds>" [ids...]: run quick checks at several VERIF_SEED values (no evidence), report anything but silence
cd /verif
SEEDS=${1:-"2 3 4"}; shift
IDS=${@:-$(python3 -c "import json;print(' '.join(json.load(open('/verif/checks.json'))['properties'].keys()))")}
OUT=/verif/.work/soak.$(date +%s).txt; mkdir -p /verif/.work; : > $OUT
for s in $SEEDS; do for id in $IDS; do
  ( r=$(VERIF_SEED=$s ./check $id --tier quick --no-evidence 2>&1 | grep -E '^VIOLATION|^INCONCLUSIVE|^property=|^  ' | cut -c1-300 | tr '\n' '|'); echo "seed=$s $id $r" >> $OUT ) &
  while [ $(jobs -r | wc -l) -ge 4 ]; do sleep 1; done
done; done; wait
echo "== soak done: $(grep -c . $OUT) runs; alarms:"; grep -E 'VIOLATION|INCONCLUSIVE' $OUT | cut -c1-400
echo "(full output in $OUT)"
