package pure

// C17 — "Values survive the journey unchanged" (pure, function-level half).
//
// For a generated client value (gNMI TypedValue) and the model's type options:
//
//	(a) GnmiTypedValueToNativeType -> [store encoding round trip] -> NativeTypeToGnmiTypedValue is the identity (v2 and v3);
//	(b) PathValuesToGnmiChange puts the same value at the same path into the southbound SetRequest;
//	(c) tree.BuildTree renders the JSON type and digits that an independent RFC 7951 encoder
//	    (c17CheckJSONElem below, written from the RFC, not from the code) predicts, and the JSON parses back to the value.
//
// Stated float tolerance: a scalar float in RFC 7951 mode is rendered by onos-api with
// fmt.Sprintf("%f", float32) = exactly six digits after the decimal point, hence
// |parsed - v| <= 5e-7 ABSOLUTE for every finite float32, whatever its magnitude; leaf-list
// floats and non-RFC floats are JSON numbers in shortest float32 form and must parse back exactly.
// Losing the float32 identity through %f (relative error unbounded below 5e-7) is finding
// F-apival-float-format.

import (
	"bytes"
	"encoding/base64"
	"encoding/json"
	"fmt"
	"math"
	"math/big"
	"regexp"
	"strconv"
	"strings"
	"testing"
	"unicode/utf8"

	adminapi "github.com/onosproject/onos-api/go/onos/config/admin"
	configv2 "github.com/onosproject/onos-api/go/onos/config/v2"
	configv3 "github.com/onosproject/onos-api/go/onos/config/v3"
	treev2 "github.com/onosproject/onos-config/pkg/utils/v2/tree"
	valuesv2 "github.com/onosproject/onos-config/pkg/utils/v2/values"
	treev3 "github.com/onosproject/onos-config/pkg/utils/v3/tree"
	valuesv3 "github.com/onosproject/onos-config/pkg/utils/v3/values"
	gpb "github.com/openconfig/gnmi/proto/gnmi"
	"pgregory.net/rapid"

	"verif/harness/vstat"
)

// ---- entropy source shared by the rapid generators and the native fuzz targets ----

type c17Src interface {
	Intn(n int, label string) int // in [0,n); small values are "simple"
	U64(label string) uint64
}

type c17RapidSrc struct{ t *rapid.T }

func (r c17RapidSrc) Intn(n int, label string) int {
	if n <= 1 {
		return 0
	}
	return rapid.IntRange(0, n-1).Draw(r.t, label)
}
func (r c17RapidSrc) U64(label string) uint64 { return rapid.Uint64().Draw(r.t, label) }

// c17ByteSrc decodes fuzz bytes into choices; an exhausted input yields zeros (the simplest choice).
type c17ByteSrc struct {
	b   []byte
	pos int
}

func (s *c17ByteSrc) next() uint64 {
	if s.pos >= len(s.b) {
		return 0
	}
	v := s.b[s.pos]
	s.pos++
	return uint64(v)
}
func (s *c17ByteSrc) Intn(n int, _ string) int {
	if n <= 1 {
		return 0
	}
	v := s.next()
	if n > 256 {
		v = v<<8 | s.next()
	}
	return int(v % uint64(n))
}
func (s *c17ByteSrc) U64(_ string) uint64 {
	var v uint64
	for i := 0; i < 8; i++ {
		v = v<<8 | s.next()
	}
	return v
}

// c17Rep is the part of *vstat.Ctx the oracles need (a no-op implementation serves the fuzz targets).
type c17Rep interface {
	Class(string)
	NonTrivial(string)
	Known(id, what string)
	Excluded(id string)
	Logf(format string, args ...any)
}

type c17NopRep struct{}

func (c17NopRep) Class(string)        {}
func (c17NopRep) NonTrivial(string)   {}
func (c17NopRep) Known(_, _ string)   {}
func (c17NopRep) Excluded(string)     {}
func (c17NopRep) Logf(string, ...any) {}

// ---- the case -----------------------------------------------------------------------

// c17Val is the client's value: a scalar (one element) or a homogeneous leaf-list (1..8 elements).
type c17Val struct {
	Kind     string `json:"kind"` // string ascii int uint bool bytes decimal float
	List     bool   `json:"list,omitempty"`
	Width    int    `json:"width,omitempty"`    // int/uint: 8 16 32 64
	Prec     int    `json:"prec,omitempty"`     // decimal: 0..18
	NoOpts   bool   `json:"noOpts,omitempty"`   // the model path carries no TypeOpts (ints <= 32 bit, decimals)
	NilModel bool   `json:"nilModel,omitempty"` // with NoOpts: a nil model path instead of an empty one
	// ModelPrec > 0: the model reports this many fraction digits for the path although the client sends Prec
	// (the value the client sent is what must be stored either way)
	ModelPrec int      `json:"modelPrec,omitempty"`
	NilBytes  bool     `json:"nilBytes,omitempty"` // scalar empty bytes held as nil instead of []byte{}
	S         []string `json:"s,omitempty"`
	I         []int64  `json:"i,omitempty"`
	U         []uint64 `json:"u,omitempty"`
	B         []bool   `json:"b,omitempty"`
	Y         [][]byte `json:"y,omitempty"`
	F         []uint32 `json:"f,omitempty"` // float32 bit patterns (never NaN)
}

type c17Item struct {
	Path    string `json:"path"`
	Deleted bool   `json:"deleted,omitempty"`
	Val     c17Val `json:"val"`
}

type c17Case struct {
	Ver      int       `json:"ver"`      // 2 | 3
	RFC      bool      `json:"rfc"`      // jsonRFC7951 argument of BuildTree (every caller in /repo passes true)
	ViaStore bool      `json:"viaStore"` // pass the native value through its protobuf encoding (what the stores do)
	Items    []c17Item `json:"items"`
}

func (v c17Val) n() int {
	switch v.Kind {
	case "string", "ascii":
		return len(v.S)
	case "int", "decimal":
		return len(v.I)
	case "uint":
		return len(v.U)
	case "bool":
		return len(v.B)
	case "bytes":
		return len(v.Y)
	case "float":
		return len(v.F)
	}
	return 0
}

func (v c17Val) valid() bool {
	n := v.n()
	if n < 1 || n > 8 || (!v.List && n != 1) {
		return false
	}
	switch v.Kind {
	case "string", "ascii":
		for _, s := range v.S {
			if !utf8.ValidString(s) { // protobuf strings are UTF-8
				return false
			}
		}
	case "int":
		if v.Width != 8 && v.Width != 16 && v.Width != 32 && v.Width != 64 {
			return false
		}
		for _, i := range v.I {
			if v.Width < 64 && (i < -(1<<(v.Width-1)) || i > (1<<(v.Width-1))-1) {
				return false
			}
		}
	case "uint":
		if v.Width != 8 && v.Width != 16 && v.Width != 32 && v.Width != 64 {
			return false
		}
		for _, u := range v.U {
			if v.Width < 64 && u > (1<<v.Width)-1 {
				return false
			}
		}
	case "decimal":
		if v.Prec < 0 || v.Prec > 18 {
			return false
		}
	case "float":
		for _, f := range v.F {
			if f&0x7f800000 == 0x7f800000 && f&0x007fffff != 0 { // NaN: big.NewFloat panics (a C12 matter)
				return false
			}
		}
	case "bool", "bytes":
	default:
		return false
	}
	if v.NoOpts && (v.Kind == "int" || v.Kind == "uint") && v.Width > 32 {
		return false // a 64-bit leaf always has its width in the model
	}
	return true
}

func (v c17Val) hasInf() bool {
	for _, f := range v.F {
		if v.Kind == "float" && f&0x7fffffff == 0x7f800000 {
			return true
		}
	}
	return false
}

// opts is what the model plugin reports for the path: [width] for integers, [fraction-digits] for decimal64.
func (v c17Val) opts() []uint64 {
	if v.NoOpts {
		return nil
	}
	switch v.Kind {
	case "int", "uint":
		return []uint64{uint64(v.Width)}
	case "decimal":
		if v.ModelPrec > 0 {
			return []uint64{uint64(v.ModelPrec)}
		}
		return []uint64{uint64(v.Prec)}
	}
	return nil
}

// effWidth is the width the stored value must carry (no model options => the documented default 32).
func (v c17Val) effWidth() int {
	if v.NoOpts {
		return 32
	}
	return v.Width
}

func (v c17Val) bytesAt(i int) []byte {
	b := v.Y[i]
	if len(b) == 0 {
		if v.NilBytes && !v.List {
			return nil
		}
		return []byte{}
	}
	return b
}

func (v c17Val) gnmiElem(i int) *gpb.TypedValue {
	switch v.Kind {
	case "string":
		return &gpb.TypedValue{Value: &gpb.TypedValue_StringVal{StringVal: v.S[i]}}
	case "ascii":
		return &gpb.TypedValue{Value: &gpb.TypedValue_AsciiVal{AsciiVal: v.S[i]}}
	case "int":
		return &gpb.TypedValue{Value: &gpb.TypedValue_IntVal{IntVal: v.I[i]}}
	case "uint":
		return &gpb.TypedValue{Value: &gpb.TypedValue_UintVal{UintVal: v.U[i]}}
	case "bool":
		return &gpb.TypedValue{Value: &gpb.TypedValue_BoolVal{BoolVal: v.B[i]}}
	case "bytes":
		return &gpb.TypedValue{Value: &gpb.TypedValue_BytesVal{BytesVal: v.bytesAt(i)}}
	case "decimal":
		//nolint:staticcheck // the deprecated Decimal64 is what onos-config supports
		return &gpb.TypedValue{Value: &gpb.TypedValue_DecimalVal{DecimalVal: &gpb.Decimal64{Digits: v.I[i], Precision: uint32(v.Prec)}}}
	case "float":
		//nolint:staticcheck
		return &gpb.TypedValue{Value: &gpb.TypedValue_FloatVal{FloatVal: math.Float32frombits(v.F[i])}}
	}
	return nil
}

func (v c17Val) gnmi() *gpb.TypedValue {
	if !v.List {
		return v.gnmiElem(0)
	}
	arr := &gpb.ScalarArray{}
	for i := 0; i < v.n(); i++ {
		arr.Element = append(arr.Element, v.gnmiElem(i))
	}
	return &gpb.TypedValue{Value: &gpb.TypedValue_LeaflistVal{LeaflistVal: arr}}
}

func (v c17Val) String() string {
	var parts []string
	for i := 0; i < v.n(); i++ {
		switch v.Kind {
		case "string", "ascii":
			parts = append(parts, strconv.Quote(v.S[i]))
		case "int":
			parts = append(parts, strconv.FormatInt(v.I[i], 10))
		case "uint":
			parts = append(parts, strconv.FormatUint(v.U[i], 10))
		case "bool":
			parts = append(parts, strconv.FormatBool(v.B[i]))
		case "bytes":
			parts = append(parts, fmt.Sprintf("%x", v.Y[i]))
		case "decimal":
			parts = append(parts, fmt.Sprintf("%de-%d", v.I[i], v.Prec))
		case "float":
			parts = append(parts, fmt.Sprintf("%g(0x%08x)", math.Float32frombits(v.F[i]), v.F[i]))
		}
	}
	k := v.Kind
	if v.Kind == "int" || v.Kind == "uint" {
		k += strconv.Itoa(v.Width)
	}
	if v.NoOpts {
		k += "(no-model-opts)"
	}
	if v.List {
		return k + "[" + strings.Join(parts, ",") + "]"
	}
	return k + ":" + parts[0]
}

// ---- finding triggers (pure predicates of the input) -----------------------------------

const (
	c17FSep       = "F-apival-leaflist-sep"
	c17FBytesList = "F-apival-leaflist-bytes-empty"
	c17FDecSign   = "F-apival-decimal-sign"
	c17FFloatFmt  = "F-apival-float-format"
	c17FDecList   = "F-tree-leaflist-decimal-number"
	c17FNullBytes = "F-tree-empty-bytes-null"
)

// onos-api joins and splits string leaf-lists on byte 0x1D.
func (v c17Val) trigSep() bool {
	if !v.List || (v.Kind != "string" && v.Kind != "ascii") {
		return false
	}
	for _, s := range v.S {
		if strings.IndexByte(s, 0x1D) >= 0 {
			return true
		}
	}
	return false
}

// onos-api TypedLeafListBytes.List() closes at most one element per byte: an empty element at index >= 1 vanishes.
func (v c17Val) trigBytesList() bool {
	if !v.List || v.Kind != "bytes" {
		return false
	}
	for i := 1; i < len(v.Y); i++ {
		if len(v.Y[i]) == 0 {
			return true
		}
	}
	return false
}

// c17BytesListAsDecoded models the listed defect: onos-api stores the concatenated bytes plus the entry
// lengths, and its decoder closes at most one entry per byte, so after an empty entry at index >= 1 the
// boundaries slip (entries vanish or merge).
func c17BytesListAsDecoded(ys [][]byte) [][]byte {
	var all []byte
	for _, y := range ys {
		all = append(all, y...)
	}
	out := [][]byte{}
	buf := []byte{}
	idx, startAt := 0, 0
	for i, b := range all {
		if n := len(ys[idx]); i-startAt == n {
			out = append(out, buf)
			buf = []byte{}
			idx++
			startAt += n
		}
		buf = append(buf, b)
	}
	return append(out, buf)
}

func c17Pow10(p int) *big.Int {
	return new(big.Int).Exp(big.NewInt(10), big.NewInt(int64(p)), nil)
}

// onos-api strDecimal64 prints the integer part with %d: for -1 < x < 0 the part is 0 and the sign is lost.
func c17TrigDecSign(digits int64, prec int) bool {
	if digits >= 0 || prec == 0 {
		return false
	}
	return new(big.Int).Neg(big.NewInt(digits)).Cmp(c17Pow10(prec)) < 0
}

// %f keeps six decimals: the float32 is not recoverable from its rendering.
func c17TrigFloatFmt(f float32) bool {
	s := strconv.FormatFloat(float64(f), 'f', 6, 32)
	p, err := strconv.ParseFloat(s, 64)
	return err != nil || float32(p) != f
}

// ---- independent RFC 7951 expectations ---------------------------------------------------

var c17DecLex = regexp.MustCompile(`^-?[0-9]+(\.[0-9]+)?$`) // RFC 7950 §9.3.1 lexical representation

// c17DecEqual: does the decimal text s denote exactly digits * 10^-prec ?
func c17DecEqual(s string, digits int64, prec int) bool {
	if !c17DecLex.MatchString(s) {
		return false
	}
	frac := 0
	if i := strings.IndexByte(s, '.'); i >= 0 {
		frac = len(s) - i - 1
		s = s[:i] + s[i+1:]
	}
	got, ok := new(big.Int).SetString(s, 10)
	if !ok {
		return false
	}
	// got * 10^-frac == digits * 10^-prec  <=>  got * 10^prec == digits * 10^frac
	l := new(big.Int).Mul(got, c17Pow10(prec))
	r := new(big.Int).Mul(big.NewInt(digits), c17Pow10(frac))
	return l.Cmp(r) == 0
}

func c17DecFloat(digits int64, prec int) float64 {
	f, _ := new(big.Rat).SetFrac(big.NewInt(digits), c17Pow10(prec)).Float64()
	return f
}

func c17Close(a, b float64, ulps float64) bool {
	if a == b {
		return true
	}
	d := math.Abs(a - b)
	return d <= ulps*math.Abs(b)*0x1p-52
}

func c17Digits(jv any) (string, bool) {
	n, ok := jv.(json.Number)
	return n.String(), ok
}

// c17CheckJSONElem compares one rendered JSON value (decoded with UseNumber) with what RFC 7951
// prescribes for element i of v. prop is the property id used for known-finding lookups.
func c17CheckJSONElem(prop string, v c17Val, i int, jv any, rfc bool, rep c17Rep) error {
	wantNumber := func(digits string) error {
		got, ok := c17Digits(jv)
		if !ok {
			return fmt.Errorf("rendered as %T %v, want the JSON number %s", jv, jv, digits)
		}
		if got != digits {
			return fmt.Errorf("rendered as number %s, want %s", got, digits)
		}
		return nil
	}
	wantString := func(s string) error {
		got, ok := jv.(string)
		if !ok {
			return fmt.Errorf("rendered as %T %v, want the JSON string %q", jv, jv, s)
		}
		if got != s {
			return fmt.Errorf("rendered as string %q, want %q", got, s)
		}
		return nil
	}
	switch v.Kind {
	case "string", "ascii":
		return wantString(v.S[i])
	case "int":
		d := strconv.FormatInt(v.I[i], 10)
		if rfc && v.effWidth() > 32 {
			return wantString(d) // RFC 7951 §6.1: int64 is a string of decimal digits
		}
		return wantNumber(d)
	case "uint":
		d := strconv.FormatUint(v.U[i], 10)
		if rfc && v.effWidth() > 32 {
			return wantString(d)
		}
		return wantNumber(d)
	case "bool":
		got, ok := jv.(bool)
		if !ok || got != v.B[i] {
			return fmt.Errorf("rendered as %T %v, want the JSON boolean %v", jv, jv, v.B[i])
		}
		return nil
	case "bytes":
		err := wantString(base64.StdEncoding.EncodeToString(v.Y[i])) // RFC 7951 §6.6
		if err != nil && !v.List && len(v.Y[i]) == 0 && jv == nil && vstat.IsKnown(prop, c17FNullBytes) {
			rep.Known(c17FNullBytes, "an empty binary leaf (nil byte slice, as read back from the store) is rendered as JSON null instead of \"\"")
			return nil
		}
		return err
	case "decimal":
		digits := v.I[i]
		if !rfc {
			// not RFC 7951: a JSON number as close as float64 gets
			got, ok := c17Digits(jv)
			f, perr := strconv.ParseFloat(got, 64)
			if !ok || perr != nil {
				return fmt.Errorf("rendered as %T %v, want a JSON number", jv, jv)
			}
			want := c17DecFloat(digits, v.Prec)
			if c17Close(f, want, 8) {
				return nil
			}
			if !v.List && c17TrigDecSign(digits, v.Prec) && c17Close(f, -want, 8) && vstat.IsKnown(prop, c17FDecSign) {
				rep.Known(c17FDecSign, "decimal64 with -1 < x < 0 loses its sign in TypedDecimal.String()/Float()")
				return nil
			}
			return fmt.Errorf("rendered as number %s, want about %v", got, want)
		}
		// RFC 7951 §6.1: decimal64 is a string holding the decimal digits
		got, ok := jv.(string)
		if ok && c17DecEqual(got, digits, v.Prec) {
			return nil
		}
		strict := fmt.Errorf("rendered as %T %v, want a JSON string denoting exactly %d * 10^-%d", jv, jv, digits, v.Prec)
		if v.List {
			if num, isNum := c17Digits(jv); isNum && vstat.IsKnown(prop, c17FDecList) {
				f, perr := strconv.ParseFloat(num, 64)
				if perr == nil && c17Close(f, c17DecFloat(digits, v.Prec), 8) {
					rep.Known(c17FDecList, "decimal64 leaf-list entries are rendered as float64 JSON numbers instead of RFC 7951 strings (digits beyond 2^53 are lost)")
					return nil
				}
			}
			return strict
		}
		if ok && c17TrigDecSign(digits, v.Prec) && digits != math.MinInt64 && c17DecEqual(got, -digits, v.Prec) && vstat.IsKnown(prop, c17FDecSign) {
			rep.Known(c17FDecSign, "decimal64 with -1 < x < 0 loses its sign in TypedDecimal.String()/Float()")
			return nil
		}
		return strict
	case "float":
		f := math.Float32frombits(v.F[i])
		var text string
		switch t := jv.(type) {
		case string: // YANG has no float: the repo renders scalar floats like decimal64, as a string of digits
			text = t
		case json.Number:
			text = t.String()
		default:
			return fmt.Errorf("rendered as %T %v, want the digits of %v", jv, jv, f)
		}
		p, err := strconv.ParseFloat(text, 64)
		if err != nil {
			return fmt.Errorf("rendered as %q, which is not a number", text)
		}
		if float32(p) == f {
			return nil // the digits identify the float32 (shortest-form JSON numbers land here)
		}
		if math.Abs(p-float64(f)) > 5e-7+math.Abs(p)*0x1p-50 { // exact ties (-1.9296875 -> "-1.929688") sit on the bound: allow the parse rounding
			return fmt.Errorf("rendered as %q = %v, which is neither the float32 %v nor within 5e-7 of it", text, p, f)
		}
		if c17TrigFloatFmt(f) && !v.List && rfc && vstat.IsKnown(prop, c17FFloatFmt) {
			rep.Known(c17FFloatFmt, "scalar floats are rendered with %f (six decimals): the float32 cannot be recovered, small magnitudes collapse to 0.000000")
			return nil
		}
		return fmt.Errorf("rendered as %q, which parses to the float32 %v, not %v", text, float32(p), f)
	}
	return fmt.Errorf("harness: unknown kind %q", v.Kind)
}

// c17CheckJSON checks a leaf or leaf-list node of the document.
func c17CheckJSON(prop string, v c17Val, jv any, rfc bool, rep c17Rep) error {
	if !v.List {
		return c17CheckJSONElem(prop, v, 0, jv, rfc, rep)
	}
	arr, ok := jv.([]any)
	if !ok {
		return fmt.Errorf("leaf-list rendered as %T %v, want a JSON array", jv, jv)
	}
	if len(arr) != v.n() {
		return fmt.Errorf("leaf-list of %d entries rendered with %d entries: %v", v.n(), len(arr), arr)
	}
	for i := range arr {
		if err := c17CheckJSONElem(prop, v, i, arr[i], rfc, rep); err != nil {
			return fmt.Errorf("entry %d: %v", i, err)
		}
	}
	return nil
}

// ---- comparison of gNMI values -----------------------------------------------------------

func c17SameScalar(want, got *gpb.TypedValue) bool {
	switch w := want.GetValue().(type) {
	case *gpb.TypedValue_StringVal:
		g, ok := got.GetValue().(*gpb.TypedValue_StringVal)
		return ok && g.StringVal == w.StringVal
	case *gpb.TypedValue_AsciiVal: // stored as a string: same text is the same value
		g, ok := got.GetValue().(*gpb.TypedValue_StringVal)
		return ok && g.StringVal == w.AsciiVal
	case *gpb.TypedValue_IntVal:
		g, ok := got.GetValue().(*gpb.TypedValue_IntVal)
		return ok && g.IntVal == w.IntVal
	case *gpb.TypedValue_UintVal:
		g, ok := got.GetValue().(*gpb.TypedValue_UintVal)
		return ok && g.UintVal == w.UintVal
	case *gpb.TypedValue_BoolVal:
		g, ok := got.GetValue().(*gpb.TypedValue_BoolVal)
		return ok && g.BoolVal == w.BoolVal
	case *gpb.TypedValue_BytesVal:
		g, ok := got.GetValue().(*gpb.TypedValue_BytesVal)
		return ok && bytes.Equal(g.BytesVal, w.BytesVal)
	case *gpb.TypedValue_DecimalVal:
		g, ok := got.GetValue().(*gpb.TypedValue_DecimalVal)
		//nolint:staticcheck
		return ok && g.DecimalVal != nil && g.DecimalVal.Digits == w.DecimalVal.Digits && g.DecimalVal.Precision == w.DecimalVal.Precision
	case *gpb.TypedValue_FloatVal:
		g, ok := got.GetValue().(*gpb.TypedValue_FloatVal)
		//nolint:staticcheck
		return ok && math.Float32bits(g.FloatVal) == math.Float32bits(w.FloatVal)
	}
	return false
}

func c17SameGnmi(want, got *gpb.TypedValue) bool {
	if got == nil {
		return false
	}
	if wl, ok := want.GetValue().(*gpb.TypedValue_LeaflistVal); ok {
		gl, ok := got.GetValue().(*gpb.TypedValue_LeaflistVal)
		if !ok || gl.LeaflistVal == nil || len(gl.LeaflistVal.Element) != len(wl.LeaflistVal.Element) {
			return false
		}
		for i := range wl.LeaflistVal.Element {
			if !c17SameScalar(wl.LeaflistVal.Element[i], gl.LeaflistVal.Element[i]) {
				return false
			}
		}
		return true
	}
	return c17SameScalar(want, got)
}

// ---- the two implementations under test behind one face -----------------------------------

type c17PV struct {
	Path    string
	TV      any // *configv2.TypedValue | *configv3.TypedValue | nil (tombstone without value)
	Deleted bool
}

type c18PD struct {
	Path    string
	Deleted bool
}

type c17Ops struct {
	g2n      func(g *gpb.TypedValue, opts []uint64, nilModel bool) (any, error)
	n2g      func(tv any) (*gpb.TypedValue, error)
	store    func(tv any) (any, error)
	head     func(tv any) (typ int32, opts []int32)
	build    func(pvs []c17PV, rfc bool) ([]byte, error)
	change   func(pvs []c17PV, target string) (*gpb.SetRequest, error)
	prune    func(pvs []c17PV, leaveTop bool) []c18PD
	pruneMap func(pvs []c17PV, leaveTop bool) []c18PD
	mk       func(v c17Val) any
}

func c17ToV2(pvs []c17PV) []*configv2.PathValue {
	out := make([]*configv2.PathValue, 0, len(pvs))
	for _, pv := range pvs {
		o := &configv2.PathValue{Path: pv.Path, Deleted: pv.Deleted}
		if tv, ok := pv.TV.(*configv2.TypedValue); ok && tv != nil {
			o.Value = *tv
		}
		out = append(out, o)
	}
	return out
}

func c17ToV3(pvs []c17PV) []configv3.PathValue {
	out := make([]configv3.PathValue, 0, len(pvs))
	for _, pv := range pvs {
		o := configv3.PathValue{Path: pv.Path, Deleted: pv.Deleted}
		if tv, ok := pv.TV.(*configv3.TypedValue); ok && tv != nil {
			o.Value = *tv
		}
		out = append(out, o)
	}
	return out
}

var c17OpsV2 = c17Ops{
	g2n: func(g *gpb.TypedValue, opts []uint64, nilModel bool) (any, error) {
		var mp *adminapi.ReadWritePath
		if !nilModel {
			mp = &adminapi.ReadWritePath{Path: "/model/path", TypeOpts: opts}
		}
		return valuesv2.GnmiTypedValueToNativeType(g, mp)
	},
	n2g: func(tv any) (*gpb.TypedValue, error) {
		return valuesv2.NativeTypeToGnmiTypedValue(tv.(*configv2.TypedValue))
	},
	store: func(tv any) (any, error) {
		b, err := tv.(*configv2.TypedValue).Marshal()
		if err != nil {
			return nil, err
		}
		out := &configv2.TypedValue{}
		return out, out.Unmarshal(b)
	},
	head: func(tv any) (int32, []int32) {
		t := tv.(*configv2.TypedValue)
		return int32(t.Type), t.TypeOpts
	},
	build: func(pvs []c17PV, rfc bool) ([]byte, error) { return treev2.BuildTree(c17ToV2(pvs), rfc) },
	change: func(pvs []c17PV, target string) (*gpb.SetRequest, error) {
		return valuesv2.PathValuesToGnmiChange(c17ToV2(pvs), configv2.TargetID(target))
	},
	prune: func(pvs []c17PV, leaveTop bool) []c18PD {
		var out []c18PD
		for _, pv := range treev2.PrunePathValues(c17ToV2(pvs), leaveTop) {
			out = append(out, c18PD{pv.Path, pv.Deleted})
		}
		return out
	},
	pruneMap: func(pvs []c17PV, leaveTop bool) []c18PD {
		m := map[string]*configv2.PathValue{}
		for _, pv := range c17ToV2(pvs) {
			m[pv.Path] = pv
		}
		var out []c18PD
		for k, pv := range treev2.PrunePathMap(m, leaveTop) {
			if k != pv.Path {
				out = append(out, c18PD{"map key " + k + " holds path " + pv.Path, pv.Deleted})
				continue
			}
			out = append(out, c18PD{pv.Path, pv.Deleted})
		}
		return out
	},
	mk: func(v c17Val) any {
		switch {
		case v.Kind == "string" && !v.List:
			return configv2.NewTypedValueString(v.S[0])
		case v.Kind == "string":
			return configv2.NewLeafListStringTv(v.S)
		case v.Kind == "int" && !v.List:
			return configv2.NewTypedValueInt(int(v.I[0]), configv2.Width(v.Width))
		case v.Kind == "int":
			return configv2.NewLeafListIntTv(v.I, configv2.Width(v.Width))
		case v.Kind == "uint" && !v.List:
			return configv2.NewTypedValueUint(uint(v.U[0]), configv2.Width(v.Width))
		case v.Kind == "uint":
			return configv2.NewLeafListUintTv(v.U, configv2.Width(v.Width))
		case v.Kind == "bool" && !v.List:
			return configv2.NewTypedValueBool(v.B[0])
		case v.Kind == "bool":
			return configv2.NewLeafListBoolTv(v.B)
		case v.Kind == "bytes" && !v.List:
			return configv2.NewTypedValueBytes(v.bytesAt(0))
		case v.Kind == "bytes":
			return configv2.NewLeafListBytesTv(v.Y)
		case v.Kind == "decimal" && !v.List:
			return configv2.NewTypedValueDecimal(v.I[0], uint8(v.Prec))
		case v.Kind == "decimal":
			return configv2.NewLeafListDecimalTv(v.I, uint8(v.Prec))
		}
		return nil
	},
}

var c17OpsV3 = c17Ops{
	g2n: func(g *gpb.TypedValue, opts []uint64, nilModel bool) (any, error) {
		var mp *configv3.ReadWritePath
		if !nilModel {
			mp = &configv3.ReadWritePath{Path: "/model/path", TypeOpts: opts}
		}
		return valuesv3.GnmiTypedValueToNativeType(g, mp)
	},
	n2g: func(tv any) (*gpb.TypedValue, error) {
		return valuesv3.NativeTypeToGnmiTypedValue(tv.(*configv3.TypedValue))
	},
	store: func(tv any) (any, error) {
		b, err := tv.(*configv3.TypedValue).Marshal()
		if err != nil {
			return nil, err
		}
		out := &configv3.TypedValue{}
		return out, out.Unmarshal(b)
	},
	head: func(tv any) (int32, []int32) {
		t := tv.(*configv3.TypedValue)
		return int32(t.Type), t.TypeOpts
	},
	build: func(pvs []c17PV, rfc bool) ([]byte, error) { return treev3.BuildTree(c17ToV3(pvs), rfc) },
	change: func(pvs []c17PV, target string) (*gpb.SetRequest, error) {
		return valuesv3.PathValuesToGnmiChange(c17ToV3(pvs), configv3.TargetID(target))
	},
	prune: func(pvs []c17PV, leaveTop bool) []c18PD {
		var out []c18PD
		for _, pv := range treev3.PrunePathValues(c17ToV3(pvs), leaveTop) {
			out = append(out, c18PD{pv.Path, pv.Deleted})
		}
		return out
	},
	pruneMap: func(pvs []c17PV, leaveTop bool) []c18PD {
		m := map[string]configv3.PathValue{}
		for _, pv := range c17ToV3(pvs) {
			m[pv.Path] = pv
		}
		var out []c18PD
		for k, pv := range treev3.PrunePathMap(m, leaveTop) {
			if k != pv.Path {
				out = append(out, c18PD{"map key " + k + " holds path " + pv.Path, pv.Deleted})
				continue
			}
			out = append(out, c18PD{pv.Path, pv.Deleted})
		}
		return out
	},
	mk: func(v c17Val) any {
		switch {
		case v.Kind == "string" && !v.List:
			return configv3.NewTypedValueString(v.S[0])
		case v.Kind == "string":
			return configv3.NewLeafListStringTv(v.S)
		case v.Kind == "int" && !v.List:
			return configv3.NewTypedValueInt(int(v.I[0]), configv3.Width(v.Width))
		case v.Kind == "int":
			return configv3.NewLeafListIntTv(v.I, configv3.Width(v.Width))
		case v.Kind == "uint" && !v.List:
			return configv3.NewTypedValueUint(uint(v.U[0]), configv3.Width(v.Width))
		case v.Kind == "uint":
			return configv3.NewLeafListUintTv(v.U, configv3.Width(v.Width))
		case v.Kind == "bool" && !v.List:
			return configv3.NewTypedValueBool(v.B[0])
		case v.Kind == "bool":
			return configv3.NewLeafListBoolTv(v.B)
		case v.Kind == "bytes" && !v.List:
			return configv3.NewTypedValueBytes(v.bytesAt(0))
		case v.Kind == "bytes":
			return configv3.NewLeafListBytesTv(v.Y)
		case v.Kind == "decimal" && !v.List:
			return configv3.NewTypedValueDecimal(v.I[0], uint8(v.Prec))
		case v.Kind == "decimal":
			return configv3.NewLeafListDecimalTv(v.I, uint8(v.Prec))
		}
		return nil
	},
}

func c17OpsFor(ver int) *c17Ops {
	if ver == 3 {
		return &c17OpsV3
	}
	return &c17OpsV2
}

// ---- generator --------------------------------------------------------------------------

var c17StringPalette = []string{
	"", "a", "hello world", "é", "日本語", "a\x00b", "\x1f", "tab\there", "line\nbreak", "\"q\\\"", "<&>", " ",
	"😀", "é", " lead", "trail ", "null", "true", "123", "-0", "1e5", "[1,2]", "{}", "\ufeff", "\x7f", "a,b", "\r\n",
}

var c17RunePalette = []rune{'a', 'b', 'Z', '0', ' ', '"', '\\', '/', '\n', '\t', 0, 0x1c, 0x1e, 0x1f, 0x7f, 0x80, 0xe9, 0x3b1,
	0x2028, 0x2029, 0xfeff, 0xfffd, 0x1f600, 0x10ffff, '<', '>', '&', ',', '[', ']', '{', '}', '=', 0x1d}

func c17GenString(s c17Src) string {
	if s.Intn(3, "strmode") < 2 {
		return c17StringPalette[s.Intn(len(c17StringPalette), "strpal")]
	}
	n := s.Intn(13, "strlen")
	var b strings.Builder
	for i := 0; i < n; i++ {
		b.WriteRune(c17RunePalette[s.Intn(len(c17RunePalette), "rune")])
	}
	return b.String()
}

var c17IntEdges = []int64{127, 128, -128, -129, 255, 256, 32767, 32768, -32768, -32769, 65535, 65536, 1<<31 - 1, 1 << 31, -(1 << 31), -(1 << 31) - 1,
	1<<32 - 1, 1 << 32, 1 << 53, 1<<53 + 1, -(1 << 53) - 1, 1e15, 1e18}

func c17GenInt(s c17Src, w int) int64 {
	min, max := int64(math.MinInt64), int64(math.MaxInt64)
	if w < 64 {
		min, max = -(1 << (w - 1)), (1<<(w-1))-1
	}
	switch s.Intn(10, "intpick") {
	case 0:
		return 0
	case 1:
		return -1
	case 2:
		return 1
	case 3:
		return min
	case 4:
		return max
	case 5:
		return min + 1
	case 6:
		return max - 1
	case 7:
		e := c17IntEdges[s.Intn(len(c17IntEdges), "intedge")]
		if e >= min && e <= max {
			return e
		}
		return max
	}
	r := int64(s.U64("intrand"))
	if w < 64 {
		r >>= uint(64 - w) // arithmetic shift keeps the sign and the range
	}
	return r
}

var c17UintEdges = []uint64{127, 128, 255, 256, 65535, 65536, 1<<31 - 1, 1 << 31, 1<<32 - 1, 1 << 32, 1 << 53, 1<<53 + 1, 1<<63 - 1, 1 << 63, 1<<63 + 1, 1e19}

func c17GenUint(s c17Src, w int) uint64 {
	max := uint64(math.MaxUint64)
	if w < 64 {
		max = 1<<w - 1
	}
	switch s.Intn(8, "uintpick") {
	case 0:
		return 0
	case 1:
		return 1
	case 2:
		return max
	case 3:
		return max - 1
	case 4, 5:
		e := c17UintEdges[s.Intn(len(c17UintEdges), "uintedge")]
		if e <= max {
			return e
		}
		return max
	}
	r := s.U64("uintrand")
	if w < 64 {
		r >>= uint(64 - w)
	}
	return r
}

func c17GenDigits(s c17Src, prec int) int64 {
	p10 := int64(1)
	for i := 0; i < prec; i++ {
		p10 *= 10
	}
	switch s.Intn(16, "decpick") {
	case 0:
		return 0
	case 1:
		return 1
	case 2:
		return -1
	case 3:
		return math.MaxInt64
	case 4:
		return math.MinInt64
	case 5:
		return p10
	case 6:
		return -p10
	case 7:
		return p10 - 1
	case 8:
		return -(p10 - 1)
	case 9:
		return -p10 - 1
	case 10:
		return -5
	case 11:
		return 1<<53 + 1
	case 12:
		return int64(s.U64("decrand")) >> 40 // small magnitude
	case 13:
		return -(int64(s.U64("decrand")>>1) % (p10 + 1)) // inside (-1,0] when prec > 0
	}
	return int64(s.U64("decrand"))
}

var c17FloatPalette = []uint32{0, 0x3f800000, 0xbf800000, 0x3fc00000, 0x3dcccccd, 0x80000000, 0x7f7fffff, 0xff7fffff, 1, 0x00800000, 0x4b800000,
	0x4b800001, 0x33d6bf95, 0x47f12065, 0x3eaaaaab, 0x42f6e979, 0x7f800000, 0xff800000, 0x358637bd, 0xb58637bd, 0xbff70000}

func c17GenFloat(s c17Src) uint32 {
	if s.Intn(3, "fmode") < 2 {
		return c17FloatPalette[s.Intn(len(c17FloatPalette), "fpal")]
	}
	f := uint32(s.U64("frand"))
	if f&0x7f800000 == 0x7f800000 && f&0x007fffff != 0 {
		f &^= 0x40000000 // NaN -> a finite number with the same mantissa
	}
	return f
}

func c17GenBytes(s c17Src, allowEmpty bool) []byte {
	n := []int{0, 1, 2, 3, 16, 5, 8, 12}[s.Intn(8, "blen")]
	if n == 0 && !allowEmpty {
		n = 1
	}
	out := make([]byte, 0, n)
	for len(out) < n {
		r := s.U64("bytes")
		for k := 0; k < 8 && len(out) < n; k++ {
			out = append(out, byte(r>>(8*uint(k))))
		}
	}
	return out
}

var c17Kinds = []string{"string", "int", "uint", "bool", "bytes", "decimal", "float", "ascii"}

func c17GenVal(s c17Src) c17Val {
	v := c17Val{Kind: c17Kinds[s.Intn(len(c17Kinds), "kind")]}
	n := 1
	if s.Intn(3, "list") == 0 {
		v.List = true
		n = 1 + s.Intn(8, "llen")
	}
	switch v.Kind {
	case "int", "uint":
		v.Width = []int{64, 32, 8, 16}[s.Intn(4, "width")]
		if v.Width <= 32 && s.Intn(5, "noopts") == 0 {
			v.NoOpts = true
			v.NilModel = s.Intn(2, "nilmodel") == 0
		}
	case "decimal":
		v.Prec = []int{1, 0, 18, 2, 3, 5, 6, 9, 12, 15, 17, 4, 7, 8, 10, 11, 13, 14, 16}[s.Intn(19, "prec")]
		if s.Intn(2, "noopts") == 0 {
			v.NoOpts = true
			v.NilModel = s.Intn(2, "nilmodel") == 0
		} else if s.Intn(3, "modelprec") == 0 {
			if mp := []int{3, 1, 18, 2, 6}[s.Intn(5, "modelprecval")]; mp != v.Prec {
				v.ModelPrec = mp
			}
		}
	}
	for i := 0; i < n; i++ {
		switch v.Kind {
		case "string", "ascii":
			v.S = append(v.S, c17GenString(s))
		case "int":
			v.I = append(v.I, c17GenInt(s, v.Width))
		case "uint":
			v.U = append(v.U, c17GenUint(s, v.Width))
		case "bool":
			v.B = append(v.B, s.Intn(2, "bool") == 1)
		case "bytes":
			allowEmpty := !v.List || i == 0 || s.Intn(8, "emptyelem") == 0
			v.Y = append(v.Y, c17GenBytes(s, allowEmpty))
		case "decimal":
			v.I = append(v.I, c17GenDigits(s, v.Prec))
		case "float":
			v.F = append(v.F, c17GenFloat(s))
		}
	}
	if v.Kind == "bytes" && !v.List && len(v.Y[0]) == 0 {
		v.NilBytes = s.Intn(2, "nilbytes") == 0
	}
	return v
}

// leaf paths of one consistent little schema: top-level leaf, container, single-key list (two entries),
// two-key list with a container below, a module-qualified name.
var c17Paths = []string{"/x", "/a/x", "/a/l[id=1]/x", "/a/l[id=1]/y", "/a/l[id=2]/x", "/c/m[k1=a][k2=2]/n/x", "/c/z", "/m:t/v", "/a/y"}

var c17Tombstones = []string{"/gone", "/a/l[id=3]", "/c/m[k1=a][k2=3]/n", "/zz/old"}

func c17GenCase(s c17Src) c17Case {
	c := c17Case{Ver: 2 + s.Intn(2, "ver"), RFC: s.Intn(6, "rfc") != 0, ViaStore: s.Intn(2, "store") == 0}
	n := []int{1, 1, 2, 3, 4}[s.Intn(5, "nitems")]
	start := s.Intn(len(c17Paths), "path0")
	for i := 0; i < n; i++ {
		c.Items = append(c.Items, c17Item{Path: c17Paths[(start+i*2)%len(c17Paths)], Val: c17GenVal(s)})
	}
	if s.Intn(4, "tomb") == 0 {
		c.Items = append(c.Items, c17Item{Path: c17Tombstones[s.Intn(len(c17Tombstones), "tombpath")], Deleted: true})
	}
	return c
}

func genC17Case(t *rapid.T) c17Case { return c17GenCase(c17RapidSrc{t}) }

// ---- oracle -----------------------------------------------------------------------------

func (v c17Val) classify(rep c17Rep) {
	k := v.Kind
	if v.Kind == "int" || v.Kind == "uint" {
		k += strconv.Itoa(v.Width)
	}
	if v.List {
		rep.Class("type:leaflist-" + k)
		rep.NonTrivial("leaf-list")
		if v.n() == 1 {
			rep.Class("leaflist:one-element")
		}
	} else {
		rep.Class("type:" + k)
	}
	if v.ModelPrec > 0 {
		rep.Class("model:fraction-digits-differ-from-the-client's")
	}
	if v.NoOpts {
		rep.Class("model:no-type-opts")
	}
	if (v.Kind == "int" || v.Kind == "uint") && v.Width == 64 {
		rep.NonTrivial("width 64")
	}
	if v.Kind == "decimal" {
		rep.NonTrivial("decimal64")
		rep.Class(fmt.Sprintf("decimal:precision-%02d", v.Prec))
	}
	for i := 0; i < v.n(); i++ {
		switch v.Kind {
		case "int":
			min, max := int64(math.MinInt64), int64(math.MaxInt64)
			if v.Width < 64 {
				min, max = -(1 << (v.Width - 1)), (1<<(v.Width-1))-1
			}
			if v.I[i] == min || v.I[i] == max {
				rep.NonTrivial("extreme value")
				rep.Class(fmt.Sprintf("extreme:int%d-min/max", v.Width))
			}
			if v.I[i] == 0 || v.I[i] == -1 {
				rep.Class("value:int-0/-1")
			}
		case "uint":
			max := uint64(math.MaxUint64)
			if v.Width < 64 {
				max = 1<<v.Width - 1
			}
			if v.U[i] == max {
				rep.NonTrivial("extreme value")
				rep.Class(fmt.Sprintf("extreme:uint%d-max", v.Width))
			}
		case "decimal":
			if v.I[i] == math.MinInt64 || v.I[i] == math.MaxInt64 {
				rep.NonTrivial("extreme value")
				rep.Class("extreme:decimal-digits-min/max")
			}
			if v.I[i] < 0 {
				rep.Class("decimal:negative-digits")
			}
		case "string", "ascii":
			if v.S[i] == "" {
				rep.NonTrivial("extreme value")
				rep.Class("extreme:empty-string")
			}
			for _, r := range v.S[i] {
				if r < 0x20 || r == 0x7f {
					rep.Class("string:control-character")
				}
				if r > 0x7f {
					rep.Class("string:non-ascii")
				}
			}
		case "bytes":
			if len(v.Y[i]) == 0 {
				rep.NonTrivial("extreme value")
				rep.Class("extreme:empty-bytes")
			}
		case "float":
			f := v.F[i] & 0x7fffffff
			if f == 0x7f7fffff || f == 1 || f == 0x7f800000 {
				rep.NonTrivial("extreme value")
				rep.Class("extreme:float-max/min-subnormal/inf")
			}
			if v.F[i] == 0x80000000 {
				rep.Class("float:negative-zero")
			}
		}
	}
}

// c17Check runs one case against the real code. It returns a plain error for a violated oracle.
func c17Check(c c17Case, rep c17Rep) error {
	const prop = "C17"
	ops := c17OpsFor(c.Ver)
	rep.Class(fmt.Sprintf("api:v%d", c.Ver))
	if c.RFC {
		rep.Class("json:rfc7951")
	} else {
		rep.Class("json:plain(not used by any caller)")
	}
	if c.ViaStore {
		rep.Class("journey:through-store-encoding")
	}
	if len(c.Items) > 1 {
		rep.Class("doc:several-values")
	}

	type live struct {
		item   c17Item
		g      *gpb.TypedValue
		skipJS bool
	}
	var pvs []c17PV
	var lives []live
	seen := map[string]bool{}
	for _, it := range c.Items {
		if seen[it.Path] {
			return vstat.ErrSkip
		}
		seen[it.Path] = true
		if it.Deleted {
			rep.Class("doc:with-tombstone")
			pvs = append(pvs, c17PV{Path: it.Path, Deleted: true})
			continue
		}
		v := it.Val
		if !v.valid() {
			return vstat.ErrSkip
		}
		v.classify(rep)
		g := v.gnmi()

		// (a) client value -> native (as set.go doUpdateOrReplace does with the model's ReadWritePath) -> back
		native, err := ops.g2n(g, v.opts(), v.NoOpts && v.NilModel)
		if err != nil || native == nil {
			return fmt.Errorf("%s: GnmiTypedValueToNativeType(%s) refused a supported value: %v", it.Path, v, err)
		}
		if c.ViaStore {
			if native, err = ops.store(native); err != nil {
				return fmt.Errorf("%s: protobuf encoding of the native value failed: %v", it.Path, err)
			}
		}
		back, err := ops.n2g(native)
		if err != nil {
			return fmt.Errorf("%s: NativeTypeToGnmiTypedValue failed for %s: %v", it.Path, v, err)
		}
		if !c17SameGnmi(g, back) {
			strict := fmt.Errorf("%s: round trip changed the value: set %s = %v, got back %v", it.Path, v, g, back)
			// A listed onos-api deviation must explain the difference exactly; the journey then goes on with
			// the value as stored (downstream stages have to carry THAT value faithfully).
			dev := v
			switch {
			case v.trigSep() && vstat.IsKnown(prop, c17FSep):
				dev.S = strings.Split(strings.Join(v.S, "\x1d"), "\x1d")
				if dev.Kind == "ascii" {
					dev.Kind = "string"
				}
				if !c17SameGnmi(dev.gnmi(), back) {
					return fmt.Errorf("%v (not explained by %s alone)", strict, c17FSep)
				}
				rep.Known(c17FSep, "a string leaf-list entry containing byte 0x1D is split in two (onos-api joins entries with 0x1D)")
			case v.trigBytesList() && vstat.IsKnown(prop, c17FBytesList):
				dev.Y = c17BytesListAsDecoded(v.Y)
				if !c17SameGnmi(dev.gnmi(), back) {
					return fmt.Errorf("%v (not explained by %s alone)", strict, c17FBytesList)
				}
				rep.Known(c17FBytesList, "a binary leaf-list with an empty entry at index >= 1 comes back with entries missing or merged (onos-api TypedLeafListBytes.List closes one entry per byte)")
			default:
				return strict
			}
			v, g = dev, dev.gnmi()
			it.Val = dev
		}
		// the stored value must carry the model's width / precision: the JSON rendering is driven by it
		_, topts := ops.head(native)
		switch v.Kind {
		case "int", "uint":
			if len(topts) == 0 || int(topts[0]) != v.effWidth() {
				return fmt.Errorf("%s: stored %s carries type options %v, want width %d first", it.Path, v, topts, v.effWidth())
			}
		case "decimal":
			if len(topts) == 0 || int(topts[0]) != v.Prec {
				return fmt.Errorf("%s: stored %s carries type options %v, want precision %d first", it.Path, v, topts, v.Prec)
			}
		}
		pvs = append(pvs, c17PV{Path: it.Path, TV: native})
		lives = append(lives, live{item: it, g: g, skipJS: v.hasInf()})
	}

	// (b) what is sent to the device
	req, err := ops.change(pvs, "target-1")
	if err != nil {
		return fmt.Errorf("PathValuesToGnmiChange failed: %v", err)
	}
	if req.GetPrefix().GetTarget() != "target-1" {
		return fmt.Errorf("SetRequest prefix target is %q, want target-1", req.GetPrefix().GetTarget())
	}
	if len(req.Replace) != 0 {
		return fmt.Errorf("SetRequest carries %d replaces, want none", len(req.Replace))
	}
	ui, di := 0, 0
	for _, pv := range pvs {
		elems, ok := c18Parse(pv.Path)
		if !ok {
			return fmt.Errorf("harness: path %q does not parse", pv.Path)
		}
		if pv.Deleted {
			if di >= len(req.Delete) || !c18SameGnmiPath(elems, req.Delete[di]) {
				return fmt.Errorf("SetRequest delete #%d is %v, want %s", di, req.Delete, pv.Path)
			}
			di++
			continue
		}
		if ui >= len(req.Update) {
			return fmt.Errorf("SetRequest carries %d updates, want one for %s", len(req.Update), pv.Path)
		}
		u := req.Update[ui]
		if !c18SameGnmiPath(elems, u.Path) {
			return fmt.Errorf("SetRequest update #%d has path %v, want %s", ui, u.Path, pv.Path)
		}
		if !c17SameGnmi(lives[ui].g, u.Val) {
			return fmt.Errorf("SetRequest update for %s carries %v, the client set %v", pv.Path, u.Val, lives[ui].g)
		}
		ui++
	}
	if ui != len(req.Update) || di != len(req.Delete) {
		return fmt.Errorf("SetRequest carries %d updates and %d deletes, want %d and %d", len(req.Update), len(req.Delete), ui, di)
	}

	// (c) the JSON document (Get in JSON encoding, and what the model plugin validates)
	for _, l := range lives {
		if l.skipJS {
			rep.Class("float:infinity(JSON not asserted)")
			return nil
		}
	}
	doc, err := ops.build(pvs, c.RFC)
	if err != nil {
		return fmt.Errorf("BuildTree failed: %v", err)
	}
	paths := make([]string, 0, len(pvs))
	for _, pv := range pvs {
		paths = append(paths, pv.Path)
	}
	schema, err := c18SchemaOf(paths)
	if err != nil {
		return fmt.Errorf("harness: %v", err)
	}
	flat, err := c18FlattenJSON(doc, schema)
	if err != nil {
		return fmt.Errorf("document %s: %v", doc, err)
	}
	for _, l := range lives {
		jv, ok := flat[l.item.Path]
		if !ok {
			return fmt.Errorf("document has no leaf %s: %s", l.item.Path, doc)
		}
		if err := c17CheckJSON(prop, l.item.Val, jv, c.RFC, rep); err != nil {
			return fmt.Errorf("%s = %s: %v", l.item.Path, l.item.Val, err)
		}
		delete(flat, l.item.Path)
	}
	// nothing else but the key leaves implied by the list entries
	for p, jv := range flat {
		if want, ok := c18ImpliedKey(p); !ok || jv != any(want) {
			return fmt.Errorf("document has an extra leaf %s = %v: %s", p, jv, doc)
		}
	}
	return nil
}

func runC17Case(c c17Case, x *vstat.Ctx) error {
	var sample []string
	for _, it := range c.Items {
		if it.Deleted {
			sample = append(sample, it.Path+" deleted")
		} else {
			sample = append(sample, it.Path+" = "+it.Val.String())
		}
	}
	x.Sample(map[string]any{"api": c.Ver, "rfc7951": c.RFC, "viaStore": c.ViaStore, "values": sample})
	err := c17Check(c, x)
	if err == nil || err == vstat.ErrSkip {
		return err
	}
	return vstat.Violf("%v", err)
}

// TestC17_ValueJourney: typed value -> native -> (store) -> typed value is the identity, the southbound
// SetRequest carries the value, and the JSON document shows the RFC 7951 type and digits (v2 and v3).
func TestC17_ValueJourney(t *testing.T) {
	vstat.Run(t, "C17", genC17Case, runC17Case)
}

// FuzzC17Value decodes the fuzz input into a c17Case through the same generator code (every input is a valid case).
func FuzzC17Value(f *testing.F) {
	for _, seed := range c17FuzzSeeds() {
		f.Add(seed)
	}
	f.Fuzz(func(t *testing.T, data []byte) {
		c := c17GenCase(&c17ByteSrc{b: data})
		if err := c17Check(c, c17NopRep{}); err != nil && err != vstat.ErrSkip {
			cj, _ := json.Marshal(c)
			t.Fatalf("%v\ncase: %s", err, cj)
		}
	})
}

// c17FuzzSeeds: a few deterministic pseudo-random choice tapes (= generator outputs) plus hostile constants.
func c17FuzzSeeds() [][]byte {
	seeds := [][]byte{
		{},
		bytes.Repeat([]byte{0xff}, 96),
		bytes.Repeat([]byte{0x00, 0xff}, 48),
		bytes.Repeat([]byte{0x80}, 96),
		// v2, rfc, via store, one item, kind decimal, list, ... MinInt64 digits
		{0, 1, 0, 0, 0, 5, 0, 7, 2, 1, 4, 4, 4, 4, 4, 4, 4, 4},
		// uint64 max / int64 min scalars
		{1, 1, 0, 0, 0, 2, 1, 0, 2},
		{0, 1, 1, 0, 0, 1, 1, 0, 3},
		// float, scalar, random bits
		{0, 1, 0, 0, 0, 6, 1, 2, 0x7f, 0x7f, 0xff, 0xff, 0x7f, 0x7f, 0xff, 0xff},
	}
	state := uint64(0x9e3779b97f4a7c15)
	for i := 0; i < 12; i++ {
		b := make([]byte, 64+i*8)
		for j := range b {
			state = state*6364136223846793005 + 1442695040888963407
			b[j] = byte(state >> 56)
		}
		seeds = append(seeds, b)
	}
	return seeds
}
