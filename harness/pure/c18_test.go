package pure

// C18 — "The JSON document is the configuration, no more and no less".
//
// A model-free set of path/values (containers, single- and multi-key lists, lists in lists, key
// values that are numeric / boolean / prefixes of each other, sibling names that are textual
// prefixes of each other, tombstones at any depth) is given to the real tree.BuildTree,
// PrunePathValues and PrunePathMap (v2 and v3). The oracle is written at path-ELEMENT level:
// its own path parser (c18Parse), its own "covers" relation, its own flattener of the JSON text.

import (
	"bytes"
	"encoding/json"
	"fmt"
	"sort"
	"strconv"
	"strings"
	"testing"

	gpb "github.com/openconfig/gnmi/proto/gnmi"
	"pgregory.net/rapid"

	"verif/harness/vstat"
)

const c18FPrune = "F-prune-textual-prefix"

// ---- element-aware paths ------------------------------------------------------------------

type c18KV struct{ K, V string }

type c18Elem struct {
	Name string
	Keys []c18KV // in textual order
}

func c18NameByte(c byte) bool {
	return c >= 'a' && c <= 'z' || c >= 'A' && c <= 'Z' || c >= '0' && c <= '9' || c == '_' || c == '-' || c == '.' || c == ':'
}

func c18KeyByte(c byte) bool { // what Set accepts in a key value (pathutils.IndexAllowedChars minus '*')
	return c >= 'a' && c <= 'z' || c >= 'A' && c <= 'Z' || c >= '0' && c <= '9' || c == '_' || c == '-' || c == '.'
}

// c18ValByte: what a STORED key value may hold. Updates with a scalar value are limited to c18KeyByte
// (CheckKeyValue), but deletes and JSON-valued updates only pass IsPathValid, which also admits ':' and '='
// inside a segment (base64 text, distinguished names, prefixed identities). Key NAMES are YANG identifiers,
// so a key group reads "[name=" up to the FIRST '=' and the value runs to the closing bracket.
func c18ValByte(c byte) bool { return c18KeyByte(c) || c == '=' || c == ':' || c == '/' || c == '[' }

// c18Parse splits a stored path into elements. It accepts exactly the canonical form the system
// stores (utils.StrPath): /name[k=v][k2=v2]/..., key names ascending, no escapes.
func c18Parse(p string) ([]c18Elem, bool) {
	var out []c18Elem
	i := 0
	for i < len(p) {
		if p[i] != '/' {
			return nil, false
		}
		i++
		st := i
		for i < len(p) && c18NameByte(p[i]) {
			i++
		}
		if i == st {
			return nil, false
		}
		e := c18Elem{Name: p[st:i]}
		for i < len(p) && p[i] == '[' {
			i++
			ks := i
			for i < len(p) && c18KeyByte(p[i]) {
				i++
			}
			if i == ks || i >= len(p) || p[i] != '=' {
				return nil, false
			}
			k := p[ks:i]
			i++
			vs := i
			for i < len(p) && c18ValByte(p[i]) {
				i++
			}
			if i == vs || i >= len(p) || p[i] != ']' {
				return nil, false
			}
			if n := len(e.Keys); n > 0 && e.Keys[n-1].K >= k {
				return nil, false
			}
			e.Keys = append(e.Keys, c18KV{k, p[vs:i]})
			i++
		}
		out = append(out, e)
	}
	return out, len(out) > 0
}

func (e c18Elem) String() string {
	var b strings.Builder
	b.WriteString(e.Name)
	for _, kv := range e.Keys {
		b.WriteString("[" + kv.K + "=" + kv.V + "]")
	}
	return b.String()
}

func c18Render(es []c18Elem) string {
	var b strings.Builder
	for _, e := range es {
		b.WriteByte('/')
		b.WriteString(e.String())
	}
	return b.String()
}

func c18SameElem(a, b c18Elem) bool {
	if a.Name != b.Name || len(a.Keys) != len(b.Keys) {
		return false
	}
	for i := range a.Keys {
		if a.Keys[i] != b.Keys[i] {
			return false
		}
	}
	return true
}

// c18Covers: deleting P deletes Q (Q != P). P's elements are a prefix of Q's; the last element of
// P may name a whole list (no keys) whose entries (same name, with keys) it then covers.
func c18Covers(p, q []c18Elem) bool {
	if len(p) == 0 || len(p) > len(q) {
		return false
	}
	for i := 0; i < len(p)-1; i++ {
		if !c18SameElem(p[i], q[i]) {
			return false
		}
	}
	last, ql := p[len(p)-1], q[len(p)-1]
	if c18SameElem(last, ql) {
		return len(q) > len(p)
	}
	return last.Name == ql.Name && len(last.Keys) == 0 && len(ql.Keys) > 0
}

func c18SameGnmiPath(es []c18Elem, g *gpb.Path) bool {
	if g == nil || len(g.Elem) != len(es) {
		return false
	}
	for i, e := range es {
		if g.Elem[i].Name != e.Name || len(g.Elem[i].Key) != len(e.Keys) {
			return false
		}
		for _, kv := range e.Keys {
			if v, ok := g.Elem[i].Key[kv.K]; !ok || v != kv.V {
				return false
			}
		}
	}
	return true
}

func c18SchemaPath(es []c18Elem) string {
	var b strings.Builder
	for _, e := range es {
		b.WriteByte('/')
		b.WriteString(e.Name)
	}
	return b.String()
}

// c18SchemaOf derives "which nodes are lists and what are their key names" from the paths and
// checks the paths are consistent YANG data (one key set per list).
func c18SchemaOf(paths []string) (map[string][]string, error) {
	schema := map[string][]string{}
	for _, p := range paths {
		es, ok := c18Parse(p)
		if !ok {
			return nil, fmt.Errorf("path %q is not in the stored canonical form", p)
		}
		for i, e := range es {
			if len(e.Keys) == 0 {
				continue
			}
			sp := c18SchemaPath(es[:i+1])
			names := make([]string, len(e.Keys))
			for j, kv := range e.Keys {
				names[j] = kv.K
			}
			if old, ok := schema[sp]; ok {
				if strings.Join(old, ",") != strings.Join(names, ",") {
					return nil, fmt.Errorf("list %s is used with key sets %v and %v", sp, old, names)
				}
				continue
			}
			schema[sp] = names
		}
	}
	return schema, nil
}

// c18ImpliedKey: is the flattened leaf p the key leaf of its list entry (".../l[id=1]/id")? Returns the key's text.
func c18ImpliedKey(p string) (string, bool) {
	es, ok := c18Parse(p)
	if !ok || len(es) < 2 || len(es[len(es)-1].Keys) != 0 {
		return "", false
	}
	for _, kv := range es[len(es)-2].Keys {
		if kv.K == es[len(es)-1].Name {
			return kv.V, true
		}
	}
	return "", false
}

// ---- independent flattener -----------------------------------------------------------------

// c18FlattenJSON parses the document text and returns leaf path -> JSON value (string,
// json.Number, bool, nil, or []any for a leaf-list). List entries are addressed by their key
// tuples, which are read from the entry's own members. It fails on anything that is not the
// image of a set of leaves: duplicate entries, entries without their keys, empty nodes.
func c18FlattenJSON(doc []byte, schema map[string][]string) (map[string]any, error) {
	dec := json.NewDecoder(bytes.NewReader(doc))
	dec.UseNumber()
	var root any
	if err := dec.Decode(&root); err != nil {
		return nil, fmt.Errorf("not JSON: %v", err)
	}
	if dec.More() {
		return nil, fmt.Errorf("trailing data after the JSON document")
	}
	obj, ok := root.(map[string]any)
	if !ok {
		return nil, fmt.Errorf("the document is a %T, not an object", root)
	}
	out := map[string]any{}
	if err := c18Walk(obj, "", "", schema, out, true); err != nil {
		return nil, err
	}
	return out, nil
}

func c18Walk(obj map[string]any, sp, ip string, schema map[string][]string, out map[string]any, root bool) error {
	if len(obj) == 0 && !root {
		return fmt.Errorf("node %s has no leaves below it", ip)
	}
	names := make([]string, 0, len(obj))
	for k := range obj {
		names = append(names, k)
	}
	sort.Strings(names)
	for _, name := range names {
		child := obj[name]
		csp, cip := sp+"/"+name, ip+"/"+name
		keyNames, isList := schema[csp]
		switch t := child.(type) {
		case map[string]any:
			if isList {
				return fmt.Errorf("list %s is rendered as an object", cip)
			}
			if err := c18Walk(t, csp, cip, schema, out, false); err != nil {
				return err
			}
		case []any:
			if !isList {
				out[cip] = child // leaf-list
				continue
			}
			if len(t) == 0 {
				return fmt.Errorf("list %s is rendered without entries", cip)
			}
			seen := map[string]bool{}
			for idx, ent := range t {
				em, ok := ent.(map[string]any)
				if !ok {
					return fmt.Errorf("entry %d of list %s is a %T", idx, cip, ent)
				}
				var b strings.Builder
				b.WriteString(cip)
				for _, kn := range keyNames {
					kv, ok := em[kn]
					if !ok {
						return fmt.Errorf("entry %d of list %s has no key member %q: %v", idx, cip, kn, em)
					}
					var text string
					switch k := kv.(type) {
					case string:
						text = k
					case json.Number:
						text = k.String()
					case bool:
						text = strconv.FormatBool(k)
					default:
						return fmt.Errorf("entry %d of list %s has key %q = %v (%T)", idx, cip, kn, kv, kv)
					}
					b.WriteString("[" + kn + "=" + text + "]")
				}
				eip := b.String()
				if seen[eip] {
					return fmt.Errorf("list entry %s appears twice (one entry was split)", eip)
				}
				seen[eip] = true
				if err := c18Walk(em, csp, eip, schema, out, false); err != nil {
					return err
				}
			}
		default:
			if isList {
				return fmt.Errorf("list %s is rendered as %T", cip, child)
			}
			out[cip] = child
		}
	}
	return nil
}

// ---- the case ------------------------------------------------------------------------------

type c18PV struct {
	Path    string  `json:"path"`
	Deleted bool    `json:"deleted,omitempty"`
	Val     *c17Val `json:"val,omitempty"` // nil: tombstone without value
}

type c18Case struct {
	Ver int     `json:"ver"` // 2 | 3
	RFC bool    `json:"rfc"`
	PVs []c18PV `json:"pvs"`
}

// ---- generator: a random schema, then random walks through it --------------------------------

type c18Node struct {
	name   string
	kind   int // 0 leaf, 1 container, 2 list
	keys   []string
	tuples [][]string
	kids   []*c18Node
}

var c18Families = [][]string{
	{"a", "ab", "a-b", "a.b", "a_b", "abc"},
	{"mtu", "mtux", "mtu-x", "mtu.x", "mt"},
	{"l", "l2", "l-x", "lx", "l.x"},
	{"c", "x", "y", "z"},
	{"m:t", "m:tu", "m:t-u"},
}

var c18KeySets = [][]string{{"id"}, {"name"}, {"id", "name"}, {"k1", "k2"}, {"id", "k2", "name"}, {"key"}}

var c18KeyValues = []string{"1", "10", "1-0", "2", "true", "false", "a", "ab", "a.b", "0", "A", "x_1", "10.0.0.1", "eth0", "eth0.1", "100",
	// values holding the characters the path syntax itself uses between a key name and its value or between two
	// names (base64 text, distinguished names, prefixed identities): all accepted by the path validation
	"YQ==", "YQ=", "cn=a", "cn=b", "a=b=c", "m:id", "-1", "a:b=c",
	// and the element separator and the opening bracket (interface names, file names: accepted in later keys of a
	// non-key leaf, in deletes and in JSON-valued updates)
	"eth1/1", "eth1/10", "rack[7", "[0/1", "a/./b", "a/b",
	// different texts that are the same NUMBER (string keys are compared as text)
	"01", "1.0", "007", "7", "7.0", "1.1", "1.10", "1e0", "0x1"}

func c18GenKids(s c17Src, depth int) []*c18Node {
	fam := c18Families[s.Intn(len(c18Families), "family")]
	start := s.Intn(len(fam), "famstart")
	n := 1 + s.Intn(3, "nkids")
	if depth == 0 {
		n++
	}
	if n > len(fam) {
		n = len(fam)
	}
	var names []string
	for i := 0; i < n; i++ {
		names = append(names, fam[(start+i)%len(fam)])
	}
	if s.Intn(3, "mixfam") == 0 { // one more sibling from another family
		f2 := c18Families[s.Intn(len(c18Families), "family2")]
		extra := f2[s.Intn(len(f2), "fam2name")]
		dup := false
		for _, nm := range names {
			dup = dup || nm == extra
		}
		if !dup {
			names = append(names, extra)
		}
	}
	var kids []*c18Node
	for _, nm := range names {
		nd := &c18Node{name: nm}
		pick := s.Intn(4, "nodekind")
		switch {
		case depth >= 3:
			nd.kind = 0
		case depth == 0 && pick > 0, pick >= 2:
			nd.kind = 1 + s.Intn(2, "interior") // container | list
		}
		if nd.kind == 2 {
			nd.keys = c18KeySets[s.Intn(len(c18KeySets), "keyset")]
			nt := []int{1, 2, 3, 4}[s.Intn(4, "ntuples")]
			for i := 0; i < nt; i++ {
				tup := make([]string, len(nd.keys))
				for j := range tup {
					if i > 0 && len(tup) > 1 && s.Intn(3, "sharekey") != 0 && (j == 0 || s.Intn(3, "sharenext") == 0) {
						tup[j] = nd.tuples[0][j] // entries sharing a key value
						continue
					}
					tup[j] = c18KeyValues[s.Intn(len(c18KeyValues), "keyval")]
				}
				dup := false
				for _, old := range nd.tuples {
					dup = dup || strings.Join(old, "\x00") == strings.Join(tup, "\x00")
				}
				if !dup {
					nd.tuples = append(nd.tuples, tup)
				}
			}
		}
		if nd.kind != 0 {
			nd.kids = c18GenKids(s, depth+1)
			if nd.kind == 2 { // a child may not be named like a key
				var keep []*c18Node
				for _, k := range nd.kids {
					clash := false
					for _, kn := range nd.keys {
						clash = clash || kn == k.name
					}
					if !clash {
						keep = append(keep, k)
					}
				}
				nd.kids = keep
			}
		}
		kids = append(kids, nd)
	}
	return kids
}

var c18SimpleStrings = []string{"v", "", "hello world", "10", "true", "é/ü", "a[b=c]", "x\ny"}

// c18GenVal draws leaf values that C17 shows to be rendered faithfully (its findings are kept out by construction).
func c18GenVal(s c17Src) *c17Val {
	v := &c17Val{}
	switch s.Intn(8, "valkind") {
	case 0, 1:
		v.Kind = "string"
		v.S = []string{c18SimpleStrings[s.Intn(len(c18SimpleStrings), "sval")]}
	case 2:
		v.Kind, v.Width = "uint", []int{8, 16, 32, 64}[s.Intn(4, "w")]
		v.U = []uint64{c17GenUint(s, v.Width)}
	case 3:
		v.Kind, v.Width = "int", []int{8, 16, 32, 64}[s.Intn(4, "w")]
		v.I = []int64{c17GenInt(s, v.Width)}
	case 4:
		v.Kind = "bool"
		v.B = []bool{s.Intn(2, "b") == 1}
	case 5:
		v.Kind, v.Prec = "decimal", 1+s.Intn(18, "prec")
		d := c17GenDigits(s, v.Prec)
		if c17TrigDecSign(d, v.Prec) {
			d = 15
		}
		v.I = []int64{d}
	case 6:
		v.Kind, v.List = "string", true
		for i, n := 0, 1+s.Intn(3, "lln"); i < n; i++ {
			v.S = append(v.S, c18SimpleStrings[s.Intn(len(c18SimpleStrings), "sval")])
		}
	case 7:
		v.Kind = "bytes"
		v.Y = [][]byte{c17GenBytes(s, false)}
	}
	return v
}

func c18IsCanonUint(t string) (uint64, bool) {
	if t == "" || (len(t) > 1 && t[0] == '0') {
		return 0, false
	}
	u, err := strconv.ParseUint(t, 10, 64)
	return u, err == nil
}

// c18GenKeyLeafVal: the typed value of an explicitly stored key leaf agrees with the key text in the path.
func c18GenKeyLeafVal(s c17Src, text string) *c17Val {
	pick := s.Intn(4, "keytype")
	if u, ok := c18IsCanonUint(text); ok && pick > 0 {
		if pick == 3 && u <= 127 {
			return &c17Val{Kind: "int", Width: []int{8, 64}[s.Intn(2, "w")], I: []int64{int64(u)}}
		}
		w := []int{8, 16, 32, 64}[s.Intn(4, "w")]
		if w < 64 && u > 1<<w-1 {
			w = 64
		}
		return &c17Val{Kind: "uint", Width: w, U: []uint64{u}}
	}
	if (text == "true" || text == "false") && pick > 0 {
		return &c17Val{Kind: "bool", B: []bool{text == "true"}}
	}
	return &c17Val{Kind: "string", S: []string{text}}
}

// c18Walk1 walks from the root to a leaf (tomb=false) or stops anywhere (tomb=true).
func c18Walk1(s c17Src, kids []*c18Node, tomb bool) (path []c18Elem, val *c17Val) {
	for {
		nd := kids[s.Intn(len(kids), "child")]
		e := c18Elem{Name: nd.name}
		var tup []string
		if nd.kind == 2 {
			if tomb && s.Intn(5, "wholelist") == 0 {
				return append(path, e), nil // tombstone on the whole list
			}
			tup = nd.tuples[s.Intn(len(nd.tuples), "tuple")]
			for j, k := range nd.keys {
				e.Keys = append(e.Keys, c18KV{k, tup[j]})
			}
		}
		path = append(path, e)
		if nd.kind == 0 {
			return path, c18GenVal(s)
		}
		if tomb && s.Intn(3, "stop") == 0 {
			return path, nil
		}
		if nd.kind == 2 {
			// the key leaves are children of the entry too
			if len(nd.kids) == 0 || s.Intn(4, "keyleaf") == 0 {
				j := s.Intn(len(nd.keys), "whichkey")
				return append(path, c18Elem{Name: nd.keys[j]}), c18GenKeyLeafVal(s, tup[j])
			}
		}
		kids = nd.kids
	}
}

func c18GenCase(s c17Src) c18Case {
	c := c18Case{Ver: 2 + s.Intn(2, "ver"), RFC: s.Intn(8, "rfc") != 0}
	root := c18GenKids(s, 0)
	n := []int{1, 2, 4, 6, 9, 13, 18, 25}[s.Intn(8, "npv")]
	tombRate := []int{0, 4, 6, 10}[s.Intn(4, "tombrate")]
	seen := map[string]bool{}
	for tries := 0; len(c.PVs) < n && tries < 3*n; tries++ { // small schemas make walks collide: retry a few times
		tomb := tombRate > 0 && s.Intn(tombRate, "tomb") == 0
		es, val := c18Walk1(s, root, tomb)
		p := c18Render(es)
		if seen[p] {
			continue
		}
		seen[p] = true
		pv := c18PV{Path: p, Deleted: tomb, Val: val}
		if tomb && val != nil && s.Intn(2, "tombval") == 0 {
			pv.Val = nil
		}
		c.PVs = append(c.PVs, pv)
	}
	return c
}

func genC18Case(t *rapid.T) c18Case { return c18GenCase(c17RapidSrc{t}) }

// ---- oracle --------------------------------------------------------------------------------

type c18Parsed struct {
	pv c18PV
	es []c18Elem
}

func c18SetOf(pds []c18PD) (map[string]bool, error) {
	out := map[string]bool{}
	for _, pd := range pds {
		if _, dup := out[pd.Path]; dup {
			return nil, fmt.Errorf("path %s is returned twice", pd.Path)
		}
		out[pd.Path] = pd.Deleted
	}
	return out, nil
}

func c18DiffSets(got, want map[string]bool) string {
	var msgs []string
	for p, d := range want {
		gd, ok := got[p]
		switch {
		case !ok:
			msgs = append(msgs, fmt.Sprintf("missing %s (deleted=%v)", p, d))
		case gd != d:
			msgs = append(msgs, fmt.Sprintf("%s has deleted=%v, want %v", p, gd, d))
		}
	}
	for p, d := range got {
		if _, ok := want[p]; !ok {
			msgs = append(msgs, fmt.Sprintf("unexpected %s (deleted=%v)", p, d))
		}
	}
	sort.Strings(msgs)
	return strings.Join(msgs, "; ")
}

func c18Check(c c18Case, rep c17Rep) error {
	const prop = "C18"
	ops := c17OpsFor(c.Ver)
	rep.Class(fmt.Sprintf("api:v%d", c.Ver))
	if len(c.PVs) == 0 || len(c.PVs) > 25 {
		rep.Class("skip:1")
		return vstat.ErrSkip
	}

	// -- the domain: unique, canonical, consistent paths
	var all []c18Parsed
	paths := make([]string, 0, len(c.PVs))
	seen := map[string]bool{}
	for _, pv := range c.PVs {
		es, ok := c18Parse(pv.Path)
		if !ok || seen[pv.Path] {
			rep.Class("skip:2")
			return vstat.ErrSkip
		}
		seen[pv.Path] = true
		if !pv.Deleted && (pv.Val == nil || !pv.Val.valid() || len(es[len(es)-1].Keys) != 0) {
			rep.Class("skip:3")
			return vstat.ErrSkip
		}
		if pv.Val != nil && !pv.Val.valid() {
			rep.Class("skip:4")
			return vstat.ErrSkip
		}
		all = append(all, c18Parsed{pv, es})
		paths = append(paths, pv.Path)
	}
	schema, err := c18SchemaOf(paths)
	if err != nil {
		rep.Class("skip:5")
		return vstat.ErrSkip
	}
	for _, a := range all {
		sp := c18SchemaPath(a.es)
		if a.pv.Val != nil { // a leaf (live, or tombstoned with its value): never a list node, never an interior node
			if _, isList := schema[sp]; isList {
				rep.Class("skip:6")
				return vstat.ErrSkip
			}
			for _, b := range all {
				if strings.HasPrefix(c18SchemaPath(b.es), sp+"/") {
					rep.Class("skip:7")
					return vstat.ErrSkip
				}
			}
		}
		// every element on a list node names an entry; only a tombstone may end on the whole list
		for i := range a.es {
			if _, isList := schema[c18SchemaPath(a.es[:i+1])]; isList && len(a.es[i].Keys) == 0 && !(a.pv.Deleted && i == len(a.es)-1) {
				rep.Class("skip:8")
				return vstat.ErrSkip
			}
		}
	}

	// -- reference semantics at element boundaries
	ref := c18Reference(all, func(p, q c18Parsed) bool { return c18Covers(p.es, q.es) })
	textual := false // trigger of F-prune-textual-prefix
	for _, q := range all {
		for _, p := range all {
			if p.pv.Deleted && p.pv.Path != q.pv.Path && strings.HasPrefix(q.pv.Path, p.pv.Path) && !c18Covers(p.es, q.es) {
				textual = true // Q continues P's text inside an element name: /a/b vs /a/bc, /a/b-x
			}
		}
	}

	// -- classes and the non-trivial rule
	c18Classify(all, ref.dead, ref.entries, rep)
	if textual {
		rep.Class("trigger:textual-prefix-sibling-of-a-tombstone")
	}

	// -- run the real code
	var pvs []c17PV
	for _, a := range all {
		pv := c17PV{Path: a.pv.Path, Deleted: a.pv.Deleted}
		if a.pv.Val != nil {
			pv.TV = ops.mk(*a.pv.Val)
			if pv.TV == nil {
				return vstat.ErrSkip
			}
		}
		pvs = append(pvs, pv)
	}
	var got c18Got
	for i, leaveTop := range []bool{false, true} {
		var err error
		if got.pruned[i], err = c18SetOf(ops.prune(pvs, leaveTop)); err != nil {
			return fmt.Errorf("PrunePathValues(leaveTopDeletedPaths=%v): %v", leaveTop, err)
		}
		if got.prunedMap[i], err = c18SetOf(ops.pruneMap(pvs, leaveTop)); err != nil {
			return fmt.Errorf("PrunePathMap(leaveTopDeletedPaths=%v): %v", leaveTop, err)
		}
	}
	var err2 error
	if got.doc, err2 = ops.build(pvs, c.RFC); err2 != nil {
		return fmt.Errorf("BuildTree failed: %v", err2)
	}
	strict := c18Compare(prop, got, ref, schema, c.RFC, rep)
	if strict == nil {
		return nil
	}
	// A failure on an input matching the listed finding's trigger: the real code must then behave exactly like
	// the element-boundary reference with "covers" replaced by strings.HasPrefix (the finding, nothing else).
	if textual && vstat.IsKnown(prop, c18FPrune) {
		buggy := c18Reference(all, func(p, q c18Parsed) bool { return strings.HasPrefix(q.pv.Path, p.pv.Path) })
		if err := c18Compare(prop, got, buggy, schema, c.RFC, rep); err != nil {
			return fmt.Errorf("%v\n(and not explained by %s alone: %v)", strict, c18FPrune, err)
		}
		rep.Known(c18FPrune, "pruning matches tombstones with strings.HasPrefix: a sibling whose name continues the tombstoned path's text (/a/b vs /a/bc, /a/b-x) is removed too")
		return nil
	}
	return strict
}

// c18Ref is what pruning and the document must be, for a given "tombstone P covers path Q" relation.
type c18Ref struct {
	dead    map[string]bool            // removed by pruning (tombstones and everything below them)
	pruned  [2]map[string]bool         // [leaveTopDeletedPaths] path -> deleted flag
	expect  map[string]*c17Val         // leaves of the document (nil: key leaf implied by a path)
	entries map[string]map[string]bool // list instance -> its live entries
	nLive   int
}

type c18Got struct {
	pruned, prunedMap [2]map[string]bool
	doc               []byte
}

func c18Reference(all []c18Parsed, covers func(p, q c18Parsed) bool) c18Ref {
	ref := c18Ref{dead: map[string]bool{}, expect: map[string]*c17Val{}, entries: map[string]map[string]bool{}}
	ref.pruned[0], ref.pruned[1] = map[string]bool{}, map[string]bool{}
	for _, q := range all {
		covered := false
		for _, p := range all {
			if p.pv.Deleted && p.pv.Path != q.pv.Path && covers(p, q) {
				covered = true
			}
		}
		switch {
		case q.pv.Deleted && !covered: // a top-most tombstone
			ref.dead[q.pv.Path] = true
			ref.pruned[1][q.pv.Path] = true
		case q.pv.Deleted || covered:
			ref.dead[q.pv.Path] = true
		default:
			ref.pruned[0][q.pv.Path] = false
			ref.pruned[1][q.pv.Path] = false
			ref.expect[q.pv.Path] = q.pv.Val
			ref.nLive++
		}
	}
	for _, q := range all {
		if ref.dead[q.pv.Path] {
			continue
		}
		for i, e := range q.es {
			if len(e.Keys) == 0 {
				continue
			}
			ent := c18Render(q.es[:i+1])
			for _, kv := range e.Keys {
				if _, explicit := ref.expect[ent+"/"+kv.K]; !explicit {
					ref.expect[ent+"/"+kv.K] = nil
				}
			}
			inst := c18Render(q.es[:i]) + "/" + e.Name
			if ref.entries[inst] == nil {
				ref.entries[inst] = map[string]bool{}
			}
			ref.entries[inst][e.String()] = true
		}
	}
	return ref
}

func c18Compare(prop string, got c18Got, ref c18Ref, schema map[string][]string, rfc bool, rep c17Rep) error {
	for i, leaveTop := range []bool{false, true} {
		if d := c18DiffSets(got.pruned[i], ref.pruned[i]); d != "" {
			return fmt.Errorf("PrunePathValues(leaveTopDeletedPaths=%v) differs from pruning at element boundaries: %s", leaveTop, d)
		}
		if d := c18DiffSets(got.prunedMap[i], ref.pruned[i]); d != "" {
			return fmt.Errorf("PrunePathMap(leaveTopDeletedPaths=%v) differs from pruning at element boundaries: %s", leaveTop, d)
		}
	}
	flat, err := c18FlattenJSON(got.doc, schema)
	if err != nil {
		return fmt.Errorf("the document is not the image of a configuration: %v\n%s", err, got.doc)
	}
	var diffs []string
	for p, want := range ref.expect {
		jv, ok := flat[p]
		if !ok {
			diffs = append(diffs, "missing leaf "+p)
			continue
		}
		if want == nil {
			text, _ := c18ImpliedKey(p)
			if jv != any(text) {
				diffs = append(diffs, fmt.Sprintf("key leaf %s is %v (%T), want %q", p, jv, jv, text))
			}
			continue
		}
		if err := c17CheckJSON(prop, *want, jv, rfc, rep); err != nil {
			diffs = append(diffs, fmt.Sprintf("%s = %s: %v", p, want, err))
		}
	}
	for p, jv := range flat {
		if _, ok := ref.expect[p]; !ok {
			diffs = append(diffs, fmt.Sprintf("extra leaf %s = %v", p, jv))
		}
	}
	if len(diffs) > 0 {
		sort.Strings(diffs)
		return fmt.Errorf("flatten(BuildTree) differs from the live leaves: %s\n%s", strings.Join(diffs, "; "), got.doc)
	}
	// one array entry per distinct key tuple (the flattener already refused duplicates)
	wantEntries := 0
	for _, ents := range ref.entries {
		wantEntries += len(ents)
	}
	if n := c18CountEntries(got.doc); n != wantEntries {
		return fmt.Errorf("the document holds %d list entries, the paths name %d distinct key tuples\n%s", n, wantEntries, got.doc)
	}
	if ref.nLive == 0 && len(flat) != 0 {
		return fmt.Errorf("no live leaf but the document is %s", got.doc)
	}
	return nil
}

// c18CountEntries counts the objects that sit directly inside arrays (= list entries) anywhere in the document.
func c18CountEntries(doc []byte) int {
	var root any
	if json.Unmarshal(doc, &root) != nil {
		return -1
	}
	var walk func(n any, inArray bool) int
	walk = func(n any, inArray bool) int {
		c := 0
		switch t := n.(type) {
		case map[string]any:
			if inArray {
				c++
			}
			for _, v := range t {
				c += walk(v, false)
			}
		case []any:
			for _, v := range t {
				c += walk(v, true)
			}
		}
		return c
	}
	return walk(root, false)
}

func c18Classify(all []c18Parsed, dead map[string]bool, entries map[string]map[string]bool, rep c17Rep) {
	nTomb, maxDepth := 0, 0
	for _, a := range all {
		if len(a.es) > maxDepth {
			maxDepth = len(a.es)
		}
		nLists := 0
		for _, e := range a.es {
			if len(e.Keys) > 0 {
				nLists++
				if len(e.Keys) > 1 {
					rep.Class("shape:multi-key-list")
				}
				for _, kv := range e.Keys {
					if _, ok := c18IsCanonUint(kv.V); ok {
						rep.Class("key:numeric")
					}
					if kv.V == "true" || kv.V == "false" {
						rep.Class("key:boolean")
					}
				}
			}
		}
		if nLists >= 2 {
			rep.Class("shape:list-in-list")
		}
		if _, isKey := c18ImpliedKey(a.pv.Path); isKey && !a.pv.Deleted {
			rep.Class("keyleaf:stored-explicitly")
			if a.pv.Val != nil && a.pv.Val.Kind != "string" {
				rep.Class("keyleaf:stored-explicitly-non-string")
			}
		}
		if !a.pv.Deleted {
			continue
		}
		nTomb++
		rep.Class(fmt.Sprintf("tombstone:depth-%d", len(a.es)))
		last := a.es[len(a.es)-1]
		switch {
		case a.pv.Val != nil:
			rep.Class("tombstone:on-leaf")
		case len(last.Keys) > 0:
			rep.Class("tombstone:on-list-entry")
		default:
			rep.Class("tombstone:on-container-or-whole-list")
		}
		// a tombstone with live siblings: a live leaf below the same parent that the tombstone does not cover
		for _, q := range all {
			if dead[q.pv.Path] || len(q.es) < len(a.es) {
				continue
			}
			same := true
			for i := 0; i < len(a.es)-1; i++ {
				same = same && c18SameElem(a.es[i], q.es[i])
			}
			if same {
				rep.NonTrivial("tombstone with live siblings")
				break
			}
		}
	}
	rep.Class(fmt.Sprintf("tombstones:%d", minInt(nTomb, 3)))
	rep.Class(fmt.Sprintf("depth:%d", maxDepth))
	switch n := len(all); {
	case n <= 3:
		rep.Class("size:1-3")
	case n <= 10:
		rep.Class("size:4-10")
	default:
		rep.Class("size:11-25")
	}
	// prefix-related sibling names / key values
	for i, a := range all {
		for _, b := range all[i+1:] {
			for k := 0; k < len(a.es) && k < len(b.es); k++ {
				x, y := a.es[k], b.es[k]
				if x.Name != y.Name {
					if strings.HasPrefix(x.Name, y.Name) || strings.HasPrefix(y.Name, x.Name) {
						rep.Class("siblings:name-is-prefix-of-sibling")
					}
					break
				}
				if !c18SameElem(x, y) {
					for j := range x.Keys {
						if j < len(y.Keys) && x.Keys[j].V != y.Keys[j].V && (strings.HasPrefix(x.Keys[j].V, y.Keys[j].V) || strings.HasPrefix(y.Keys[j].V, x.Keys[j].V)) {
							rep.Class("keys:value-is-prefix-of-sibling-key")
						}
					}
					break
				}
			}
		}
	}
	// a list with >= 2 live entries sharing a key value
	for _, ents := range entries {
		if len(ents) >= 2 {
			rep.Class("list:two-or-more-live-entries")
		}
		var tuples [][]c18KV
		for e := range ents {
			es, _ := c18Parse("/" + e)
			tuples = append(tuples, es[0].Keys)
		}
		for i := range tuples {
			for j := i + 1; j < len(tuples); j++ {
				for k := range tuples[i] {
					if k < len(tuples[j]) && tuples[i][k] == tuples[j][k] {
						rep.NonTrivial("list with entries sharing a key value")
					}
				}
			}
		}
	}
	// the same key tuple under two different parents (must not be merged across parents)
	byEntry := map[string]map[string]bool{}
	for inst, ents := range entries {
		es, _ := c18Parse(inst)
		for e := range ents {
			k := c18SchemaPath(es) + "|" + e
			if byEntry[k] == nil {
				byEntry[k] = map[string]bool{}
			}
			byEntry[k][inst] = true
		}
	}
	for _, insts := range byEntry {
		if len(insts) >= 2 {
			rep.Class("list:same-key-tuple-under-different-parents")
		}
	}
}

func minInt(a, b int) int {
	if a < b {
		return a
	}
	return b
}

func runC18Case(c c18Case, x *vstat.Ctx) error {
	var sample []string
	for _, pv := range c.PVs {
		switch {
		case pv.Deleted:
			sample = append(sample, pv.Path+" DELETED")
		case pv.Val != nil:
			sample = append(sample, pv.Path+" = "+pv.Val.String())
		}
	}
	x.Sample(map[string]any{"api": c.Ver, "rfc7951": c.RFC, "pathValues": sample})
	err := c18Check(c, x)
	if err == nil || err == vstat.ErrSkip {
		return err
	}
	return vstat.Violf("%v", err)
}

// TestC18_TreeIsTheConfiguration: flatten(BuildTree(pvs)) == live(pvs) ∪ implied key leaves, one array
// entry per key tuple, PrunePathValues / PrunePathMap == pruning at element boundaries (v2 and v3).
func TestC18_TreeIsTheConfiguration(t *testing.T) {
	vstat.Run(t, "C18", genC18Case, runC18Case)
}

// FuzzC18Tree decodes the fuzz input into a c18Case through the same generator code (every input is a consistent case).
func FuzzC18Tree(f *testing.F) {
	for _, seed := range c17FuzzSeeds() {
		f.Add(seed)
	}
	f.Add(bytes.Repeat([]byte{1, 0, 3, 2, 5, 4, 7}, 40))
	f.Add(bytes.Repeat([]byte{0, 1, 2, 3}, 64))
	f.Fuzz(func(t *testing.T, data []byte) {
		c := c18GenCase(&c17ByteSrc{b: data})
		if err := c18Check(c, c17NopRep{}); err != nil && err != vstat.ErrSkip {
			cj, _ := json.Marshal(c)
			t.Fatalf("%v\ncase: %s", err, cj)
		}
	})
}
