package pure

import (
	"fmt"
	"reflect"
	"sort"
	"strings"
	"testing"
	"unicode/utf8"

	"github.com/onosproject/onos-config/pkg/utils"
	pathutils "github.com/onosproject/onos-config/pkg/utils/path"
	gpb "github.com/openconfig/gnmi/proto/gnmi"
	"pgregory.net/rapid"

	"verif/harness/vstat"
)

// ---- generators for C16 -----------------------------------------------------

// Elem is the JSON-serialisable form of a gNMI path element.
type Elem struct {
	Name string            `json:"name"`
	Keys map[string]string `json:"keys,omitempty"`
}

// PathCase is a gNMI path plus a second, related path (for injectivity).
type PathCase struct {
	Domain string `json:"domain"` // D1 | D2
	P      []Elem `json:"p"`
	Q      []Elem `json:"q"`
}

const identFirst = "abcdefghijklmnopqrstuvwxyzABCDEFGHIJKLMNOPQRSTUVWXYZ_"
const identRest = identFirst + "0123456789-."

// D1 key value alphabet: what CheckPathIndexIsValid admits for updates (minus '*').
const keyD1 = "abcdefghijklmnopqrstuvwxyzABCDEFGHIJKLMNOPQRSTUVWXYZ0123456789._-"

// D2 adds the characters the renderer/parser promise to escape or tolerate.
const keyD2extra = "/][\\=: "

func genIdent(t *rapid.T, label string) string {
	n := rapid.IntRange(1, 6).Draw(t, label+"len")
	var b strings.Builder
	b.WriteByte(identFirst[rapid.IntRange(0, len(identFirst)-1).Draw(t, label+"c0")])
	for i := 1; i < n; i++ {
		b.WriteByte(identRest[rapid.IntRange(0, len(identRest)-1).Draw(t, label+"c")])
	}
	return b.String()
}

func genName(t *rapid.T) string {
	s := genIdent(t, "name")
	if rapid.IntRange(0, 5).Draw(t, "modprefix") == 0 {
		s = genIdent(t, "mod") + ":" + s
	}
	return s
}

func genKeyValue(t *rapid.T, d2 bool) string {
	n := rapid.IntRange(1, 6).Draw(t, "kvlen")
	var b strings.Builder
	for i := 0; i < n; i++ {
		if d2 && rapid.IntRange(0, 2).Draw(t, "esc") == 0 {
			b.WriteByte(keyD2extra[rapid.IntRange(0, len(keyD2extra)-1).Draw(t, "ec")])
		} else {
			b.WriteByte(keyD1[rapid.IntRange(0, len(keyD1)-1).Draw(t, "kc")])
		}
	}
	return b.String()
}

func genElem(t *rapid.T, d2 bool) Elem {
	e := Elem{Name: genName(t)}
	nk := rapid.IntRange(0, 3).Draw(t, "nkeys")
	if rapid.IntRange(0, 1).Draw(t, "keyed") == 0 {
		nk = 0
	}
	for i := 0; i < nk; i++ {
		if e.Keys == nil {
			e.Keys = map[string]string{}
		}
		e.Keys[genIdent(t, "key")] = genKeyValue(t, d2)
	}
	return e
}

func genPath(t *rapid.T, d2 bool) []Elem {
	n := rapid.IntRange(1, 6).Draw(t, "nelems")
	p := make([]Elem, n)
	for i := range p {
		p[i] = genElem(t, d2)
	}
	return p
}

func clonePath(p []Elem) []Elem {
	q := make([]Elem, len(p))
	for i, e := range p {
		q[i] = Elem{Name: e.Name}
		if e.Keys != nil {
			q[i].Keys = map[string]string{}
			for k, v := range e.Keys {
				q[i].Keys[k] = v
			}
		}
	}
	return q
}

// mutate produces a path that is "close" to p: injectivity failures live
// between near neighbours (moved separators, swapped key/value boundaries).
func mutate(t *rapid.T, p []Elem, d2 bool) []Elem {
	q := clonePath(p)
	i := rapid.IntRange(0, len(q)-1).Draw(t, "mi")
	switch rapid.IntRange(0, 6).Draw(t, "mkind") {
	case 0: // independent path
		return genPath(t, d2)
	case 1: // split an element name in two elements
		if len(q[i].Name) >= 2 && !strings.Contains(q[i].Name, ":") {
			cut := rapid.IntRange(1, len(q[i].Name)-1).Draw(t, "cut")
			a, b := q[i].Name[:cut], q[i].Name[cut:]
			if strings.IndexByte(identFirst, b[0]) >= 0 {
				rest := append([]Elem{{Name: b, Keys: q[i].Keys}}, q[i+1:]...)
				q = append(append(q[:i:i], Elem{Name: a}), rest...)
			}
		}
	case 2: // move a key from one element to the next
		if i+1 < len(q) && len(q[i].Keys) > 0 {
			ks := sortedKeys(q[i].Keys)
			k := ks[0]
			if q[i+1].Keys == nil {
				q[i+1].Keys = map[string]string{}
			}
			q[i+1].Keys[k] = q[i].Keys[k]
			delete(q[i].Keys, k)
		}
	case 3: // change one key value
		if len(q[i].Keys) > 0 {
			k := sortedKeys(q[i].Keys)[0]
			q[i].Keys[k] = genKeyValue(t, d2)
		}
	case 4: // merge two keys "a=1","b=2" into one key whose value looks like the rendering of both
		if len(q[i].Keys) >= 2 && d2 {
			ks := sortedKeys(q[i].Keys)
			q[i].Keys[ks[0]] = q[i].Keys[ks[0]] + "][" + ks[1] + "=" + q[i].Keys[ks[1]]
			delete(q[i].Keys, ks[1])
		}
	case 5: // fold the next element into a key value using '/'
		if i+1 < len(q) && len(q[i].Keys) > 0 && d2 && len(q[i+1].Keys) == 0 {
			k := sortedKeys(q[i].Keys)
			last := k[len(k)-1]
			q[i].Keys[last] = q[i].Keys[last] + "]/" + q[i+1].Name
			q = append(q[:i+1], q[i+2:]...)
		}
	case 6: // drop the last element
		if len(q) > 1 {
			q = q[:len(q)-1]
		}
	}
	return q
}

func sortedKeys(m map[string]string) []string {
	ks := make([]string, 0, len(m))
	for k := range m {
		ks = append(ks, k)
	}
	sort.Strings(ks)
	return ks
}

func toGnmi(p []Elem) *gpb.Path {
	out := &gpb.Path{}
	for _, e := range p {
		pe := &gpb.PathElem{Name: e.Name}
		if len(e.Keys) > 0 {
			pe.Key = map[string]string{}
			for k, v := range e.Keys {
				pe.Key[k] = v
			}
		}
		out.Elem = append(out.Elem, pe)
	}
	return out
}

func samePath(a []Elem, b *gpb.Path) bool {
	if len(a) != len(b.Elem) {
		return false
	}
	for i, e := range a {
		if e.Name != b.Elem[i].Name || len(e.Keys) != len(b.Elem[i].Key) {
			return false
		}
		for k, v := range e.Keys {
			if bv, ok := b.Elem[i].Key[k]; !ok || bv != v {
				return false
			}
		}
	}
	return true
}

func equalElems(a, b []Elem) bool {
	if len(a) != len(b) {
		return false
	}
	for i := range a {
		if a[i].Name != b[i].Name || len(a[i].Keys) != len(b[i].Keys) {
			return false
		}
		if len(a[i].Keys) > 0 && !reflect.DeepEqual(a[i].Keys, b[i].Keys) {
			return false
		}
	}
	return true
}

func hasEscapeWorthy(p []Elem) (esc bool, slash bool, keyed bool) {
	for _, e := range p {
		for _, v := range e.Keys {
			keyed = true
			if strings.ContainsAny(v, keyD2extra) {
				esc = true
			}
			if strings.Contains(v, "/") {
				slash = true
			}
		}
	}
	return
}

func genPathCase(t *rapid.T) PathCase {
	d2 := rapid.IntRange(0, 1).Draw(t, "domain") == 1
	c := PathCase{Domain: "D1"}
	if d2 {
		c.Domain = "D2"
	}
	c.P = genPath(t, d2)
	c.Q = mutate(t, c.P, d2)
	return c
}

// checkOnePath is the round-trip / split / parent oracle for a single path.
func checkOnePath(p []Elem, x *vstat.Ctx) error {
	g := toGnmi(p)
	s := utils.StrPath(g)
	toks := utils.SplitPath(s)
	if len(toks) != len(p) {
		return vstat.Violf("SplitPath(%q) returned %d tokens %q for a path of %d elements", s, len(toks), toks, len(p))
	}
	back, err := utils.ParseGNMIElements(toks)
	if err != nil {
		return vstat.Violf("ParseGNMIElements(SplitPath(%q)) failed: %v", s, err)
	}
	if !samePath(p, back) {
		return vstat.Violf("round trip changed the path: %v -> %q -> %v", p, s, back)
	}
	// the canonical text is a fixed point
	if s2 := utils.StrPath(back); s2 != s {
		return vstat.Violf("rendering is not canonical: %q vs %q", s, s2)
	}
	_, slash, _ := hasEscapeWorthy(p)
	if slash {
		x.Class("keyvalue-with-slash(parent not asserted)")
	} else {
		want := ""
		if len(p) > 1 {
			want = utils.StrPath(toGnmi(p[:len(p)-1]))
		}
		if got := pathutils.GetParentPath(s); got != want {
			return vstat.Violf("GetParentPath(%q) = %q, want %q", s, got, want)
		}
	}
	return nil
}

func runPathCase(c PathCase, x *vstat.Ctx) error {
	x.Class("domain:" + c.Domain)
	esc, _, keyed := hasEscapeWorthy(c.P)
	if c.Domain == "D1" && keyed {
		x.NonTrivial("keyed element (D1)")
	}
	if c.Domain == "D2" && esc {
		x.NonTrivial("escape-worthy character in a key value (D2)")
	}
	x.Sample(map[string]any{"domain": c.Domain, "p": utils.StrPath(toGnmi(c.P)), "q": utils.StrPath(toGnmi(c.Q))})
	if err := checkOnePath(c.P, x); err != nil {
		return err
	}
	if err := checkOnePath(c.Q, x); err != nil {
		return err
	}
	sp, sq := utils.StrPath(toGnmi(c.P)), utils.StrPath(toGnmi(c.Q))
	if equalElems(c.P, c.Q) {
		x.Class("pair:identical")
		if sp != sq {
			return vstat.Violf("equal paths render differently: %q vs %q", sp, sq)
		}
	} else {
		x.Class("pair:different")
		if sp == sq {
			return vstat.Violf("two different paths share the text %q: %v vs %v", sp, c.P, c.Q)
		}
	}
	return nil
}

// TestC16_PathRoundTrip: ParseGNMIElements(SplitPath(StrPath(p))) == p, one
// token per element, injectivity on near-neighbour pairs, parent = path
// without its last element.
func TestC16_PathRoundTrip(t *testing.T) {
	vstat.Run(t, "C16", genPathCase, runPathCase)
}

// ---- text direction: any string that parses re-renders to an equivalent string

type TextCase struct {
	S string `json:"s"`
}

const textAlphabet = "ab1/[]=\\:.- *"

func genTextCase(t *rapid.T) TextCase {
	if rapid.IntRange(0, 2).Draw(t, "fromPath") > 0 {
		// start from a valid rendering and damage it a little
		s := utils.StrPath(toGnmi(genPath(t, true)))
		b := []byte(s)
		n := rapid.IntRange(0, 3).Draw(t, "nmut")
		for i := 0; i < n && len(b) > 0; i++ {
			pos := rapid.IntRange(0, len(b)-1).Draw(t, "pos")
			switch rapid.IntRange(0, 2).Draw(t, "op") {
			case 0:
				b[pos] = textAlphabet[rapid.IntRange(0, len(textAlphabet)-1).Draw(t, "ch")]
			case 1:
				b = append(b[:pos], b[pos+1:]...)
			case 2:
				b = append(b[:pos], append([]byte{textAlphabet[rapid.IntRange(0, len(textAlphabet)-1).Draw(t, "ch")]}, b[pos:]...)...)
			}
		}
		return TextCase{S: string(b)}
	}
	n := rapid.IntRange(0, 24).Draw(t, "len")
	var b strings.Builder
	for i := 0; i < n; i++ {
		b.WriteByte(textAlphabet[rapid.IntRange(0, len(textAlphabet)-1).Draw(t, "ch")])
	}
	return TextCase{S: b.String()}
}

// textOracle is shared with the native fuzz target.
func textOracle(s string) (parsed bool, err error) {
	toks := utils.SplitPath(s)
	// splitting never loses or invents characters: tokens joined by '/' give the input back (modulo one leading '/' and trailing '/')
	p, perr := utils.ParseGNMIElements(toks)
	if perr != nil {
		return false, nil // rejected cleanly
	}
	for _, e := range p.Elem {
		for k, v := range e.Key {
			if k == "" || v == "" {
				return true, fmt.Errorf("parse of %q accepted an empty key name or value: %v", s, p)
			}
		}
	}
	// The statement quantifies over names and key values "the system accepts":
	// element and key names are YANG identifiers. Text that parses to anything
	// else (e.g. a name containing an escaped '[') is only required not to panic.
	for _, e := range p.Elem {
		if !isYangName(e.Name) {
			return false, nil
		}
		for k := range e.Key {
			if !isIdent(k) {
				return false, nil
			}
		}
	}
	r := utils.StrPath(p)
	toks2 := utils.SplitPath(r)
	p2, perr2 := utils.ParseGNMIElements(toks2)
	if len(p.Elem) == 0 {
		return true, nil
	}
	if perr2 != nil {
		return true, fmt.Errorf("%q parsed to %v, which renders to %q, which does not parse: %v", s, p, r, perr2)
	}
	if !reflect.DeepEqual(normalize(p), normalize(p2)) {
		return true, fmt.Errorf("%q parsed to %v but its rendering %q parses to %v", s, p, r, p2)
	}
	return true, nil
}

func isIdent(s string) bool {
	if s == "" || strings.IndexByte(identFirst, s[0]) < 0 {
		return false
	}
	for i := 1; i < len(s); i++ {
		if strings.IndexByte(identRest, s[i]) < 0 {
			return false
		}
	}
	return true
}

func isYangName(s string) bool {
	if i := strings.IndexByte(s, ':'); i >= 0 {
		return isIdent(s[:i]) && isIdent(s[i+1:])
	}
	return isIdent(s)
}

func normalize(p *gpb.Path) [][2]string {
	var out [][2]string
	for _, e := range p.Elem {
		ks := make([]string, 0, len(e.Key))
		for k := range e.Key {
			ks = append(ks, k)
		}
		sort.Strings(ks)
		kv := ""
		for _, k := range ks {
			kv += fmt.Sprintf("%q=%q;", k, e.Key[k])
		}
		out = append(out, [2]string{e.Name, kv})
	}
	return out
}

func runTextCase(c TextCase, x *vstat.Ctx) error {
	parsed, err := textOracle(c.S)
	if err != nil {
		return vstat.Violf("%v", err)
	}
	if parsed {
		x.Class("text:parsed")
		if strings.ContainsAny(c.S, "[]\\") {
			x.NonTrivial("arbitrary text with brackets/escapes that parses")
		}
	} else {
		x.Class("text:rejected")
	}
	x.Sample(c.S)
	return nil
}

// TestC16_TextNeverPanicsAndReparses: arbitrary text is split and parsed
// without panicking; whatever parses re-renders to text that parses to the same path.
func TestC16_TextReparse(t *testing.T) {
	vstat.Run(t, "C16", genTextCase, runTextCase)
}

func FuzzC16Text(f *testing.F) {
	for _, s := range []string{"/a/b[c=d]/e", "/a[b=c\\]d]/e", "a[b=c/d]", "/a[b=\\\\]", "[", "/a[=]", "/a[b=]", "a\\/b", "/t1e:list4[id=1][n=x]/leaf"} {
		f.Add(s)
	}
	f.Fuzz(func(t *testing.T, s string) {
		// path text reaches the system in proto3 string fields: text that is not valid UTF-8 cannot be decoded
		// from the wire and is outside the property's domain (the renderer replaces such bytes by U+FFFD)
		if !utf8.ValidString(s) {
			t.Skip()
		}
		if _, err := textOracle(s); err != nil {
			t.Fatal(err)
		}
	})
}
