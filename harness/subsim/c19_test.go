// Package subsim holds the check of property C19 ("subscriptions reach exactly
// the targets they name"): the real northbound gNMI Server.Subscribe runs on a
// fake subscriber stream and a fake southbound connection manager whose
// per-target clients record what they are asked to do and can emit responses.
package subsim

import (
	"context"
	"fmt"
	"io"
	"runtime/debug"
	"strings"
	"testing"

	topoapi "github.com/onosproject/onos-api/go/onos/topo"
	nb "github.com/onosproject/onos-config/pkg/northbound/gnmi/v2"
	sb "github.com/onosproject/onos-config/pkg/southbound/gnmi"
	"github.com/onosproject/onos-lib-go/pkg/errors"
	"github.com/onosproject/onos-lib-go/pkg/logging"
	baseClient "github.com/openconfig/gnmi/client"
	gpb "github.com/openconfig/gnmi/proto/gnmi"
	"github.com/openconfig/gnmi/proto/gnmi_ext"
	"google.golang.org/grpc/codes"
	"google.golang.org/grpc/metadata"
	"google.golang.org/grpc/status"
	"google.golang.org/protobuf/encoding/protowire"
	"google.golang.org/protobuf/proto"
	"pgregory.net/rapid"

	"verif/harness/vstat"
)

func init() { logging.SetLevel(logging.FatalLevel) }

const (
	prop = "C19"
	// findings on the unchanged tree (see the trigger predicates in classifyPanic)
	fNilPrefix = "F-subscribe-nil-prefix"
	fNilPath   = "F-subscribe-nil-path"
)

// ---- the case (JSON-serialisable) -------------------------------------------

type ElemJ struct {
	Name string            `json:"name"`
	Keys map[string]string `json:"keys,omitempty"`
}

// PathJ is a gNMI path; a nil *PathJ means "field absent on the wire".
type PathJ struct {
	Origin string  `json:"origin,omitempty"`
	Target string  `json:"target,omitempty"`
	Elems  []ElemJ `json:"elems,omitempty"`
}

type EntryJ struct {
	Path              *PathJ `json:"path"`
	Mode              int32  `json:"mode"`
	SampleInterval    uint64 `json:"sample_interval,omitempty"`
	SuppressRedundant bool   `json:"suppress_redundant,omitempty"`
	HeartbeatInterval uint64 `json:"heartbeat_interval,omitempty"`
}

type ModelJ struct {
	Name    string `json:"name"`
	Org     string `json:"org,omitempty"`
	Version string `json:"version,omitempty"`
}

type ExtJ struct {
	Kind string `json:"kind"` // registered | master | history
	ID   int32  `json:"id,omitempty"`
	Msg  []byte `json:"msg,omitempty"`
	Role string `json:"role,omitempty"`
	High uint64 `json:"high,omitempty"`
	Low  uint64 `json:"low,omitempty"`
	Time int64  `json:"time,omitempty"`
}

type ListJ struct {
	Prefix           *PathJ   `json:"prefix"`
	Entries          []EntryJ `json:"entries"`
	Mode             int32    `json:"mode"`
	Qos              *uint32  `json:"qos,omitempty"`
	AllowAggregation bool     `json:"allow_aggregation,omitempty"`
	UseModels        []ModelJ `json:"use_models,omitempty"`
	Encoding         int32    `json:"encoding,omitempty"`
	UpdatesOnly      bool     `json:"updates_only,omitempty"`
}

// MsgJ is one SubscribeRequest on the stream.
type MsgJ struct {
	Kind string `json:"kind"` // subscribe | poll | empty | aliases
	List *ListJ `json:"list,omitempty"`
	Ext  []ExtJ `json:"ext,omitempty"`
}

type ValJ struct {
	Kind string `json:"kind"` // string | int | uint | bool | bytes | json
	S    string `json:"s,omitempty"`
	I    int64  `json:"i,omitempty"`
	U    uint64 `json:"u,omitempty"`
	B    bool   `json:"b,omitempty"`
	Raw  []byte `json:"raw,omitempty"`
}

type UpdJ struct {
	Path       PathJ  `json:"path"`
	Val        ValJ   `json:"val"`
	Duplicates uint32 `json:"duplicates,omitempty"`
}

// RespJ is one SubscribeResponse a target sends.
type RespJ struct {
	Sync      bool    `json:"sync,omitempty"` // true: sync_response, else: update notification
	Timestamp int64   `json:"timestamp,omitempty"`
	Prefix    *PathJ  `json:"prefix,omitempty"`
	Updates   []UpdJ  `json:"updates,omitempty"`
	Deletes   []PathJ `json:"deletes,omitempty"`
	Atomic    bool    `json:"atomic,omitempty"`
	Ext       []ExtJ  `json:"ext,omitempty"`
}

// EmitJ lets one target's client deliver responses just before the handler
// reads message number At (At == len(Msgs): before it learns that the stream
// ended). Emissions whose point is never reached (the stream was refused
// earlier) are delivered after the handler returned.
type EmitJ struct {
	Target string  `json:"target"`
	At     int     `json:"at"`
	Resps  []RespJ `json:"resps"`
}

type SubCase struct {
	Connected      []string `json:"connected"`                 // targets the connection manager knows
	SubscribeFails []string `json:"subscribe_fails,omitempty"` // connected targets whose client.Subscribe returns an error
	PollFails      []string `json:"poll_fails,omitempty"`      // connected targets whose client.Poll returns an error (the target went away after subscribing)
	Msgs           []MsgJ   `json:"msgs"`
	End            string   `json:"end"` // eof | cancel : what Recv returns after the last message
	MD             bool     `json:"md,omitempty"`
	MDName         string   `json:"md_name,omitempty"`
	MDGroups       string   `json:"md_groups,omitempty"`
	Emits          []EmitJ  `json:"emits,omitempty"`
}

// ---- generator ----------------------------------------------------------------

var (
	universe  = []string{"t1", "t2", "t3", "t4"}
	strangers = []string{"T1", "t1 ", "t5"} // never connected; near misses of real names
	elemNames = []string{"a", "b", "interfaces", "interface", "state", "oc-if:config", "counters"}
	keyNames  = []string{"name", "id", "k"}
	keyVals   = []string{"eth0", "1", "*", "a/b", "x y"}
	origins   = []string{"", "openconfig", "cli"}
)

func pick[T any](t *rapid.T, label string, xs []T) T {
	return xs[rapid.IntRange(0, len(xs)-1).Draw(t, label)]
}

// chance is true with probability num/den; 0 (the shrink target) is false.
func chance(t *rapid.T, label string, num, den int) bool {
	return rapid.IntRange(0, den-1).Draw(t, label) >= den-num
}

func genElems(t *rapid.T, label string, min, max int) []ElemJ {
	n := rapid.IntRange(min, max).Draw(t, label+".n")
	var out []ElemJ
	for i := 0; i < n; i++ {
		e := ElemJ{Name: pick(t, label+".name", elemNames)}
		nk := 0
		if chance(t, label+".keyed", 1, 3) {
			nk = rapid.IntRange(1, 2).Draw(t, label+".nk")
		}
		for k := 0; k < nk; k++ {
			if e.Keys == nil {
				e.Keys = map[string]string{}
			}
			e.Keys[pick(t, label+".key", keyNames)] = pick(t, label+".kv", keyVals)
		}
		out = append(out, e)
	}
	return out
}

func genExts(t *rapid.T, label string, max int) []ExtJ {
	n := rapid.IntRange(0, max).Draw(t, label+".n")
	var out []ExtJ
	for i := 0; i < n; i++ {
		switch rapid.IntRange(0, 2).Draw(t, label+".kind") {
		case 0:
			out = append(out, ExtJ{Kind: "registered", ID: int32(rapid.IntRange(0, 120).Draw(t, label+".id")),
				Msg: rapid.SliceOfN(rapid.Byte(), 0, 4).Draw(t, label+".msg")})
		case 1:
			out = append(out, ExtJ{Kind: "master", Role: pick(t, label+".role", []string{"", "primary", "r2"}),
				High: uint64(rapid.IntRange(0, 2).Draw(t, label+".hi")), Low: uint64(rapid.IntRange(0, 1000).Draw(t, label+".lo"))})
		case 2:
			out = append(out, ExtJ{Kind: "history", Time: int64(rapid.IntRange(0, 1<<40).Draw(t, label+".ts"))})
		}
	}
	return out
}

// genTargetName: mostly a connected target, sometimes a stranger or a target of
// the universe that is not connected.
func genTargetName(t *rapid.T, label string, connected []string) string {
	switch {
	case chance(t, label+".odd", 1, 7):
		return pick(t, label+".any", append(append([]string{}, universe...), strangers...))
	default:
		return pick(t, label+".conn", connected)
	}
}

type profile struct {
	wild bool // wild: everything decodable; session: well-formed multi-target sessions
}

func genList(t *rapid.T, connected []string, p profile) *ListJ {
	l := &ListJ{}
	// prefix: 0 present-empty, 1 elems+origin, 2 target, 3 elems+origin+target, 4 absent
	pk := rapid.IntRange(0, 9).Draw(t, "prefix.kind")
	switch {
	case pk <= 2:
		l.Prefix = &PathJ{}
	case pk <= 4:
		l.Prefix = &PathJ{Origin: pick(t, "prefix.origin", origins), Elems: genElems(t, "prefix.elems", 1, 3)}
	case pk <= 6:
		l.Prefix = &PathJ{Target: genTargetName(t, "prefix.target", connected)}
	case pk == 7:
		l.Prefix = &PathJ{Target: genTargetName(t, "prefix.target", connected), Origin: pick(t, "prefix.origin", origins),
			Elems: genElems(t, "prefix.elems", 1, 3)}
	default:
		if p.wild {
			l.Prefix = nil
		} else {
			l.Prefix = &PathJ{Origin: pick(t, "prefix.origin", origins)}
		}
	}
	minEntries := 0
	if !p.wild {
		minEntries = 1
	}
	allBlank := p.wild && chance(t, "entries.allblank", 1, 12)
	// SliceOfN (not a hand-written loop) so that rapid can delete single entries while shrinking
	l.Entries = rapid.SliceOfN(rapid.Custom(func(t *rapid.T) EntryJ {
		e := EntryJ{}
		path := &PathJ{Origin: "", Elems: genElems(t, "entry.elems", 0, 4)}
		if chance(t, "entry.origin", 1, 8) {
			path.Origin = pick(t, "entry.originv", origins)
		}
		tk := rapid.IntRange(0, 19).Draw(t, "entry.targetkind")
		switch {
		case allBlank:
		case tk <= 15:
			path.Target = genTargetName(t, "entry.target", connected)
		case tk <= 18:
			// no target of its own
		default:
			if p.wild {
				path = nil // the path field is absent on the wire
			}
		}
		e.Path = path
		e.Mode = int32(rapid.IntRange(0, 2).Draw(t, "entry.mode"))
		if p.wild && chance(t, "entry.oddmode", 1, 30) {
			e.Mode = 7 // proto3 enums are open: an unknown value is decodable and must travel unchanged
		}
		if e.Mode == 2 || chance(t, "entry.timers", 1, 4) {
			e.SampleInterval = uint64(rapid.IntRange(0, 3).Draw(t, "entry.sample")) * 1000000000
			e.HeartbeatInterval = uint64(rapid.IntRange(0, 2).Draw(t, "entry.heartbeat")) * 30000000000
			e.SuppressRedundant = rapid.Bool().Draw(t, "entry.suppress")
		}
		return e
	}), minEntries, 8).Draw(t, "entries")
	l.Mode = int32(rapid.IntRange(0, 2).Draw(t, "list.mode")) // STREAM ONCE POLL
	if chance(t, "list.qos", 1, 2) {
		q := uint32(rapid.IntRange(0, 63).Draw(t, "list.qosv"))
		l.Qos = &q
	}
	l.AllowAggregation = rapid.Bool().Draw(t, "list.aggr")
	nm := rapid.IntRange(0, 2).Draw(t, "list.models")
	for i := 0; i < nm; i++ {
		l.UseModels = append(l.UseModels, ModelJ{Name: pick(t, "model.name", []string{"openconfig-interfaces", "testdevice", "m"}),
			Org: pick(t, "model.org", []string{"", "OpenConfig working group"}), Version: pick(t, "model.ver", []string{"", "1.0.0", "2.4.3"})})
	}
	l.Encoding = int32(rapid.IntRange(0, 4).Draw(t, "list.encoding"))
	l.UpdatesOnly = rapid.Bool().Draw(t, "list.updatesonly")
	return l
}

func genResp(t *rapid.T, connected []string) RespJ {
	r := RespJ{}
	if chance(t, "resp.sync", 1, 4) {
		r.Sync = true
	} else {
		r.Timestamp = int64(rapid.IntRange(0, 1<<40).Draw(t, "resp.ts"))
		if chance(t, "resp.prefix", 2, 3) {
			r.Prefix = &PathJ{Target: pick(t, "resp.ptarget", append([]string{""}, connected...)), Origin: pick(t, "resp.porigin", origins),
				Elems: genElems(t, "resp.pelems", 0, 2)}
		}
		nu := rapid.IntRange(0, 2).Draw(t, "resp.nupd")
		for i := 0; i < nu; i++ {
			u := UpdJ{Path: PathJ{Elems: genElems(t, "resp.uelems", 1, 3)}}
			switch rapid.IntRange(0, 5).Draw(t, "resp.vkind") {
			case 0:
				u.Val = ValJ{Kind: "string", S: pick(t, "resp.vs", []string{"", "up", "eth0", "ünï"})}
			case 1:
				u.Val = ValJ{Kind: "int", I: int64(rapid.IntRange(-5, 1<<40).Draw(t, "resp.vi"))}
			case 2:
				u.Val = ValJ{Kind: "uint", U: uint64(rapid.IntRange(0, 1<<40).Draw(t, "resp.vu"))}
			case 3:
				u.Val = ValJ{Kind: "bool", B: rapid.Bool().Draw(t, "resp.vb")}
			case 4:
				u.Val = ValJ{Kind: "bytes", Raw: rapid.SliceOfN(rapid.Byte(), 0, 4).Draw(t, "resp.vraw")}
			case 5:
				u.Val = ValJ{Kind: "json", Raw: []byte(pick(t, "resp.vjson", []string{`{"a":1}`, `"x"`, `[1,2]`}))}
			}
			u.Duplicates = uint32(rapid.IntRange(0, 2).Draw(t, "resp.dup"))
			r.Updates = append(r.Updates, u)
		}
		if chance(t, "resp.del", 1, 3) {
			r.Deletes = append(r.Deletes, PathJ{Elems: genElems(t, "resp.delems", 1, 2)})
		}
		r.Atomic = chance(t, "resp.atomic", 1, 5)
	}
	if chance(t, "resp.ext", 1, 5) {
		r.Ext = genExts(t, "resp.ext", 1)
	}
	return r
}

func genCase(p profile) func(t *rapid.T) SubCase {
	return func(t *rapid.T) SubCase {
		c := SubCase{}
		minT := 1
		if !p.wild {
			minT = 2
		}
		nt := rapid.IntRange(minT, 4).Draw(t, "targets.n")
		c.Connected = append(c.Connected, universe[:nt]...)
		if p.wild {
			for _, tg := range c.Connected {
				if chance(t, "target.subfails", 1, 14) {
					c.SubscribeFails = append(c.SubscribeFails, tg)
				}
				if chance(t, "target.pollfails", 1, 6) {
					c.PollFails = append(c.PollFails, tg)
				}
			}
		}
		seenSub := false
		c.Msgs = rapid.SliceOfN(rapid.Custom(func(t *rapid.T) MsgJ {
			k := rapid.IntRange(0, 19).Draw(t, "msg.kind")
			kind := ""
			if !seenSub {
				switch {
				case k <= 15 || !p.wild:
					kind = "subscribe"
				case k <= 17:
					kind = "poll"
				case k == 18:
					kind = "empty"
				default:
					kind = "aliases"
				}
			} else {
				switch {
				case k <= 12:
					kind = "poll"
				case k <= 16:
					kind = "subscribe"
				case k == 17 || k == 18:
					kind = "empty"
				default:
					kind = "aliases"
				}
				if !p.wild && k > 12 && k < 18 {
					kind = "poll" // sessions carry fewer refusals, they end the stream
				}
			}
			m := MsgJ{Kind: kind}
			if kind == "subscribe" {
				seenSub = true
				m.List = genList(t, c.Connected, p)
			}
			if kind == "subscribe" || chance(t, "msg.ext", 1, 6) {
				m.Ext = genExts(t, "msg.ext", 2)
			}
			return m
		}), 1, 6).Draw(t, "msgs")
		c.End = pick(t, "end", []string{"eof", "cancel"})
		if chance(t, "md", 1, 3) {
			c.MD = true
			c.MDName = pick(t, "md.name", []string{"", "alice"})
			c.MDGroups = pick(t, "md.groups", []string{"", "AetherROCAdmin", "a;b"})
		}
		c.Emits = rapid.SliceOfN(rapid.Custom(func(t *rapid.T) EmitJ {
			e := EmitJ{Target: pick(t, "emit.target", c.Connected)}
			// biased towards "after the first message" (0 would be before anything is subscribed)
			e.At = len(c.Msgs) - rapid.IntRange(0, len(c.Msgs)).Draw(t, "emit.at")
			e.Resps = rapid.SliceOfN(rapid.Custom(func(t *rapid.T) RespJ { return genResp(t, c.Connected) }), 0, 3).Draw(t, "emit.resps")
			return e
		}), 0, 3).Draw(t, "emits")
		return c
	}
}

// ---- case -> protobuf ----------------------------------------------------------

func toPath(p *PathJ) *gpb.Path {
	if p == nil {
		return nil
	}
	out := &gpb.Path{Origin: p.Origin, Target: p.Target}
	for _, e := range p.Elems {
		pe := &gpb.PathElem{Name: e.Name}
		if len(e.Keys) > 0 {
			pe.Key = map[string]string{}
			for k, v := range e.Keys {
				pe.Key[k] = v
			}
		}
		out.Elem = append(out.Elem, pe)
	}
	return out
}

func toExts(xs []ExtJ) []*gnmi_ext.Extension {
	var out []*gnmi_ext.Extension
	for _, e := range xs {
		switch e.Kind {
		case "registered":
			out = append(out, &gnmi_ext.Extension{Ext: &gnmi_ext.Extension_RegisteredExt{
				RegisteredExt: &gnmi_ext.RegisteredExtension{Id: gnmi_ext.ExtensionID(e.ID), Msg: e.Msg}}})
		case "master":
			ma := &gnmi_ext.MasterArbitration{ElectionId: &gnmi_ext.Uint128{High: e.High, Low: e.Low}}
			if e.Role != "" {
				ma.Role = &gnmi_ext.Role{Id: e.Role}
			}
			out = append(out, &gnmi_ext.Extension{Ext: &gnmi_ext.Extension_MasterArbitration{MasterArbitration: ma}})
		case "history":
			out = append(out, &gnmi_ext.Extension{Ext: &gnmi_ext.Extension_History{
				History: &gnmi_ext.History{Request: &gnmi_ext.History_SnapshotTime{SnapshotTime: e.Time}}}})
		}
	}
	return out
}

func toEntry(e EntryJ) *gpb.Subscription {
	return &gpb.Subscription{Path: toPath(e.Path), Mode: gpb.SubscriptionMode(e.Mode), SampleInterval: e.SampleInterval,
		SuppressRedundant: e.SuppressRedundant, HeartbeatInterval: e.HeartbeatInterval}
}

// toList builds the SubscriptionList with the given prefix and the entries
// selected by keep (nil = all).
func toList(l *ListJ, prefix *gpb.Path, keep []int) *gpb.SubscriptionList {
	out := &gpb.SubscriptionList{Prefix: prefix, Mode: gpb.SubscriptionList_Mode(l.Mode), AllowAggregation: l.AllowAggregation,
		Encoding: gpb.Encoding(l.Encoding), UpdatesOnly: l.UpdatesOnly}
	if l.Qos != nil {
		out.Qos = &gpb.QOSMarking{Marking: *l.Qos}
	}
	for _, m := range l.UseModels {
		out.UseModels = append(out.UseModels, &gpb.ModelData{Name: m.Name, Organization: m.Org, Version: m.Version})
	}
	if keep == nil {
		for _, e := range l.Entries {
			out.Subscription = append(out.Subscription, toEntry(e))
		}
	} else {
		for _, i := range keep {
			out.Subscription = append(out.Subscription, toEntry(l.Entries[i]))
		}
	}
	return out
}

// wireBytes renders a message of the case the way a subscriber would put it on the wire.
func wireBytes(m MsgJ) ([]byte, error) {
	switch m.Kind {
	case "subscribe":
		return proto.Marshal(&gpb.SubscribeRequest{Request: &gpb.SubscribeRequest_Subscribe{Subscribe: toList(m.List, toPath(m.List.Prefix), nil)},
			Extension: toExts(m.Ext)})
	case "poll":
		return proto.Marshal(&gpb.SubscribeRequest{Request: &gpb.SubscribeRequest_Poll{Poll: &gpb.Poll{}}, Extension: toExts(m.Ext)})
	case "empty":
		return proto.Marshal(&gpb.SubscribeRequest{Extension: toExts(m.Ext)})
	case "aliases":
		// Field 4 of SubscribeRequest was `AliasList aliases` up to gNMI 0.7 (removed
		// from the proto this tree compiles against): what an older subscriber sends.
		b, err := proto.Marshal(&gpb.SubscribeRequest{Extension: toExts(m.Ext)})
		if err != nil {
			return nil, err
		}
		pb, _ := proto.Marshal(&gpb.Path{Elem: []*gpb.PathElem{{Name: "interfaces"}}})
		var alias []byte
		alias = protowire.AppendTag(alias, 1, protowire.BytesType)
		alias = protowire.AppendBytes(alias, pb)
		alias = protowire.AppendTag(alias, 2, protowire.BytesType)
		alias = protowire.AppendString(alias, "#ifs")
		var list []byte
		list = protowire.AppendTag(list, 1, protowire.BytesType)
		list = protowire.AppendBytes(list, alias)
		b = protowire.AppendTag(b, 4, protowire.BytesType)
		b = protowire.AppendBytes(b, list)
		return b, nil
	}
	return nil, fmt.Errorf("unknown message kind %q", m.Kind)
}

func decodeReq(b []byte) (*gpb.SubscribeRequest, error) {
	r := &gpb.SubscribeRequest{}
	if err := proto.Unmarshal(b, r); err != nil {
		return nil, err
	}
	return r, nil
}

// viaWire marshals and unmarshals m into a fresh message of the same type.
func viaWire[M proto.Message](m M) (M, error) {
	b, err := proto.Marshal(m)
	out := m.ProtoReflect().New().Interface().(M)
	if err != nil {
		return out, err
	}
	return out, proto.Unmarshal(b, out)
}

func toResp(r RespJ) *gpb.SubscribeResponse {
	out := &gpb.SubscribeResponse{Extension: toExts(r.Ext)}
	if r.Sync {
		out.Response = &gpb.SubscribeResponse_SyncResponse{SyncResponse: true}
		return out
	}
	n := &gpb.Notification{Timestamp: r.Timestamp, Prefix: toPath(r.Prefix), Atomic: r.Atomic}
	for _, u := range r.Updates {
		p := u.Path
		up := &gpb.Update{Path: toPath(&p), Duplicates: u.Duplicates}
		switch u.Val.Kind {
		case "string":
			up.Val = &gpb.TypedValue{Value: &gpb.TypedValue_StringVal{StringVal: u.Val.S}}
		case "int":
			up.Val = &gpb.TypedValue{Value: &gpb.TypedValue_IntVal{IntVal: u.Val.I}}
		case "uint":
			up.Val = &gpb.TypedValue{Value: &gpb.TypedValue_UintVal{UintVal: u.Val.U}}
		case "bool":
			up.Val = &gpb.TypedValue{Value: &gpb.TypedValue_BoolVal{BoolVal: u.Val.B}}
		case "bytes":
			up.Val = &gpb.TypedValue{Value: &gpb.TypedValue_BytesVal{BytesVal: u.Val.Raw}}
		case "json":
			up.Val = &gpb.TypedValue{Value: &gpb.TypedValue_JsonVal{JsonVal: u.Val.Raw}}
		}
		n.Update = append(n.Update, up)
	}
	for _, d := range r.Deletes {
		d := d
		n.Delete = append(n.Delete, toPath(&d))
	}
	out.Response = &gpb.SubscribeResponse_Update{Update: n}
	return out
}

// ---- fakes -----------------------------------------------------------------------

type clientEvent struct {
	msg        int    // index of the stream message being processed when the call arrived
	kind       string // subscribe | poll | <other method>
	req        *gpb.SubscribeRequest
	qTarget    string
	hasHandler bool
}

// fakeClient is the southbound client of one target.
type fakeClient struct {
	target    string
	cur       func() int
	subFails  bool
	pollFails bool
	events    []clientEvent
	handler   baseClient.ProtoHandler // what the real client would feed target responses to
}

func (c *fakeClient) note(kind string) {
	c.events = append(c.events, clientEvent{msg: c.cur(), kind: kind})
}

func (c *fakeClient) Subscribe(_ context.Context, q baseClient.Query) error {
	ev := clientEvent{msg: c.cur(), kind: "subscribe", qTarget: q.Target, hasHandler: q.ProtoHandler != nil}
	if q.SubReq != nil {
		// the real client serialises SubReq at this point
		ev.req = proto.Clone(q.SubReq).(*gpb.SubscribeRequest)
	}
	c.events = append(c.events, ev)
	if c.subFails {
		return errors.NewUnavailable("target %s: subscribe stream could not be opened", c.target)
	}
	c.handler = q.ProtoHandler
	return nil
}

func (c *fakeClient) Poll() error {
	c.note("poll")
	if c.pollFails {
		// the poll reached this client; that its target cannot be polled must not keep the poll from the others
		return errors.NewUnavailable("target %s: poll could not be sent", c.target)
	}
	return nil
}
func (c *fakeClient) Close() error { c.note("Close"); return nil }
func (c *fakeClient) Capabilities(context.Context, *gpb.CapabilityRequest) (*gpb.CapabilityResponse, error) {
	c.note("Capabilities")
	return nil, errors.NewNotSupported("not part of the fake")
}
func (c *fakeClient) CapabilitiesWithString(context.Context, string) (*gpb.CapabilityResponse, error) {
	c.note("CapabilitiesWithString")
	return nil, errors.NewNotSupported("not part of the fake")
}
func (c *fakeClient) Get(context.Context, *gpb.GetRequest) (*gpb.GetResponse, error) {
	c.note("Get")
	return nil, errors.NewNotSupported("not part of the fake")
}
func (c *fakeClient) GetWithString(context.Context, string) (*gpb.GetResponse, error) {
	c.note("GetWithString")
	return nil, errors.NewNotSupported("not part of the fake")
}
func (c *fakeClient) Set(context.Context, *gpb.SetRequest) (*gpb.SetResponse, error) {
	c.note("Set")
	return nil, errors.NewNotSupported("not part of the fake")
}
func (c *fakeClient) SetWithString(context.Context, string) (*gpb.SetResponse, error) {
	c.note("SetWithString")
	return nil, errors.NewNotSupported("not part of the fake")
}

var _ sb.Client = &fakeClient{}

// fakeConns is the connection manager: a client per connected target, "not
// found" for every other id (as connManager.GetByTarget does).
type fakeConns struct {
	clients map[string]*fakeClient
	lookups []string
	other   []string
}

func (m *fakeConns) GetByTarget(_ context.Context, id topoapi.ID) (sb.Client, error) {
	m.lookups = append(m.lookups, string(id))
	if c, ok := m.clients[string(id)]; ok {
		return c, nil
	}
	return nil, errors.NewNotFound("gnmi client for target %s not found", id)
}
func (m *fakeConns) Get(context.Context, sb.ConnID) (sb.Conn, bool) {
	m.other = append(m.other, "Get")
	return nil, false
}
func (m *fakeConns) Connect(context.Context, *topoapi.Object) error {
	m.other = append(m.other, "Connect")
	return errors.NewNotSupported("not part of the fake")
}
func (m *fakeConns) Disconnect(context.Context, topoapi.ID) error {
	m.other = append(m.other, "Disconnect")
	return errors.NewNotSupported("not part of the fake")
}
func (m *fakeConns) Watch(context.Context, chan<- sb.Conn) error {
	m.other = append(m.other, "Watch")
	return errors.NewNotSupported("not part of the fake")
}

var _ sb.ConnManager = &fakeConns{}

// fakeStream is the subscriber's side of the northbound Subscribe RPC.
type fakeStream struct {
	ctx       context.Context
	msgs      []*gpb.SubscribeRequest
	endErr    error
	recvCalls int
	onRecv    func(k int)
	sent      []*gpb.SubscribeResponse
	misuse    []string
}

func (s *fakeStream) Recv() (*gpb.SubscribeRequest, error) {
	k := s.recvCalls
	if s.onRecv != nil {
		s.onRecv(k) // target responses that arrive while the handler waits for the subscriber
	}
	s.recvCalls++
	if k < len(s.msgs) {
		return s.msgs[k], nil
	}
	return nil, s.endErr
}

func (s *fakeStream) Send(r *gpb.SubscribeResponse) error {
	s.sent = append(s.sent, proto.Clone(r).(*gpb.SubscribeResponse)) // gRPC serialises here
	return nil
}
func (s *fakeStream) Context() context.Context     { return s.ctx }
func (s *fakeStream) SetHeader(metadata.MD) error  { return nil }
func (s *fakeStream) SendHeader(metadata.MD) error { return nil }
func (s *fakeStream) SetTrailer(metadata.MD)       {}
func (s *fakeStream) SendMsg(m interface{}) error {
	if r, ok := m.(*gpb.SubscribeResponse); ok {
		return s.Send(r)
	}
	s.misuse = append(s.misuse, fmt.Sprintf("SendMsg(%T)", m))
	return nil
}
func (s *fakeStream) RecvMsg(m interface{}) error {
	s.misuse = append(s.misuse, fmt.Sprintf("RecvMsg(%T)", m))
	return io.EOF
}

var _ gpb.GNMI_SubscribeServer = &fakeStream{}

// ---- the model ---------------------------------------------------------------------

// step is what the statement demands for one message of the stream.
type step struct {
	refuse  string           // non-empty: the message must be refused (reason)
	named   []string         // accepted subscribe: targets named, in order of first mention
	entries map[string][]int // accepted subscribe: indexes of the entries each target must get (nil slice = all: prefix names it)
	whole   bool             // accepted subscribe: the prefix names the target, the request travels as it is
	poll    bool             // accepted poll
}

func prefixTarget(l *ListJ) string {
	if l.Prefix == nil {
		return ""
	}
	return l.Prefix.Target
}

// plan walks the message sequence the way the statement reads and stops at the
// first message that must be refused.
func plan(msgs []MsgJ) []step {
	var out []step
	subscribed := false
	for _, m := range msgs {
		st := step{}
		switch m.Kind {
		case "subscribe":
			switch {
			case subscribed:
				st.refuse = "a second subscription on the same stream"
			case prefixTarget(m.List) != "":
				pt := prefixTarget(m.List)
				st.named, st.entries, st.whole = []string{pt}, map[string][]int{pt: nil}, true
			default:
				st.entries = map[string][]int{}
				for i, e := range m.List.Entries {
					if e.Path == nil || e.Path.Target == "" {
						continue
					}
					if _, ok := st.entries[e.Path.Target]; !ok {
						st.named = append(st.named, e.Path.Target)
					}
					st.entries[e.Path.Target] = append(st.entries[e.Path.Target], i)
				}
				if len(st.named) == 0 {
					st.refuse = "a subscription naming no target (neither in the prefix nor in any path)"
				}
			}
			if st.refuse == "" {
				subscribed = true
			}
		case "poll":
			if !subscribed {
				st.refuse = "a poll before any subscription"
			} else {
				st.poll = true
			}
		default:
			st.refuse = "a message that is neither a subscription nor a poll (" + m.Kind + ")"
		}
		out = append(out, st)
		if st.refuse != "" {
			break
		}
	}
	return out
}

// expectedSubReq is the request target tg must receive for the accepted
// subscribe message m.
func expectedSubReq(m MsgJ, st step, tg string) (*gpb.SubscribeRequest, error) {
	var req *gpb.SubscribeRequest
	if st.whole {
		req = &gpb.SubscribeRequest{Request: &gpb.SubscribeRequest_Subscribe{Subscribe: toList(m.List, toPath(m.List.Prefix), nil)},
			Extension: toExts(m.Ext)}
	} else {
		pfx := &gpb.Path{Target: tg}
		if m.List.Prefix != nil {
			pfx = toPath(m.List.Prefix)
			pfx.Target = tg
		}
		req = &gpb.SubscribeRequest{Request: &gpb.SubscribeRequest_Subscribe{Subscribe: toList(m.List, pfx, st.entries[tg])},
			Extension: toExts(m.Ext)}
	}
	return viaWire(req)
}

// diffSubReq names the first difference between what a target got and what it
// must get ("" = none).
func diffSubReq(got, want *gpb.SubscribeRequest) string {
	g, w := got.GetSubscribe(), want.GetSubscribe()
	if g == nil {
		return "the forwarded request carries no SubscriptionList"
	}
	switch {
	case g.GetPrefix().GetTarget() != w.GetPrefix().GetTarget():
		return fmt.Sprintf("prefix target is %q, want %q", g.GetPrefix().GetTarget(), w.GetPrefix().GetTarget())
	case g.GetPrefix().GetOrigin() != w.GetPrefix().GetOrigin():
		return fmt.Sprintf("prefix origin is %q, want %q", g.GetPrefix().GetOrigin(), w.GetPrefix().GetOrigin())
	case !proto.Equal(&gpb.Path{Elem: g.GetPrefix().GetElem()}, &gpb.Path{Elem: w.GetPrefix().GetElem()}):
		return fmt.Sprintf("prefix elements are %v, want %v", g.GetPrefix().GetElem(), w.GetPrefix().GetElem())
	case g.Mode != w.Mode:
		return fmt.Sprintf("list mode is %v, want %v", g.Mode, w.Mode)
	case !proto.Equal(g.Qos, w.Qos):
		return fmt.Sprintf("qos is {%v} (present=%v), want {%v} (present=%v)", g.Qos, g.Qos != nil, w.Qos, w.Qos != nil)
	case g.AllowAggregation != w.AllowAggregation:
		return fmt.Sprintf("allow_aggregation is %v, want %v", g.AllowAggregation, w.AllowAggregation)
	case !proto.Equal(&gpb.SubscriptionList{UseModels: g.UseModels}, &gpb.SubscriptionList{UseModels: w.UseModels}):
		return fmt.Sprintf("use_models is %v, want %v", g.UseModels, w.UseModels)
	case g.Encoding != w.Encoding:
		return fmt.Sprintf("encoding is %v, want %v", g.Encoding, w.Encoding)
	case g.UpdatesOnly != w.UpdatesOnly:
		return fmt.Sprintf("updates_only is %v, want %v", g.UpdatesOnly, w.UpdatesOnly)
	case !proto.Equal(&gpb.SubscribeRequest{Extension: got.Extension}, &gpb.SubscribeRequest{Extension: want.Extension}):
		return fmt.Sprintf("extensions are %v, want %v", got.Extension, want.Extension)
	}
	if len(g.Subscription) != len(w.Subscription) {
		return fmt.Sprintf("%d subscription entries, want %d:\n   got  %v\n   want %v", len(g.Subscription), len(w.Subscription), g.Subscription, w.Subscription)
	}
	for i := range w.Subscription {
		if !proto.Equal(g.Subscription[i], w.Subscription[i]) {
			return fmt.Sprintf("entry #%d is {%v}, want {%v}", i, g.Subscription[i], w.Subscription[i])
		}
	}
	if !proto.Equal(got, want) {
		return fmt.Sprintf("request differs: got {%v}, want {%v}", got, want)
	}
	return ""
}

// ---- execution ------------------------------------------------------------------------

type world struct {
	c        SubCase
	x        *vstat.Ctx
	conns    *fakeConns
	stream   *fakeStream
	emitted  []bool
	expSent  []*gpb.SubscribeResponse
	relayErr []string
	relayed  int
}

func (w *world) emit(i int, live bool) error {
	if w.emitted[i] {
		return nil
	}
	w.emitted[i] = true
	e := w.c.Emits[i]
	cl := w.conns.clients[e.Target]
	if cl == nil || cl.handler == nil || len(e.Resps) == 0 {
		w.x.Class("emit:none(client not subscribed or nothing to say)")
		return nil
	}
	for j, r := range e.Resps {
		onWire, err := viaWire(toResp(r))
		if err != nil {
			return err
		}
		keep, _ := viaWire(toResp(r))
		w.expSent = append(w.expSent, keep)
		w.relayed++
		w.x.Logf("  target %s emits response %d/%d (live=%v): %v", e.Target, j+1, len(e.Resps), live, onWire)
		func() {
			defer func() {
				if p := recover(); p != nil {
					w.relayErr = append(w.relayErr, fmt.Sprintf("relaying a response of target %s panicked: %v", e.Target, p))
				}
			}()
			if herr := cl.handler(onWire); herr != nil {
				w.relayErr = append(w.relayErr, fmt.Sprintf("relaying a response of target %s failed although the subscriber accepted it: %v", e.Target, herr))
			}
		}()
	}
	if live {
		w.x.Class("emit:while-stream-open")
	} else {
		w.x.Class("emit:after-handler-returned")
	}
	return nil
}

func isRapidControl(p any) bool {
	s := fmt.Sprintf("%T", p)
	return strings.HasPrefix(s, "rapid.") || strings.HasPrefix(s, "*rapid.")
}

// cleanStack keeps the frames of the code under test, without goroutine ids,
// argument words and pc offsets: the message of a violation must be identical
// on every execution of the same case (rapid refuses to shrink otherwise).
func cleanStack(stack string) string {
	lines := strings.Split(stack, "\n")
	var out []string
	for i := 0; i+1 < len(lines); i++ {
		fn := lines[i]
		if !strings.Contains(fn, "onosproject/onos-config/") || strings.HasPrefix(fn, "\t") {
			continue
		}
		if k := strings.LastIndex(fn, "("); k > 0 {
			fn = fn[:k]
		}
		loc := strings.TrimSpace(lines[i+1])
		if k := strings.Index(loc, " +0x"); k > 0 {
			loc = loc[:k]
		}
		out = append(out, "    "+fn+"\n        "+loc)
	}
	return strings.Join(out, "\n")
}

func callSubscribe(s *nb.Server, st *fakeStream) (err error, pv any, stack string) {
	defer func() {
		if p := recover(); p != nil {
			if isRapidControl(p) {
				panic(p)
			}
			pv, stack = p, cleanStack(string(debug.Stack()))
		}
	}()
	return s.Subscribe(st), nil, ""
}

func describeMsg(m MsgJ) string {
	if m.Kind != "subscribe" {
		return m.Kind
	}
	var b strings.Builder
	b.WriteString("subscribe{prefix:")
	switch {
	case m.List.Prefix == nil:
		b.WriteString("absent")
	default:
		fmt.Fprintf(&b, "{target:%q origin:%q elems:%d}", m.List.Prefix.Target, m.List.Prefix.Origin, len(m.List.Prefix.Elems))
	}
	fmt.Fprintf(&b, " mode:%v entries:[", gpb.SubscriptionList_Mode(m.List.Mode))
	for i, e := range m.List.Entries {
		if i > 0 {
			b.WriteString(" ")
		}
		if e.Path == nil {
			b.WriteString("<no path>")
		} else {
			fmt.Fprintf(&b, "%q", e.Path.Target)
		}
	}
	fmt.Fprintf(&b, "] ext:%d}", len(m.Ext))
	return b.String()
}

func contains(xs []string, s string) bool {
	for _, x := range xs {
		if x == s {
			return true
		}
	}
	return false
}

func runSubCase(c SubCase, x *vstat.Ctx) error {
	// ---- world
	ctx, cancel := context.WithCancel(context.Background())
	defer cancel()
	if c.MD {
		ctx = metadata.NewIncomingContext(ctx, metadata.Pairs("name", c.MDName, "groups", c.MDGroups, "email", "a@b.c"))
		x.Class("ctx:with-identity-metadata")
	}
	st := &fakeStream{ctx: ctx}
	switch c.End {
	case "eof":
		st.endErr = io.EOF
	default:
		st.endErr = status.Error(codes.Canceled, "context canceled")
	}
	var descr []string
	for i, m := range c.Msgs {
		b, err := wireBytes(m)
		if err != nil {
			return fmt.Errorf("harness: message %d does not marshal: %v", i, err)
		}
		r, err := decodeReq(b)
		if err != nil {
			return fmt.Errorf("harness: message %d does not unmarshal: %v", i, err)
		}
		st.msgs = append(st.msgs, r)
		descr = append(descr, describeMsg(m))
		x.Class("msg:" + m.Kind)
	}
	conns := &fakeConns{clients: map[string]*fakeClient{}}
	for _, tg := range c.Connected {
		conns.clients[tg] = &fakeClient{target: tg, cur: func() int { return st.recvCalls - 1 }, subFails: contains(c.SubscribeFails, tg), pollFails: contains(c.PollFails, tg)}
	}
	w := &world{c: c, x: x, conns: conns, stream: st, emitted: make([]bool, len(c.Emits))}
	var harnessErr error
	st.onRecv = func(k int) {
		for i, e := range c.Emits {
			if e.At == k {
				if err := w.emit(i, true); err != nil && harnessErr == nil {
					harnessErr = err
				}
			}
		}
	}
	x.Sample(map[string]any{"connected": c.Connected, "msgs": descr, "end": c.End, "emits": len(c.Emits)})
	x.Logf("connected targets %v (client.Subscribe fails for %v); stream: %s; then %s", c.Connected, c.SubscribeFails, strings.Join(descr, " | "), c.End)

	// ---- run the real handler
	srv := nb.NewServerForVerif(nil, nil, nil, nil, nil, conns, 0)
	err, pv, stack := callSubscribe(srv, st)
	if harnessErr != nil {
		return fmt.Errorf("harness: %v", harnessErr)
	}
	x.Logf("Subscribe returned err=%v panic=%v after %d Recv calls", err, pv, st.recvCalls)

	// ---- compare with the statement, message by message
	steps := plan(c.Msgs)
	panicAt := -1
	if pv != nil {
		panicAt = st.recvCalls - 1
	}
	checked := 0
	subscribedTargets := map[string]bool{}
	refusedAt := -1
	namedCount, pollsDone := 0, 0
	for i, sp := range steps {
		m := c.Msgs[i]
		if i == panicAt {
			return classifyPanic(c, i, sp, pv, stack, x)
		}
		if i >= st.recvCalls {
			return vstat.Violf("message #%d (%s) was never read from the stream although nothing before it had to be refused (Subscribe returned %v)", i, descr[i], err)
		}
		// what each connected client saw while this message was processed
		for _, tg := range c.Connected {
			cl := conns.clients[tg]
			var evs []clientEvent
			for _, ev := range cl.events {
				if ev.msg == i {
					evs = append(evs, ev)
				}
			}
			checked += len(evs)
			kinds := make([]string, len(evs))
			for k, ev := range evs {
				kinds[k] = ev.kind
			}
			switch {
			case sp.refuse != "":
				if len(evs) != 0 {
					return vstat.Violf("message #%d is %s and must be refused, but target %s received %v", i, sp.refuse, tg, kinds)
				}
			case sp.poll:
				want := 0
				if subscribedTargets[tg] {
					want = 1
				}
				if cl.subFails && contains(kinds, "poll") && len(evs) == 1 {
					// the client's Subscribe failed: whether it is polled is not part of the statement
					x.Class("obs:poll-sent-to-client-whose-subscribe-failed")
					continue
				}
				if len(evs) != want || (want == 1 && evs[0].kind != "poll") {
					if want == 1 {
						return vstat.Violf("poll (message #%d) must reach subscribed target %s exactly once, it received %v", i, tg, kinds)
					}
					return vstat.Violf("poll (message #%d): target %s is not subscribed on this stream but received %v", i, tg, kinds)
				}
			default: // accepted subscribe
				idx, isNamed := sp.entries[tg]
				if !isNamed {
					if len(evs) != 0 {
						return vstat.Violf("subscribe (message #%d %s) does not name target %s, yet its client received %v: %v", i, descr[i], tg, kinds, evs[0].req)
					}
					continue
				}
				if len(evs) != 1 || evs[0].kind != "subscribe" {
					return vstat.Violf("subscribe (message #%d %s) names target %s: its client must receive exactly one Subscribe query, it received %v", i, descr[i], tg, kinds)
				}
				ev := evs[0]
				if ev.req == nil {
					return vstat.Violf("the query for target %s carries no SubReq (the client would rebuild a request from path strings and lose the entries' options)", tg)
				}
				if !ev.hasHandler {
					return vstat.Violf("the query for target %s has no ProtoHandler: its responses cannot be relayed", tg)
				}
				want, werr := expectedSubReq(m, sp, tg)
				if werr != nil {
					return fmt.Errorf("harness: %v", werr)
				}
				if d := diffSubReq(ev.req, want); d != "" {
					which := "the entries naming it"
					if idx == nil {
						which = "all entries (the prefix names it)"
					}
					return vstat.Violf("subscribe (message #%d %s): the request forwarded to target %s must hold %s with the original options; %s", i, descr[i], tg, which, d)
				}
				if !cl.subFails {
					subscribedTargets[tg] = true
				} else {
					x.Class("obs:client-subscribe-error-not-reported-to-subscriber")
				}
			}
		}
		// bookkeeping for classes / non-trivial rule
		switch {
		case sp.refuse != "":
			refusedAt = i
		case sp.poll:
			pollsDone++
		default:
			namedCount = len(sp.named)
			for _, tg := range sp.named {
				if !contains(c.Connected, tg) {
					x.Class("obs:named-target-not-connected(skipped silently)")
				}
			}
			classifySubscribe(m, sp, x)
		}
		if sp.refuse != "" {
			break
		}
	}
	if panicAt >= 0 {
		// a panic outside the processing of a planned message (after a refusal that was let through is caught above)
		return vstat.Violf("Subscribe panicked while no message was being processed (Recv calls: %d): %v\n%s", st.recvCalls, pv, stack)
	}

	if refusedAt >= 0 {
		x.Class("refused:" + steps[refusedAt].refuse)
		if st.recvCalls != refusedAt+1 || err == nil {
			return vstat.Violf("message #%d is %s: Subscribe must stop there with an error; it returned err=%v after reading %d message(s)/end markers", refusedAt, steps[refusedAt].refuse, err, st.recvCalls)
		}
	} else {
		if st.recvCalls != len(c.Msgs)+1 {
			return vstat.Violf("every message is acceptable, yet Subscribe returned (err=%v) after %d Recv calls instead of %d", err, st.recvCalls, len(c.Msgs)+1)
		}
		// What Subscribe returns when the subscriber goes away is not part of the statement; recorded only.
		x.Class(fmt.Sprintf("end:%s->returned-error=%v", c.End, err != nil))
	}

	// responses still to come (their point on the stream was never reached)
	for i := range c.Emits {
		if err := w.emit(i, false); err != nil {
			return fmt.Errorf("harness: %v", err)
		}
	}

	// nobody received anything that was not accounted for above
	total := 0
	for _, tg := range c.Connected {
		for _, ev := range conns.clients[tg].events {
			total++
			if ev.kind != "subscribe" && ev.kind != "poll" {
				return vstat.Violf("the client of target %s received an unexpected %s call", tg, ev.kind)
			}
		}
	}
	if total != checked {
		return vstat.Violf("clients received %d calls, only %d are explained by the messages processed", total, checked)
	}
	if len(conns.other) > 0 {
		return vstat.Violf("Subscribe used the connection manager for %v", conns.other)
	}
	if len(st.misuse) > 0 {
		return vstat.Violf("Subscribe used the subscriber stream in an unexpected way: %v", st.misuse)
	}

	// relay: the subscriber sees exactly what the targets sent
	if len(w.relayErr) > 0 {
		return vstat.Violf("%s", w.relayErr[0])
	}
	if len(st.sent) != len(w.expSent) {
		return vstat.Violf("targets emitted %d responses through subscribed clients, the subscriber received %d", len(w.expSent), len(st.sent))
	}
	for i := range w.expSent {
		if !proto.Equal(st.sent[i], w.expSent[i]) {
			return vstat.Violf("relayed response #%d was changed on the way: sent by target {%v}, received by subscriber {%v}", i, w.expSent[i], st.sent[i])
		}
	}

	// ---- non-trivial rule: >= 2 targets, or a poll after a subscribe, or a relayed response
	if namedCount >= 2 {
		x.NonTrivial(">=2 targets named")
	}
	if pollsDone > 0 {
		x.NonTrivial("poll after subscribe")
	}
	if w.relayed > 0 {
		x.NonTrivial("relayed response")
	}
	return nil
}

func classifySubscribe(m MsgJ, sp step, x *vstat.Ctx) {
	l := m.List
	switch {
	case l.Prefix == nil:
		x.Class("prefix:absent")
	case l.Prefix.Target != "" && (len(l.Prefix.Elems) > 0 || l.Prefix.Origin != ""):
		x.Class("prefix:target+elems/origin")
	case l.Prefix.Target != "":
		x.Class("prefix:target")
	case len(l.Prefix.Elems) > 0 || l.Prefix.Origin != "":
		x.Class("prefix:elems/origin,no-target")
	default:
		x.Class("prefix:present-empty")
	}
	x.Class(fmt.Sprintf("listmode:%v", gpb.SubscriptionList_Mode(l.Mode)))
	x.Class(fmt.Sprintf("targets-named:%d", len(sp.named)))
	switch n := len(l.Entries); {
	case n == 0:
		x.Class("entries:0")
	case n <= 2:
		x.Class("entries:1-2")
	default:
		x.Class("entries:3-8")
	}
	for _, e := range l.Entries {
		switch {
		case sp.whole && e.Path != nil && e.Path.Target != "" && e.Path.Target != l.Prefix.Target:
			x.Class("obs:prefix-target-wins-over-entry-target")
		case !sp.whole && (e.Path == nil || e.Path.Target == ""):
			x.Class("obs:entry-without-target-dropped-while-others-forwarded")
		}
		x.Class(fmt.Sprintf("entrymode:%v", gpb.SubscriptionMode(e.Mode)))
	}
}

// classifyPanic decides what a panic of the handler while processing message i means.
func classifyPanic(c SubCase, i int, sp step, pv any, stack string, x *vstat.Ctx) error {
	m := c.Msgs[i]
	firstSubscribe := m.Kind == "subscribe" && sp.refuse != "a second subscription on the same stream"
	type match struct{ id, what string }
	var ms []match
	// Trigger of F-subscribe-nil-prefix: the first subscription on the stream has a SubscriptionList without prefix.
	if firstSubscribe && m.List.Prefix == nil {
		ms = append(ms, match{fNilPrefix, "a Subscribe whose SubscriptionList has no prefix panics (nil pointer dereference of subs.Prefix in splitSubscribeRequest) instead of being split by the entries' own targets or refused"})
	}
	// Trigger of F-subscribe-nil-path: the prefix names no target (so the entries are inspected) and an entry has no path field.
	if firstSubscribe && prefixTarget(m.List) == "" {
		for _, e := range m.List.Entries {
			if e.Path == nil {
				ms = append(ms, match{fNilPath, "a Subscribe without prefix target holding an entry without path panics (nil pointer dereference of sub.Path in splitSubscribeRequest) instead of treating the entry as naming no target"})
				break
			}
		}
	}
	for _, k := range ms {
		if vstat.IsKnown(prop, k.id) {
			x.Known(k.id, k.what)
			x.Class("known:" + k.id)
			return nil // the handler is dead: nothing behind this message can be observed
		}
	}
	if len(ms) > 0 {
		return vstat.Violf("%s: message #%d %s: %s\npanic: %v\n%s", ms[0].id, i, describeMsg(m), ms[0].what, pv, stack)
	}
	if sp.refuse != "" {
		return vstat.Violf("message #%d is %s and must be refused with an error, but the handler panicked: %v\n%s", i, sp.refuse, pv, stack)
	}
	return vstat.Violf("the handler panicked on acceptable message #%d %s (also C12 material): %v\n%s", i, describeMsg(m), pv, stack)
}

// TestC19_SubscribeAnyStream: any wire-decodable message sequence on one
// stream (all prefix shapes including absent, entries without path/target,
// unknown targets, refusal cases, failing clients).
func TestC19_SubscribeAnyStream(t *testing.T) {
	vstat.Run(t, prop, genCase(profile{wild: true}), runSubCase)
}

// TestC19_MultiTargetSession: well-formed sessions over 2-4 targets (prefix
// always present) with polls and relayed responses; never touches the shapes
// of the listed findings, so the split/poll/relay oracle is exercised densely.
func TestC19_MultiTargetSession(t *testing.T) {
	vstat.Run(t, prop, genCase(profile{wild: false}), runSubCase)
}
