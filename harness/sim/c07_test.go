package sim

import (
	"fmt"
	"strings"
	"testing"

	"pgregory.net/rapid"

	"verif/harness/vstat"
)

// C07Case is a scenario whose every crash position is enumerated.
type C07Case struct {
	Sc Scenario `json:"scenario"`
	// Pair, when >= 0, adds a second crash that many effect points after the restart (sampled pairs).
	Pair int `json:"pair"`
	// Reverse: after the crash the replayed work is taken up newest first (a successor before the
	// transaction that was interrupted).
	Reverse bool `json:"reverse"`
	// Straggler k > 0: the k-th work item replayed after the crash is taken up only when nothing else can run.
	Straggler int `json:"straggler"`
	// Hold > 0: the straggler also waits until that many more requests of the scenario have been issued
	Hold int `json:"hold,omitempty"`
	// Interrupted: the straggler is the item whose reconcile the crash interrupted (instead of the Straggler-th)
	Interrupted bool `json:"interrupted,omitempty"`
}

func genC07(rt *rapid.T) C07Case {
	sc := genScenario(rt, Profile{MinTargets: 1, MaxTargets: 2, MinSets: 2, MaxSets: 4, MultiTarget: true, Poison: true, Refuse: true, Rollbacks: true,
		Offline: true, Preempt: 0, Drawn: false, MaxOpsPerTarget: 2})
	return C07Case{Sc: sc, Pair: rapid.IntRange(-1, 12).Draw(rt, "pair"), Reverse: rapid.IntRange(0, 1).Draw(rt, "reverse") == 1,
		Straggler: max(0, rapid.IntRange(-4, 12).Draw(rt, "straggler")), Hold: max(0, rapid.IntRange(-1, 1).Draw(rt, "hold")),
		Interrupted: rapid.IntRange(0, 2).Draw(rt, "interrupted") == 0}
}

func c07Final(r *Run, label string) error {
	if err := r.CheckTerminal(label); err != nil {
		return err
	}
	if err := r.CheckStored(label); err != nil {
		return err
	}
	if err := r.CheckDevices(label); err != nil {
		return err
	}
	// no index skipped: every target's cursors reach the last index that touched it
	for _, t := range r.Sc.TargetIDs() {
		c := r.W.Config(t)
		if c == nil {
			continue
		}
		if c.Status.Committed.Index != c.Status.Proposed.Index || c.Status.Applied.Index != c.Status.Proposed.Index {
			return vstat.Violf("%s: cursors of %s did not reach the last proposal (proposed %d, committed %d, applied %d)", label, t, c.Status.Proposed.Index, c.Status.Committed.Index, c.Status.Applied.Index)
		}
	}
	return checkFixedPoint(r)
}

func runC07(c C07Case, x *vstat.Ctx) error {
	x.Sample(describeScenario(c.Sc))
	if c.Reverse {
		x.Class("replay-after-crash:newest-first")
	}
	if c.Interrupted {
		x.Class("replay-after-crash:the-interrupted-item-is-the-straggler")
	} else if c.Straggler > 0 {
		x.Class("replay-after-crash:one-straggler")
	}
	if c.Hold > 0 {
		x.Class("replay-after-crash:the-next-request-arrives-before-the-straggler-is-taken-up")
	}
	for _, t := range c.Sc.Targets {
		if !t.Online {
			x.Class("a target connects only after all requests (proposals queue up in the apply phase)")
			break
		}
	}
	// 1. the crash-free run counts the effect points
	base, err := Execute(x, c.Sc, nil, func(r *Run) { r.Prep = func(w *World) { w.S.RecordEffects = true } })
	if err != nil {
		base.Close()
		return err
	}
	ops := append([]string{}, base.W.S.EffectOps...)
	subWrites := append([]int{}, base.W.S.EffectWrites...)
	if err := c07Final(base, "crash-free run"); err != nil {
		base.Close()
		return err
	}
	base.Close()
	k := len(ops)
	x.Logf("crash-free run: %d effect points", k)
	x.Class(fmt.Sprintf("effect-points:%d0s", k/10))
	// 2. every single crash position, and the intra-call position of every two-phase configuration write
	type pos struct {
		at  int
		mid bool
		k   int // cut before the k-th Atomix write of the call
	}
	var all []pos
	for p := 0; p < k; p++ {
		if strings.HasPrefix(ops[p], "nb:") {
			continue // the handler's own write: a crash before it means the request was never accepted
		}
		all = append(all, pos{p, false, 0})
		// the configuration store's methods consist of several Atomix writes: cut before each but the first
		for j := 2; p < len(subWrites) && j <= subWrites[p]; j++ {
			all = append(all, pos{p, true, j})
		}
	}
	nontrivial := 0
	for _, p := range all {
		label := fmt.Sprintf("crash before effect %d/%d (%s)", p.at, k, ops[p.at])
		if p.mid {
			label = fmt.Sprintf("crash inside effect %d/%d (%s: before Atomix write %d of %d)", p.at, k, ops[p.at], p.k, subWrites[p.at])
		}
		x.Logf("=== %s", label)
		second := -1
		r, err := Execute(x, c.Sc, nil, func(r *Run) {
			r.Prep = func(w *World) {
				w.S.CrashAt, w.S.CrashMid, w.S.CrashMidK = p.at, p.mid, p.k
				w.S.ReverseReplay = c.Reverse
				w.S.DeferReplayed = c.Straggler - 1
				w.S.StragglerHold = c.Hold
				w.S.DeferInterrupted = c.Interrupted
				if c.Interrupted {
					w.S.DeferReplayed = -1
				}
				if c.Pair >= 0 {
					prev := w.S.OnRestart
					w.S.OnRestart = func() {
						if prev != nil {
							prev()
						}
						if second < 0 {
							second = w.S.Effects() + c.Pair
							w.S.CrashAt, w.S.CrashMid = second, false
						}
					}
				}
			}
		})
		if err != nil {
			r.Close()
			return vstat.Violf("%s: %v", label, err)
		}
		if r.W.S.Crashes > 0 {
			nontrivial++
			x.Class("crash-in:" + ops[p.at])
			if p.mid {
				x.Class("crash:intra-call")
			}
			if r.W.S.Crashes > 1 {
				x.Class("crash:pair")
			}
		} else {
			x.Class("crash:position-not-reached")
		}
		err = c07Final(r, label)
		r.Close()
		if err != nil {
			return err
		}
	}
	if nontrivial > 0 {
		x.NonTrivial("crash positions strictly inside a transaction's lifetime were enumerated")
	}
	vstat.SetExtraAdd("C07", "TestC07_CrashAnywhere", "crash_runs", len(all))
	return nil
}

// TestC07_CrashAnywhere: for every position between two persisted effects of a
// scenario (and inside the two-phase configuration writes), crash there,
// restart, and compare the final state with the crash-free outcome.
func TestC07_CrashAnywhere(t *testing.T) {
	vstat.Run(t, "C07", genC07, runC07)
}
