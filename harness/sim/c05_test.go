package sim

import (
	"encoding/json"
	"fmt"
	"strings"
	"testing"

	configapi "github.com/onosproject/onos-api/go/onos/config/v2"
	"google.golang.org/grpc/codes"
	"pgregory.net/rapid"

	"verif/harness/fakes"
	"verif/harness/model"
	"verif/harness/vstat"
)

func genC05(rt *rapid.T) Scenario {
	sc := genScenario(rt, Profile{MinTargets: 1, MaxTargets: 2, MinSets: 2, MaxSets: 6, MultiTarget: true, Poison: true, Rollbacks: true,
		Preempt: 2, Drawn: true, MaxOpsPerTarget: 3})
	// a target without a model plugin joins some scenarios
	if rapid.IntRange(0, 3).Draw(rt, "noplugin") == 0 {
		sc.Targets = append(sc.Targets, TargetSpec{ID: "t9", Online: true, NoPlugin: true})
		v := model.Str("v1")
		sc.Actions = append(sc.Actions, Action{Kind: "set", Set: &SetSpec{Ops: []model.Op{{Kind: "update", Target: "t9", Path: model.Parse("/a/b"), Val: &v}}}})
	}
	return sc
}

// validationMonitor implements C05 (b): whenever a proposal's change is merged
// (Committed.Index moves to i and proposal i is in its commit phase), a
// Validate stream issued by proposal i's own reconcile answered "valid"
// earlier, and the document it carried is, leaf for leaf, what Get returns
// right after the merge. (a): every chunk <= 100000 bytes, concatenation valid JSON.
type validationMonitor struct {
	lastCommitted map[string]configapi.Index
	seenCalls     int
	twoInFlight   bool
	bigDoc        bool
	rejected      bool
	merges        int
}

func (m *validationMonitor) check(r *Run, info StepInfo) error {
	calls := r.W.Plugin.Calls()
	for _, c := range calls[m.seenCalls:] {
		total := 0
		for _, n := range c.Chunks {
			if n > 100000 {
				return vstat.Violf("the model plugin received a chunk of %d bytes (limit 100000) for %s", n, c.Tag)
			}
			total += n
		}
		if total != len(c.Doc) {
			return vstat.Violf("chunk sizes %v do not add up to the document (%d bytes)", c.Chunks, len(c.Doc))
		}
		if c.Err != "" || !json.Valid(c.Doc) {
			return vstat.Violf("the model plugin received a document that is not valid RFC 7951 JSON for %s: %s", c.Tag, c.Err)
		}
		if len(c.Doc) >= 100000 {
			m.bigDoc = true
		}
		if !c.Valid {
			m.rejected = true
		}
	}
	m.seenCalls = len(calls)
	for _, t := range r.Sc.TargetIDs() {
		c := r.W.Config(t)
		if c == nil {
			continue
		}
		if c.Status.Committed.Index == m.lastCommitted[t] {
			continue
		}
		idx := c.Status.Committed.Index
		m.lastCommitted[t] = idx
		p := r.Proposal(t, int(idx))
		if p == nil || p.Status.Phases.Commit == nil {
			continue // the index moved past an aborted proposal: nothing was merged
		}
		m.merges++
		tag := fmt.Sprintf("proposal %s-%d", t, idx)
		var doc *fakes.ValidateCall
		for i := range calls {
			if calls[i].Tag == tag {
				doc = &calls[i] // the last validation of this proposal
			}
		}
		if doc == nil {
			return vstat.Violf("the change of transaction %d was merged into the configuration of %s although no document was ever validated for it", idx, t)
		}
		if !doc.Valid {
			return vstat.Violf("the change of transaction %d was merged into the configuration of %s although the model plugin rejected its document (%s)", idx, t, doc.Msg)
		}
		got, _, err := r.W.GetProtoConfig(t)
		if err != nil {
			return vstat.Violf("Get %s failed right after the merge of transaction %d: %v", t, idx, err)
		}
		want := model.WithImpliedKeys(got, r.W.Schema)
		if d := model.DiffFlat(doc.Flat, want); d != "" {
			return vstat.Violf("the document validated for transaction %d on %s is not the configuration that became readable (document vs Get): %s", idx, t, d)
		}
	}
	// two proposals of one target validating/unfinished while the earlier is uncommitted
	if r.InFlight >= 2 {
		m.twoInFlight = true
	}
	return nil
}

func runC05(sc Scenario, x *vstat.Ctx) error {
	m := &validationMonitor{lastCommitted: map[string]configapi.Index{}}
	r, err := Execute(x, sc, func(r *Run, info StepInfo) error { return m.check(r, info) }, func(r *Run) {
		r.CountInFlight = true
		r.Prep = func(w *World) {
			w.Plugin.OnValidate = func() string {
				if cur := w.S.Current(); cur != nil {
					return cur.Ctl + " " + cur.ID
				}
				return "?"
			}
		}
	})
	defer r.Close()
	x.Sample(describeScenario(sc))
	if err != nil {
		return err
	}
	if m.twoInFlight {
		x.NonTrivial("two proposals of one target in flight while the earlier was uncommitted")
	}
	if m.rejected {
		x.NonTrivial("a rejected verdict")
	}
	if m.bigDoc {
		x.NonTrivial("document >= 100000 bytes")
	}
	x.Class(fmt.Sprintf("merges:%d", min(m.merges, 6)))
	// (c) a rejected Set, or one for which no plugin exists, is answered with an error and changes nothing
	for i, a := range sc.Actions {
		call := r.Calls[i]
		if a.Kind != "set" || call == nil {
			continue
		}
		if len(a.Set.Targets()) == 1 && a.Set.Targets()[0] == "t9" {
			if call.Created || call.Err == nil {
				return vstat.Violf("a Set for a target without a model plugin was accepted (created=%v, answer %v)", call.Created, call.Err)
			}
			x.Class("no-plugin:refused:" + Code(call.Err).String())
			continue
		}
		if r.RefTxs[i] != nil && r.RefTxs[i].Outcome == "invalid" && call.Done() && Code(call.Err) != codes.InvalidArgument {
			return vstat.Violf("a Set the model plugin rejects was answered with %v", call.Err)
		}
	}
	if r.W.Config("t9") != nil {
		return vstat.Violf("a configuration was created for the target without a model plugin")
	}
	return r.CheckStored("at quiescence")
}

// TestC05_ValidatedIsCommitted: nothing is merged without a valid verdict on
// exactly the document that becomes readable.
func TestC05_ValidatedIsCommitted(t *testing.T) {
	vstat.Run(t, "C05", genC05, runC05)
}

// ---- document sizes across the 100 kB chunk boundary ------------------------

// C05SizeCase steers the candidate document to an exact byte length.
type C05SizeCase struct {
	Len   int  `json:"len"`   // target document length in bytes
	Extra int  `json:"extra"` // extra small leaves present in the configuration
	Bad   bool `json:"bad"`   // the big document is one the plugin rejects
}

func genC05Size(rt *rapid.T) C05SizeCase {
	base := []int{100000, 200000, 300000}[rapid.IntRange(0, 2).Draw(rt, "boundary")]
	off := rapid.IntRange(-2, 2).Draw(rt, "offset")
	l := base + off
	if rapid.IntRange(0, 5).Draw(rt, "random") == 0 {
		l = rapid.IntRange(1000, 260000).Draw(rt, "len")
	}
	return C05SizeCase{Len: l, Extra: rapid.IntRange(0, 4).Draw(rt, "extra"), Bad: rapid.IntRange(0, 4).Draw(rt, "bad") == 0}
}

func runC05Size(c C05SizeCase, x *vstat.Ctx) error {
	w, err := NewWorld(x, Options{Targets: []TargetSpec{{ID: "t1"}}})
	if err != nil {
		return err
	}
	defer w.Close()
	if err := w.S.Run(); err != nil {
		return err
	}
	pad := func(n int) *model.Value { v := model.Str(strings.Repeat("p", n)); return &v }
	ops := []model.Op{{Kind: "update", Target: "t1", Path: model.Parse("/pad"), Val: pad(10)}}
	for i := 0; i < c.Extra; i++ {
		v := model.Str(fmt.Sprintf("v%d", i))
		ops = append(ops, model.Op{Kind: "update", Target: "t1", Path: model.Path{{Name: "l1", Keys: map[string]string{"id": model.KeyPools["id"][i]}}, {Name: "v"}}, Val: &v})
	}
	if c.Bad {
		v := model.Uint(9)
		ops = append(ops, model.Op{Kind: "update", Target: "t1", Path: model.Parse("/limits/max"), Val: &v})
	}
	call, err := submitAndSettle(w, "base", SetSpec{Ops: ops})
	if err != nil {
		return err
	}
	if call.Err != nil {
		return vstat.Violf("base Set failed: %v", call.Err)
	}
	calls := w.Plugin.Calls()
	d0 := len(calls[len(calls)-1].Doc)
	// the next request changes only /pad (and, for a rejected document, /limits/min to a value > max of the same width)
	n := 10 + c.Len - d0
	next := []model.Op{{Kind: "update", Target: "t1", Path: model.Parse("/pad"), Val: pad(n)}}
	if c.Bad {
		// base has max=9 and no min; adding min=10 (two digits) changes the document by a known amount,
		// measure it with a second small request first
		v := model.Uint(1)
		call, err := submitAndSettle(w, "min", SetSpec{Ops: []model.Op{{Kind: "update", Target: "t1", Path: model.Parse("/limits/min"), Val: &v}}})
		if err != nil {
			return err
		}
		if call.Err != nil {
			return vstat.Violf("second base Set failed: %v", call.Err)
		}
		calls = w.Plugin.Calls()
		d1 := len(calls[len(calls)-1].Doc)
		n = 10 + c.Len - d1 - 1 // min goes from "1" to "10": one more byte
		v10 := model.Uint(10)
		next = []model.Op{{Kind: "update", Target: "t1", Path: model.Parse("/pad"), Val: pad(n)}, {Kind: "update", Target: "t1", Path: model.Parse("/limits/min"), Val: &v10}}
	}
	if n < 0 {
		return vstat.ErrSkip
	}
	before, _, _ := w.GetProto("t1", nil)
	call, err = submitAndSettle(w, "big", SetSpec{Ops: next})
	if err != nil {
		return err
	}
	calls = w.Plugin.Calls()
	last := calls[len(calls)-1]
	x.Class(fmt.Sprintf("chunks:%d", len(last.Chunks)))
	if len(last.Doc) != c.Len {
		x.Class("size-steering-missed")
		x.Logf("document is %d bytes, wanted %d", len(last.Doc), c.Len)
	} else {
		switch {
		case c.Len%100000 == 0:
			x.NonTrivial("document exactly a multiple of the chunk size")
		case c.Len >= 100000:
			x.NonTrivial("document larger than one chunk")
		}
	}
	x.Sample(map[string]any{"wanted_len": c.Len, "document_len": len(last.Doc), "chunks": last.Chunks, "rejected": c.Bad})
	total := 0
	for _, sz := range last.Chunks {
		if sz > 100000 {
			return vstat.Violf("a chunk of %d bytes was sent (limit 100000), document %d bytes", sz, len(last.Doc))
		}
		if sz == 0 {
			return vstat.Violf("an empty chunk was sent, chunks %v", last.Chunks)
		}
		total += sz
	}
	if last.Err != "" {
		return vstat.Violf("the %d-byte document did not arrive as valid JSON at the plugin (chunks %v): %s", len(last.Doc), last.Chunks, last.Err)
	}
	want := (len(last.Doc) + 99999) / 100000
	if len(last.Chunks) != want {
		x.Class(fmt.Sprintf("chunk-count:%d-instead-of-%d", len(last.Chunks), want))
	}
	after, _, err := w.GetProto("t1", nil)
	if err != nil {
		return err
	}
	if c.Bad {
		if Code(call.Err) != codes.InvalidArgument {
			return vstat.Violf("the plugin rejects the %d-byte document (min > max) but the Set was answered with %v", len(last.Doc), call.Err)
		}
		if d := model.DiffFlat(after, before); d != "" {
			return vstat.Violf("a rejected %d-byte document changed the configuration: %s", len(last.Doc), d)
		}
		return nil
	}
	if call.Err != nil {
		return vstat.Violf("the %d-byte document is valid but the Set was answered with %v", len(last.Doc), call.Err)
	}
	cfg, _, err := w.GetProtoConfig("t1")
	if err != nil {
		return err
	}
	if d := model.DiffFlat(last.Flat, model.WithImpliedKeys(cfg, w.Schema)); d != "" {
		return vstat.Violf("the %d-byte document the plugin saw is not the configuration that became readable: %s", len(last.Doc), d)
	}
	return nil
}

// TestC05_ChunkBoundary: documents of exactly, just below and just above
// multiples of the 100 kB chunk size arrive complete and are what is committed.
func TestC05_ChunkBoundary(t *testing.T) {
	vstat.Run(t, "C05", genC05Size, runC05Size)
}
