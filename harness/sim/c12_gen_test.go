package sim

// C12 generators: a grammar over every northbound request type. The generators
// build protobuf messages (including shapes only a hostile or broken client
// sends), the caller encodes them with the gRPC codec; what the server sees is
// always the DECODED bytes, so the domain is exactly "decodable from the wire".

import (
	"fmt"
	"math"
	"strings"

	gogoproto "github.com/gogo/protobuf/proto"
	adminapi "github.com/onosproject/onos-api/go/onos/config/admin"
	configapi "github.com/onosproject/onos-api/go/onos/config/v2"
	gpb "github.com/openconfig/gnmi/proto/gnmi"
	"github.com/openconfig/gnmi/proto/gnmi_ext"
	"google.golang.org/protobuf/proto"
	"google.golang.org/protobuf/types/known/anypb"
	"pgregory.net/rapid"

	"verif/harness/model"
)

type c12G struct {
	rt   *rapid.T
	tags map[string]bool
	n    int
}

func (g *c12G) tag(s string) { g.tags[s] = true }

func (g *c12G) label(s string) string { g.n++; return fmt.Sprintf("%s#%d", s, g.n) }

// pick draws an index in [0,n) close to uniformly. rapid's own integer
// generators are deliberately biased towards small values (IntRange(0,99) is
// below 6 in 35% of the draws), which would turn every "5% of the requests"
// below into a third of them; so a full-width draw is scrambled instead. The
// randomness is still rapid's: the case stays a pure function of the seed.
func (g *c12G) pick(n int, label string) int {
	if n <= 1 {
		return 0
	}
	g.n++
	return c12Pick(g.rt, n, fmt.Sprintf("%s#%d", label, g.n), uint64(g.n))
}

func c12Mix(z uint64) uint64 {
	z += 0x9e3779b97f4a7c15
	z = (z ^ (z >> 30)) * 0xbf58476d1ce4e5b9
	z = (z ^ (z >> 27)) * 0x94d049bb133111eb
	return z ^ (z >> 31)
}

func c12Pick(rt *rapid.T, n int, label string, salt uint64) int {
	if n <= 1 {
		return 0
	}
	v := rapid.Uint64().Draw(rt, label)
	return int(c12Mix(v^c12Mix(salt)) % uint64(n))
}

// pct is true with probability p/100.
func (g *c12G) pct(p int, label string) bool { return g.pick(100, label) < p }

// weighted draws an index with the given weights.
func (g *c12G) weighted(label string, w ...int) int {
	sum := 0
	for _, x := range w {
		sum += x
	}
	r := g.pick(sum, label)
	for i, x := range w {
		if r < x {
			return i
		}
		r -= x
	}
	return len(w) - 1
}

func (g *c12G) sortedTags() []string {
	out := make([]string, 0, len(g.tags))
	for t := range g.tags {
		out = append(out, t)
	}
	for i := 1; i < len(out); i++ {
		for j := i; j > 0 && out[j] < out[j-1]; j-- {
			out[j], out[j-1] = out[j-1], out[j]
		}
	}
	return out
}

// ---------------------------------------------------------------------------
// strings

var c12Long = strings.Repeat("A", 100*1024)

// c12Hostile: regular-expression metacharacters, path syntax characters,
// unbalanced brackets, '='-less keys, escapes, separators the value encoding
// uses, format verbs, control characters, non-ASCII, empty and very long text.
var c12Hostile = []string{
	"", "(", ")", "[", "]", "*", "+", "?", "\\", "{", "}", "|", "^", "$", "...", "..", ".", "/", "//", "=", ":", ",", ";", " ", "\t", "\n", "\x00", "\x1d",
	"a[x]", "a]", "a[", "[", "a[=]", "a[b=c", "[b=c]", "a[b=c]]", "a[[b=c]", "a[b=c][", "a[b]", "[]", "[=]", "[=", "=]", "a[=x]", "a[x=]", "a[b=c]d", "]a[",
	"a\\", "a\\]", "a\\/b", "\\[", "a/b", "/a", "a/", "a=b", "a=b/c", "=a", "a b", "a,b", "a+b", "a(b", "(?i)a", "a{2,1}", "[a-", "(?P<x>", "\\p{Nope}", "a|b", ".*", ".+",
	"*[*=*]", "*", "...", "%s%d%n%v", "%!", "\"", "'", "`", "<>", "&", "é", "日本語", "\u202e", "\ufeff", "\U0001F600", "0", "-1", "true", "null", "NaN",
	"all-targets", "configurations-x", "~s-1", "uuid:00000000-0000-0000-0000-000000000000", "t1-m1-1.0.0",
}

func (g *c12G) hostile(label string) string {
	i := g.pick(len(c12Hostile)+3, label)
	switch {
	case i < len(c12Hostile):
		return c12Hostile[i]
	case i == len(c12Hostile):
		g.tag("string:100kB")
		return c12Long
	case i == len(c12Hostile)+1:
		g.tag("string:100kB")
		return "a[" + c12Long + "=" + c12Long[:50000] + "]"
	default:
		// an invalid UTF-8 string: proto3 strings of the gnmi messages cannot carry it (the codec refuses to encode
		// and to decode it); the gogo-generated admin messages do not check
		g.tag("string:invalid-utf8")
		return "a\xff\xfeb"
	}
}

var c12TargetPool = []string{"t1", "t1", "t1", "t1", "t1", "t1", "t1", "t1", "t1", "t4", "t4", "t2", "t2", "t3", "nosuch", "", "*", "T1", "t1 ", "onos-config-0"}

func (g *c12G) target(label string) string {
	i := g.pick(len(c12TargetPool)+1, label)
	if i < len(c12TargetPool) {
		return c12TargetPool[i]
	}
	g.tag("target:hostile")
	return g.hostile(label + ".h")
}

// ---------------------------------------------------------------------------
// paths

// modelPath instantiates a schema leaf (or one of its ancestors) of M1.
func (g *c12G) modelPath(leafOnly bool) (model.Path, *model.LeafDef) {
	ld := model.M1[g.pick(len(model.M1), "leaf")]
	p := instantiate(g.rt, ld.Schema, g.label("inst"))
	if leafOnly || g.pct(60, "asleaf") {
		return p, &ld
	}
	d := 1 + g.pick(len(p), "depth")
	p = p[:d].Clone()
	if len(p[d-1].Keys) > 0 && g.pct(30, "unkey") {
		p[d-1].Keys = nil
	}
	if d == len(model.Parse(ld.Schema)) {
		return p, &ld
	}
	return p, nil
}

func c12ElemText(e *gpb.PathElem) string {
	s := e.Name
	ks := make([]string, 0, len(e.Key))
	for k := range e.Key {
		ks = append(ks, k)
	}
	for i := 1; i < len(ks); i++ {
		for j := i; j > 0 && ks[j] < ks[j-1]; j-- {
			ks[j], ks[j-1] = ks[j-1], ks[j]
		}
	}
	for _, k := range ks {
		s += "[" + k + "=" + e.Key[k] + "]"
	}
	return s
}

func c12SortedKeys(m map[string]string) []string {
	ks := make([]string, 0, len(m))
	for k := range m {
		ks = append(ks, k)
	}
	for i := 1; i < len(ks); i++ {
		for j := i; j > 0 && ks[j] < ks[j-1]; j-- {
			ks[j], ks[j-1] = ks[j-1], ks[j]
		}
	}
	return ks
}

// damage changes one piece of a (valid) path so that the code behind the model look-up meets it.
func (g *c12G) damage(p *gpb.Path) {
	if len(p.Elem) == 0 {
		p.Elem = append(p.Elem, &gpb.PathElem{Name: g.hostile("dmg.name")})
		g.tag("path:damaged:appended-elem")
		return
	}
	i := g.pick(len(p.Elem), "dmg.at")
	e := p.Elem[i]
	switch g.pick(14, "dmg.kind") {
	case 0:
		e.Name = g.hostile("dmg.name")
		g.tag("path:damaged:name-replaced")
	case 1:
		e.Name += g.hostile("dmg.name")
		g.tag("path:damaged:name-suffixed")
	case 2:
		e.Name = g.hostile("dmg.name") + e.Name
		g.tag("path:damaged:name-prefixed")
	case 3:
		if len(e.Key) == 0 {
			e.Key = map[string]string{}
		}
		e.Key[g.hostile("dmg.kn")] = g.hostile("dmg.kv")
		g.tag("path:damaged:key-added")
	case 4:
		ks := c12SortedKeys(e.Key)
		if len(ks) == 0 {
			e.Key = map[string]string{"id": g.hostile("dmg.kv")}
		} else {
			e.Key[ks[g.pick(len(ks), "dmg.k")]] = g.hostile("dmg.kv")
		}
		g.tag("path:damaged:key-value")
	case 5:
		ks := c12SortedKeys(e.Key)
		if len(ks) > 0 {
			k := ks[g.pick(len(ks), "dmg.k")]
			v := e.Key[k]
			delete(e.Key, k)
			e.Key[g.hostile("dmg.kn")] = v
		} else {
			e.Key = map[string]string{g.hostile("dmg.kn"): "1"}
		}
		g.tag("path:damaged:key-name")
	case 6:
		e.Key = nil
		g.tag("path:damaged:keys-dropped")
	case 7:
		ne := &gpb.PathElem{Name: g.hostile("dmg.name")}
		p.Elem = append(p.Elem[:i:i], append([]*gpb.PathElem{ne}, p.Elem[i:]...)...)
		g.tag("path:damaged:elem-inserted")
	case 8:
		p.Elem = append(p.Elem, &gpb.PathElem{Name: g.hostile("dmg.name")})
		g.tag("path:damaged:elem-appended")
	case 9:
		p.Elem = append(p.Elem[:i:i], p.Elem[i+1:]...)
		g.tag("path:damaged:elem-dropped")
	case 10:
		p.Elem = append(p.Elem, p.Elem[i])
		g.tag("path:damaged:elem-repeated")
	case 11:
		e.Name = []string{"*", "...", ""}[g.pick(3, "dmg.wild")]
		g.tag("path:damaged:wildcard-or-empty-name")
	case 12:
		for _, k := range c12SortedKeys(e.Key) {
			e.Key[k] = "*"
		}
		if len(e.Key) == 0 {
			e.Key = map[string]string{"id": "*"}
		}
		g.tag("path:damaged:wildcard-key")
	case 13:
		// the deprecated string form of the same (or a hostile) path
		g.toElementForm(p)
	}
}

// toElementForm moves a path into the deprecated Path.element string list.
func (g *c12G) toElementForm(p *gpb.Path) {
	var el []string
	for _, e := range p.Elem {
		el = append(el, c12ElemText(e))
	}
	switch g.pick(4, "elform") {
	case 0:
		g.tag("path:element-form:valid-text")
	case 1:
		el = append(el, g.hostile("elform.h"))
		g.tag("path:element-form:hostile-appended")
	case 2:
		if len(el) > 0 {
			el[g.pick(len(el), "elform.at")] = g.hostile("elform.h")
		} else {
			el = []string{g.hostile("elform.h")}
		}
		g.tag("path:element-form:hostile-replaced")
	case 3:
		if len(el) > 0 {
			el[len(el)-1] += g.hostile("elform.h")
		} else {
			el = []string{g.hostile("elform.h")}
		}
		g.tag("path:element-form:hostile-suffix")
	}
	p.Element = el
	if !g.pct(15, "elform.both") {
		p.Elem = nil
	} else {
		g.tag("path:element-form:both-forms")
	}
}

// path draws a path. nilOK allows an omitted path. The leaf definition is
// returned when the path still names a schema leaf of M1.
func (g *c12G) path(target string, nilOK bool) (*gpb.Path, *model.LeafDef) {
	var p *gpb.Path
	var ld *model.LeafDef
	switch g.weighted("path.kind", 4, 4, 34, 36, 8, 14) {
	case 0:
		if nilOK {
			g.tag("path:omitted")
			return nil, nil
		}
		p = &gpb.Path{}
		g.tag("path:empty")
	case 1:
		p = &gpb.Path{}
		g.tag("path:empty")
	case 2:
		mp, l := g.modelPath(false)
		p, ld = mp.Gnmi(), l
		g.tag("path:model")
	case 3:
		mp, l := g.modelPath(false)
		p, ld = mp.Gnmi(), l
		g.damage(p)
		if g.pct(25, "dmg.twice") {
			g.damage(p)
		}
		if ld != nil {
			if _, ok := model.Lookup(model.M1, model.FromGnmi(p.Elem)); !ok || len(p.Element) > 0 {
				ld = nil
			}
		}
	case 4:
		mp, _ := g.modelPath(false)
		p = mp.Gnmi()
		g.toElementForm(p)
	case 5:
		p = &gpb.Path{}
		n := g.pick(5, "hpath.n")
		for i := 0; i < n; i++ {
			e := &gpb.PathElem{Name: g.hostile("hpath.name")}
			for k := g.pick(3, "hpath.keys"); k > 0; k-- {
				if e.Key == nil {
					e.Key = map[string]string{}
				}
				e.Key[g.hostile("hpath.kn")] = g.hostile("hpath.kv")
			}
			p.Elem = append(p.Elem, e)
		}
		g.tag("path:hostile")
	}
	p.Target = target
	if g.pct(8, "origin") {
		p.Origin = []string{"openconfig", "", "cli", "("}[g.pick(4, "origin.v")]
		if g.pct(20, "origin.h") {
			p.Origin = g.hostile("origin.hv")
		}
		g.tag("path:origin-set")
	}
	return p, ld
}

// ---------------------------------------------------------------------------
// values

var c12JSONDocs = []string{
	`{"a":{"b":"jv"}}`, `{"b":"jv"}`, `{"a":{"c":{"d":"jv","e":5}},"mtu":9}`, `{"l1":[{"id":"1","v":"x"}]}`, `{"l1":[{"id":"1","l3":[{"n":"x","v":"y"}]}]}`,
	`{"l2":[{"k1":1,"k2":true,"v":"x"}]}`, `{"types":{"i64":"-5","u8":7,"bool":true,"str":"s"}}`, `{"v":"x"}`, `{"d":"jv"}`,
	``, `{`, `}`, `null`, `[]`, `"str"`, `1`, `true`, `{}`, `{"a":1}`, `{"a":null}`, `{"a":{"b":null}}`, `{"a":{"b":{"c":1}}}`, `{"zz":{}}`, `{"":""}`, `{"a":{"":1}}`,
	`{"l1":{"id":1}}`, `{"l1":[1]}`, `{"l1":[{"v":"x"}]}`, `{"l1":[{"id":"1"},{"id":"1"}]}`, `{"l1":[{"id":{"x":1}}]}`, `{"l1":[null]}`, `{"l1":null}`, `{"mtu":1e999}`, `{"mtu":-1}`, `{"mtu":"x"}`,
	`{"mtu":99999999999999999999999999}`, `{"a":{"b":"\ud800"}}`, `{"a":{"b":"x"},"a":{"b":"y"}}`, `{"a":{"b":"x"}} trailing`, "\xff\xfe", `{"a[x]":1}`, `{"a]":{"b":1}}`, `{"l1[id=1]":{"v":"x"}}`,
	`{"types":{"lls":["a",1,null]}}`, `{"types":{"lli":"x"}}`, `{"types":{"dec":"1e5"}}`, `{"types":{"float":"NaN"}}`, `{"types":{"bytes":"!!"}}`,
}

var c12Floats = []float32{0, 1.5, -2.25, float32(math.NaN()), float32(math.Inf(1)), float32(math.Inf(-1)), math.MaxFloat32, -math.MaxFloat32, math.SmallestNonzeroFloat32, float32(math.Copysign(0, -1))}
var c12Doubles = []float64{0, 1.5, math.NaN(), math.Inf(1), math.Inf(-1), math.MaxFloat64, math.SmallestNonzeroFloat64, math.Copysign(0, -1)}
var c12Ints = []int64{0, 1, -1, 42, 127, 128, -128, -129, 1 << 31, -(1 << 31), 1<<31 - 1, math.MaxInt64, math.MinInt64}
var c12Uints = []uint64{0, 1, 7, 255, 256, 65535, 65536, 1<<32 - 1, 1 << 32, 1 << 63, math.MaxUint64}
var c12Precisions = []uint32{0, 1, 2, 17, 18, 19, 20, 63, 64, 65, 127, 128, 255, 256, 1 << 16, 1 << 31, math.MaxUint32}
var c12Digits = []int64{0, 1, -1, 5, -5, 12345, -12345, 999999999999999999, math.MaxInt64, math.MinInt64}

func (g *c12G) jsonDoc() []byte {
	i := g.pick(len(c12JSONDocs)+3, "json.doc")
	switch {
	case i < len(c12JSONDocs):
		if c12JSONDocs[i] == "" {
			return []byte{}
		}
		return []byte(c12JSONDocs[i])
	case i == len(c12JSONDocs):
		g.tag("json:deeply-nested")
		return []byte(strings.Repeat(`{"a":`, 12000) + "1" + strings.Repeat("}", 12000))
	case i == len(c12JSONDocs)+1:
		g.tag("json:deeply-nested")
		return []byte(strings.Repeat("[", 100000))
	default:
		g.tag("json:100kB-string")
		return []byte(`{"a":{"b":"` + c12Long + `"}}`)
	}
}

// scalar draws one of the scalar arms (used for leaf-list elements too).
func (g *c12G) scalar(depth int) *gpb.TypedValue {
	switch g.pick(17, "val.arm") {
	case 0:
		g.tag("val:string")
		if g.pct(50, "val.str.h") {
			return &gpb.TypedValue{Value: &gpb.TypedValue_StringVal{StringVal: g.hostile("val.str")}}
		}
		return &gpb.TypedValue{Value: &gpb.TypedValue_StringVal{StringVal: []string{"v1", "x", "REFUSE:3", "bad", "1", "true", "10"}[g.pick(7, "val.str.p")]}}
	case 1:
		g.tag("val:int")
		return &gpb.TypedValue{Value: &gpb.TypedValue_IntVal{IntVal: c12Ints[g.pick(len(c12Ints), "val.int")]}}
	case 2:
		g.tag("val:uint")
		return &gpb.TypedValue{Value: &gpb.TypedValue_UintVal{UintVal: c12Uints[g.pick(len(c12Uints), "val.uint")]}}
	case 3:
		g.tag("val:bool")
		return &gpb.TypedValue{Value: &gpb.TypedValue_BoolVal{BoolVal: g.pct(50, "val.bool")}}
	case 4:
		g.tag("val:bytes")
		b := [][]byte{nil, {}, {0}, {1, 2, 3}, {0x1d}, []byte(c12Long)}[g.pick(6, "val.bytes")]
		return &gpb.TypedValue{Value: &gpb.TypedValue_BytesVal{BytesVal: b}}
	case 5:
		f := c12Floats[g.pick(len(c12Floats), "val.float")]
		switch {
		case f != f:
			g.tag("val:float-NaN")
		case math.IsInf(float64(f), 0):
			g.tag("val:float-Inf")
		default:
			g.tag("val:float")
		}
		return &gpb.TypedValue{Value: &gpb.TypedValue_FloatVal{FloatVal: f}}
	case 6:
		d := c12Doubles[g.pick(len(c12Doubles), "val.double")]
		g.tag("val:double")
		return &gpb.TypedValue{Value: &gpb.TypedValue_DoubleVal{DoubleVal: d}}
	case 7:
		pr := c12Precisions[g.pick(len(c12Precisions), "val.prec")]
		if pr > 18 {
			g.tag("val:decimal-precision>18")
		} else {
			g.tag("val:decimal")
		}
		dv := &gpb.Decimal64{Digits: c12Digits[g.pick(len(c12Digits), "val.digits")], Precision: pr}
		if g.pct(5, "val.dec.empty") {
			dv = &gpb.Decimal64{}
		}
		return &gpb.TypedValue{Value: &gpb.TypedValue_DecimalVal{DecimalVal: dv}}
	case 8:
		if depth > 2 {
			return &gpb.TypedValue{}
		}
		return g.leaflist(depth + 1)
	case 9:
		g.tag("val:any")
		switch g.pick(3, "val.any") {
		case 0:
			return &gpb.TypedValue{Value: &gpb.TypedValue_AnyVal{AnyVal: &anypb.Any{}}}
		case 1:
			return &gpb.TypedValue{Value: &gpb.TypedValue_AnyVal{AnyVal: &anypb.Any{TypeUrl: g.hostile("val.any.url"), Value: []byte{0xff, 0xff}}}}
		default:
			return &gpb.TypedValue{Value: &gpb.TypedValue_AnyVal{AnyVal: &anypb.Any{TypeUrl: "type.googleapis.com/gnmi.Path", Value: []byte{0x0a, 0x01, 0x61}}}}
		}
	case 10:
		g.tag("val:json")
		return &gpb.TypedValue{Value: &gpb.TypedValue_JsonVal{JsonVal: g.jsonDoc()}}
	case 11:
		g.tag("val:json_ietf")
		return &gpb.TypedValue{Value: &gpb.TypedValue_JsonIetfVal{JsonIetfVal: g.jsonDoc()}}
	case 12:
		g.tag("val:ascii")
		return &gpb.TypedValue{Value: &gpb.TypedValue_AsciiVal{AsciiVal: g.hostile("val.ascii")}}
	case 13:
		g.tag("val:proto_bytes")
		return &gpb.TypedValue{Value: &gpb.TypedValue_ProtoBytes{ProtoBytes: [][]byte{nil, {0xff}, {0x0a, 0x01, 0x61}}[g.pick(3, "val.pb")]}}
	case 14:
		g.tag("val:oneof-unset")
		return &gpb.TypedValue{}
	default:
		g.tag("val:string")
		return &gpb.TypedValue{Value: &gpb.TypedValue_StringVal{StringVal: "v"}}
	}
}

func (g *c12G) leaflist(depth int) *gpb.TypedValue {
	arr := &gpb.ScalarArray{}
	switch g.pick(8, "ll.kind") {
	case 7:
		// decimal64 entries: a leaf-list element's precision is not limited the way a scalar's is
		g.tag("val:leaflist-decimals")
		pr := c12Precisions[g.pick(len(c12Precisions), "ll.prec")]
		n := 1 + g.pick(3, "ll.n")
		for i := 0; i < n; i++ {
			arr.Element = append(arr.Element, &gpb.TypedValue{Value: &gpb.TypedValue_DecimalVal{DecimalVal: &gpb.Decimal64{Digits: c12Digits[g.pick(len(c12Digits), "ll.digits")], Precision: pr}}})
		}
	case 0:
		g.tag("val:leaflist-empty")
		if g.pct(50, "ll.nilarr") {
			arr = nil // decodes as an empty ScalarArray? (the oneof arm is present with no payload)
		}
	case 1:
		g.tag("val:leaflist-mixed")
		n := 1 + g.pick(5, "ll.n")
		for i := 0; i < n; i++ {
			arr.Element = append(arr.Element, g.scalar(depth))
		}
	case 2:
		g.tag("val:leaflist-nested")
		arr.Element = append(arr.Element, g.leaflist(depth+1), &gpb.TypedValue{Value: &gpb.TypedValue_StringVal{StringVal: "x"}})
	case 3:
		g.tag("val:leaflist-uniform")
		e := g.scalar(depth)
		n := 1 + g.pick(4, "ll.n")
		for i := 0; i < n; i++ {
			arr.Element = append(arr.Element, e)
		}
	case 4:
		g.tag("val:leaflist-bytes-with-empty-entries")
		for _, b := range [][]byte{{}, {1}, {}, {}, {2, 3}} {
			arr.Element = append(arr.Element, &gpb.TypedValue{Value: &gpb.TypedValue_BytesVal{BytesVal: b}})
		}
	case 5:
		g.tag("val:leaflist-huge")
		e := &gpb.TypedValue{Value: &gpb.TypedValue_UintVal{UintVal: math.MaxUint64}}
		for i := 0; i < 5000; i++ {
			arr.Element = append(arr.Element, e)
		}
	case 6:
		g.tag("val:leaflist-unset-elements")
		arr.Element = append(arr.Element, &gpb.TypedValue{}, &gpb.TypedValue{})
	}
	return &gpb.TypedValue{Value: &gpb.TypedValue_LeaflistVal{LeaflistVal: arr}}
}

// fitting draws a value of the arm the leaf's type wants (range is NOT respected on purpose).
func (g *c12G) fitting(ld *model.LeafDef, p *gpb.Path) *gpb.TypedValue {
	g.tag("val:fits-leaf-type")
	if ld.IsKey && len(p.Elem) >= 2 && g.pct(70, "fit.key") {
		kv := p.Elem[len(p.Elem)-2].Key[ld.Attr()]
		switch ld.Type {
		case configapi.ValueType_UINT:
			var n uint64
			fmt.Sscanf(kv, "%d", &n)
			return &gpb.TypedValue{Value: &gpb.TypedValue_UintVal{UintVal: n}}
		case configapi.ValueType_BOOL:
			return &gpb.TypedValue{Value: &gpb.TypedValue_BoolVal{BoolVal: kv == "true"}}
		}
		return &gpb.TypedValue{Value: &gpb.TypedValue_StringVal{StringVal: kv}}
	}
	switch ld.Type {
	case configapi.ValueType_STRING:
		s := []string{"v1", "x", "", "bad", "REFUSE:3", "REFUSE:13"}[g.pick(6, "fit.str")]
		if g.pct(30, "fit.str.h") {
			s = g.hostile("fit.str.hv")
		}
		return &gpb.TypedValue{Value: &gpb.TypedValue_StringVal{StringVal: s}}
	case configapi.ValueType_INT:
		return &gpb.TypedValue{Value: &gpb.TypedValue_IntVal{IntVal: c12Ints[g.pick(len(c12Ints), "fit.int")]}}
	case configapi.ValueType_UINT:
		return &gpb.TypedValue{Value: &gpb.TypedValue_UintVal{UintVal: c12Uints[g.pick(len(c12Uints), "fit.uint")]}}
	case configapi.ValueType_BOOL:
		return &gpb.TypedValue{Value: &gpb.TypedValue_BoolVal{BoolVal: g.pct(50, "fit.bool")}}
	case configapi.ValueType_BYTES:
		return &gpb.TypedValue{Value: &gpb.TypedValue_BytesVal{BytesVal: [][]byte{nil, {0}, {1, 2, 3}, {0x1d}}[g.pick(4, "fit.bytes")]}}
	case configapi.ValueType_DECIMAL:
		pr := c12Precisions[g.pick(len(c12Precisions), "fit.prec")]
		if pr > 18 {
			g.tag("val:decimal-precision>18")
		}
		return &gpb.TypedValue{Value: &gpb.TypedValue_DecimalVal{DecimalVal: &gpb.Decimal64{Digits: c12Digits[g.pick(len(c12Digits), "fit.digits")], Precision: pr}}}
	case configapi.ValueType_FLOAT:
		f := c12Floats[g.pick(len(c12Floats), "fit.float")]
		if f != f {
			g.tag("val:float-NaN")
		} else if math.IsInf(float64(f), 0) {
			g.tag("val:float-Inf")
		}
		return &gpb.TypedValue{Value: &gpb.TypedValue_FloatVal{FloatVal: f}}
	case configapi.ValueType_LEAFLIST_STRING:
		return c12LL(c12Str("a"), c12Str(g.hostile("fit.lls")), c12Str("a\x1db"))
	case configapi.ValueType_LEAFLIST_INT:
		return c12LL(c12Int(c12Ints[g.pick(len(c12Ints), "fit.lli")]), c12Int(0), c12Int(-1))
	case configapi.ValueType_LEAFLIST_UINT:
		return c12LL(c12Uint(c12Uints[g.pick(len(c12Uints), "fit.llu")]), c12Uint(0))
	case configapi.ValueType_LEAFLIST_BOOL:
		return c12LL(&gpb.TypedValue{Value: &gpb.TypedValue_BoolVal{BoolVal: true}}, &gpb.TypedValue{Value: &gpb.TypedValue_BoolVal{}})
	}
	return c12Str("v")
}

// value draws the value of an update; ld is the leaf the path names (nil if none).
func (g *c12G) value(ld *model.LeafDef, p *gpb.Path) *gpb.TypedValue {
	if g.pct(4, "val.nil") {
		g.tag("val:omitted")
		return nil
	}
	if ld != nil && g.pct(45, "val.fit") {
		return g.fitting(ld, p)
	}
	if g.pct(12, "val.ll") {
		return g.leaflist(0)
	}
	return g.scalar(0)
}

// ---------------------------------------------------------------------------
// extensions

func c12GogoBytes(m gogoproto.Message) []byte {
	b, err := gogoproto.Marshal(m)
	if err != nil {
		return nil
	}
	return b
}

func (g *c12G) regExt(id int32, msg []byte) *gnmi_ext.Extension {
	return &gnmi_ext.Extension{Ext: &gnmi_ext.Extension_RegisteredExt{RegisteredExt: &gnmi_ext.RegisteredExtension{Id: gnmi_ext.ExtensionID(id), Msg: msg}}}
}

func (g *c12G) extension() *gnmi_ext.Extension {
	garbage := [][]byte{nil, {}, {0xff}, {0xff, 0xff, 0xff}, {0x08}, {0x0a, 0x05, 0x61}, {0x0a, 0xff, 0xff, 0xff, 0xff, 0x0f}, []byte(c12Long[:2000])}
	switch g.weighted("ext.kind", 22, 10, 14, 10, 8, 10, 8, 4, 4, 4, 6) {
	case 0:
		g.tag("ext:111-strategy-valid")
		st := &configapi.TransactionStrategy{}
		if g.pct(60, "ext.sync") {
			st.Synchronicity = configapi.TransactionStrategy_SYNCHRONOUS
		}
		if g.pct(40, "ext.iso") {
			st.Isolation = configapi.TransactionStrategy_SERIALIZABLE
		}
		return g.regExt(111, c12GogoBytes(st))
	case 1:
		g.tag("ext:111-strategy-out-of-range-or-garbage")
		if g.pct(50, "ext.111.enum") {
			// enum numbers outside the declared range
			return g.regExt(111, []byte{0x08, 0x07, 0x10, 0xff, 0xff, 0xff, 0xff, 0x0f})
		}
		return g.regExt(111, garbage[g.pick(len(garbage), "ext.garb")])
	case 2:
		g.tag("ext:112-overrides-valid")
		ov := &configapi.TargetVersionOverrides{Overrides: map[string]*configapi.TargetTypeVersion{}}
		t := []string{"t1", "t1", "t2", "t3", "t3", "t4", "nosuch", ""}[g.pick(8, "ext.112.t")]
		ty := []configapi.TargetType{model.M1Name, model.M1Name, model.M1Name, "M1", "nomodel", "", "m2"}[g.pick(7, "ext.112.ty")]
		ve := []configapi.TargetVersion{model.M1Version, model.M1Version, model.M1Version, "2.0.0", "", "1.0.0 "}[g.pick(6, "ext.112.v")]
		ov.Overrides[t] = &configapi.TargetTypeVersion{TargetType: ty, TargetVersion: ve}
		return g.regExt(112, c12GogoBytes(ov))
	case 3:
		g.tag("ext:112-overrides-entry-without-value")
		// map entry {key: <target>} with the value field left out: legal on the wire
		t := []string{"t1", "t1", "t2", "t4", "nosuch", ""}[g.pick(6, "ext.112.t")]
		entry := append([]byte{0x0a, byte(len(t))}, []byte(t)...)
		return g.regExt(112, append([]byte{0x0a, byte(len(entry))}, entry...))
	case 4:
		g.tag("ext:112-overrides-garbage")
		if g.pct(40, "ext.112.host") {
			ov := &configapi.TargetVersionOverrides{Overrides: map[string]*configapi.TargetTypeVersion{
				g.target("ext.112.ht"): {TargetType: configapi.TargetType(g.hostile("ext.112.hty")), TargetVersion: configapi.TargetVersion(g.hostile("ext.112.hv"))}}}
			return g.regExt(112, c12GogoBytes(ov))
		}
		return g.regExt(112, garbage[g.pick(len(garbage), "ext.garb")])
	case 5:
		g.tag("ext:registered-100..113-garbage")
		return g.regExt(int32(100+g.pick(14, "ext.id")), garbage[g.pick(len(garbage), "ext.garb")])
	case 6:
		g.tag("ext:registered-other-id")
		id := []int32{0, 1, 99, 114, 999, math.MaxInt32, -1}[g.pick(7, "ext.oid")]
		return g.regExt(id, garbage[g.pick(len(garbage), "ext.garb")])
	case 7:
		g.tag("ext:oneof-unset")
		return &gnmi_ext.Extension{}
	case 8:
		g.tag("ext:registered-empty")
		return &gnmi_ext.Extension{Ext: &gnmi_ext.Extension_RegisteredExt{RegisteredExt: &gnmi_ext.RegisteredExtension{}}}
	case 9:
		g.tag("ext:master-arbitration")
		ma := &gnmi_ext.MasterArbitration{}
		if g.pct(60, "ext.ma.full") {
			ma.Role = &gnmi_ext.Role{Id: g.hostile("ext.ma.role")}
			ma.ElectionId = &gnmi_ext.Uint128{High: math.MaxUint64, Low: math.MaxUint64}
		}
		return &gnmi_ext.Extension{Ext: &gnmi_ext.Extension_MasterArbitration{MasterArbitration: ma}}
	default:
		g.tag("ext:history")
		h := &gnmi_ext.History{}
		switch g.pick(3, "ext.hist") {
		case 0:
			h.Request = &gnmi_ext.History_SnapshotTime{SnapshotTime: math.MinInt64}
		case 1:
			h.Request = &gnmi_ext.History_Range{Range: &gnmi_ext.TimeRange{Start: math.MaxInt64, End: math.MinInt64}}
		}
		return &gnmi_ext.Extension{Ext: &gnmi_ext.Extension_History{History: h}}
	}
}

func (g *c12G) extensions() []*gnmi_ext.Extension {
	if !g.pct(20, "ext.any") {
		return nil
	}
	var out []*gnmi_ext.Extension
	n := 1 + g.pick(3, "ext.n")
	for i := 0; i < n; i++ {
		out = append(out, g.extension())
	}
	if g.pct(10, "ext.dup") {
		out = append(out, out[0])
		g.tag("ext:duplicated")
	}
	return out
}

// ---------------------------------------------------------------------------
// requests

// placeTarget decides where the target name goes: prefix, path, both, neither.
func (g *c12G) placeTarget() (prefixTarget, pathTarget string) {
	t := g.target("tgt")
	switch g.weighted("tgt.where", 45, 40, 10, 5) {
	case 0:
		g.tag("target:in-prefix")
		return t, ""
	case 1:
		g.tag("target:in-path")
		return "", t
	case 2:
		g.tag("target:in-both")
		return t, g.target("tgt2")
	default:
		g.tag("target:nowhere")
		return "", ""
	}
}

// prefix builds the prefix message around a target name (nil when nothing is to be said).
func (g *c12G) prefix(target string) *gpb.Path {
	switch g.weighted("prefix.kind", 60, 12, 12, 8, 8) {
	case 0:
		if target == "" && g.pct(70, "prefix.nil") {
			g.tag("prefix:omitted")
			return nil
		}
		return &gpb.Path{Target: target}
	case 1:
		g.tag("prefix:model-elems")
		mp, _ := g.modelPath(false)
		if len(mp) > 1 {
			mp = mp[:1+g.pick(len(mp)-1, "prefix.cut")]
		}
		p := mp.Gnmi()
		p.Target = target
		return p
	case 2:
		g.tag("prefix:hostile-elems")
		p, _ := g.path(target, false)
		return p
	case 3:
		g.tag("prefix:element-form")
		mp, _ := g.modelPath(false)
		p := mp.Gnmi()
		g.toElementForm(p)
		p.Target = target
		return p
	default:
		g.tag("prefix:empty-message")
		return &gpb.Path{Target: target}
	}
}

func (g *c12G) setReq() *gpb.SetRequest {
	req := &gpb.SetRequest{}
	pt, tt := g.placeTarget()
	req.Prefix = g.prefix(pt)
	// a request whose operations are all well-formed, so that it is accepted and its content reaches the controllers
	nops := []int{0, 1, 1, 1, 1, 2, 2, 2, 3, 3, 4, 4}[g.pick(12, "set.nops")]
	if g.pct(2, "set.huge") {
		nops = 1500
		g.tag("set:huge-repeated-field")
	}
	if nops > 0 && nops <= 4 && g.pct(45, "set.wellformed") {
		// every operation well-formed (values of the arm the leaf wants, or of any arm: the handler does not
		// compare arms with the model), at most one piece damaged: these are the requests that get logged
		g.tag("set:well-formed-operations")
		if req.Prefix != nil {
			req.Prefix = &gpb.Path{Target: req.Prefix.Target}
		}
		for i := 0; i < nops; i++ {
			if g.pct(25, "wf.del") {
				mp, _ := g.modelPath(false)
				p := mp.Gnmi()
				p.Target = tt
				req.Delete = append(req.Delete, p)
				g.tag("set:delete")
				continue
			}
			mp, ld := g.modelPath(true)
			p := mp.Gnmi()
			p.Target = tt
			var v *gpb.TypedValue
			if g.pct(65, "wf.fit") {
				v = g.fitting(ld, p)
			} else if g.pct(25, "wf.ll") {
				v = g.leaflist(0)
			} else {
				v = g.scalar(0)
			}
			req.Update = append(req.Update, &gpb.Update{Path: p, Val: v})
			g.tag("set:update")
		}
		if g.pct(35, "wf.dmg") {
			g.tag("set:one-piece-damaged")
			if len(req.Delete) > 0 && (len(req.Update) == 0 || g.pct(50, "wf.dmg.del")) {
				g.damage(req.Delete[g.pick(len(req.Delete), "wf.dmg.i")])
			} else if len(req.Update) > 0 {
				g.damage(req.Update[g.pick(len(req.Update), "wf.dmg.i")].Path)
			}
		}
		req.Extension = g.extensions()
		return req
	}
	// split: when the prefix has model elems the relative paths are generated against it only by luck; that is intended
	var template *gpb.Update
	for i := 0; i < nops; i++ {
		if nops > 20 && template != nil {
			if i*proto.Size(template) > 3<<20 {
				break
			}
			req.Update = append(req.Update, template)
			continue
		}
		switch g.weighted("set.op", 30, 15, 55) {
		case 0:
			p, _ := g.path(tt, true)
			req.Delete = append(req.Delete, p)
			g.tag("set:delete")
		case 1:
			p, ld := g.path(tt, true)
			req.Replace = append(req.Replace, &gpb.Update{Path: p, Val: g.value(ld, p)})
			g.tag("set:replace")
		default:
			p, ld := g.path(tt, true)
			u := &gpb.Update{Path: p, Val: g.value(ld, p)}
			if g.pct(3, "set.dupcount") {
				u.Duplicates = math.MaxUint32
			}
			if g.pct(3, "set.depval") {
				u.Value = &gpb.Value{Value: []byte(`{"a":1}`), Type: gpb.Encoding_JSON} //nolint:staticcheck // the deprecated field is wire-decodable
				g.tag("set:deprecated-value-field")
			}
			req.Update = append(req.Update, u)
			template = u
			g.tag("set:update")
		}
	}
	if nops == 0 {
		g.tag("set:no-operations")
	}
	req.Extension = g.extensions()
	return req
}

var c12Encodings = []gpb.Encoding{gpb.Encoding_JSON, gpb.Encoding_PROTO, gpb.Encoding_JSON_IETF, gpb.Encoding_JSON, gpb.Encoding_PROTO, gpb.Encoding_JSON, gpb.Encoding_PROTO, gpb.Encoding_JSON_IETF, gpb.Encoding_JSON, gpb.Encoding_PROTO,
	gpb.Encoding_JSON, gpb.Encoding_PROTO, gpb.Encoding_BYTES, gpb.Encoding_ASCII, 5, 17, -3, math.MaxInt32}
var c12GetTypes = []gpb.GetRequest_DataType{gpb.GetRequest_ALL, gpb.GetRequest_ALL, gpb.GetRequest_ALL, gpb.GetRequest_ALL, gpb.GetRequest_ALL, gpb.GetRequest_ALL, gpb.GetRequest_CONFIG, gpb.GetRequest_CONFIG,
	gpb.GetRequest_STATE, gpb.GetRequest_OPERATIONAL, 4, 99, -1}

func (g *c12G) encoding() gpb.Encoding {
	if g.pct(88, "enc.ok") {
		return []gpb.Encoding{gpb.Encoding_JSON, gpb.Encoding_PROTO, gpb.Encoding_JSON_IETF, gpb.Encoding_PROTO}[g.pick(4, "enc.v")]
	}
	return c12Encodings[g.pick(len(c12Encodings), "enc.any")]
}

func (g *c12G) models() []*gpb.ModelData {
	if !g.pct(8, "models") {
		return nil
	}
	g.tag("use_models:set")
	return []*gpb.ModelData{{Name: g.hostile("md.n"), Organization: g.hostile("md.o"), Version: g.hostile("md.v")}, {}}
}

func (g *c12G) getReq() *gpb.GetRequest {
	req := &gpb.GetRequest{}
	pt, tt := g.placeTarget()
	req.Prefix = g.prefix(pt)
	npaths := []int{0, 1, 1, 1, 1, 2, 3}[g.pick(7, "get.npaths")]
	if g.pct(2, "get.huge") {
		npaths = 1500
		g.tag("get:huge-repeated-field")
	}
	var template *gpb.Path
	for i := 0; i < npaths; i++ {
		if npaths > 20 && template != nil {
			if i*proto.Size(template) > 3<<20 {
				break
			}
			req.Path = append(req.Path, template)
			continue
		}
		p, _ := g.path(tt, false)
		if g.pct(15, "get.othertarget") {
			p.Target = g.target("get.t2")
		}
		req.Path = append(req.Path, p)
		template = p
	}
	req.Encoding = g.encoding()
	req.Type = c12GetTypes[g.pick(len(c12GetTypes), "get.type")]
	if req.Type == gpb.GetRequest_STATE || req.Type == gpb.GetRequest_OPERATIONAL {
		g.tag("get:type-state-or-operational")
	}
	if int32(req.Encoding) > 4 || int32(req.Encoding) < 0 {
		g.tag("enum:out-of-range")
	}
	req.UseModels = g.models()
	req.Extension = g.extensions()
	return req
}

func (g *c12G) subscription(tt string) *gpb.Subscription {
	p, _ := g.path(tt, true)
	s := &gpb.Subscription{Path: p}
	s.Mode = []gpb.SubscriptionMode{gpb.SubscriptionMode_TARGET_DEFINED, gpb.SubscriptionMode_ON_CHANGE, gpb.SubscriptionMode_SAMPLE, 7, -1}[g.pick(5, "sub.mode")]
	if g.pct(30, "sub.timers") {
		s.SampleInterval = []uint64{0, 1, math.MaxUint64}[g.pick(3, "sub.si")]
		s.HeartbeatInterval = []uint64{0, 1, math.MaxUint64}[g.pick(3, "sub.hb")]
		s.SuppressRedundant = g.pct(50, "sub.sr")
	}
	return s
}

func (g *c12G) subscribeList() *gpb.SubscribeRequest {
	pt, tt := g.placeTarget()
	l := &gpb.SubscriptionList{Prefix: g.prefix(pt)}
	n := []int{0, 1, 1, 2, 3}[g.pick(5, "sub.n")]
	if g.pct(2, "sub.huge") {
		n = 1000
		g.tag("subscribe:huge-repeated-field")
	}
	var template *gpb.Subscription
	for i := 0; i < n; i++ {
		if n > 20 && template != nil {
			if i*proto.Size(template) > 3<<20 {
				break
			}
			l.Subscription = append(l.Subscription, template)
			continue
		}
		s := g.subscription(tt)
		if g.pct(20, "sub.othertarget") && s.Path != nil {
			s.Path.Target = g.target("sub.t2")
		}
		l.Subscription = append(l.Subscription, s)
		template = s
	}
	l.Mode = []gpb.SubscriptionList_Mode{gpb.SubscriptionList_STREAM, gpb.SubscriptionList_ONCE, gpb.SubscriptionList_POLL, 9, -1}[g.pick(5, "sub.lmode")]
	l.Encoding = g.encoding()
	if g.pct(20, "sub.qos") {
		l.Qos = &gpb.QOSMarking{Marking: math.MaxUint32}
	}
	l.AllowAggregation = g.pct(20, "sub.agg")
	l.UpdatesOnly = g.pct(20, "sub.uo")
	l.UseModels = g.models()
	return &gpb.SubscribeRequest{Request: &gpb.SubscribeRequest_Subscribe{Subscribe: l}, Extension: g.extensions()}
}

func (g *c12G) subMsgs() []*gpb.SubscribeRequest {
	var msgs []*gpb.SubscribeRequest
	n := 1 + g.pick(3, "sub.msgs")
	for i := 0; i < n; i++ {
		switch g.weighted("sub.msg", 60, 25, 8, 7) {
		case 0:
			msgs = append(msgs, g.subscribeList())
			g.tag("subscribe:list")
		case 1:
			msgs = append(msgs, &gpb.SubscribeRequest{Request: &gpb.SubscribeRequest_Poll{Poll: &gpb.Poll{}}})
			g.tag("subscribe:poll")
		case 2:
			msgs = append(msgs, &gpb.SubscribeRequest{Extension: g.extensions()})
			g.tag("subscribe:oneof-unset")
		default:
			msgs = append(msgs, &gpb.SubscribeRequest{Request: &gpb.SubscribeRequest_Subscribe{}})
			g.tag("subscribe:list-arm-without-payload")
		}
	}
	return msgs
}

func (g *c12G) index() configapi.Index {
	return configapi.Index([]uint64{0, 1, 2, 3, 4, 5, 6, 7, 100, 1 << 32, 1 << 60, math.MaxUint64}[g.pick(12, "index")])
}

func (g *c12G) adminMsg(kind string) any {
	switch kind {
	case c12Rollback:
		return &adminapi.RollbackRequest{Index: g.index()}
	case c12LeafSel:
		r := &adminapi.LeafSelectionQueryRequest{}
		r.Target = []string{"t1", "t1", "t1", "t1", "t4", "t4", "t4", "t2", "t2", "t3", "nosuch", ""}[g.pick(12, "ls.t")]
		r.Type, r.Version = model.M1Name, model.M1Version
		if g.pct(12, "ls.tyv") {
			r.Type = []string{"M1", "nomodel", ""}[g.pick(3, "ls.ty")]
		}
		if g.pct(12, "ls.vv") {
			r.Version = []string{"2.0.0", "", "1.0.0 "}[g.pick(3, "ls.v")]
		}
		if g.pct(8, "ls.host") {
			r.Target, r.Type, r.Version = g.hostile("ls.ht"), g.hostile("ls.hty"), g.hostile("ls.hv")
		}
		r.SelectionPath = "/a/b"
		if g.pct(50, "ls.sp") {
			r.SelectionPath = g.hostile("ls.sph")
		}
		switch g.weighted("ls.cc", 22, 8, 55, 15) {
		case 0:
			g.tag("leafsel:no-change-context")
		case 1:
			r.ChangeContext = &gpb.SetRequest{}
			g.tag("leafsel:empty-change-context")
		case 3:
			// everything about the query is in order except ONE value of its change context that cannot be
			// converted: the handler's error path has to describe that value
			g.tag("leafsel:change-context-with-a-value-that-cannot-be-converted")
			r.Target, r.Type, r.Version, r.SelectionPath = []string{"t1", "t4"}[g.pick(2, "ls.ut")], model.M1Name, model.M1Version, "/a/b"
			mp, _ := g.modelPath(true)
			var v *gpb.TypedValue
			switch g.pick(6, "ls.uv") {
			case 0:
				v = &gpb.TypedValue{Value: &gpb.TypedValue_DecimalVal{DecimalVal: &gpb.Decimal64{Digits: 5, Precision: []uint32{19, 63, 64, 100, 1 << 31, math.MaxUint32}[g.pick(6, "ls.up")]}}}
			case 1:
				v = &gpb.TypedValue{} // no arm set
			case 2:
				v = &gpb.TypedValue{Value: &gpb.TypedValue_LeaflistVal{LeaflistVal: &gpb.ScalarArray{Element: []*gpb.TypedValue{{Value: &gpb.TypedValue_IntVal{IntVal: 1}}, {}}}}}
			case 3:
				v = &gpb.TypedValue{Value: &gpb.TypedValue_LeaflistVal{LeaflistVal: &gpb.ScalarArray{Element: []*gpb.TypedValue{{Value: &gpb.TypedValue_DecimalVal{DecimalVal: &gpb.Decimal64{Digits: 1, Precision: 64}}}}}}}
			case 4:
				v = &gpb.TypedValue{Value: &gpb.TypedValue_FloatVal{FloatVal: float32(math.NaN())}}
			default:
				v = g.scalar(0)
			}
			up := &gpb.Update{Path: mp.Gnmi(), Val: v}
			r.ChangeContext = &gpb.SetRequest{}
			if g.pct(50, "ls.urep") {
				r.ChangeContext.Replace = []*gpb.Update{up}
			} else {
				r.ChangeContext.Update = []*gpb.Update{up}
			}
		default:
			r.ChangeContext = g.setReq()
			g.tag("leafsel:change-context")
		}
		return r
	case c12ListModels:
		return &adminapi.ListModelsRequest{Verbose: g.pct(50, "lm.v"), ModelName: g.hostile("lm.n"), ModelVersion: g.hostile("lm.ver")}
	case c12GetTx:
		r := &adminapi.GetTransactionRequest{}
		if g.pct(60, "gt.idx") {
			r.Index = g.index()
		}
		if g.pct(50, "gt.id") {
			r.ID = configapi.TransactionID(g.hostile("gt.idv"))
		}
		return r
	case c12ListTx:
		return &adminapi.ListTransactionsRequest{}
	case c12WatchTx:
		r := &adminapi.WatchTransactionsRequest{Noreplay: g.pct(40, "wt.nr")}
		if g.pct(50, "wt.id") {
			r.ID = configapi.TransactionID(g.hostile("wt.idv"))
		}
		return r
	case c12GetCfg:
		ids := []string{"t1-m1-1.0.0", "t2-m1-1.0.0", "t4-m1-1.0.0", "t3-nomodel-1.0.0", "t1", ""}
		r := &adminapi.GetConfigurationRequest{ConfigurationID: configapi.ConfigurationID(ids[g.pick(len(ids), "gc.id")])}
		if g.pct(40, "gc.host") {
			r.ConfigurationID = configapi.ConfigurationID(g.hostile("gc.idv"))
		}
		return r
	case c12ListCfg:
		return &adminapi.ListConfigurationsRequest{}
	case c12WatchCfg:
		r := &adminapi.WatchConfigurationsRequest{Noreplay: g.pct(40, "wc.nr")}
		switch g.pick(3, "wc.id") {
		case 0:
			r.ConfigurationID = "t1-m1-1.0.0"
		case 1:
			r.ConfigurationID = configapi.ConfigurationID(g.hostile("wc.idv"))
		}
		return r
	}
	return nil
}

// mutateWire damages encoded bytes the way a broken encoder would; most
// results do not decode (counted, outside the domain), the rest are messages
// no generated struct literal can express (unknown fields, repeated singular
// fields, merged one-ofs, truncated length prefixes that still parse).
func (g *c12G) mutateWire(b []byte) []byte {
	out := append([]byte{}, b...)
	switch g.pick(7, "wire.mut") {
	case 0:
		if len(out) > 0 {
			out = out[:g.pick(len(out), "wire.trunc")]
		}
		g.tag("wire:truncated")
	case 1:
		if len(out) > 0 {
			out[g.pick(len(out), "wire.at")] ^= byte(1 << g.pick(8, "wire.bit"))
		}
		g.tag("wire:bit-flipped")
	case 2:
		// unknown fields: varint, bytes, fixed32, fixed64, group start
		out = append(out, [][]byte{{0xc0, 0x3e, 0x01}, {0xc2, 0x3e, 0x02, 0x61, 0x62}, {0xc5, 0x3e, 1, 2, 3, 4}, {0xc1, 0x3e, 1, 2, 3, 4, 5, 6, 7, 8}, {0xc3, 0x3e}}[g.pick(5, "wire.unk")]...)
		g.tag("wire:unknown-field-appended")
	case 3:
		out = append(out, b...)
		g.tag("wire:message-concatenated-with-itself")
	case 4:
		if len(out) > 0 {
			i := g.pick(len(out), "wire.at")
			out = append(out[:i:i], append([]byte{byte(g.pick(256, "wire.byte"))}, out[i:]...)...)
		}
		g.tag("wire:byte-inserted")
	case 5:
		if len(out) > 1 {
			i := g.pick(len(out)-1, "wire.at")
			out = append(out[:i:i], out[i+1:]...)
		}
		g.tag("wire:byte-removed")
	case 6:
		// a field 1 (bytes) with an empty payload in front: an empty sub-message / empty string element
		out = append([]byte{0x0a, 0x00}, out...)
		g.tag("wire:empty-field-1-prepended")
	}
	return out
}
