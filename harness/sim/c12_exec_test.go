package sim

// C12 - "no request can crash the server". This file is the executor shared
// by the rapid property (c12_test.go) and the native fuzz targets
// (c12_fuzz_test.go): it owns the pool of reusable worlds, decodes wire bytes
// with the codec the gRPC server uses, invokes the REAL handlers under
// recover(), serialises their answers the way gRPC would, runs the controllers
// to quiescence after every accepted change and classifies what happened.

import (
	"context"
	"encoding/hex"
	"fmt"
	"io"
	"runtime/debug"
	"strings"
	"sync"
	"time"

	adminapi "github.com/onosproject/onos-api/go/onos/config/admin"
	configapi "github.com/onosproject/onos-api/go/onos/config/v2"
	topoapi "github.com/onosproject/onos-api/go/onos/topo"
	nbadmin "github.com/onosproject/onos-config/pkg/northbound/admin"
	nbgnmi "github.com/onosproject/onos-config/pkg/northbound/gnmi/v2"
	"github.com/onosproject/onos-config/pkg/pluginregistry"
	sb "github.com/onosproject/onos-config/pkg/southbound/gnmi"
	cfgstore "github.com/onosproject/onos-config/pkg/store/v2/configuration"
	baseClient "github.com/openconfig/gnmi/client"
	gpb "github.com/openconfig/gnmi/proto/gnmi"
	"google.golang.org/grpc/codes"
	"google.golang.org/grpc/encoding"
	_ "google.golang.org/grpc/encoding/proto" // registers the codec the gRPC server decodes requests with
	"google.golang.org/grpc/metadata"
	"google.golang.org/grpc/status"
	"google.golang.org/protobuf/encoding/prototext"
	"google.golang.org/protobuf/proto"

	"verif/harness/model"
	"verif/harness/vstat"
)

// c12Codec is gRPC's default codec ("proto"): exactly what a grpc.Server
// without a custom codec uses to decode every gNMI and admin request and to
// encode every response (github.com/golang/protobuf/proto.Unmarshal, which
// calls the gogo-generated Unmarshal methods of the onos-api messages and the
// protobuf-go implementation for the gnmi messages).
var c12Codec = encoding.GetCodec("proto")

// request kinds
const (
	c12Get        = "get"
	c12Set        = "set"
	c12Sub        = "subscribe"
	c12Cap        = "capabilities"
	c12Rollback   = "admin.RollbackTransaction"
	c12LeafSel    = "admin.LeafSelectionQuery"
	c12ListModels = "admin.ListRegisteredModels"
	c12GetTx      = "admin.GetTransaction"
	c12ListTx     = "admin.ListTransactions"
	c12WatchTx    = "admin.WatchTransactions"
	c12GetCfg     = "admin.GetConfiguration"
	c12ListCfg    = "admin.ListConfigurations"
	c12WatchCfg   = "admin.WatchConfigurations"
)

var c12AdminKinds = []string{c12Rollback, c12LeafSel, c12ListModels, c12GetTx, c12ListTx, c12WatchTx, c12GetCfg, c12ListCfg, c12WatchCfg}

// C12Req is one northbound call: the wire bytes of its request message(s).
type C12Req struct {
	Kind string `json:"kind"`
	// Wire holds the encoded request; Subscribe carries one entry per stream message.
	Wire [][]byte `json:"wire"`
	// MD selects the incoming gRPC metadata: "" (none) or "user" (name, email, groups).
	MD string `json:"md,omitempty"`
	// End tells how a Subscribe stream ends: "eof" (default) or "cancel".
	End string `json:"end,omitempty"`
	// Tags name the ingredients the generator used (class histogram only).
	Tags []string `json:"tags,omitempty"`
	// Unencodable counts generated messages the codec refused to encode (outside the domain).
	Unencodable int `json:"unencodable,omitempty"`
	// TooLarge counts generated messages beyond gRPC's default 4 MB receive limit (outside the domain).
	TooLarge int `json:"tooLarge,omitempty"`
}

// ---------------------------------------------------------------------------
// instrumentation: where did a request get to

type c12Probe struct {
	mu       sync.Mutex
	plugin   int // successful plugin look-ups (target type/version resolved to a model)
	cfgGet   int // successful configuration reads
	connByT  int // successful GetByTarget (a connected target was resolved)
	txCreate int // transactions logged
}

func (p *c12Probe) snapshot() c12Probe {
	p.mu.Lock()
	defer p.mu.Unlock()
	return c12Probe{plugin: p.plugin, cfgGet: p.cfgGet, connByT: p.connByT, txCreate: p.txCreate}
}

type c12Reg struct {
	pluginregistry.PluginRegistry
	p *c12Probe
}

func (r *c12Reg) GetPlugin(t configapi.TargetType, v configapi.TargetVersion) (pluginregistry.ModelPlugin, bool) {
	pl, ok := r.PluginRegistry.GetPlugin(t, v)
	if ok {
		r.p.mu.Lock()
		r.p.plugin++
		r.p.mu.Unlock()
	}
	return pl, ok
}

type c12Cfg struct {
	cfgstore.Store
	p *c12Probe
}

func (c *c12Cfg) Get(ctx context.Context, id configapi.ConfigurationID) (*configapi.Configuration, error) {
	cfg, err := c.Store.Get(ctx, id)
	if err == nil {
		c.p.mu.Lock()
		c.p.cfgGet++
		c.p.mu.Unlock()
	}
	return cfg, err
}

type c12Conns struct {
	sb.ConnManager
	p *c12Probe
}

func (c *c12Conns) GetByTarget(ctx context.Context, id topoapi.ID) (sb.Client, error) {
	cl, err := c.ConnManager.GetByTarget(ctx, id)
	if err != nil {
		return nil, err
	}
	c.p.mu.Lock()
	c.p.connByT++
	c.p.mu.Unlock()
	return &c12Client{Client: cl}, nil
}

// c12Client stops Subscribe and Poll at the southbound Client interface: the
// real client starts a goroutine of its own that takes the whole process down
// when the target refuses the stream (finding F-panic-southbound-subscribe-
// refused), which no recover() in the harness can contain. That path is
// exercised in a child process by TestC12_SubscribeRefusedByTarget; everything
// else (Get, Set, Capabilities towards the device) goes through the real client.
type c12Client struct {
	sb.Client
}

func (c *c12Client) Subscribe(ctx context.Context, q baseClient.Query) error {
	if err := ctx.Err(); err != nil {
		return err
	}
	if q.SubReq != nil {
		// the real client serialises the per-target request at this point
		if _, err := c12Codec.Marshal(q.SubReq); err != nil {
			return err
		}
	}
	return nil
}

func (c *c12Client) Poll() error { return nil }

// ---------------------------------------------------------------------------
// worlds

// c12Env is one reusable world. A world stays "clean" as long as no request
// has logged a transaction in it (a request that is refused before being
// logged changes nothing); the pool hands a clean world to the next case and
// rebuilds it otherwise, so every case starts from the same state.
type c12Env struct {
	w     *World
	kind  string
	dirty bool
	probe *c12Probe
	// accepted counts Sets/rollbacks logged since the world was built (fuzz targets).
	accepted int
	// history of accepted wire requests since the build (printed with a fuzz crasher)
	history []string
	// brokenFlag: a controller panicked or did not quiesce here; nothing later in this world means anything
	brokenFlag bool
}

var (
	c12Mu          sync.Mutex
	c12Pool        = map[string]*c12Env{}
	c12WorldsBuilt int
)

// c12Targets: t1 connected with data (in "pop"), t2 never connected, t3 has no
// model plugin, t4 connected and (in "pop") holds a configuration record
// without any value (its only change was refused by the model).
var c12Targets = []TargetSpec{{ID: "t1", Online: true}, {ID: "t2"}, {ID: "t3", NoPlugin: true}, {ID: "t4", Online: true}}

func c12Acquire(x *vstat.Ctx, kind string) (*c12Env, error) {
	c12Mu.Lock()
	defer c12Mu.Unlock()
	if e := c12Pool[kind]; e != nil {
		if !e.dirty {
			e.w.X = x
			e.w.S.x = x
			return e, nil
		}
		e.w.Close()
		delete(c12Pool, kind)
	}
	e, err := c12Build(x, kind)
	if err != nil {
		return nil, err
	}
	c12Pool[kind] = e
	return e, nil
}

func c12Build(x *vstat.Ctx, kind string) (*c12Env, error) {
	w, err := NewWorld(x, Options{Targets: c12Targets})
	if err != nil {
		return nil, err
	}
	c12WorldsBuilt++
	e := &c12Env{w: w, kind: kind, probe: &c12Probe{}}
	// the same servers NewWorld builds, around counting decorators
	nbTx := &txView{st: w.St, g: w.nbGate}
	nbTx.nbWatch = w.nbWatch
	nbTx.afterCreate = func(ctx context.Context, t *configapi.Transaction) {
		e.probe.mu.Lock()
		e.probe.txCreate++
		e.probe.mu.Unlock()
		w.nbAfterCreate(ctx, t)
	}
	reg := &c12Reg{PluginRegistry: w.Reg, p: e.probe}
	cfg := &c12Cfg{Store: w.St.Cfg, p: e.probe}
	conns := &c12Conns{ConnManager: w.Conns, p: e.probe}
	w.Gnmi = nbgnmi.NewServerForVerif(w.Topo, nbTx, w.St.Prop, cfg, reg, conns, 0)
	w.Admin = nbadmin.NewServerForVerif(nbTx, cfg, reg)
	if err := w.S.Run(); err != nil {
		w.Close()
		return nil, err
	}
	if kind == "pop" {
		if err := c12Populate(e); err != nil {
			w.Close()
			return nil, err
		}
	}
	return e, nil
}

func c12Upd(target, path string, v *gpb.TypedValue) *gpb.Update {
	p := model.Parse(path).Gnmi()
	p.Target = target
	return &gpb.Update{Path: p, Val: v}
}

func c12Str(s string) *gpb.TypedValue {
	return &gpb.TypedValue{Value: &gpb.TypedValue_StringVal{StringVal: s}}
}
func c12Uint(u uint64) *gpb.TypedValue {
	return &gpb.TypedValue{Value: &gpb.TypedValue_UintVal{UintVal: u}}
}
func c12Int(i int64) *gpb.TypedValue {
	return &gpb.TypedValue{Value: &gpb.TypedValue_IntVal{IntVal: i}}
}
func c12LL(vs ...*gpb.TypedValue) *gpb.TypedValue {
	return &gpb.TypedValue{Value: &gpb.TypedValue_LeaflistVal{LeaflistVal: &gpb.ScalarArray{Element: vs}}}
}

// c12PopHistory is the fixed valid history of the populated world.
func c12PopHistory() []*gpb.SetRequest {
	t := "t1"
	return []*gpb.SetRequest{
		{Update: []*gpb.Update{
			c12Upd(t, "/a/b", c12Str("v1")), c12Upd(t, "/a/bc", c12Str("v2")), c12Upd(t, "/a/c/d", c12Str("x")), c12Upd(t, "/a/c/e", c12Uint(7)),
			c12Upd(t, "/a/c/f/g", c12Str("deep")), c12Upd(t, "/mtu", c12Uint(1500)),
			c12Upd(t, "/l1[id=1]/v", c12Str("v1")), c12Upd(t, "/l1[id=1]/w", c12Int(-5)), c12Upd(t, "/l1[id=1]/l3[n=x]/v", c12Str("nested")),
			c12Upd(t, "/l1[id=1-0]/sub/x", c12Str("s")), c12Upd(t, "/l2[k1=1][k2=true]/v", c12Str("two-keys")),
			c12Upd(t, "/t1e:list4[id=a]/t1e:leaf", c12Str("pfx")),
		}},
		{Update: []*gpb.Update{
			c12Upd(t, "/types/i8", c12Int(-128)), c12Upd(t, "/types/i64", c12Int(-1<<63)), c12Upd(t, "/types/u8", c12Uint(255)),
			c12Upd(t, "/types/u64", c12Uint(1<<63)), c12Upd(t, "/types/bool", &gpb.TypedValue{Value: &gpb.TypedValue_BoolVal{BoolVal: true}}),
			c12Upd(t, "/types/bytes", &gpb.TypedValue{Value: &gpb.TypedValue_BytesVal{BytesVal: []byte{0, 1, 0xff}}}),
			c12Upd(t, "/types/dec", &gpb.TypedValue{Value: &gpb.TypedValue_DecimalVal{DecimalVal: &gpb.Decimal64{Digits: -12345, Precision: 2}}}),
			c12Upd(t, "/types/float", &gpb.TypedValue{Value: &gpb.TypedValue_FloatVal{FloatVal: 1.5}}),
			c12Upd(t, "/types/str", c12Str("text")), c12Upd(t, "/types/lls", c12LL(c12Str("a"), c12Str("b"))),
			c12Upd(t, "/types/lli", c12LL(c12Int(-1), c12Int(2))), c12Upd(t, "/types/llu", c12LL(c12Uint(1), c12Uint(2))),
			c12Upd(t, "/types/llb", c12LL(&gpb.TypedValue{Value: &gpb.TypedValue_BoolVal{BoolVal: true}})),
		}},
		{Delete: []*gpb.Path{{Target: t, Elem: model.Parse("/a/c").Gnmi().Elem}}, Update: []*gpb.Update{c12Upd(t, "/l1[id=10]/v", c12Str("v2"))}},
		{Prefix: &gpb.Path{Target: "t2"}, Update: []*gpb.Update{c12Upd("", "/a/b", c12Str("offline")), c12Upd("", "/mtu", c12Uint(9))}},
		{Prefix: &gpb.Path{Target: "t4"}, Update: []*gpb.Update{c12Upd("", "/poison", c12Str("bad"))}},
	}
}

func c12Populate(e *c12Env) error {
	for i, r := range c12PopHistory() {
		call, err := e.w.StartSet(fmt.Sprintf("pop%d", i), r, nil, nil)
		if err != nil {
			return err
		}
		if call.Panic != nil {
			return fmt.Errorf("populating Set %d panicked: %v\n%s", i, call.Panic, call.Stack)
		}
		if !call.Created {
			return fmt.Errorf("populating Set %d was refused: %v", i, call.Err)
		}
		if err := e.w.S.Run(); err != nil {
			return err
		}
		e.w.AwaitCalls(5 * time.Second)
		if !call.Done() {
			call.Abort("populate: not answered (target not connected)")
		}
	}
	e.probe.mu.Lock()
	e.probe.plugin, e.probe.cfgGet, e.probe.connByT, e.probe.txCreate = 0, 0, 0, 0
	e.probe.mu.Unlock()
	return nil
}

// c12CloseAll releases every pooled world (end of a test).
func c12CloseAll() {
	c12Mu.Lock()
	defer c12Mu.Unlock()
	for k, e := range c12Pool {
		e.w.Close()
		delete(c12Pool, k)
	}
}

// ---------------------------------------------------------------------------
// panics

const c12RepoMod = "github.com/onosproject/onos-config/"

// c12TopFrame returns the innermost function of the code under test on the
// panicking goroutine's stack (module prefix and arguments stripped) and
// whether a harness frame sits between it and the panic (the panic was then
// raised by a fake, not by the code under test).
func c12TopFrame(stack string) (frame string, harnessAbove bool) {
	lines := strings.Split(stack, "\n")
	start := 0
	for i, l := range lines {
		if strings.HasPrefix(l, "panic(") {
			start = i + 1
		}
	}
	for _, l := range lines[start:] {
		if l == "" || l[0] == '\t' || l[0] == ' ' {
			continue
		}
		fn := l
		if i := strings.LastIndex(fn, "("); i > 0 {
			fn = fn[:i]
		}
		if strings.HasPrefix(fn, c12RepoMod) {
			return strings.TrimPrefix(fn, c12RepoMod), harnessAbove
		}
		if strings.HasPrefix(fn, "verif/harness/") && !strings.Contains(fn, ".c12") && !strings.Contains(fn, "(*Call).run") &&
			!strings.Contains(fn, "(*Sched).reconcile") && !strings.Contains(fn, "(*World).Get") {
			harnessAbove = true
		}
	}
	return "", harnessAbove
}

// c12Finding ties a confirmed defect to its trigger: the top application frame of the panic.
type c12Finding struct {
	Frame string // top application frame of the panicking goroutine
	Val   string // text the panic value must contain ("" = any)
	ID    string
	What  string
}

// c12Findings lists the panics confirmed on the unchanged tree. A panic whose
// top application frame is listed here AND whose id is listed as known in
// known_findings.jsonl is recorded and the search continues; every other panic
// is a violation.
var c12Findings = []c12Finding{
	{Frame: "pkg/utils/v2/values.GnmiTypedValueToNativeType", Val: "NewFloat(NaN)", ID: "F-panic-float-nan",
		What: "a Set (or a LeafSelectionQuery change context) whose update carries float_val NaN panics in GnmiTypedValueToNativeType: NewTypedValueFloat -> big.NewFloat(NaN) panics"},
	{Frame: "pkg/utils/path.ExtractIndexNames", Val: "slice bounds out of range", ID: "F-panic-extract-index-names",
		What: "a Set delete (or a LeafSelectionQuery change-context delete) whose path text ends with ']' and holds a bracket group without '=' (element name \"c[x]\", deprecated Path.element \"a[x]\") panics in ExtractIndexNames: m[1][1:LastIndex(\"=\")] with LastIndex == -1"},
	{Frame: "pkg/utils/path.FindPathFromModel", Val: "index out of range [-1]", ID: "F-panic-find-path-from-model",
		What: "a Set delete (or a LeafSelectionQuery change-context delete) whose path text ends with ']' without any '[..]' group (element name \"a]\") panics in FindPathFromModel: indices[len(indices)-1] on an empty slice"},
	{Frame: "pkg/utils/path.CheckKeyValue", Val: "integer divide by zero", ID: "F-panic-key-leaf-decimal-precision",
		What: "a Set update (or change-context update) of a list key leaf with a decimal_val of precision >= 64 panics in CheckKeyValue: ValueToString -> onos-api strDecimal64 divides by 10^precision, which is 0 in int64 arithmetic"},
	{Frame: "pkg/northbound/gnmi/v2.(*Server).getTargetInfo", Val: "nil pointer dereference", ID: "F-panic-overrides-entry-without-value",
		What: "a Set or Get whose extension 112 (TargetVersionOverrides) holds a map entry for the request's target with the value field left out (legal on the wire, decodes to a nil *TargetTypeVersion) panics: ttv.TargetType on nil in getTargetInfo (Set) / addTarget (Get)"},
	{Frame: "pkg/northbound/gnmi/v2.(*Server).addTarget", Val: "nil pointer dereference", ID: "F-panic-overrides-entry-without-value",
		What: "a Set or Get whose extension 112 (TargetVersionOverrides) holds a map entry for the request's target with the value field left out (legal on the wire, decodes to a nil *TargetTypeVersion) panics: ttv.TargetType on nil in getTargetInfo (Set) / addTarget (Get)"},
	{Frame: "pkg/northbound/admin.Server.LeafSelectionQuery", Val: "assignment to entry in nil map", ID: "F-panic-leaf-selection-nil-map",
		What: "admin LeafSelectionQuery with a change context that holds an update, for a target whose configuration record has no values yet (its only change failed validation, or was never committed), panics: config.Values[path] = value on the nil map the store returns"},
	{Frame: "pkg/southbound/gnmi.(*client).run", Val: "nil pointer dereference", ID: "F-panic-southbound-subscribe-refused",
		What: "a well-formed Subscribe naming a connected target kills the process when the southbound stream cannot be opened (target answers the Subscribe RPC with an error such as Unimplemented before the request is sent, or the subscriber is already gone): southbound client.Subscribe starts `go c.run(ctx)` although Subscribe failed, run calls Recv on the nil stream from a goroutine no interceptor could guard; a following Poll dereferences the same nil stream in the handler"},
	{Frame: "pkg/southbound/gnmi.(*client).Poll", Val: "nil pointer dereference", ID: "F-panic-southbound-subscribe-refused",
		What: "a well-formed Subscribe naming a connected target kills the process when the southbound stream cannot be opened (target answers the Subscribe RPC with an error such as Unimplemented before the request is sent, or the subscriber is already gone): southbound client.Subscribe starts `go c.run(ctx)` although Subscribe failed, run calls Recv on the nil stream from a goroutine no interceptor could guard; a following Poll dereferences the same nil stream in the handler"},
	{Frame: "pkg/controller/v2/transaction.(*Reconciler).reconcileInitialize", Val: "nil pointer dereference", ID: "F-panic-delete-invalid-path-logged",
		What: "a Set delete whose path is a node of the model but holds a character IsPathValid refuses (key value \"a b\", \"*\", ...) is ACCEPTED: computeChange drops NewChangeValue's error and logs a nil PathValue; the transaction controller then panics in reconcileInitialize (changeValue.Index on nil) every time it looks at the transaction, i.e. again after every restart"},
}

func c12FindingFor(frame, val string) *c12Finding {
	for i := range c12Findings {
		if c12Findings[i].Frame == frame && strings.Contains(val, c12Findings[i].Val) {
			return &c12Findings[i]
		}
	}
	return nil
}

// c12Rec is what the executor records on: a *vstat.Ctx in the rapid property,
// a plain collector in the fuzz targets.
type c12Rec interface {
	Class(string)
	NonTrivial(string)
	Known(id, what string)
	Logf(format string, args ...any)
}

// c12Panic is a panic observed while serving a request (or while the
// controllers digested what the request logged).
type c12Panic struct {
	Where string // which call
	Val   string
	Stack string
}

// c12Judge turns an observed panic into nil (listed finding, recorded) or a violation.
func c12Judge(x c12Rec, p *c12Panic) error {
	frame, harness := c12TopFrame(p.Stack)
	x.Logf("   PANIC in %s: %s (top application frame: %s)", p.Where, trunc(p.Val, 300), frame)
	if harness {
		return vstat.Violf("C12: %s panicked inside harness code called by the code under test (check the fake first); top application frame %s\n%s", p.Where, frame, p.Stack)
	}
	if f := c12FindingFor(frame, p.Val); f != nil && vstat.IsKnown("C12", f.ID) {
		x.Known(f.ID, f.What)
		x.Class("known-panic:" + f.ID)
		return nil
	}
	return vstat.Violf("C12: %s panicked (the gRPC server has no recovery interceptor: onos-config dies for every client); top application frame: %s\n%s", p.Where, frame, p.Stack)
}

// ---------------------------------------------------------------------------
// invoking handlers

const (
	c12Bound      = 3 * time.Second // a handler that neither returns nor parks within this is cancelled (C08's subject, not C12's)
	c12AfterAbort = 5 * time.Second
)

type c12Outcome struct {
	panic *c12Panic
	err   error // the handler's error (gRPC status)
	hung  bool  // cancelled after the bounded wait
	leak  bool  // did not return even after its context was cancelled
	sent  int   // messages sent on a server stream
}

// c12Invoke runs fn (a real handler) in its own goroutine under recover() and
// waits - bounded - for it to return. idle, when non-nil, is polled: a
// streaming handler that has gone idle is cancelled right away.
func c12Invoke(where string, md metadata.MD, idle func() bool, fn func(ctx context.Context) (any, error)) c12Outcome {
	ctx, cancel := context.WithCancel(context.Background())
	defer cancel()
	if md != nil {
		ctx = metadata.NewIncomingContext(ctx, md)
	}
	var out c12Outcome
	done := make(chan struct{})
	go func() {
		defer close(done)
		returned := false
		defer func() {
			if p := recover(); p != nil {
				out.panic = &c12Panic{Where: where, Val: fmt.Sprint(p), Stack: vstat.CleanStack(string(debug.Stack()))}
			} else if !returned {
				// panic(nil) (or runtime.Goexit) under a language version in which recover() then returns nil
				out.panic = &c12Panic{Where: where, Val: "panic(nil)", Stack: vstat.CleanStack(string(debug.Stack()))}
			}
		}()
		resp, err := fn(ctx)
		returned = true
		out.err = err
		if err == nil && resp != nil {
			// gRPC serialises the response on the handler's goroutine
			_, _ = c12Codec.Marshal(resp)
		}
	}()
	deadline := time.After(c12Bound)
	tick := time.NewTicker(2 * time.Millisecond)
	defer tick.Stop()
	idleSeen := 0
wait:
	for {
		select {
		case <-done:
			return out
		case <-deadline:
			out.hung = true
			break wait
		case <-tick.C:
			if idle != nil && idle() {
				idleSeen++
				if idleSeen >= 3 {
					break wait
				}
			} else {
				idleSeen = 0
			}
		}
	}
	cancel()
	select {
	case <-done:
	case <-time.After(c12AfterAbort):
		out.leak = true
		return c12Outcome{hung: out.hung, leak: true}
	}
	return out
}

// c12Stream is a fake gRPC server stream for the server-streaming admin RPCs.
type c12Stream[T any] struct {
	ctx  context.Context
	mu   sync.Mutex
	n    int
	last time.Time
}

func (s *c12Stream[T]) Send(m *T) error {
	// gRPC serialises here, on the handler's goroutine
	_, err := c12Codec.Marshal(any(m))
	s.mu.Lock()
	s.n++
	s.last = time.Now()
	s.mu.Unlock()
	if err != nil {
		return status.Error(codes.Internal, err.Error())
	}
	return s.ctx.Err()
}
func (s *c12Stream[T]) Context() context.Context     { return s.ctx }
func (s *c12Stream[T]) SetHeader(metadata.MD) error  { return nil }
func (s *c12Stream[T]) SendHeader(metadata.MD) error { return nil }
func (s *c12Stream[T]) SetTrailer(metadata.MD)       {}
func (s *c12Stream[T]) SendMsg(m interface{}) error  { return nil }
func (s *c12Stream[T]) RecvMsg(m interface{}) error  { return io.EOF }
func (s *c12Stream[T]) count() int {
	s.mu.Lock()
	defer s.mu.Unlock()
	return s.n
}

// quiet reports whether nothing was sent for a little while (a Watch that has delivered its replay).
func (s *c12Stream[T]) quiet() bool {
	s.mu.Lock()
	defer s.mu.Unlock()
	return time.Since(s.last) > 5*time.Millisecond
}

// c12SubStream is the subscriber's side of a gNMI Subscribe stream.
type c12SubStream struct {
	ctx      context.Context
	msgs     []*gpb.SubscribeRequest
	end      string
	mu       sync.Mutex
	next     int
	sent     int
	drained  bool
	drainedT time.Time
}

func (s *c12SubStream) Recv() (*gpb.SubscribeRequest, error) {
	s.mu.Lock()
	k := s.next
	s.next++
	if k >= len(s.msgs) {
		s.drained = true
		s.drainedT = time.Now()
	}
	s.mu.Unlock()
	if k < len(s.msgs) {
		return s.msgs[k], nil
	}
	if s.end == "cancel" {
		<-s.ctx.Done()
		return nil, status.FromContextError(s.ctx.Err()).Err()
	}
	return nil, io.EOF
}
func (s *c12SubStream) Send(r *gpb.SubscribeResponse) error {
	_, err := c12Codec.Marshal(r)
	s.mu.Lock()
	s.sent++
	s.mu.Unlock()
	return err
}
func (s *c12SubStream) Context() context.Context     { return s.ctx }
func (s *c12SubStream) SetHeader(metadata.MD) error  { return nil }
func (s *c12SubStream) SendHeader(metadata.MD) error { return nil }
func (s *c12SubStream) SetTrailer(metadata.MD)       {}
func (s *c12SubStream) SendMsg(m interface{}) error  { return nil }
func (s *c12SubStream) RecvMsg(m interface{}) error  { return io.EOF }
func (s *c12SubStream) idle() bool {
	s.mu.Lock()
	defer s.mu.Unlock()
	return s.drained && time.Since(s.drainedT) > 3*time.Millisecond
}

var _ gpb.GNMI_SubscribeServer = &c12SubStream{}

func c12MD(kind string) metadata.MD {
	if kind == "user" {
		return metadata.Pairs("name", "alice", "preferred_username", "alice", "email", "alice@example.org", "groups", "t1;staff", "at_hash", "x")
	}
	return nil
}

// c12Text renders a decoded message for histories (bounded).
func c12Text(m proto.Message) string {
	if n := proto.Size(m); n > 16<<10 {
		return fmt.Sprintf("<message of %d bytes>", n)
	}
	s := prototext.MarshalOptions{Multiline: false}.Format(m)
	// prototext output is deliberately unstable (random extra spaces): normalise
	s = strings.Join(strings.Fields(s), " ")
	return trunc(s, 600)
}

func c12Hex(b []byte) string {
	if len(b) > 4096 {
		return hex.EncodeToString(b[:4096]) + fmt.Sprintf("...(%d bytes)", len(b))
	}
	return hex.EncodeToString(b)
}

// c12Exec serves one request in env. It returns a violation, or nil. Classes
// and the non-trivial mark are recorded on x.
func c12Exec(x c12Rec, e *c12Env, r C12Req, followUp bool) error {
	w := e.w
	x.Class("req:" + r.Kind)
	for _, t := range r.Tags {
		x.Class("gen:" + t)
	}
	if r.Unencodable > 0 {
		x.Class("domain:generated-message-not-encodable")
	}
	if r.TooLarge > 0 {
		x.Class("domain:generated-message-beyond-4MB-receive-limit")
	}
	if len(r.Wire) == 0 {
		return nil
	}
	md := c12MD(r.MD)
	before := e.probe.snapshot()
	class := func(out c12Outcome) {
		switch {
		case out.leak:
			x.Class("answer:" + r.Kind + ":did-not-return-after-cancel")
		case out.hung:
			x.Class("answer:" + r.Kind + ":cancelled-after-bounded-wait")
		default:
			x.Class("answer:" + r.Kind + ":" + Code(out.err).String())
		}
	}
	reached := func(why string) {
		x.Class("reach:" + r.Kind + ":past-target-resolution")
		x.NonTrivial(why)
	}
	undecodable := func(err error) error {
		x.Class("domain:" + r.Kind + ":not-decodable")
		x.Logf(" %s: wire bytes do not decode (%v): outside the domain", r.Kind, trunc(err.Error(), 120))
		return nil
	}

	switch r.Kind {
	case c12Set:
		req := &gpb.SetRequest{}
		if err := c12Codec.Unmarshal(r.Wire[0], req); err != nil {
			return undecodable(err)
		}
		x.Logf(" Set %s", c12Text(req))
		return c12DoSet(x, e, r, req, md, followUp)

	case c12Get:
		req := &gpb.GetRequest{}
		if err := c12Codec.Unmarshal(r.Wire[0], req); err != nil {
			return undecodable(err)
		}
		x.Logf(" Get %s", c12Text(req))
		out := c12Invoke("gNMI Get", md, nil, func(ctx context.Context) (any, error) { return w.Gnmi.Get(ctx, req) })
		class(out)
		if out.panic != nil {
			return c12Judge(x, out.panic)
		}
		after := e.probe.snapshot()
		if after.cfgGet > before.cfgGet || after.connByT > before.connByT {
			reached("Get resolved a target (model plugin and configuration, or the connection for STATE/OPERATIONAL)")
		} else {
			x.Class("reach:" + r.Kind + ":refused-before-target-resolution")
		}
		x.Logf("   -> %v", c12ErrText(out.err))

	case c12Cap:
		req := &gpb.CapabilityRequest{}
		if err := c12Codec.Unmarshal(r.Wire[0], req); err != nil {
			return undecodable(err)
		}
		x.Logf(" Capabilities %s", c12Text(req))
		out := c12Invoke("gNMI Capabilities", md, nil, func(ctx context.Context) (any, error) { return w.Gnmi.Capabilities(ctx, req) })
		class(out)
		if out.panic != nil {
			return c12Judge(x, out.panic)
		}

	case c12Sub:
		var msgs []*gpb.SubscribeRequest
		for _, b := range r.Wire {
			m := &gpb.SubscribeRequest{}
			if err := c12Codec.Unmarshal(b, m); err != nil {
				// gRPC fails the stream at this message: what was received before it is the stream
				x.Class("domain:" + r.Kind + ":not-decodable")
				break
			}
			msgs = append(msgs, m)
			x.Logf(" Subscribe msg %s", c12Text(m))
		}
		if len(msgs) == 0 {
			return nil
		}
		st := &c12SubStream{msgs: msgs, end: r.End}
		out := c12Invoke("gNMI Subscribe", md, st.idle, func(ctx context.Context) (any, error) {
			st.ctx = ctx
			return nil, w.Gnmi.Subscribe(st)
		})
		class(out)
		if out.panic != nil {
			return c12Judge(x, out.panic)
		}
		if after := e.probe.snapshot(); after.connByT > before.connByT {
			reached("Subscribe was forwarded towards a connected target")
		} else {
			x.Class("reach:" + r.Kind + ":no-connected-target-named")
		}
		x.Logf("   -> %v", c12ErrText(out.err))

	case c12Rollback:
		req := &adminapi.RollbackRequest{}
		if err := c12Codec.Unmarshal(r.Wire[0], req); err != nil {
			return undecodable(err)
		}
		x.Logf(" RollbackTransaction index=%d", req.Index)
		return c12DoRollback(x, e, req)

	case c12LeafSel:
		req := &adminapi.LeafSelectionQueryRequest{}
		if err := c12Codec.Unmarshal(r.Wire[0], req); err != nil {
			return undecodable(err)
		}
		cc := "<nil>"
		if req.ChangeContext != nil {
			cc = c12Text(req.ChangeContext)
		}
		x.Logf(" LeafSelectionQuery target=%q type=%q version=%q selectionPath=%q changeContext=%s", trunc(req.Target, 80), trunc(req.Type, 40), trunc(req.Version, 40), trunc(req.SelectionPath, 80), cc)
		out := c12Invoke("admin LeafSelectionQuery", md, nil, func(ctx context.Context) (any, error) { return w.Admin.LeafSelectionQuery(ctx, req) })
		class(out)
		if out.panic != nil {
			return c12Judge(x, out.panic)
		}
		if after := e.probe.snapshot(); after.plugin > before.plugin {
			reached("LeafSelectionQuery resolved configuration and model plugin")
		} else {
			x.Class("reach:" + r.Kind + ":refused-before-target-resolution")
		}
		x.Logf("   -> %v", c12ErrText(out.err))

	case c12ListModels:
		req := &adminapi.ListModelsRequest{}
		if err := c12Codec.Unmarshal(r.Wire[0], req); err != nil {
			return undecodable(err)
		}
		st := &c12Stream[adminapi.ModelPlugin]{last: time.Now()}
		out := c12Invoke("admin ListRegisteredModels", md, nil, func(ctx context.Context) (any, error) {
			st.ctx = ctx
			return nil, w.Admin.ListRegisteredModels(req, st)
		})
		class(out)
		if out.panic != nil {
			return c12Judge(x, out.panic)
		}

	case c12GetTx:
		req := &adminapi.GetTransactionRequest{}
		if err := c12Codec.Unmarshal(r.Wire[0], req); err != nil {
			return undecodable(err)
		}
		x.Logf(" GetTransaction id=%q index=%d", trunc(string(req.ID), 80), req.Index)
		out := c12Invoke("admin GetTransaction", md, nil, func(ctx context.Context) (any, error) { return w.Admin.GetTransaction(ctx, req) })
		class(out)
		if out.panic != nil {
			return c12Judge(x, out.panic)
		}
		if out.err == nil {
			x.NonTrivial("GetTransaction found a transaction")
		}

	case c12ListTx:
		req := &adminapi.ListTransactionsRequest{}
		if err := c12Codec.Unmarshal(r.Wire[0], req); err != nil {
			return undecodable(err)
		}
		st := &c12Stream[adminapi.ListTransactionsResponse]{last: time.Now()}
		out := c12Invoke("admin ListTransactions", md, nil, func(ctx context.Context) (any, error) {
			st.ctx = ctx
			return nil, w.Admin.ListTransactions(req, st)
		})
		class(out)
		if out.panic != nil {
			return c12Judge(x, out.panic)
		}
		if st.count() > 0 {
			x.NonTrivial("ListTransactions streamed transactions")
		}

	case c12WatchTx:
		req := &adminapi.WatchTransactionsRequest{}
		if err := c12Codec.Unmarshal(r.Wire[0], req); err != nil {
			return undecodable(err)
		}
		x.Logf(" WatchTransactions id=%q noreplay=%v", trunc(string(req.ID), 80), req.Noreplay)
		st := &c12Stream[adminapi.WatchTransactionsResponse]{last: time.Now()}
		out := c12Invoke("admin WatchTransactions", md, st.quiet, func(ctx context.Context) (any, error) {
			st.ctx = ctx
			return nil, w.Admin.WatchTransactions(req, st)
		})
		class(out)
		if out.panic != nil {
			return c12Judge(x, out.panic)
		}
		if st.count() > 0 {
			x.NonTrivial("WatchTransactions streamed events")
		}

	case c12GetCfg:
		req := &adminapi.GetConfigurationRequest{}
		if err := c12Codec.Unmarshal(r.Wire[0], req); err != nil {
			return undecodable(err)
		}
		x.Logf(" GetConfiguration id=%q", trunc(string(req.ConfigurationID), 80))
		out := c12Invoke("admin GetConfiguration", md, nil, func(ctx context.Context) (any, error) { return w.Admin.GetConfiguration(ctx, req) })
		class(out)
		if out.panic != nil {
			return c12Judge(x, out.panic)
		}
		if out.err == nil {
			x.NonTrivial("GetConfiguration found a configuration")
		}

	case c12ListCfg:
		req := &adminapi.ListConfigurationsRequest{}
		if err := c12Codec.Unmarshal(r.Wire[0], req); err != nil {
			return undecodable(err)
		}
		st := &c12Stream[adminapi.ListConfigurationsResponse]{last: time.Now()}
		out := c12Invoke("admin ListConfigurations", md, nil, func(ctx context.Context) (any, error) {
			st.ctx = ctx
			return nil, w.Admin.ListConfigurations(req, st)
		})
		class(out)
		if out.panic != nil {
			return c12Judge(x, out.panic)
		}
		if st.count() > 0 {
			x.NonTrivial("ListConfigurations streamed configurations")
		}

	case c12WatchCfg:
		req := &adminapi.WatchConfigurationsRequest{}
		if err := c12Codec.Unmarshal(r.Wire[0], req); err != nil {
			return undecodable(err)
		}
		x.Logf(" WatchConfigurations id=%q noreplay=%v", trunc(string(req.ConfigurationID), 80), req.Noreplay)
		st := &c12Stream[adminapi.WatchConfigurationsResponse]{last: time.Now()}
		out := c12Invoke("admin WatchConfigurations", md, st.quiet, func(ctx context.Context) (any, error) {
			st.ctx = ctx
			return nil, w.Admin.WatchConfigurations(req, st)
		})
		class(out)
		if out.panic != nil {
			return c12Judge(x, out.panic)
		}
		if st.count() > 0 {
			x.NonTrivial("WatchConfigurations streamed events")
		}

	default:
		return fmt.Errorf("c12: unknown request kind %q", r.Kind)
	}
	return nil
}

func c12ErrText(err error) string {
	if err == nil {
		return "OK"
	}
	return Code(err).String() + ": " + trunc(err.Error(), 160)
}

// c12Settle runs the controllers to quiescence and converts a reconciler panic
// into a c12Panic (the world must then be rebuilt).
func c12Settle(x c12Rec, e *c12Env, what string) (*c12Panic, error) {
	e.w.S.Steps = 0 // the step budget is per settle, the world is long-lived
	err := e.w.S.Run()
	if len(e.w.S.Panics) > 0 {
		p := e.w.S.Panics[0]
		e.w.S.Panics = nil
		e.dirty = true
		e.brokenFlag = true
		val, stack := p, p
		if i := strings.Index(p, "\n"); i >= 0 {
			val, stack = p[:i], p[i+1:]
		}
		return &c12Panic{Where: "a controller, digesting what " + what + " logged,", Val: val, Stack: stack}, nil
	}
	if err == ErrBudget {
		x.Class("settle:step-budget-exhausted")
		e.dirty = true
		e.brokenFlag = true
		return nil, nil
	}
	return nil, err
}

func c12DoSet(x c12Rec, e *c12Env, r C12Req, req *gpb.SetRequest, md metadata.MD, followUp bool) error {
	w := e.w
	before := e.probe.snapshot()
	call, err := w.StartSet("c12", req, md, nil)
	if err != nil {
		// neither returned nor parked within the engine's bound: not C12's subject
		x.Class("answer:set:neither-returned-nor-parked")
		call.Abort("c12: bounded wait")
		e.dirty = true
		return nil
	}
	if call.Panic != nil {
		if call.Created {
			e.dirty = true
		}
		x.Class("answer:set:PANIC")
		return c12Judge(x, &c12Panic{Where: "gNMI Set", Val: fmt.Sprint(call.Panic), Stack: call.Stack})
	}
	after := e.probe.snapshot()
	if after.plugin > before.plugin {
		x.Class("reach:set:past-target-resolution")
		x.NonTrivial("Set resolved a target to its model plugin (path and value code reached)")
	} else {
		x.Class("reach:set:refused-before-target-resolution")
	}
	if !call.Created {
		x.Class("answer:set:" + Code(call.Err).String())
		x.Logf("   -> refused before being logged: %v", c12ErrText(call.Err))
		return nil
	}
	// accepted: a transaction was logged
	e.dirty = true
	e.accepted++
	e.history = append(e.history, "set "+c12Hex(r.Wire[0]))
	x.Class("set:accepted-and-logged")
	x.NonTrivial("Set accepted: its content reached the controllers")
	pan, err := c12Settle(x, e, "the accepted Set")
	if err != nil {
		return err
	}
	if pan != nil {
		call.Abort("c12: controller panicked")
		return c12Judge(x, pan)
	}
	w.AwaitCalls(2 * time.Second)
	if !call.Done() {
		x.Class("answer:set:not-answered-when-idle")
		call.Abort("c12: not answered although the controllers are idle")
	}
	if call.Panic != nil {
		x.Class("answer:set:PANIC")
		return c12Judge(x, &c12Panic{Where: "gNMI Set (answering an accepted request)", Val: fmt.Sprint(call.Panic), Stack: call.Stack})
	}
	if call.Done() && call.Aborted == "" {
		x.Class("answer:set:" + Code(call.Err).String())
		if call.Err == nil && call.Resp != nil {
			if p := c12Marshal("gNMI Set (serialising the response)", call.Resp); p != nil {
				return c12Judge(x, p)
			}
		}
	}
	tx := call.Tx()
	if tx != nil {
		x.Logf("   -> logged as transaction %d, now %v; answer %v", tx.Index, tx.Status.State, c12ErrText(call.Err))
		x.Class("set:tx-state:" + tx.Status.State.String())
	}
	if !followUp || tx == nil {
		return nil
	}
	// What the request left behind is now served to ordinary, well-formed
	// requests: they are in the domain too.
	tgts := c12TargetsOf(tx)
	if err := c12FollowUp(x, e, tgts, "after the accepted Set"); err != nil {
		return err
	}
	// and it can be rolled back
	if err := c12DoRollback(x, e, &adminapi.RollbackRequest{Index: tx.Index}); err != nil {
		return err
	}
	return c12FollowUp(x, e, tgts, "after the accepted Set was rolled back")
}

// c12FollowUp reads everything back with well-formed requests.
func c12FollowUp(x c12Rec, e *c12Env, tgts []string, when string) error {
	w := e.w
	for _, tgt := range tgts {
		for _, enc := range []gpb.Encoding{gpb.Encoding_PROTO, gpb.Encoding_JSON} {
			g := &gpb.GetRequest{Path: []*gpb.Path{{Target: tgt}}, Encoding: enc}
			out := c12Invoke(fmt.Sprintf("gNMI Get (whole configuration, %v) %s", enc, when), nil, nil, func(ctx context.Context) (any, error) { return w.Gnmi.Get(ctx, g) })
			x.Class("followup:get:" + Code(out.err).String())
			if out.panic != nil {
				return c12Judge(x, out.panic)
			}
		}
		ls := &adminapi.LeafSelectionQueryRequest{Target: tgt, Type: model.M1Name, Version: model.M1Version, SelectionPath: "/a/b"}
		out := c12Invoke("admin LeafSelectionQuery "+when, nil, nil, func(ctx context.Context) (any, error) { return w.Admin.LeafSelectionQuery(ctx, ls) })
		x.Class("followup:leafsel:" + Code(out.err).String())
		if out.panic != nil {
			return c12Judge(x, out.panic)
		}
	}
	st := &c12Stream[adminapi.ListTransactionsResponse]{last: time.Now()}
	out := c12Invoke("admin ListTransactions "+when, nil, nil, func(ctx context.Context) (any, error) {
		st.ctx = ctx
		return nil, w.Admin.ListTransactions(&adminapi.ListTransactionsRequest{}, st)
	})
	if out.panic != nil {
		return c12Judge(x, out.panic)
	}
	sc := &c12Stream[adminapi.WatchConfigurationsResponse]{last: time.Now()}
	out = c12Invoke("admin WatchConfigurations "+when, nil, sc.quiet, func(ctx context.Context) (any, error) {
		sc.ctx = ctx
		return nil, w.Admin.WatchConfigurations(&adminapi.WatchConfigurationsRequest{}, sc)
	})
	if out.panic != nil {
		return c12Judge(x, out.panic)
	}
	return nil
}

// c12PruneCalls forgets finished northbound calls (the world is long-lived).
func c12PruneCalls(w *World) {
	w.mu.Lock()
	keep := w.calls[:0]
	for _, c := range w.calls {
		if !c.Done() {
			keep = append(keep, c)
		}
	}
	w.calls = keep
	w.mu.Unlock()
}

func c12Marshal(where string, m any) (p *c12Panic) {
	defer func() {
		if r := recover(); r != nil {
			p = &c12Panic{Where: where, Val: fmt.Sprint(r), Stack: vstat.CleanStack(string(debug.Stack()))}
		}
	}()
	_, _ = c12Codec.Marshal(m)
	return nil
}

func c12TargetsOf(tx *configapi.Transaction) []string {
	var out []string
	if ch := tx.GetChange(); ch != nil {
		for t := range ch.Values {
			out = append(out, string(t))
		}
	}
	// map order must not decide anything
	for i := 1; i < len(out); i++ {
		for j := i; j > 0 && out[j] < out[j-1]; j-- {
			out[j], out[j-1] = out[j-1], out[j]
		}
	}
	return out
}

func c12DoRollback(x c12Rec, e *c12Env, req *adminapi.RollbackRequest) error {
	w := e.w
	idx := req.Index
	call := w.newCall("rollback", "c12rb", nil)
	err := call.run(func(ctx context.Context) { call.RbResp, call.Err = w.Admin.RollbackTransaction(ctx, req) })
	if err != nil {
		x.Class("answer:rollback:neither-returned-nor-parked")
		call.Abort("c12: bounded wait")
		e.dirty = true
		return nil
	}
	if call.Panic != nil {
		if call.Created {
			e.dirty = true
		}
		return c12Judge(x, &c12Panic{Where: "admin RollbackTransaction", Val: fmt.Sprint(call.Panic), Stack: call.Stack})
	}
	if !call.Created {
		x.Class("answer:rollback:" + Code(call.Err).String())
		return nil
	}
	e.dirty = true
	e.accepted++
	e.history = append(e.history, fmt.Sprintf("rollback index=%d", idx))
	pan, err := c12Settle(x, e, "the rollback")
	if err != nil {
		return err
	}
	if pan != nil {
		call.Abort("c12: controller panicked")
		return c12Judge(x, pan)
	}
	w.AwaitCalls(2 * time.Second)
	if !call.Done() {
		x.Class("answer:rollback:not-answered-when-idle")
		call.Abort("c12: not answered although the controllers are idle")
	}
	if call.Panic != nil {
		return c12Judge(x, &c12Panic{Where: "admin RollbackTransaction (answering)", Val: fmt.Sprint(call.Panic), Stack: call.Stack})
	}
	if call.Done() && call.Aborted == "" {
		x.Class("answer:rollback:" + Code(call.Err).String())
		if call.Err == nil {
			x.NonTrivial("a rollback was carried out")
		}
	}
	x.Logf("   -> rollback of %d: %v; state %s", idx, c12ErrText(call.Err), trunc(w.DescribeState(), 300))
	return nil
}
