package sim

// C17 — "Values survive the journey unchanged", END-TO-END half.
//
// A generated history of 1-3 gNMI Sets on one connected target goes through the REAL northbound Set handler, the
// real transaction / proposal / configuration controllers and stores, the real southbound connection to a fake
// device, and is read back through the real Get handler. After EVERY Set (and after an optional device restart with
// re-synchronisation, and after an optional rollback of the last Set) the oracle compares, for every leaf the history
// has written so far, the LATEST client value with
//
//	(1) the stored transaction record's change and the stored configuration (committed and applied values), decoded
//	    by an independent decoder of the raw Bytes/TypeOpts (c17eDecodeStored);
//	(2) the SetRequest(s) the device received (the proposal controller's request for a Set or rollback, the
//	    configuration controller's requests for a re-synchronisation) and the device's leaf = the fold of them;
//	(3) Get in PROTO encoding (whole target and each written leaf on its own);
//	(4) Get in JSON_IETF and in plain JSON encoding: JSON type and digits per RFC 7951, judged by an independent
//	    encoder (the repository renders both encodings the same way: tree.BuildTree(values, true));
//	(5) the document the proposal controller streamed to the model plugin for validation.
//
// Normalisations the oracle grants (and nothing else):
//   - ascii_val is text: it may come back as string_val with the same text (the code stores both as STRING);
//     string_val must come back as string_val;
//   - an integer sent through the OTHER integer arm (uint_val to an int leaf, int_val to a uint leaf, value
//     representable in both) is the same number: either integer arm and either stored integer type is accepted,
//     with the model's width; a value sent through the leaf's own arm must keep that arm and type;
//   - empty bytes: nil and zero-length are the same;
//   - decimal64 in PROTO: digits AND precision exactly as sent (also when the model's fraction-digits differ);
//     in JSON: a string in the RFC 7950 lexical form denoting exactly digits*10^-precision (big-integer comparison);
//   - float: PROTO and stored value bit-exact; JSON scalar: |parsed - v| <= 5e-7 (the code prints %f), losing the
//     float32 identity is listed finding F-apival-float-format; JSON leaf-list: the identical float32;
//   - the listed onos-api deviations F-apival-leaflist-sep and F-apival-leaflist-bytes-empty are MODELLED: when
//     the trigger holds and the observed value is exactly the modelled one, the finding is recorded and the journey
//     goes on with the value as stored / as decoded; anything else is a violation.

import (
	"context"
	"fmt"
	"sort"
	"strings"
	"sync"
	"testing"
	"time"

	adminapi "github.com/onosproject/onos-api/go/onos/config/admin"
	configapi "github.com/onosproject/onos-api/go/onos/config/v2"
	gpb "github.com/openconfig/gnmi/proto/gnmi"
	"google.golang.org/grpc"
	"pgregory.net/rapid"

	"verif/harness/fakes"
	"verif/harness/model"
	"verif/harness/vstat"
)

// ---- the case ---------------------------------------------------------------------------------

type c17eOp struct {
	Leaf    string  `json:"leaf"`
	Del     bool    `json:"del,omitempty"`
	Replace bool    `json:"replace,omitempty"`
	Enc     string  `json:"enc,omitempty"`    // "" | "ascii" | "xarm" | "json" (part of the Set's JSON-valued update)
	Follow  string  `json:"follow,omitempty"` // generator's label when the op rewrites a leaf of an earlier Set
	Val     c17eVal `json:"val"`
}

type c17eSet struct {
	Ops         []c17eOp `json:"ops"`
	JSONAt      string   `json:"jsonAt,omitempty"` // container the JSON-valued update (ops with enc "json") is rooted at
	JSONReplace bool     `json:"jsonReplace,omitempty"`
}

type c17eCase struct {
	Sets      []c17eSet `json:"sets"`
	MidResync bool      `json:"midResync,omitempty"` // device restarts empty and reconnects after the first Set
	Tail      []string  `json:"tail,omitempty"`      // after the last Set: "resync" and/or "rollback" (of the last Set), in this order
}

const c17eTarget = "t1"

func (c c17eCase) valid() bool {
	if len(c.Sets) < 1 || len(c.Sets) > 3 {
		return false
	}
	for _, s := range c.Sets {
		if len(s.Ops) < 1 || len(s.Ops) > 5 {
			return false
		}
		seen := map[string]bool{}
		nj := 0
		for _, op := range s.Ops {
			l, ok := c17eLeafOf(op.Leaf)
			if !ok || l.Key || seen[op.Leaf] {
				return false
			}
			seen[op.Leaf] = true
			if op.Del {
				continue
			}
			if !op.Val.validFor(l) {
				return false
			}
			switch op.Enc {
			case "":
			case "ascii":
				if l.Kind != "string" {
					return false
				}
			case "xarm":
				if !op.Val.xarmOK() {
					return false
				}
			case "json":
				nj++
				ok := false
				for _, ct := range c17eContainers {
					ok = ok || ct == s.JSONAt
				}
				if !ok || !c17eBeneath(s.JSONAt, op.Leaf) {
					return false
				}
			default:
				return false
			}
		}
		if nj == 0 && s.JSONAt != "" {
			return false
		}
	}
	seen := map[string]bool{}
	for _, t := range c.Tail {
		if (t != "resync" && t != "rollback") || seen[t] {
			return false
		}
		seen[t] = true
	}
	return !(c.MidResync && len(c.Sets) < 2)
}

func (s c17eSet) build() (*gpb.SetRequest, error) {
	req := &gpb.SetRequest{Prefix: &gpb.Path{Target: c17eTarget}}
	var jsonOps []c17eOp
	for _, op := range s.Ops {
		p := model.Parse(op.Leaf).Gnmi()
		switch {
		case op.Del:
			req.Delete = append(req.Delete, p)
		case op.Enc == "json":
			jsonOps = append(jsonOps, op)
		case op.Replace:
			req.Replace = append(req.Replace, &gpb.Update{Path: p, Val: op.Val.gnmi(op.Enc)})
		default:
			req.Update = append(req.Update, &gpb.Update{Path: p, Val: op.Val.gnmi(op.Enc)})
		}
	}
	if len(jsonOps) > 0 {
		doc, err := c17eClientJSON(s.JSONAt, jsonOps)
		if err != nil {
			return nil, err
		}
		u := &gpb.Update{Path: model.Parse(strings.TrimSuffix(s.JSONAt, "/")).Gnmi(), Val: &gpb.TypedValue{Value: &gpb.TypedValue_JsonVal{JsonVal: doc}}}
		if s.JSONReplace {
			req.Replace = append(req.Replace, u)
		} else {
			req.Update = append(req.Update, u)
		}
	}
	return req, nil
}

func (s c17eSet) describe() string {
	var parts []string
	for _, op := range s.Ops {
		switch {
		case op.Del:
			parts = append(parts, "delete "+op.Leaf)
		default:
			k := "update"
			if op.Replace {
				k = "replace"
			}
			e := ""
			if op.Enc != "" {
				e = "(" + op.Enc + ")"
			}
			parts = append(parts, fmt.Sprintf("%s%s %s = %s", k, e, op.Leaf, op.Val))
		}
	}
	j := ""
	if s.JSONAt != "" {
		j = " json_val at " + s.JSONAt
	}
	return "Set{" + strings.Join(parts, "; ") + "}" + j
}

// ---- generator ----------------------------------------------------------------------------------

func genC17e(rt *rapid.T) c17eCase {
	s := c17eSrc{rt}
	var c c17eCase
	nsets := []int{1, 2, 2, 3, 1}[s.Intn(5, "nsets")]
	type written struct {
		leaf c17eLeaf
		val  c17eVal
		enc  string
	}
	var hist []written // latest write per leaf, in order of first write
	note := func(l c17eLeaf, v c17eVal, enc string, del bool) {
		for i := range hist {
			if hist[i].leaf.Path == l.Path {
				if del {
					hist = append(hist[:i], hist[i+1:]...)
				} else {
					hist[i].val, hist[i].enc = v, enc
				}
				return
			}
		}
		if !del {
			hist = append(hist, written{l, v, enc})
		}
	}
	var writable []c17eLeaf
	for _, l := range c17eLeaves {
		if !l.Key {
			writable = append(writable, l)
		}
	}
	for k := 0; k < nsets; k++ {
		var set c17eSet
		used := map[string]bool{}
		nops := 1 + s.Intn(4, "nops")
		// same-leaf follow-ups first: they are what a history is about
		if k > 0 && len(hist) > 0 && s.Intn(5, "followups") < 3 {
			nf := 1 + s.Intn(2, "nfollow")
			for f := 0; f < nf && len(set.Ops) < nops; f++ {
				h := hist[s.Intn(len(hist), "followleaf")]
				if used[h.leaf.Path] {
					continue
				}
				used[h.leaf.Path] = true
				enc := h.enc
				if enc == "json" {
					enc = ""
				}
				v, enc, label := c17eFollow(s, h.leaf, h.val, enc)
				set.Ops = append(set.Ops, c17eOp{Leaf: h.leaf.Path, Enc: enc, Follow: label, Val: v, Replace: s.Intn(4, "replace") == 0})
			}
		}
		if k > 0 && len(hist) > 0 && len(set.Ops) < nops && s.Intn(8, "delete") == 0 {
			h := hist[s.Intn(len(hist), "delleaf")]
			if !used[h.leaf.Path] {
				used[h.leaf.Path] = true
				set.Ops = append(set.Ops, c17eOp{Leaf: h.leaf.Path, Del: true})
			}
		}
		for len(set.Ops) < nops {
			l := writable[s.Intn(len(writable), "leaf")]
			if used[l.Path] {
				l = writable[(s.Intn(len(writable), "leaf2"))]
				if used[l.Path] {
					break
				}
			}
			used[l.Path] = true
			op := c17eOp{Leaf: l.Path, Val: c17eGenVal(s, l), Replace: s.Intn(4, "replace") == 0}
			switch {
			case l.Kind == "string" && s.Intn(3, "ascii") == 0:
				op.Enc = "ascii"
			case op.Val.xarmOK() && s.Intn(3, "xarm") == 0:
				op.Enc = "xarm"
			}
			set.Ops = append(set.Ops, op)
		}
		// a JSON-valued update: the written leaves beneath one container travel as one json_val document
		if s.Intn(4, "jsonset") == 0 {
			at := c17eContainers[s.Intn(len(c17eContainers), "jsonat")]
			n := 0
			for i := range set.Ops {
				if !set.Ops[i].Del && c17eBeneath(at, set.Ops[i].Leaf) && (n == 0 || s.Intn(6, "injson") > 0) {
					set.Ops[i].Enc, set.Ops[i].Replace = "json", false
					n++
				}
			}
			if n > 0 {
				set.JSONAt, set.JSONReplace = at, s.Intn(4, "jsonreplace") == 0
			}
		}
		for _, op := range set.Ops {
			l, _ := c17eLeafOf(op.Leaf)
			note(l, op.Val, op.Enc, op.Del)
		}
		c.Sets = append(c.Sets, set)
	}
	if nsets >= 2 && s.Intn(5, "midresync") == 0 {
		c.MidResync = true
	}
	c.Tail = [][]string{nil, nil, {"resync"}, {"rollback"}, {"rollback"}, {"resync", "rollback"}, {"rollback", "resync"}}[s.Intn(7, "tail")]
	return c
}

// ---- the recording model plugin (test-local; installed in place of the world's fake) -------------------

// c17ePlugin accepts every document, records its bytes, and reads JSON-valued updates as a real plugin would
// (it knows the model: 64-bit integers and decimal64 are strings, widths come from the schema).
type c17ePlugin struct {
	adminapi.ModelPluginServiceClient
	info *adminapi.ModelInfo

	mu       sync.Mutex
	docs     [][]byte
	pvPrefix []string
}

type c17eStream struct {
	grpc.ClientStream
	p   *c17ePlugin
	buf []byte
}

func (s *c17eStream) Send(c *adminapi.ValidateConfigRequestChunk) error {
	s.buf = append(s.buf, c.Json...)
	return nil
}

func (s *c17eStream) CloseAndRecv() (*adminapi.ValidateConfigResponse, error) {
	s.p.mu.Lock()
	s.p.docs = append(s.p.docs, s.buf)
	s.p.mu.Unlock()
	return &adminapi.ValidateConfigResponse{Valid: true}, nil
}

func (p *c17ePlugin) GetModelInfo(ctx context.Context, in *adminapi.ModelInfoRequest, opts ...grpc.CallOption) (*adminapi.ModelInfoResponse, error) {
	return &adminapi.ModelInfoResponse{ModelInfo: p.info}, nil
}

func (p *c17ePlugin) ValidateConfigChunked(ctx context.Context, opts ...grpc.CallOption) (adminapi.ModelPluginService_ValidateConfigChunkedClient, error) {
	return &c17eStream{p: p}, nil
}

func (p *c17ePlugin) GetPathValues(ctx context.Context, in *adminapi.PathValuesRequest, opts ...grpc.CallOption) (*adminapi.PathValuesResponse, error) {
	p.mu.Lock()
	p.pvPrefix = append(p.pvPrefix, in.PathPrefix)
	p.mu.Unlock()
	flat, err := c17eFlattenDoc(in.Json, in.PathPrefix)
	if err != nil {
		return nil, err
	}
	paths := make([]string, 0, len(flat))
	for k := range flat {
		paths = append(paths, k)
	}
	sort.Strings(paths)
	resp := &adminapi.PathValuesResponse{}
	for _, path := range paths {
		l, ok := c17eLeafOf(path)
		if !ok || l.Key {
			if ok {
				continue // the key member of a list entry
			}
			return nil, fmt.Errorf("unknown member %s", path)
		}
		v, err := c17eFromJSON(l, flat[path])
		if err != nil {
			return nil, fmt.Errorf("%s: %v", path, err)
		}
		resp.PathValues = append(resp.PathValues, &configapi.PathValue{Path: path, Value: *c17eMkStored(l, v)})
	}
	return resp, nil
}

func (p *c17ePlugin) numDocs() int {
	p.mu.Lock()
	defer p.mu.Unlock()
	return len(p.docs)
}

func (p *c17ePlugin) lastDoc() []byte {
	p.mu.Lock()
	defer p.mu.Unlock()
	if len(p.docs) == 0 {
		return nil
	}
	return p.docs[len(p.docs)-1]
}

// ---- expectations ---------------------------------------------------------------------------------

// c17eWant is what the history says a leaf holds: the latest client value written to it.
type c17eWant struct {
	Leaf   c17eLeaf
	Stored c17eVal // what the stored records must decode to
	Wire   c17eVal // what the device, PROTO Get and the JSON documents must show
	Cross  bool    // sent through the other integer arm: the number counts, either integer arm / stored type is the client's value
	Ascii  bool    // sent as ascii_val

	// a listed dependency deviation whose trigger the value matches: the exact modelled outcome, not yet observed
	alt       *c17eVal
	altID     string
	altWhat   string
	altStored bool // the deviation is in the stored encoding itself (0x1D); otherwise only in what is decoded from it
}

func c17eNewWant(l c17eLeaf, op c17eOp) *c17eWant {
	w := &c17eWant{Leaf: l, Stored: op.Val.clone(), Wire: op.Val.clone(), Cross: op.Enc == "xarm", Ascii: op.Enc == "ascii"}
	switch {
	case op.Val.trigSep():
		a := op.Val.clone()
		a.S = strings.Split(strings.Join(op.Val.S, "\x1d"), "\x1d")
		w.alt, w.altID, w.altStored = &a, c17eFSep, true
		w.altWhat = "a string leaf-list entry containing byte 0x1D is split in two (onos-api joins entries with 0x1D)"
	case op.Val.trigBytesList():
		a := op.Val.clone()
		a.Y = c17eBytesListAsDecoded(op.Val.Y)
		w.alt, w.altID = &a, c17eFBytesList
		w.altWhat = "a binary leaf-list with an empty entry at index >= 1 comes back with entries missing or merged (onos-api TypedLeafListBytes.List closes one entry per byte)"
	}
	return w
}

func (w *c17eWant) takeAlt(x *vstat.Ctx) {
	x.Known(w.altID, w.altWhat)
	w.Wire = *w.alt
	if w.altStored {
		w.Stored = *w.alt
	}
	w.alt = nil
}

// matchStored judges one stored TypedValue.
func (w *c17eWant) matchStored(tv *configapi.TypedValue, x *vstat.Ctx) error {
	got, err := c17eDecodeStored(tv)
	if err != nil {
		return fmt.Errorf("cannot be decoded: %v", err)
	}
	same := func(want c17eVal) bool {
		if w.Cross && (got.Val.Kind == "int" || got.Val.Kind == "uint") {
			return c17eNumEqual(want, got.Val)
		}
		return want.equal(got.Val)
	}
	if !same(w.Stored) {
		if w.alt != nil && w.altStored && vstat.IsKnown("C17", w.altID) && same(*w.alt) {
			w.takeAlt(x)
		} else {
			return fmt.Errorf("holds %s (type %v, options %v), the client set %s", got.Val, tv.Type, tv.TypeOpts, w.Stored)
		}
	}
	if (w.Leaf.Kind == "int" || w.Leaf.Kind == "uint") && got.Width != w.Leaf.eff() {
		return fmt.Errorf("holds %s with width %d in its type options %v, the model says %d", got.Val, got.Width, tv.TypeOpts, w.Leaf.eff())
	}
	return nil
}

// matchWire judges one gNMI TypedValue (device request, device leaf, PROTO Get).
func (w *c17eWant) matchWire(g *gpb.TypedValue, x *vstat.Ctx) error {
	got, ascii, ok := c17eFromWire(g)
	if !ok {
		return fmt.Errorf("carries %s, the client set %s", fakes.ValString(g), w.Wire)
	}
	if ascii && !w.Ascii {
		return fmt.Errorf("carries the text as ascii_val %s, the client set string_val %s", got, w.Wire)
	}
	same := func(want c17eVal) bool {
		if w.Cross && (got.Kind == "int" || got.Kind == "uint") {
			return c17eNumEqual(want, got)
		}
		return want.equal(got)
	}
	if same(w.Wire) {
		return nil
	}
	if w.alt != nil && vstat.IsKnown("C17", w.altID) && same(*w.alt) {
		w.takeAlt(x)
		return nil
	}
	return fmt.Errorf("carries %s, the client set %s", got, w.Wire)
}

type c17eExp map[string]*c17eWant

func (e c17eExp) clone() c17eExp {
	o := c17eExp{}
	for k, v := range e {
		o[k] = v
	}
	return o
}

func (e c17eExp) paths() []string {
	out := make([]string, 0, len(e))
	for k := range e {
		out = append(out, k)
	}
	sort.Strings(out)
	return out
}

// ---- the run -------------------------------------------------------------------------------------

type c17eRun struct {
	w      *World
	x      *vstat.Ctx
	plugin *c17ePlugin
	mu     sync.Mutex
	ctls   []string // controller that issued device request #i
}

func c17eElems(prefix, p *gpb.Path) []*gpb.PathElem {
	var out []*gpb.PathElem
	out = append(out, prefix.GetElem()...)
	return append(out, p.GetElem()...)
}

func c17eTrunc(s string, n int) string {
	if len(s) <= n {
		return s
	}
	return s[:n] + "..."
}

func (r *c17eRun) settle() error {
	if err := r.w.S.Run(); err != nil {
		return err
	}
	r.w.AwaitCalls(10 * time.Second)
	return nil
}

// checkRecords: (1) the stored configuration: committed and applied values.
func (r *c17eRun) checkRecords(when string, exp c17eExp) error {
	cfg := r.w.Config(c17eTarget)
	if cfg == nil {
		if len(exp) == 0 {
			return nil
		}
		return vstat.Violf("%s: no configuration record although %d leaves were set", when, len(exp))
	}
	for _, side := range []struct {
		name string
		vals map[string]*configapi.PathValue
	}{{"committed", cfg.Values}, {"applied", cfg.Status.Applied.Values}} {
		name, vals := side.name, side.vals
		for _, p := range exp.paths() {
			pv := vals[p]
			if pv == nil || pv.Deleted {
				return vstat.Violf("%s: stored configuration (%s values) lacks %s, the client set %s", when, name, p, exp[p].Stored)
			}
			if pv.Path != p {
				return vstat.Violf("%s: stored configuration (%s values) keys %s to a value carrying path %s", when, name, p, pv.Path)
			}
			if err := exp[p].matchStored(&pv.Value, r.x); err != nil {
				return vstat.Violf("%s: stored configuration (%s values) %s %v", when, name, p, err)
			}
		}
		var extra []string
		for p, pv := range vals {
			if _, ok := exp[p]; !ok && !pv.Deleted {
				extra = append(extra, p)
			}
		}
		if len(extra) > 0 {
			sort.Strings(extra)
			return vstat.Violf("%s: stored configuration (%s values) holds live values nobody set (or that were deleted / rolled back): %v", when, name, extra)
		}
	}
	return nil
}

// checkDevice: (2) the requests the device received since log position n0 and the device's leaves (their fold).
// wantCtl is the controller that must have issued them; must lists paths that have to be among the updates.
func (r *c17eRun) checkDevice(when string, n0 int, wantCtl string, must []string, exp c17eExp) error {
	d := r.w.Devices[c17eTarget]
	log := d.Log()
	if len(log) <= n0 {
		return vstat.Violf("%s: the device received no SetRequest", when)
	}
	seen := map[string]bool{}
	for i := n0; i < len(log); i++ {
		rq := log[i]
		r.mu.Lock()
		ctl := ""
		if i < len(r.ctls) {
			ctl = r.ctls[i]
		}
		r.mu.Unlock()
		if !rq.Accepted {
			return vstat.Violf("%s: the device refused request %s", when, fakes.DescribeReq(rq))
		}
		if ctl != wantCtl {
			return vstat.Violf("%s: device request %s was issued by the %q controller, expected the %s controller", when, fakes.DescribeReq(rq), ctl, wantCtl)
		}
		for _, u := range append(append([]*gpb.Update{}, rq.Req.Replace...), rq.Req.Update...) {
			p := fakes.ElemsKey(c17eElems(rq.Req.Prefix, u.Path))
			want, ok := exp[p]
			if !ok {
				return vstat.Violf("%s: the %s controller sent the device a value for %s, which the client did not set (or deleted / rolled back): %s", when, wantCtl, p, fakes.ValString(u.Val))
			}
			if err := want.matchWire(u.Val, r.x); err != nil {
				return vstat.Violf("%s: the SetRequest of the %s controller for %s %v", when, wantCtl, p, err)
			}
			seen[p] = true
		}
	}
	for _, p := range must {
		if !seen[p] {
			return vstat.Violf("%s: no SetRequest of the %s controller carries %s = %s", when, wantCtl, p, exp[p].Wire)
		}
	}
	return r.checkDeviceLeaves(when, exp)
}

func (r *c17eRun) checkDeviceLeaves(when string, exp c17eExp) error {
	leaves := r.w.Devices[c17eTarget].Leaves()
	for _, p := range exp.paths() {
		g, ok := leaves[p]
		if !ok {
			return vstat.Violf("%s: the device does not hold %s, the client set %s", when, p, exp[p].Wire)
		}
		if err := exp[p].matchWire(g, r.x); err != nil {
			return vstat.Violf("%s: the device's leaf %s %v", when, p, err)
		}
	}
	var extra []string
	for p := range leaves {
		if _, ok := exp[p]; !ok {
			extra = append(extra, p)
		}
	}
	if len(extra) > 0 {
		sort.Strings(extra)
		return vstat.Violf("%s: the device holds leaves the configuration does not: %v", when, extra)
	}
	return nil
}

func (r *c17eRun) get(path *gpb.Path, enc gpb.Encoding) (*gpb.GetResponse, error) {
	resp, err, pan, st := r.w.Get(&gpb.GetRequest{Path: []*gpb.Path{path}, Encoding: enc}, nil)
	if pan != nil {
		return nil, vstat.Violf("Get (%v) panicked: %v\n%s", enc, pan, st)
	}
	if err != nil {
		return nil, vstat.Violf("Get (%v) failed: %v", enc, err)
	}
	return resp, nil
}

// checkProto: (3) Get in PROTO encoding, whole target and the given leaves one by one.
func (r *c17eRun) checkProto(when string, exp c17eExp, single []string) error {
	one := func(what string, path *gpb.Path, want c17eExp) error {
		resp, err := r.get(path, gpb.Encoding_PROTO)
		if err != nil {
			return err
		}
		got := map[string]*gpb.TypedValue{}
		for _, n := range resp.Notification {
			for _, u := range n.Update {
				if u.Val == nil {
					continue
				}
				p := fakes.ElemsKey(c17eElems(n.Prefix, u.Path))
				if _, dup := got[p]; dup {
					return vstat.Violf("%s: %s reports %s twice", when, what, p)
				}
				got[p] = u.Val
			}
		}
		for _, p := range want.paths() {
			g, ok := got[p]
			if !ok {
				return vstat.Violf("%s: %s does not report %s, the client set %s", when, what, p, want[p].Wire)
			}
			if err := want[p].matchWire(g, r.x); err != nil {
				return vstat.Violf("%s: %s: %s %v", when, what, p, err)
			}
		}
		var extra []string
		for p := range got {
			if _, ok := want[p]; !ok {
				extra = append(extra, p+" = "+fakes.ValString(got[p]))
			}
		}
		if len(extra) > 0 {
			sort.Strings(extra)
			return vstat.Violf("%s: %s reports values that are not in the configuration: %v", when, what, extra)
		}
		return nil
	}
	if err := one("Get PROTO of the whole target", &gpb.Path{Target: c17eTarget}, exp); err != nil {
		return err
	}
	for _, p := range single {
		if _, ok := exp[p]; !ok {
			continue
		}
		gp := model.Parse(p).Gnmi()
		gp.Target = c17eTarget
		if err := one("Get PROTO of "+p, gp, c17eExp{p: exp[p]}); err != nil {
			return err
		}
	}
	return nil
}

// checkDoc judges an RFC 7951 document against the expectation: every leaf with the right JSON type and digits,
// nothing else but the key members of the list entries on the leaves' paths.
func (r *c17eRun) checkDoc(what string, doc []byte, exp c17eExp) error {
	flat, err := c17eFlattenDoc(doc, "/")
	if err != nil {
		return vstat.Violf("%s: %v: %s", what, err, c17eTrunc(string(doc), 400))
	}
	for _, p := range exp.paths() {
		jv, ok := flat[p]
		if !ok {
			return vstat.Violf("%s has no leaf %s, the client set %s: %s", what, p, exp[p].Wire, c17eTrunc(string(doc), 400))
		}
		w := exp[p]
		if err := c17eCheckJSON(w.Wire, w.Leaf.eff(), jv, r.x); err != nil {
			// the JSON rendering is decoded from the same stored bytes as the wire form: a listed deviation shows here too
			if w.alt != nil && vstat.IsKnown("C17", w.altID) && c17eCheckJSON(*w.alt, w.Leaf.eff(), jv, r.x) == nil {
				w.takeAlt(r.x)
			} else {
				return vstat.Violf("%s: %s = %s: %v", what, p, w.Wire, err)
			}
		}
		delete(flat, p)
	}
	rest := make([]string, 0, len(flat))
	for p := range flat {
		rest = append(rest, p)
	}
	sort.Strings(rest)
	for _, p := range rest {
		jv := flat[p]
		implied := false
		if strings.HasSuffix(p, "/id") {
			entry := strings.TrimSuffix(p, "/id")
			for q := range exp {
				if strings.HasPrefix(q, entry+"/") && jv == any(strings.TrimSuffix(strings.TrimPrefix(entry, "/ent[id="), "]")) {
					implied = true
				}
			}
		}
		if !implied {
			return vstat.Violf("%s shows %s = %v, which is not in the configuration: %s", what, p, jv, c17eTrunc(string(doc), 400))
		}
	}
	return nil
}

// checkJSON: (4) Get in JSON_IETF and in plain JSON encoding.
func (r *c17eRun) checkJSON(when string, exp c17eExp) error {
	for _, enc := range []gpb.Encoding{gpb.Encoding_JSON_IETF, gpb.Encoding_JSON} {
		resp, err := r.get(&gpb.Path{Target: c17eTarget}, enc)
		if err != nil {
			return err
		}
		var doc []byte
		n := 0
		for _, nf := range resp.Notification {
			for _, u := range nf.Update {
				if u.Val == nil {
					continue
				}
				n++
				if doc = u.Val.GetJsonIetfVal(); doc == nil {
					doc = u.Val.GetJsonVal()
				}
				if doc == nil {
					return vstat.Violf("%s: Get %v answers with a value that is no JSON document: %s", when, enc, fakes.ValString(u.Val))
				}
			}
		}
		if n == 0 && len(exp) == 0 {
			continue
		}
		if n != 1 {
			return vstat.Violf("%s: Get %v of the whole target answers with %d documents, want one", when, enc, n)
		}
		if err := r.checkDoc(fmt.Sprintf("%s: the Get %v document", when, enc), doc, exp); err != nil {
			return err
		}
	}
	return nil
}

func runC17e(c c17eCase, x *vstat.Ctx) error {
	if !c.valid() {
		return vstat.ErrSkip
	}
	c17eClassify(c, x)
	w, err := NewWorld(x, Options{Targets: []TargetSpec{{ID: c17eTarget, Online: true}}, Schema: c17eSchema()})
	if err != nil {
		return err
	}
	defer w.Close()
	w.S.Budget = 40000
	r := &c17eRun{w: w, x: x}
	// the model plugin: the registry's client is replaced by the recording one (same model information)
	mp, ok := w.Reg.GetPlugin(model.M1Name, model.M1Version)
	if !ok {
		return fmt.Errorf("%w: the world has no model plugin", ErrInconclusive)
	}
	r.plugin = &c17ePlugin{info: w.Plugin.Info}
	mp.GetInfo().Client = r.plugin
	dev := w.Devices[c17eTarget]
	dev.OnSet = func(req fakes.DeviceReq) {
		ctl := ""
		if cur := w.S.Current(); cur != nil {
			ctl = cur.Ctl
		}
		r.mu.Lock()
		for len(r.ctls) < req.Seq {
			r.ctls = append(r.ctls, "")
		}
		r.ctls = append(r.ctls, ctl)
		r.mu.Unlock()
		x.Logf("    -> device: %s [by %s]", fakes.DescribeReq(req), ctl)
	}
	if err := r.settle(); err != nil {
		return err
	}

	exp := c17eExp{}
	var beforeLast c17eExp
	var lastCall *Call

	resync := func(when string) error {
		x.Logf("%s: the device restarts empty and reconnects", when)
		n0 := dev.LogLen()
		w.LinkDown(c17eTarget)
		dev.RestartEmpty()
		if len(dev.Leaves()) != 0 {
			return fmt.Errorf("%w: the restarted device is not empty", ErrInconclusive)
		}
		if err := w.LinkUp(c17eTarget); err != nil {
			return err
		}
		if err := r.settle(); err != nil {
			return err
		}
		if cfg := w.Config(c17eTarget); cfg == nil || cfg.Status.State != configapi.ConfigurationStatus_SYNCHRONIZED {
			return vstat.Violf("%s: the configuration is not SYNCHRONIZED after the device came back: %s", when, w.DescribeState())
		}
		if len(exp) == 0 && dev.LogLen() == n0 {
			return nil
		}
		if err := r.checkDevice(when+" (re-synchronisation push)", n0, "configuration", exp.paths(), exp); err != nil {
			return err
		}
		if err := r.checkRecords(when, exp); err != nil {
			return err
		}
		if err := r.checkProto(when, exp, nil); err != nil {
			return err
		}
		return r.checkJSON(when, exp)
	}

	for k, set := range c.Sets {
		when := fmt.Sprintf("after Set %d", k+1)
		x.Logf("Set %d: %s", k+1, set.describe())
		req, err := set.build()
		if err != nil {
			return fmt.Errorf("harness: %v", err)
		}
		beforeLast = exp.clone()
		n0, d0 := dev.LogLen(), r.plugin.numDocs()
		call, err := w.StartSet(fmt.Sprintf("s%d", k+1), req, nil, nil)
		if err != nil {
			return err
		}
		if call.Panic != nil {
			return vstat.Violf("Set %d: the handler panicked: %v\n%s", k+1, call.Panic, call.Stack)
		}
		if err := r.settle(); err != nil {
			return err
		}
		if !call.Created || !call.Done() || call.Err != nil {
			return vstat.Violf("Set %d of supported values was not accepted (created=%v answered=%v): %v; %s; state %s", k+1, call.Created, call.Done(), call.Err, set.describe(), w.DescribeState())
		}
		lastCall = call
		// the history's effect
		var written, deleted, mustSend []string
		for _, op := range set.Ops {
			l, _ := c17eLeafOf(op.Leaf)
			if op.Del {
				delete(exp, op.Leaf)
				deleted = append(deleted, op.Leaf)
				continue
			}
			exp[op.Leaf] = c17eNewWant(l, op)
			written = append(written, op.Leaf)
			// writing the value the leaf already holds need not be sent again (the device must hold it all the same)
			if old, had := beforeLast[op.Leaf]; !had || !old.Wire.equal(op.Val) || old.Cross != (op.Enc == "xarm") {
				mustSend = append(mustSend, op.Leaf)
			}
		}
		sort.Strings(written)
		sort.Strings(mustSend)
		// (1) the stored transaction record
		tx := call.Tx()
		if tx == nil || tx.GetChange() == nil || tx.GetChange().Values[configapi.TargetID(c17eTarget)] == nil {
			return vstat.Violf("%s: the transaction log holds no change for the target", when)
		}
		if tx.Status.State != configapi.TransactionStatus_APPLIED {
			return vstat.Violf("%s: the transaction is %v%s, not APPLIED, although the target is connected and nothing refuses: %s", when, tx.Status.State, failureOf(tx), w.DescribeState())
		}
		chg := tx.GetChange().Values[configapi.TargetID(c17eTarget)].Values
		for _, p := range written {
			pv := chg[p]
			if pv == nil || pv.Deleted {
				return vstat.Violf("%s: the stored transaction's change lacks %s, the client set %s", when, p, exp[p].Stored)
			}
			if err := exp[p].matchStored(&pv.Value, x); err != nil {
				return vstat.Violf("%s: the stored transaction's change for %s %v", when, p, err)
			}
		}
		for _, p := range deleted {
			if pv := chg[p]; pv == nil || !pv.Deleted {
				return vstat.Violf("%s: the stored transaction's change does not delete %s", when, p)
			}
		}
		if len(chg) != len(written)+len(deleted) {
			var keys []string
			for p := range chg {
				keys = append(keys, p)
			}
			sort.Strings(keys)
			return vstat.Violf("%s: the stored transaction's change holds %v, the client wrote %v and deleted %v", when, keys, written, deleted)
		}
		if err := r.checkRecords(when, exp); err != nil {
			return err
		}
		// (2) the device
		if dev.LogLen() > n0+1 {
			return vstat.Violf("%s: the device received %d SetRequests for one Set", when, dev.LogLen()-n0)
		}
		if dev.LogLen() == n0 && len(mustSend)+len(deleted) == 0 {
			x.Class("history:set-of-unchanged-values-not-sent-again")
			if err := r.checkDeviceLeaves(when, exp); err != nil {
				return err
			}
		} else if err := r.checkDevice(when, n0, "proposal", mustSend, exp); err != nil {
			return err
		}
		// (3) (4) Get
		if err := r.checkProto(when, exp, written); err != nil {
			return err
		}
		if err := r.checkJSON(when, exp); err != nil {
			return err
		}
		// (5) the model plugin's document
		if r.plugin.numDocs() == d0 {
			return vstat.Violf("%s: the model plugin was not given any document to validate", when)
		}
		if err := r.checkDoc(when+": the document given to the model plugin", r.plugin.lastDoc(), exp); err != nil {
			return err
		}
		if set.JSONAt != "" {
			r.plugin.mu.Lock()
			pfx := append([]string{}, r.plugin.pvPrefix...)
			r.plugin.mu.Unlock()
			if want := set.JSONAt; len(pfx) == 0 || pfx[len(pfx)-1] != want {
				return vstat.Violf("%s: the JSON-valued update rooted at %s was handed to the model plugin with prefixes %v", when, want, pfx)
			}
		}
		if c.MidResync && k == 0 {
			if err := resync("after Set 1, device restart"); err != nil {
				return err
			}
		}
	}

	for _, t := range c.Tail {
		switch t {
		case "resync":
			if err := resync("after the last step, device restart"); err != nil {
				return err
			}
		case "rollback":
			when := fmt.Sprintf("after the rollback of Set %d", len(c.Sets))
			x.Logf("rollback of transaction %d", lastCall.TxIndex)
			n0, d0 := dev.LogLen(), r.plugin.numDocs()
			changed := map[string]bool{}
			for _, op := range c.Sets[len(c.Sets)-1].Ops {
				changed[op.Leaf] = true
			}
			call, err := w.StartRollback("rb", lastCall.TxIndex, nil)
			if err != nil {
				return err
			}
			if call.Panic != nil {
				return vstat.Violf("the rollback handler panicked: %v\n%s", call.Panic, call.Stack)
			}
			if err := r.settle(); err != nil {
				return err
			}
			if !call.Done() || call.Err != nil {
				return vstat.Violf("the rollback of the latest change (transaction %d) was not carried out (answered=%v): %v; state %s", lastCall.TxIndex, call.Done(), call.Err, w.DescribeState())
			}
			exp = beforeLast
			var must []string
			for _, p := range exp.paths() {
				if changed[p] {
					must = append(must, p)
				}
			}
			if err := r.checkRecords(when, exp); err != nil {
				return err
			}
			if err := r.checkDevice(when, n0, "proposal", must, exp); err != nil {
				return err
			}
			if err := r.checkProto(when, exp, must); err != nil {
				return err
			}
			if err := r.checkJSON(when, exp); err != nil {
				return err
			}
			if r.plugin.numDocs() == d0 {
				return vstat.Violf("%s: the model plugin was not given any document to validate", when)
			}
			if len(exp) > 0 {
				if err := r.checkDoc(when+": the document given to the model plugin", r.plugin.lastDoc(), exp); err != nil {
					return err
				}
			}
		}
	}
	return nil
}

// ---- histogram, non-trivial rule, sample --------------------------------------------------------

func c17eClassify(c c17eCase, x *vstat.Ctx) {
	x.Class(fmt.Sprintf("history:%d-sets", len(c.Sets)))
	var sample []string
	firstWrite := map[string]int{}
	sameLeaf := false
	for k, s := range c.Sets {
		sample = append(sample, s.describe())
		if s.JSONAt != "" {
			x.Class("encoding:json_val-at-container")
			x.Class("json_val:rooted-at-" + s.JSONAt)
		}
		for _, op := range s.Ops {
			l, _ := c17eLeafOf(op.Leaf)
			if op.Del {
				x.Class("op:delete-of-a-written-leaf")
				continue
			}
			if j, seen := firstWrite[op.Leaf]; seen && j < k {
				sameLeaf = true
				x.Class("history:same-leaf-rewritten")
				if op.Follow != "" {
					x.Class("follow-up:" + op.Follow)
				}
			} else if !seen {
				firstWrite[op.Leaf] = k
			}
			if op.Replace {
				x.Class("op:replace")
			} else {
				x.Class("op:update")
			}
			c17eClassifyVal(l, op, x)
		}
	}
	if len(c.Sets) > 1 {
		if sameLeaf {
			x.Class("multi-set:with-same-leaf-follow-up")
		} else {
			x.Class("multi-set:distinct-leaves-only")
		}
	}
	if c.MidResync {
		x.Class("resync:device-restart-between-sets")
	}
	for i, t := range c.Tail {
		switch t {
		case "resync":
			x.Class("resync:device-restart-at-the-end")
			if i > 0 {
				x.Class("resync:after-a-rollback")
			}
		case "rollback":
			x.Class("rollback:of-the-last-set")
		}
	}
	x.Sample(map[string]any{"sets": sample, "restartAfterFirstSet": c.MidResync, "tail": c.Tail})
}

func c17eClassifyVal(l c17eLeaf, op c17eOp, x *vstat.Ctx) {
	v := op.Val
	x.Class("type:" + l.name())
	arm := map[string]string{"string": "string_val", "int": "int_val", "uint": "uint_val", "bool": "bool_val", "bytes": "bytes_val", "decimal": "decimal_val", "float": "float_val"}[l.Kind]
	switch op.Enc {
	case "ascii":
		arm = "ascii_val"
	case "xarm":
		if l.Kind == "int" {
			arm = "uint_val-for-an-int-leaf"
		} else {
			arm = "int_val-for-a-uint-leaf"
		}
	case "json":
		arm = "json_val"
	}
	if l.List && op.Enc != "json" {
		arm = "leaflist_val-of-" + arm
	}
	x.Class("arm:" + arm)
	if l.List {
		x.NonTrivial("leaf-list")
		if v.n() == 1 {
			x.Class("leaflist:one-element")
		}
	}
	if (l.Kind == "int" || l.Kind == "uint") && l.Width == 64 {
		x.NonTrivial("width 64")
	}
	if (l.Kind == "int" || l.Kind == "uint") && l.Width == 0 {
		x.Class("model:no-type-opts")
	}
	if l.Kind == "decimal" {
		x.NonTrivial("decimal64")
		x.Class(fmt.Sprintf("decimal:precision-%02d", v.Prec))
		if l.MPrec != 0 && l.MPrec != v.Prec {
			x.Class("model:fraction-digits-differ-from-the-client's")
		}
	}
	if v.trigSep() {
		x.Class("trigger:" + c17eFSep)
	}
	if v.trigBytesList() {
		x.Class("trigger:" + c17eFBytesList)
	}
	for i := 0; i < v.n(); i++ {
		switch v.Kind {
		case "int":
			lo, hi := c17eIntRange(l.eff())
			if v.I[i] == lo || v.I[i] == hi {
				x.NonTrivial("extreme value")
				x.Class(fmt.Sprintf("extreme:int%d-min/max", l.eff()))
			}
			if v.I[i] == 0 || v.I[i] == -1 {
				x.Class("value:int-0/-1")
			}
			if v.I[i] > 1<<53 || v.I[i] < -(1<<53) {
				x.Class("value:beyond-2^53")
			}
		case "uint":
			if v.U[i] == c17eUintMax(l.eff()) {
				x.NonTrivial("extreme value")
				x.Class(fmt.Sprintf("extreme:uint%d-max", l.eff()))
			}
			if v.U[i] > 1<<53 {
				x.Class("value:beyond-2^53")
			}
		case "decimal":
			if v.I[i] == -1<<63 || v.I[i] == 1<<63-1 {
				x.NonTrivial("extreme value")
				x.Class("extreme:decimal-digits-min/max")
			}
			if v.I[i] < 0 {
				x.Class("decimal:negative-digits")
				p := int64(1)
				for k := 0; k < v.Prec && p < 1e18; k++ {
					p *= 10
				}
				if v.Prec > 0 && -v.I[i] < p && v.I[i] != -1<<63 {
					x.Class("decimal:between-minus-one-and-zero")
				}
			}
			if v.I[i] > 1<<53 || v.I[i] < -(1<<53) {
				x.Class("value:beyond-2^53")
			}
		case "string":
			if v.S[i] == "" {
				x.NonTrivial("extreme value")
				x.Class("extreme:empty-string")
			}
			for _, r := range v.S[i] {
				if r < 0x20 || r == 0x7f {
					x.Class("string:control-character")
				}
				if r > 0x7f {
					x.Class("string:non-ascii")
				}
			}
		case "bytes":
			if len(v.Y[i]) == 0 {
				x.NonTrivial("extreme value")
				x.Class("extreme:empty-bytes")
			}
		case "float":
			f := v.F[i] & 0x7fffffff
			if f == 0x7f7fffff || f == 1 {
				x.NonTrivial("extreme value")
				x.Class("extreme:float-max/min-subnormal")
			}
			if v.F[i] == 0x80000000 {
				x.Class("float:negative-zero")
			}
		}
	}
}

// TestC17_EndToEnd: the value a client sets is the value stored, sent to the device (also by the
// re-synchronisation after a device restart), returned by Get in PROTO, and shown with the right JSON type and
// digits by Get in JSON / JSON_IETF and in the document given to the model plugin — after every Set of a history,
// after a rollback and after a device restart.
func TestC17_EndToEnd(t *testing.T) {
	vstat.Run(t, "C17", genC17e, runC17e)
}
