package sim

// C12 native fuzz targets: bytes -> the gRPC codec's Unmarshal into the request
// type -> (if it decodes) the real handler under recover(). One populated world
// per fuzz worker process is reused across iterations; it is rebuilt after a
// few accepted changes so that a crasher found on it reproduces on a fresh one.
// Saved crashers (testdata/fuzz/<target>/...) are the replay unit.

import (
	"flag"
	"fmt"
	"strings"
	"sync"
	"testing"

	"pgregory.net/rapid"

	"verif/harness/vstat"
)

const (
	c12FuzzRebuildAfter = 6  // accepted changes per world
	c12FuzzMaxWorlds    = 70 // a process cannot release worlds completely: stop rebuilding after this many
)

var (
	c12FuzzMu  sync.Mutex
	c12FuzzEnv *c12Env
	c12FuzzCtx = &vstat.Ctx{}
)

// c12FuzzRec collects what the executor records for one iteration.
type c12FuzzRec struct {
	log []string
}

func (r *c12FuzzRec) Class(string)          {}
func (r *c12FuzzRec) NonTrivial(string)     {}
func (r *c12FuzzRec) Known(id, what string) { r.log = append(r.log, "known finding "+id) }
func (r *c12FuzzRec) Logf(f string, a ...any) {
	if len(r.log) < 200 {
		r.log = append(r.log, fmt.Sprintf(f, a...))
	}
}

func c12FuzzWorld(t *testing.T) *c12Env {
	if c12FuzzEnv != nil && (c12FuzzEnv.accepted >= c12FuzzRebuildAfter || c12FuzzEnv.broken()) && c12WorldsBuilt < c12FuzzMaxWorlds {
		c12FuzzEnv.w.Close()
		c12FuzzEnv = nil
	}
	if c12FuzzEnv == nil {
		e, err := c12Build(c12FuzzCtx, "pop")
		if err != nil {
			t.Skipf("harness: world could not be built: %v", err)
		}
		c12FuzzEnv = e
	}
	return c12FuzzEnv
}

// broken reports that a controller panicked or did not quiesce in this world.
func (e *c12Env) broken() bool { return e.brokenFlag }

// c12FuzzOne serves one request on the worker's world; any panic that is not a listed finding fails.
func c12FuzzOne(t *testing.T, r C12Req) {
	c12FuzzMu.Lock()
	defer c12FuzzMu.Unlock()
	e := c12FuzzWorld(t)
	rec := &c12FuzzRec{}
	hist := append([]string{}, e.history...)
	err := c12Exec(rec, e, r, true)
	c12PruneCalls(e.w)
	if err == nil {
		return
	}
	e.brokenFlag = true
	if strings.Contains(err.Error(), ErrInconclusive.Error()) {
		t.Skipf("harness inconclusive: %v", err)
	}
	t.Fatalf("%v\n\nthis iteration:\n%s\n\nchanges accepted by this world before this iteration (fixed populated history first, then):\n%s",
		err, strings.Join(rec.log, "\n"), strings.Join(hist, "\n"))
}

// c12Seeds returns marshalled outputs of the rapid generator for one kind plus the hostile constants of that kind.
func c12Seeds(kind string, n int) []C12Req {
	var out []C12Req
	for _, c := range c12Constants() {
		if c.Kind == kind && len(c.Wire) > 0 {
			out = append(out, c)
		}
	}
	g := rapid.Custom(func(rt *rapid.T) C12Req { return genC12ReqOfKind(rt, kind) })
	for i := 0; i < n; i++ {
		r := g.Example(i + 1)
		if len(r.Wire) > 0 && len(r.Wire[0]) < 8192 {
			out = append(out, r)
		}
	}
	return out
}

// c12FuzzTune bounds the time the fuzzing engine spends minimising inputs that
// merely reached new coverage (default: up to 60 s each). Coverage of a
// long-lived world with background goroutines is noisy, so without the bound
// most of a 60 s budget goes into minimisation instead of mutation. Crashers
// are still minimised (within the same bound) and saved.
func c12FuzzTune() {
	if fl := flag.Lookup("test.fuzzminimizetime"); fl != nil && fl.Value.String() == fl.DefValue {
		_ = fl.Value.Set("3s")
	}
}

func FuzzC12Get(f *testing.F) {
	c12FuzzTune()
	for _, s := range c12Seeds(c12Get, 40) {
		f.Add(s.Wire[0])
	}
	f.Add([]byte{})
	f.Fuzz(func(t *testing.T, data []byte) {
		c12FuzzOne(t, C12Req{Kind: c12Get, Wire: [][]byte{data}})
	})
}

func FuzzC12Set(f *testing.F) {
	c12FuzzTune()
	for _, s := range c12Seeds(c12Set, 60) {
		f.Add(s.Wire[0])
	}
	f.Add([]byte{})
	f.Fuzz(func(t *testing.T, data []byte) {
		c12FuzzOne(t, C12Req{Kind: c12Set, Wire: [][]byte{data}})
	})
}

// FuzzC12Subscribe: the stream carries the fuzzed message, optionally preceded
// or followed by a Poll or followed by itself (a duplicate subscription).
func FuzzC12Subscribe(f *testing.F) {
	c12FuzzTune()
	for i, s := range c12Seeds(c12Sub, 40) {
		f.Add(s.Wire[0], uint8(i))
	}
	f.Add([]byte{}, uint8(0))
	poll := []byte{0x1a, 0x00} // SubscribeRequest{poll:{}}
	f.Fuzz(func(t *testing.T, data []byte, shape uint8) {
		r := C12Req{Kind: c12Sub}
		switch shape % 5 {
		case 0:
			r.Wire = [][]byte{data}
		case 1:
			r.Wire = [][]byte{data, poll}
		case 2:
			r.Wire = [][]byte{poll, data}
		case 3:
			r.Wire = [][]byte{data, data}
		case 4:
			r.Wire = [][]byte{data, poll, poll}
			r.End = "cancel"
		}
		c12FuzzOne(t, r)
	})
}

// c12FuzzAdminKinds: every admin RPC plus gNMI Capabilities.
var c12FuzzAdminKinds = append(append([]string{}, c12AdminKinds...), c12Cap)

func FuzzC12Admin(f *testing.F) {
	c12FuzzTune()
	for k, kind := range c12FuzzAdminKinds {
		n := 6
		if kind == c12LeafSel {
			n = 40
		}
		for _, s := range c12Seeds(kind, n) {
			f.Add(uint8(k), s.Wire[0])
		}
		f.Add(uint8(k), []byte{})
	}
	f.Fuzz(func(t *testing.T, kind uint8, data []byte) {
		c12FuzzOne(t, C12Req{Kind: c12FuzzAdminKinds[int(kind)%len(c12FuzzAdminKinds)], Wire: [][]byte{data}})
	})
}
