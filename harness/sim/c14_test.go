package sim

import (
	"context"
	"fmt"
	"os"
	"sort"
	"strings"
	"testing"

	"github.com/grpc-ecosystem/go-grpc-middleware/util/metautils"
	"github.com/onosproject/onos-config/pkg/utils"
	gpb "github.com/openconfig/gnmi/proto/gnmi"
	"google.golang.org/grpc/codes"
	"google.golang.org/grpc/metadata"
	"pgregory.net/rapid"

	"verif/harness/model"
	"verif/harness/vstat"
)

// C14Case: an ADMINGROUPS setting and a caller.
type C14Case struct {
	AdminGroups []string `json:"adminGroups"`        // nil = variable unset
	Identity    string   `json:"identity"`           // none | name | preferred_username | both
	Groups      []string `json:"groups"`             // the caller's groups
	HasGroups   bool     `json:"hasGroups"`          // false: the groups key is absent altogether
	Form        string   `json:"form"`               // joined (one ';'-joined value) | repeated (one metadata value per group)
	E2E         bool     `json:"e2e"`                // also send a real Set / Get through the handlers
	OIDC        bool     `json:"oidc"`               // OIDC_SERVER_URL set for the Get part
	ROCOverride string   `json:"rocOverride"`        // AetherROCAdmin env override ("" = unset)
	ROCEmpty    bool     `json:"rocEmpty,omitempty"` // the variable is SET, to the empty string (means: not overridden)
	Primer      bool     `json:"primer,omitempty"`   // e2e: the same user, then still holding an administrator group, is served first
}

// names as identity providers allow them: also with blanks inside (the variable is a COMMA separated list)
var adminPool = []string{"AetherROCAdmin", "EnterpriseAdmin", "ops", "net-admins", "Admin", "Aether ROC Admin", "site operators"}

func genC14(rt *rapid.T) C14Case {
	c := C14Case{}
	if rapid.IntRange(0, 7).Draw(rt, "unset") > 0 {
		n := rapid.IntRange(1, 4).Draw(rt, "nadmin")
		perm := rapid.Permutation(adminPool).Draw(rt, "adminperm")
		c.AdminGroups = append([]string{}, perm[:n]...)
	}
	c.Identity = []string{"name", "name", "preferred_username", "both", "none"}[rapid.IntRange(0, 4).Draw(rt, "identity")]
	c.HasGroups = rapid.IntRange(0, 5).Draw(rt, "hasgroups") > 0
	if c.Identity == "none" && rapid.IntRange(0, 2).Draw(rt, "groupsonly") > 0 {
		c.HasGroups = false // no identity keys at all (a groups key without any name is identity metadata too)
	}
	if c.HasGroups {
		ng := rapid.IntRange(0, 4).Draw(rt, "ngroups")
		for i := 0; i < ng; i++ {
			var g string
			base := "AetherROCAdmin"
			if len(c.AdminGroups) > 0 {
				base = c.AdminGroups[rapid.IntRange(0, len(c.AdminGroups)-1).Draw(rt, "base")]
			}
			switch rapid.IntRange(0, 10).Draw(rt, "gkind") {
			case 10: // a group PATH (as some identity providers report them) whose last element is an administrator group, a target id or the ROC-admin name
				last := []string{base, "t1", "t2", "AetherROCAdmin", "ops"}[rapid.IntRange(0, 4).Draw(rt, "pathlast")]
				g = []string{"lab/", "/", "contractors/emea/"}[rapid.IntRange(0, 2).Draw(rt, "pathhead")] + last
			case 9: // one word of an administrator group's name
				ws := strings.Fields(base)
				g = ws[rapid.IntRange(0, len(ws)-1).Draw(rt, "word")]
			case 0, 1: // exact member
				g = base
			case 2: // proper substring
				if len(base) > 2 {
					a := rapid.IntRange(0, len(base)-2).Draw(rt, "suba")
					b := rapid.IntRange(a+1, len(base)-1).Draw(rt, "subb")
					g = base[a:b]
				} else {
					g = base[:1]
				}
			case 3: // superstring
				g = base + "s"
			case 4: // case variant
				g = strings.ToLower(base)
			case 5: // spans two admin names as they appear in the variable
				if len(c.AdminGroups) >= 2 {
					g = c.AdminGroups[0][len(c.AdminGroups[0])/2:] + "," + c.AdminGroups[1][:len(c.AdminGroups[1])/2]
				} else {
					g = "," + base
				}
			case 6: // a target id (matters for Get)
				g = []string{"t1", "t2", "t3"}[rapid.IntRange(0, 2).Draw(rt, "tgroup")]
			case 7: // unrelated
				g = []string{"staff", "guests", "x"}[rapid.IntRange(0, 2).Draw(rt, "other")]
			case 8: // empty group name
				g = ""
			}
			c.Groups = append(c.Groups, g)
		}
	}
	c.Form = []string{"joined", "repeated"}[rapid.IntRange(0, 1).Draw(rt, "form")]
	c.E2E = rapid.IntRange(0, 9).Draw(rt, "e2e") == 0
	c.Primer = rapid.IntRange(0, 1).Draw(rt, "primer") == 1
	c.OIDC = rapid.IntRange(0, 1).Draw(rt, "oidc") == 1
	switch rapid.IntRange(0, 5).Draw(rt, "roc") {
	case 0:
		c.ROCOverride = "ops"
	case 1:
		c.ROCEmpty = true
	}
	return c
}

func (c C14Case) md() metadata.MD {
	md := metadata.MD{}
	switch c.Identity {
	case "name":
		md.Set("name", "Alice A")
	case "preferred_username":
		md.Set("preferred_username", "alicea")
	case "both":
		md.Set("name", "Alice A")
		md.Set("preferred_username", "alicea")
	}
	if c.Identity != "none" {
		md.Set("email", "alice@example.org")
	}
	if c.HasGroups {
		if c.Form == "joined" {
			md.Set("groups", strings.Join(c.Groups, ";"))
		} else {
			md["groups"] = append([]string{}, c.Groups...)
			if len(c.Groups) == 0 {
				md["groups"] = []string{""}
			}
		}
	}
	return md
}

// entitled: some caller group equals some admin group exactly.
func (c C14Case) entitled() bool {
	for _, g := range c.Groups {
		for _, a := range c.AdminGroups {
			if g != "" && g == a {
				return true
			}
		}
	}
	return false
}

func withEnv(kv map[string]*string, fn func()) {
	old := map[string]*string{}
	for k, v := range kv {
		if cur, ok := os.LookupEnv(k); ok {
			c := cur
			old[k] = &c
		} else {
			old[k] = nil
		}
		if v == nil {
			os.Unsetenv(k)
		} else {
			os.Setenv(k, *v)
		}
	}
	defer func() {
		for k, v := range old {
			if v == nil {
				os.Unsetenv(k)
			} else {
				os.Setenv(k, *v)
			}
		}
	}()
	fn()
}

func runC14(c C14Case, x *vstat.Ctx) error {
	var admin *string
	if c.AdminGroups != nil {
		s := strings.Join(c.AdminGroups, ",")
		admin = &s
	}
	md := c.md()
	identity := c.Identity != "none" || c.HasGroups
	x.Class("identity:" + c.Identity)
	if c.Identity == "none" && c.HasGroups {
		x.Class("identity:groups-key-only")
	}
	x.Class("form:" + c.Form)
	if identity && (len(c.Groups) > 0 || len(c.AdminGroups) >= 2) {
		x.NonTrivial("identity present with groups or several admin groups")
	}
	x.Sample(map[string]any{"ADMINGROUPS": c.AdminGroups, "identity": c.Identity, "groups": c.Groups, "groups_key_present": c.HasGroups, "form": c.Form})
	var verr error
	withEnv(map[string]*string{"ADMINGROUPS": admin}, func() {
		// ---- pure: the evaluation function, exactly as Set calls it
		ctx := metadata.NewIncomingContext(context.Background(), md)
		err := utils.TemporaryEvaluate(metautils.ExtractIncoming(ctx))
		allowed := err == nil
		if identity {
			if allowed && !c.entitled() {
				verr = vstat.Violf("TemporaryEvaluate allowed a caller none of whose groups %q is exactly one of the administrator groups %q (metadata form %s)", c.Groups, c.AdminGroups, c.Form)
				return
			}
			if !allowed {
				x.Class("pure:refused")
			}
			// converse only where the repository documents it (test/rbac): an exact member presented first is allowed
			if len(c.Groups) > 0 && c.Groups[0] != "" && contains(c.AdminGroups, c.Groups[0]) && !allowed {
				verr = vstat.Violf("TemporaryEvaluate refused a caller whose first group %q is an administrator group %q", c.Groups[0], c.AdminGroups)
				return
			}
		}
		if !c.E2E {
			return
		}
		// ---- end to end: a real Set with that metadata
		verr = c.e2e(x, md, identity)
	})
	return verr
}

func contains(l []string, s string) bool {
	for _, x := range l {
		if x == s {
			return true
		}
	}
	return false
}

func (c C14Case) e2e(x *vstat.Ctx, md metadata.MD, identity bool) error {
	x.Class("e2e")
	w, err := NewWorld(x, Options{Targets: []TargetSpec{{ID: "t1"}, {ID: "t2"}, {ID: "t3"}}})
	if err != nil {
		return err
	}
	defer w.Close()
	if err := w.S.Run(); err != nil {
		return err
	}
	v := model.Str("v1")
	before := 0
	if c.Primer && identity && len(c.AdminGroups) > 0 {
		// the same user (same name, same e-mail) while still a member of an administrator group: served. A
		// decision about one request must not be carried over to the next one of that user.
		x.Class("e2e:same-user-served-as-administrator-first")
		pc := c
		pc.Groups, pc.HasGroups, pc.Form = []string{c.AdminGroups[0]}, true, "joined"
		pspec := SetSpec{Ops: []model.Op{{Kind: "update", Target: "t2", Path: model.Parse("/a/b"), Val: &v}}}
		pcall, err := w.StartSet("primer", pspec.Build(), pc.md(), nil)
		if err != nil {
			return err
		}
		if err := w.S.Run(); err != nil {
			return err
		}
		w.AwaitCalls(10e9)
		if !pcall.Created {
			return vstat.Violf("a Set by a member of the administrator group %q (ADMINGROUPS %q) was refused with %v", c.AdminGroups[0], c.AdminGroups, pcall.Err)
		}
		ptxs, _ := w.St.Tx.List(context.Background())
		before = len(ptxs)
	}
	spec := SetSpec{Ops: []model.Op{{Kind: "update", Target: "t1", Path: model.Parse("/a/b"), Val: &v}}}
	call, err := w.StartSet("set", spec.Build(), md, nil)
	if err != nil {
		return err
	}
	if call.Panic != nil {
		return vstat.Violf("Set panicked: %v\n%s", call.Panic, call.Stack)
	}
	if err := w.S.Run(); err != nil {
		return err
	}
	w.AwaitCalls(10e9)
	txs, _ := w.St.Tx.List(context.Background())
	if identity {
		if !c.entitled() {
			if call.Created || len(txs) != before {
				return vstat.Violf("a Set by a caller without an administrator group (groups %q, ADMINGROUPS %q) was logged", c.Groups, c.AdminGroups)
			}
			if Code(call.Err) != codes.Unauthenticated && Code(call.Err) != codes.PermissionDenied {
				return vstat.Violf("a Set by a caller without an administrator group was answered with %v, not an authorisation error", call.Err)
			}
			if w.Config("t1") != nil {
				return vstat.Violf("a refused Set created a configuration")
			}
		}
	} else {
		// no identity metadata at all: not constrained by C14; the repository's own tests expect it to be served
		if !call.Created {
			return vstat.Violf("a Set without any identity metadata was refused with %v (every unsecured deployment and the unit tests send none)", call.Err)
		}
	}
	// ---- Get target=* under authorization
	var oidc *string
	if c.OIDC {
		s := "https://oidc.example.org"
		oidc = &s
	}
	var roc *string
	if c.ROCOverride != "" {
		roc = &c.ROCOverride
	} else if c.ROCEmpty {
		empty := ""
		roc = &empty
	}
	var gerr error
	withEnv(map[string]*string{"OIDC_SERVER_URL": oidc, "AetherROCAdmin": roc}, func() {
		resp, err, pan, st := w.Get(&gpb.GetRequest{Path: []*gpb.Path{{Target: "*"}}, Encoding: gpb.Encoding_PROTO}, md)
		if pan != nil {
			gerr = vstat.Violf("Get target=* panicked: %v\n%s", pan, st)
			return
		}
		if err != nil {
			gerr = vstat.Violf("Get target=* failed: %v", err)
			return
		}
		var listed []string
		for _, n := range resp.Notification {
			for _, u := range n.Update {
				for _, e := range u.Val.GetLeaflistVal().GetElement() {
					listed = append(listed, e.GetStringVal())
				}
			}
		}
		sort.Strings(listed)
		all := []string{"t1", "t2", "t3"}
		if !c.OIDC {
			if strings.Join(listed, ",") != strings.Join(all, ",") {
				gerr = vstat.Violf("without authorization Get target=* lists %v, want all targets", listed)
			}
			return
		}
		x.Class("get:under-authorization")
		rocName := "AetherROCAdmin"
		if c.ROCOverride != "" {
			rocName = c.ROCOverride
		}
		// the Get handler reads the caller's groups only when a name is present
		var groups []string
		if md.Get("name") != nil && len(md.Get("name")) > 0 && md.Get("name")[0] != "" {
			groups = c.Groups
		}
		isROC := contains(groups, rocName)
		for _, t := range listed {
			if !isROC && !contains(groups, t) {
				gerr = vstat.Violf("under authorization Get target=* showed target %s to a caller whose groups are %q (ROC admin group %q)", t, groups, rocName)
				return
			}
		}
		// completeness only for the documented metadata form (one ';'-joined value)
		if c.Form == "joined" || len(groups) <= 1 {
			var want []string
			for _, t := range all {
				if isROC || contains(groups, t) {
					want = append(want, t)
				}
			}
			if strings.Join(listed, ",") != strings.Join(want, ",") {
				gerr = vstat.Violf("under authorization Get target=* lists %v for groups %q (ROC admin group %q), want %v", listed, groups, rocName, want)
			}
		} else if len(listed) < len(groups) {
			x.Class("get:repeated-metadata-values-only-first-read")
		}
	})
	if gerr != nil {
		return gerr
	}
	_ = fmt.Sprint
	return nil
}

// TestC14_AdminGroups: Set is permitted only to members of an administrator
// group (exact match); Get target=* is filtered by group under authorization.
func TestC14_AdminGroups(t *testing.T) {
	vstat.Run(t, "C14", genC14, runC14)
}
