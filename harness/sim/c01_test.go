package sim

import (
	"testing"

	configapi "github.com/onosproject/onos-api/go/onos/config/v2"
	"google.golang.org/grpc/codes"
	"pgregory.net/rapid"

	"verif/harness/vstat"
)

func genC01(rt *rapid.T) Scenario {
	return genScenario(rt, Profile{MinTargets: 2, MaxTargets: 4, MinSets: 1, MaxSets: 5, MultiTarget: true, Poison: true, Offline: true,
		Crashes: 2, Preempt: 2, Drawn: true, Serializable: true, Pace: true})
}

// checkAnswers verifies the handlers' verdicts against the reference (shared
// by several properties): a logged change the models accept is answered with
// success, one a model rejects with InvalidArgument. Calls that were cut by a
// crash have no answer to check.
func checkAnswers(r *Run, x *vstat.Ctx) error {
	for i, a := range r.Sc.Actions {
		call, rtx := r.Calls[i], r.RefTxs[i]
		if call == nil || a.Kind != "set" {
			continue
		}
		if !call.Created {
			return vstat.Violf("generated (valid) request %s was refused before being logged: %v", a.Describe(), call.Err)
		}
		if call.Aborted != "" {
			x.Class("call:cut-by-crash")
			continue
		}
		if !call.Done() {
			if call.Hung {
				return vstat.Violf("request %s was never answered although its transaction %d reached the awaited stage; state %s", a.Describe(), call.TxIndex, r.W.DescribeState())
			}
			x.Class("call:still-waiting")
			continue
		}
		switch rtx.Outcome {
		case "committed":
			if call.Err != nil && len(rtx.Refused) == 0 {
				return vstat.Violf("request %s (transaction %d) is accepted by every target's model but was answered with %v; state %s", a.Describe(), rtx.Index, call.Err, r.W.DescribeState())
			}
		case "invalid":
			if Code(call.Err) != codes.InvalidArgument {
				return vstat.Violf("request %s (transaction %d) is rejected by a target's model and must be reported failed (InvalidArgument), it was answered with %v", a.Describe(), rtx.Index, call.Err)
			}
		}
	}
	return nil
}

// checkAllOrNothingRecords: for every transaction its proposals are all
// committed or none is, and the transaction record is terminal or (if every
// target is connected) applied.
func checkAllOrNothingRecords(r *Run) error {
	for _, t := range r.Txs() {
		committed, not := 0, 0
		for _, pid := range t.Status.Proposals {
			p, err := r.W.St.Prop.Get(ctxBg(), pid)
			if err != nil {
				continue
			}
			if p.Status.Phases.Commit != nil && p.Status.Phases.Commit.State == configapi.ProposalCommitPhase_COMMITTED {
				committed++
			} else {
				not++
			}
		}
		if committed > 0 && not > 0 {
			return vstat.Violf("transaction %d is committed on %d of its targets and not on %d others; state %s", t.Index, committed, not, r.W.DescribeState())
		}
	}
	return nil
}

func runC01(sc Scenario, x *vstat.Ctx) error {
	r, err := Execute(x, sc, nil)
	defer r.Close()
	x.Sample(describeScenario(sc))
	if err != nil {
		return err
	}
	multi, rejected, overlap := false, false, false
	open := 0
	for i, a := range sc.Actions {
		if a.Kind != "set" || r.RefTxs[i] == nil {
			continue
		}
		if len(r.RefTxs[i].Targets) >= 2 {
			multi = true
			if r.RefTxs[i].Outcome == "invalid" {
				rejected = true
			}
		}
		open++
	}
	if r.W.S.DecisionsDrawn() > 20 && open >= 2 {
		overlap = true
	}
	if sc.Preempt {
		x.Class("mode:pre-emptive")
	} else {
		x.Class("mode:atomic")
	}
	if multi && rejected {
		x.NonTrivial("multi-target Set with a rejected target")
	}
	if multi && r.W.S.Crashes > 0 {
		x.NonTrivial("multi-target Set with a crash")
	}
	if multi && overlap {
		x.NonTrivial("multi-target Set with neighbouring transactions under a drawn schedule")
	}
	if err := checkAnswers(r, x); err != nil {
		return err
	}
	if err := r.CheckStored("at quiescence"); err != nil {
		return err
	}
	// (that every accepted transaction also reaches APPLIED is C09's and C11's subject)
	return checkAllOrNothingRecords(r)
}

// TestC01_AllOrNothing: a multi-target Set is committed on all of its targets
// or on none, under drawn (pre-emptive) schedules and crashes.
func TestC01_AllOrNothing(t *testing.T) {
	vstat.Run(t, "C01", genC01, runC01)
}
