package sim

import (
	"testing"

	"pgregory.net/rapid"

	"verif/harness/model"
	"verif/harness/vstat"
)

// ProbeCase is one attempt of a directed scenario for a listed finding whose
// shape the main generator excludes by construction.
type ProbeCase struct {
	Attempt int `json:"attempt"`
}

// TestC03P_AncestorDeleteOrder demonstrates finding F-ancestor-delete-order
// while it is listed: one request that deletes an ancestor and writes a
// descendant. By gNMI semantics (deletes first) the written leaf must be
// readable afterwards; the code's result depends on Go map iteration order, so
// the scenario is attempted several times. When the finding is NOT listed this
// probe does nothing: the main generator then produces the shape and any
// deviation is a violation.
func TestC03P_AncestorDeleteOrder(t *testing.T) {
	vstat.Run(t, "C03", func(rt *rapid.T) ProbeCase { return ProbeCase{Attempt: rapid.IntRange(0, 1<<20).Draw(rt, "attempt")} }, func(c ProbeCase, x *vstat.Ctx) error {
		if !vstat.IsKnown("C03", "F-ancestor-delete-order") {
			return vstat.ErrSkip
		}
		w, err := NewWorld(x, Options{Targets: []TargetSpec{{ID: "t1"}}})
		if err != nil {
			return err
		}
		defer w.Close()
		if err := w.S.Run(); err != nil {
			return err
		}
		v1, v2 := model.Str("v1"), model.Str("v2")
		s1 := SetSpec{Ops: []model.Op{{Kind: "update", Target: "t1", Path: model.Parse("/a/c/d"), Val: &v1}}}
		s2 := SetSpec{Ops: []model.Op{{Kind: "delete", Target: "t1", Path: model.Parse("/a")}, {Kind: "update", Target: "t1", Path: model.Parse("/a/b"), Val: &v2}}}
		for i, s := range []SetSpec{s1, s2} {
			call, err := submitAndSettle(w, "probe", s)
			if err != nil {
				return err
			}
			if !call.Done() || call.Err != nil {
				x.Logf("probe set %d not acknowledged: %v", i+1, call.Err)
				return nil
			}
		}
		got, _, err := w.GetProto("t1", nil)
		if err != nil {
			return nil
		}
		want := map[string]string{"/a/b": "s:v2"}
		if d := model.DiffFlat(got, want); d != "" {
			x.Known("F-ancestor-delete-order", "a request that deletes an ancestor and writes a descendant does not reliably keep the written leaf (result depends on map iteration order in reconcileCommit): "+d)
		} else {
			x.Class("probe:conforming-order")
		}
		x.Class("probe:ancestor-delete-order")
		return nil
	})
}
