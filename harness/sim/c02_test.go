package sim

import (
	"testing"

	"google.golang.org/grpc/codes"
	"pgregory.net/rapid"

	"verif/harness/fakes"
	"verif/harness/model"
	"verif/harness/vstat"
)

func genC02(rt *rapid.T) Scenario {
	return genScenario(rt, Profile{MinTargets: 1, MaxTargets: 3, MinSets: 2, MaxSets: 8, MultiTarget: true, Poison: true, Refuse: true, Offline: true, Rollbacks: true,
		Crashes: 1, Preempt: 2, Drawn: true, Serializable: true, Pace: true, ParkWrites: true})
}

// checkSendOrder looks at every southbound request together with the step
// that issued it (C02): changes reach a device in log order, never before
// every earlier change of that target finished applying, never before they
// were merged into the stored configuration; re-synchronisation pushes only
// values the stored configuration holds or held (the last applied ones).
func checkSendOrder(r *Run) error {
	last := map[string]int{}
	for _, s := range r.Sent {
		switch s.Ctl {
		case "proposal":
			if s.Req.Code == codes.PermissionDenied || s.Req.Code == codes.Unavailable || s.Req.Code == codes.Canceled || s.Req.Code == codes.DeadlineExceeded {
				continue // arbitration / transient answers: the change was not delivered
			}
			if s.TxIdx < last[s.Target] {
				return vstat.Violf("device %s was sent the change of transaction %d after the change of transaction %d: %s", s.Target, s.TxIdx, last[s.Target], fakes.DescribeReq(s.Req))
			}
			last[s.Target] = s.TxIdx
			if s.CommittedIdx < s.TxIdx {
				return vstat.Violf("device %s was sent the change of transaction %d while the stored configuration had only merged up to index %d: %s", s.Target, s.TxIdx, s.CommittedIdx, fakes.DescribeReq(s.Req))
			}
			if s.AppliedIdx != s.PrevIdx && s.AppliedIdx < s.TxIdx {
				return vstat.Violf("device %s was sent the change of transaction %d while its predecessor %d had not finished applying (applied index %d): %s", s.Target, s.TxIdx, s.PrevIdx, s.AppliedIdx, fakes.DescribeReq(s.Req))
			}
		case "configuration":
			for _, u := range s.Req.Req.Update {
				k := fakes.ElemsKey(u.Path.Elem)
				// the pushed value is the last one APPLIED to that path: the stored configuration holds it now, or held
				// it after an earlier accepted transaction (a later change of the path is committed but not applied
				// yet, or was refused by the device)
				pushed := model.FromGnmiValue(u.Val).Key()
				if v, ok := s.ConfigFlat[k]; (!ok || v != pushed) && !r.Ref.WasEver(s.Target, k, pushed) {
					return vstat.Violf("re-synchronisation of %s pushed %s=%s which the stored configuration does not hold and never held (it has %q)", s.Target, k, fakes.ValString(u.Val), v)
				}
			}
		}
	}
	return nil
}

func runC02(sc Scenario, x *vstat.Ctx) error {
	r, err := Execute(x, sc, nil, func(r *Run) { r.Monotonic = true; r.CountInFlight = true })
	defer r.Close()
	x.Sample(describeScenario(sc))
	if err != nil {
		return err
	}
	if r.InFlight >= 2 {
		x.NonTrivial(">=2 proposals of one target in flight at the same step")
	}
	if sc.Preempt {
		x.Class("mode:pre-emptive")
	} else {
		x.Class("mode:atomic")
	}
	if r.W.S.Crashes > 0 {
		x.Class("crash")
	}
	if err := checkSendOrder(r); err != nil {
		return err
	}
	if err := r.CheckStored("at quiescence"); err != nil {
		return err
	}
	return r.CheckDevices("at quiescence")
}

// TestC02_LogOrder: cursors never move backwards, changes are merged and sent
// in log order, nothing unmerged is sent; final state equals the model.
func TestC02_LogOrder(t *testing.T) {
	vstat.Run(t, "C02", genC02, runC02)
}
