package sim

import (
	"context"
	"testing"

	configapi "github.com/onosproject/onos-api/go/onos/config/v2"
	topoapi "github.com/onosproject/onos-api/go/onos/topo"
	"pgregory.net/rapid"

	"verif/harness/vstat"
)

func genC10(rt *rapid.T) Scenario {
	return genScenario(rt, Profile{MinTargets: 1, MaxTargets: 2, MinSets: 2, MaxSets: 6, MultiTarget: true, Offline: true,
		Faults: true, Transient: true, Standby: true, FaultInSync: true, HardFaults: true, ParkWrites: true, Pace: true, Preempt: 2, Drawn: true})
}

// checkMastershipAtQuiescence: the master is empty or names an existing
// CONTROLS relation of a live connection; a relation exists iff its connection
// exists; a target that is connected has a master.
func checkMastershipAtQuiescence(r *Run) error {
	ctx := context.Background()
	rels := map[string]topoapi.Object{}
	for _, o := range r.W.Topo.Snapshot() {
		if rel := o.GetRelation(); rel != nil && rel.KindID == topoapi.CONTROLS {
			rels[string(o.ID)] = o
		}
	}
	for id, o := range rels {
		if _, ok := r.W.Conns.Get(ctx, connID(id)); !ok {
			return vstat.Violf("CONTROLS relation %s (target %s) exists although its connection is gone", r.W.Conns.Label(connID(id)), o.GetRelation().TgtEntityID)
		}
	}
	for _, t := range r.Sc.TargetIDs() {
		live := r.W.Conns.Live(topoapi.ID(t))
		for _, cid := range live {
			if _, ok := rels[string(cid)]; !ok {
				return vstat.Violf("connection %s of target %s has no CONTROLS relation at quiescence", r.W.Conns.Label(cid), t)
			}
		}
		c := r.W.Config(t)
		if c == nil {
			continue
		}
		m := c.Status.Mastership.Master
		if m != "" {
			if _, ok := rels[m]; !ok {
				return vstat.Violf("the master of %s (term %d) names relation %q which does not exist; state %s", t, c.Status.Mastership.Term, r.W.Conns.Label(connID(m)), r.W.DescribeState())
			}
			n := 0
			for _, cid := range live {
				if string(cid) == m {
					n++
				}
			}
			if len(live) > 1 {
				r.X.Class("idle-with-standby-connection")
			}
			if n != 1 {
				return vstat.Violf("the master of %s is not one of its live connections; state %s", t, r.W.DescribeState())
			}
		} else if len(live) > 0 {
			return vstat.Violf("target %s has a live connection but no master at quiescence; state %s", t, r.W.DescribeState())
		}
	}
	return nil
}

func runC10(sc Scenario, x *vstat.Ctx) error {
	// term bookkeeping: master -> term at every step
	type mt struct {
		master string
		term   uint64
	}
	last := map[string]mt{}
	changeWhileApplying := false
	mon := func(r *Run, info StepInfo) error {
		for _, t := range r.Sc.TargetIDs() {
			c := r.W.Config(t)
			if c == nil {
				continue
			}
			cur := mt{c.Status.Mastership.Master, uint64(c.Status.Mastership.Term)}
			prev := last[t]
			if cur != prev {
				// a new assignment (master set to a different, non-empty relation) must come with a larger term
				if cur.master != "" && cur.master != prev.master && cur.term <= prev.term {
					return vstat.Violf("mastership of %s was assigned to %s without a new term (term %d -> %d)", t, r.W.Conns.Label(connID(cur.master)), prev.term, cur.term)
				}
				if cur.term != prev.term {
					for _, p := range r.Proposals(t) {
						if p.Status.Phases.Apply != nil && p.Status.Phases.Apply.State == configapi.ProposalApplyPhase_APPLYING {
							changeWhileApplying = true
						}
					}
				}
				last[t] = cur
			}
		}
		return nil
	}
	idle := func(r *Run) error { return checkMastershipAtQuiescence(r) }
	r, err := Execute(x, sc, mon, func(r *Run) { r.Monotonic = true; r.Idle = idle })
	defer r.Close()
	x.Sample(describeScenario(sc))
	if err != nil {
		return err
	}
	if changeWhileApplying {
		x.NonTrivial("a master change while a proposal was APPLYING")
	}
	for _, a := range sc.Actions {
		if a.Kind != "set" {
			x.Class("fault:" + a.Kind)
		}
	}
	for _, s := range r.Sent {
		if s.Ctl == "configuration" {
			x.Class("a re-synchronisation pushed applied values")
			break
		}
	}
	if err := checkMastershipAtQuiescence(r); err != nil {
		return err
	}
	if err := checkTermDiscipline(r); err != nil {
		return err
	}
	if err := r.CheckStored("at quiescence"); err != nil {
		return err
	}
	return r.CheckDevices("at quiescence")
}

// TestC10_MastershipDiscipline: one master, monotone term, a new term per
// re-assignment, writes carry the term over the master's connection, re-sync first.
func TestC10_MastershipDiscipline(t *testing.T) {
	vstat.Run(t, "C10", genC10, runC10)
}
