package sim

import (
	"context"
	"fmt"
	"sort"
	"strings"
	"sync"
	"time"

	configapi "github.com/onosproject/onos-api/go/onos/config/v2"
	propstore "github.com/onosproject/onos-config/pkg/store/v2/proposal"
	"google.golang.org/grpc/codes"

	"verif/harness/fakes"
	"verif/harness/model"
	"verif/harness/vstat"
)

// Action is one action of the outside world in a scenario.
type Action struct {
	Kind   string   `json:"kind"` // set | rollback | linkdown | linkup | restart | faults | crash
	Set    *SetSpec `json:"set,omitempty"`
	Target string   `json:"target,omitempty"`
	Codes  []int    `json:"codes,omitempty"` // faults: status codes the device answers the next Sets with
	Index  int      `json:"index,omitempty"` // rollback
	// Idle: under a drawn schedule the action waits until everything earlier has settled
	Idle bool `json:"idle,omitempty"`
	// parkat: controller and store call at which the next matching step is held back, and for how many actions
	Ctl  string `json:"ctl,omitempty"`
	Op   string `json:"op,omitempty"`
	Hold int    `json:"hold,omitempty"`
	// Skip (flapinsync, restartinsync): that many re-synchronisation requests are let through first, so that the
	// fault falls in the MIDDLE of a re-synchronisation that needs several requests
	Skip int `json:"skip,omitempty"`
}

// Describe renders an action.
func (a Action) Describe() string {
	switch a.Kind {
	case "set":
		return a.Set.Describe()
	case "rollback":
		return fmt.Sprintf("rollback(%d)", a.Index)
	case "faults":
		return fmt.Sprintf("faults(%s, %v)", a.Target, a.Codes)
	case "parkat":
		return fmt.Sprintf("parkat(%s before %s, for %d actions)", a.Ctl, a.Op, a.Hold)
	}
	if a.Skip > 0 {
		return fmt.Sprintf("%s(%s, after %d requests of it)", a.Kind, a.Target, a.Skip)
	}
	return a.Kind + "(" + a.Target + ")"
}

// Scenario is a generated run of the whole system.
type Scenario struct {
	Targets []TargetSpec `json:"targets"`
	Actions []Action     `json:"actions"`
	Preempt bool         `json:"preempt"`
	Drawn   bool         `json:"drawn"`
	// Excl names the listed findings whose shape the generator left out of this scenario by construction.
	Excl []string `json:"excl,omitempty"`
}

// TargetIDs returns the scenario's target ids.
func (sc Scenario) TargetIDs() []string {
	var out []string
	for _, t := range sc.Targets {
		out = append(out, t.ID)
	}
	return out
}

// SentReq is one southbound request with the reconcile step that issued it.
type SentReq struct {
	Target  string
	Req     fakes.DeviceReq
	Ctl     string // controller of the issuing step ("proposal", "configuration")
	ID      string // proposal id or configuration id
	TxIdx   int    // transaction index for proposal steps
	PrevIdx int    // PrevIndex of the issuing proposal
	// state read right after the request returned
	Term         uint64
	MasterLabel  string
	CommittedIdx int
	AppliedIdx   int
	AppliedTerm  uint64
	SyncState    string
	ConfigFlat   map[string]string
	AppliedFlat  map[string]string // live applied values at that moment
	Applying     bool              // some proposal of the target was APPLYING
}

// Run is an executed scenario with everything the oracles look at.
type Run struct {
	W        *World
	Ref      *Ref
	Sc       Scenario
	X        *vstat.Ctx
	Calls    []*Call  // per action (nil for non-request actions)
	RefTxs   []*RefTx // per action
	Sent     []SentReq
	InFlight int // max number of proposals of one target in flight at the same step
	// per target history of (Proposed, Committed, Applied, Term) for monotonicity
	lastIdx map[string][4]uint64
	Mon     func(r *Run, info StepInfo) error
	// Idle is called whenever the controllers have nothing left to do.
	Idle func(r *Run) error
	// Prep is called on the world before anything runs.
	Prep func(w *World)
	// Monotonic turns on the cursor-monotonicity monitor (C02, C10).
	Monotonic    bool
	staleTargets []string
	// CountInFlight samples how many proposals of one target are unfinished at the same step.
	CountInFlight bool
	steps         int
	Budget        int // step budget override (0 = derived from the scenario's length)
	mu            sync.Mutex
	armed         map[string]string // target -> armed fault kind
	armedSkip     map[string]int    // target -> matching requests still to let through
	fire          *Action           // armed fault whose moment has come (set by the device's goroutine)
	fireCtl       string            // controller whose request triggered it
	FaultInSync   bool
	// statistics
	FaultsBetweenTx           bool
	MasterChangeWhileApplying bool
	crashedDuring             bool
}

// Execute runs a scenario: actions are interleaved with controller steps by
// the scheduler (drawn) or executed when the controllers are idle (FIFO);
// finally every link is brought up, injected faults are cleared and the system
// is run to quiescence.
func Execute(x *vstat.Ctx, sc Scenario, mon func(r *Run, info StepInfo) error, opts ...func(*Run)) (*Run, error) {
	mode := Atomic
	if sc.Preempt {
		mode = Preempt
	}
	w, err := NewWorld(x, Options{Targets: sc.Targets, Mode: mode, Drawn: sc.Drawn})
	if err != nil {
		return nil, err
	}
	r := &Run{W: w, Sc: sc, X: x, Ref: NewRef(w.Schema, sc.TargetIDs()), lastIdx: map[string][4]uint64{}, Mon: mon}
	for _, o := range opts {
		o(r)
	}
	for _, id := range sc.Excl {
		x.Excluded(id)
	}
	r.Calls = make([]*Call, len(sc.Actions))
	r.RefTxs = make([]*RefTx, len(sc.Actions))
	for id, d := range w.Devices {
		id := id
		d.OnSet = func(req fakes.DeviceReq) { r.noteSent(id, req) }
	}
	if r.Prep != nil {
		r.Prep(w)
	}
	w.S.Budget = 4000 + 1500*len(sc.Actions)
	if r.Budget > 0 {
		w.S.Budget = r.Budget
	}
	hasArmed := false
	for _, a := range sc.Actions {
		if strings.HasSuffix(a.Kind, "insync") {
			hasArmed = true
		}
	}
	if r.Monotonic || r.Mon != nil || r.CountInFlight || hasArmed {
		w.S.Monitor = func(info StepInfo) error { return r.monitor(info) }
	}
	if r.Idle != nil {
		w.S.OnQuiescent = func() error { return r.Idle(r) }
	}
	for i, a := range sc.Actions {
		i, a := i, a
		w.S.Externals = append(w.S.Externals, External{Name: a.Describe(), Fn: func() error { return r.perform(i, a) }, WhenIdle: a.Idle})
	}
	if err := w.S.Run(); err != nil {
		return r, err
	}
	// repair phase: everything reachable again
	for _, d := range w.Devices {
		d.ClearFaults()
	}
	w.S.Unpark() // the devices answer again: what kept failing is retried
	for _, t := range sc.TargetIDs() {
		if !w.Connected(t) {
			if err := w.LinkUp(t); err != nil {
				return r, err
			}
		}
	}
	if err := w.S.Run(); err != nil {
		return r, err
	}
	w.AwaitCalls(10 * time.Second)
	if w.S.Parked > 0 {
		x.Class("a step was held back right before a store write while the connection flapped")
	}
	return r, nil
}

func (r *Run) perform(i int, a Action) error {
	w := r.W
	switch a.Kind {
	case "set":
		call, err := w.StartSet(fmt.Sprintf("a%d", i), a.Set.Build(), nil, nil)
		if err != nil {
			return err
		}
		r.Calls[i] = call
		if call.Panic != nil {
			return vstat.Violf("Set handler panicked: %v\n%s", call.Panic, call.Stack)
		}
		if call.Created {
			r.RefTxs[i] = r.Ref.Change(a.Set.Resolved())
			if int(call.TxIndex) != r.RefTxs[i].Index {
				return fmt.Errorf("%w: log index %d does not match the reference's %d", ErrInconclusive, call.TxIndex, r.RefTxs[i].Index)
			}
		}
	case "rollback":
		call, err := w.StartRollback(fmt.Sprintf("a%d", i), configapi.Index(a.Index), nil)
		if err != nil {
			return err
		}
		r.Calls[i] = call
		if call.Created {
			r.RefTxs[i] = r.Ref.RollbackOf(a.Index)
		}
	case "linkdown":
		w.LinkDown(a.Target)
	case "linkup":
		return w.LinkUp(a.Target)
	case "standby":
		return w.LinkUpStandby(a.Target)
	case "masterdown":
		w.LinkDownMaster(a.Target)
	case "restart":
		// a restarting device drops its transport
		w.LinkDown(a.Target)
		w.Devices[a.Target].RestartEmpty()
		w.X.Logf("  device %s restarted empty", a.Target)
		return w.LinkUp(a.Target)
	case "parkat":
		w.S.ParkAt = &ParkSpec{Ctl: a.Ctl, Op: a.Op, Hold: a.Hold}
	case "flapinsync", "restartinsync", "flapinapply", "restartinapply":
		// armed: carried out at the moment the device next receives a re-synchronisation request
		r.mu.Lock()
		if r.armed == nil {
			r.armed = map[string]string{}
		}
		r.armed[a.Target] = a.Kind
		if r.armedSkip == nil {
			r.armedSkip = map[string]int{}
		}
		r.armedSkip[a.Target] = a.Skip
		r.mu.Unlock()
	case "faults":
		cs := make([]codes.Code, len(a.Codes))
		for k, c := range a.Codes {
			cs[k] = codes.Code(c)
		}
		w.Devices[a.Target].InjectFaults(cs...)
	case "lostanswer":
		cs := make([]codes.Code, len(a.Codes))
		for k, c := range a.Codes {
			cs[k] = codes.Code(c)
		}
		w.Devices[a.Target].InjectLostAnswers(cs...)
	case "crash":
		w.S.Crash()
		r.crashedDuring = true
	}
	return nil
}

func (r *Run) noteSent(target string, req fakes.DeviceReq) {
	s := SentReq{Target: target, Req: req}
	if cur := r.W.S.Current(); cur != nil {
		s.Ctl, s.ID = cur.Ctl, cur.ID
		if cur.Ctl == "proposal" {
			if i := strings.LastIndex(cur.ID, "-"); i >= 0 {
				fmt.Sscanf(cur.ID[i+1:], "%d", &s.TxIdx)
			}
		}
	}
	if s.Ctl == "proposal" {
		if p := r.Proposal(target, s.TxIdx); p != nil {
			s.PrevIdx = int(p.Status.PrevIndex)
		}
	}
	if c := r.W.Config(target); c != nil {
		s.Term = uint64(c.Status.Mastership.Term)
		s.MasterLabel = r.W.Conns.Label(connID(c.Status.Mastership.Master))
		s.CommittedIdx = int(c.Status.Committed.Index)
		s.AppliedIdx = int(c.Status.Applied.Index)
		s.AppliedTerm = uint64(c.Status.Applied.Mastership.Term)
		s.SyncState = c.Status.State.String()
		s.ConfigFlat = map[string]string{}
		for p, pv := range c.Values {
			if !pv.Deleted {
				if k, err := nativeKey(pv); err == nil {
					s.ConfigFlat[p] = k
				}
			}
		}
		s.AppliedFlat = map[string]string{}
		for p, pv := range c.Status.Applied.Values {
			if !pv.Deleted {
				if k, err := nativeKey(pv); err == nil {
					s.AppliedFlat[p] = k
				}
			}
		}
	}
	r.Sent = append(r.Sent, s)
	r.X.Logf("    -> device %s: %s [by %s %s]", target, fakes.DescribeReq(req), s.Ctl, s.ID)
	r.mu.Lock()
	if k := r.armed[target]; k != "" && r.fire == nil {
		switch {
		case strings.HasSuffix(k, "insync") && s.Ctl == "configuration" && r.armedSkip[target] > 0 && req.Code == codes.OK:
			r.armedSkip[target]--
		case strings.HasSuffix(k, "insync") && s.Ctl == "configuration":
			if r.Sc.hasSkip(target) {
				r.X.Class("fault in the middle of a re-synchronisation of several requests")
			}
			delete(r.armed, target)
			r.fire = &Action{Kind: strings.TrimSuffix(k, "insync"), Target: target}
			r.fireCtl = "configuration"
		case strings.HasSuffix(k, "inapply") && s.Ctl == "proposal" && req.Code == codes.OK:
			delete(r.armed, target)
			r.fire = &Action{Kind: strings.TrimSuffix(k, "inapply"), Target: target}
			r.fireCtl = "proposal"
		}
	}
	r.mu.Unlock()
}

func (sc Scenario) hasSkip(target string) bool {
	for _, a := range sc.Actions {
		if a.Target == target && a.Skip > 0 {
			return true
		}
	}
	return false
}

// monitor runs after every scheduler step.
// fireArmed carries out a fault that was armed for "while the configuration is being re-synchronised": the
// re-synchronising step stays parked (its answer from the device is on its way) while the connection is lost /
// the device restarts and mastership is settled again, and only then goes on.
func (r *Run) fireArmed() {
	r.mu.Lock()
	f, ctl := r.fire, r.fireCtl
	r.fire = nil
	r.mu.Unlock()
	if f == nil {
		return
	}
	w := r.W
	var ext []External
	switch f.Kind {
	case "flap":
		ext = []External{{Name: "linkdown(" + f.Target + ") [armed: while the request of the " + ctl + " controller is being answered]", Fn: func() error { w.LinkDown(f.Target); return nil }},
			{Name: "linkup(" + f.Target + ") [armed]", Fn: func() error { return w.LinkUp(f.Target) }}}
	case "restart":
		ext = []External{{Name: "restart(" + f.Target + ") [armed: while the request of the " + ctl + " controller is being answered]", Fn: func() error {
			w.LinkDown(f.Target)
			w.Devices[f.Target].RestartEmpty()
			w.X.Logf("  device %s restarted empty", f.Target)
			return w.LinkUp(f.Target)
		}}}
	}
	w.S.Externals = append(ext, w.S.Externals...)
	what := "re-synchronisation"
	if ctl == "proposal" {
		what = "apply"
	}
	if w.S.DeferInflight(ctl, len(ext)) {
		r.X.Class("fault during " + what + " (the step that sent the request stays parked across the master change)")
		r.FaultInSync = true
	} else {
		r.X.Class("fault right after " + what)
	}
}

func (r *Run) monitor(info StepInfo) error {
	r.fireArmed()
	for _, t := range r.Sc.TargetIDs() {
		if !r.Monotonic {
			break
		}
		c := r.W.Config(t)
		if c == nil {
			continue
		}
		cur := [4]uint64{uint64(c.Status.Proposed.Index), uint64(c.Status.Committed.Index), uint64(c.Status.Applied.Index), uint64(c.Status.Mastership.Term)}
		last := r.lastIdx[t]
		names := []string{"Proposed.Index", "Committed.Index", "Applied.Index", "Mastership.Term"}
		for k := range cur {
			if cur[k] < last[k] {
				return &IndexRegression{Target: t, Field: names[k], From: last[k], To: cur[k], Step: info}
			}
		}
		r.lastIdx[t] = cur
	}
	r.steps++
	if r.CountInFlight && r.steps%5 == 0 {
		per := map[string]int{}
		all, _ := r.W.St.Prop.List(context.Background())
		for _, p := range all {
			ph := p.Status.Phases
			done := (ph.Apply != nil && ph.Apply.State != configapi.ProposalApplyPhase_APPLYING) ||
				(ph.Abort != nil && ph.Abort.State == configapi.ProposalAbortPhase_ABORTED)
			if !done && ph.Initialize != nil {
				per[string(p.TargetID)]++
			}
		}
		for _, n := range per {
			if n > r.InFlight {
				r.InFlight = n
			}
		}
	}
	if r.Mon != nil {
		return r.Mon(r, info)
	}
	return nil
}

// IndexRegression is reported when a configuration cursor moves backwards.
type IndexRegression struct {
	Target, Field string
	From, To      uint64
	Step          StepInfo
}

func (e *IndexRegression) Error() string {
	return fmt.Sprintf("%s of target %s went backwards from %d to %d (step %s %s)", e.Field, e.Target, e.From, e.To, e.Step.Ctl, e.Step.ID)
}

// Proposals returns all proposals of a target sorted by transaction index.
func (r *Run) Proposals(target string) []*configapi.Proposal {
	all, _ := r.W.St.Prop.List(context.Background())
	var out []*configapi.Proposal
	for _, p := range all {
		if string(p.TargetID) == target {
			out = append(out, p)
		}
	}
	sort.Slice(out, func(i, j int) bool { return out[i].TransactionIndex < out[j].TransactionIndex })
	return out
}

// Proposal reads one proposal.
func (r *Run) Proposal(target string, idx int) *configapi.Proposal {
	p, err := r.W.St.Prop.Get(context.Background(), propstore.NewID(configapi.TargetID(target), configapi.Index(idx)))
	if err != nil {
		return nil
	}
	return p
}

// Txs lists the transaction log.
func (r *Run) Txs() []*configapi.Transaction {
	l, _ := r.W.St.Tx.List(context.Background())
	return l
}

// CheckStored compares every target's full Get with the reference.
func (r *Run) CheckStored(when string) error {
	for _, t := range r.Sc.TargetIDs() {
		if r.W.Config(t) == nil {
			if len(r.Ref.Stored[t]) != 0 {
				return vstat.Violf("%s: target %s has no configuration record but the reference holds %d leaves; state %s", when, t, len(r.Ref.Stored[t]), r.W.DescribeState())
			}
			continue
		}
		got, _, err := r.W.GetProto(t, nil)
		if err != nil {
			return vstat.Violf("%s: Get %s failed: %v", when, t, err)
		}
		want := r.Ref.Stored[t].Flat()
		if d := model.DiffFlat(got, want); d != "" {
			return vstat.Violf("%s: stored configuration of %s differs from the fold of the accepted transactions in log order: %s; state %s", when, t, d, r.W.DescribeState())
		}
	}
	return nil
}

// staleWriteBack is NO LONGER USED by CheckStored: since the applied values got
// a map of their own (fix 0c3253d) only the proposal reconciler of a target
// writes its committed values, so a stale snapshot can no longer reach the
// stored configuration; keeping the explanation would hide real losses (it hid
// seeded change C01-1). Kept for reference.
//
// staleWriteBack recognised the consequence of the listed store findings
// F-config-applied-aliases-committed + F-config-failed-write-leaks-values under
// a pre-emptive schedule: a reconciler that read the configuration before a
// commit writes its stale snapshot of the values back (the values are
// persisted before the version check refuses the record), so a path shows a
// value it held after an EARLIER accepted transaction. Only when every
// difference is of that kind, the schedule is pre-emptive and the finding is
// listed, it is recorded as known and the reference is re-synchronised.
func (r *Run) staleWriteBack(t string, got, want map[string]string) bool {
	if !r.Sc.Preempt || !vstat.IsListed("F-config-failed-write-leaks-values") {
		return false
	}
	n := 0
	for k, w := range want {
		g := got[k]
		if g == w {
			continue
		}
		if !r.Ref.WasEver(t, k, g) {
			return false
		}
		n++
	}
	for k, g := range got {
		if _, ok := want[k]; !ok {
			if !r.Ref.WasEver(t, k, g) {
				return false
			}
			n++
		}
	}
	if n == 0 {
		return false
	}
	r.X.Known("F-config-failed-write-leaks-values", "under a pre-emptive schedule a reconciler's stale snapshot of the configuration values is written back over a newer commit (values are persisted before the version check refuses the record; applied and committed values share one map): a path shows the value of an earlier transaction")
	r.X.Logf("   known finding (stale write-back) on %s: %s", t, model.DiffFlat(got, want))
	// re-synchronise the reference with what the store holds
	st := r.Ref.Stored[t]
	for k := range st {
		if _, ok := got[k]; !ok {
			delete(st, k)
		}
	}
	r.staleTargets = append(r.staleTargets, t)
	return true
}

// CheckDevices compares every connected, synchronized device with the reference.
func (r *Run) CheckDevices(when string) error {
	for _, t := range r.Sc.TargetIDs() {
		c := r.W.Config(t)
		if c == nil || !r.W.Connected(t) || c.Status.State != configapi.ConfigurationStatus_SYNCHRONIZED {
			continue
		}
		applying := false
		for _, p := range r.Proposals(t) {
			if p.Status.Phases.Apply != nil && p.Status.Phases.Apply.State == configapi.ProposalApplyPhase_APPLYING {
				applying = true
			}
		}
		if applying {
			continue
		}
		skip := false
		for _, st := range r.staleTargets {
			if st == t {
				skip = true // a listed stale write-back made the stored configuration itself deviate
			}
		}
		if skip {
			continue
		}
		failed := map[int]bool{}
		for _, p := range r.Proposals(t) {
			if p.Status.Phases.Apply != nil && p.Status.Phases.Apply.State == configapi.ProposalApplyPhase_FAILED {
				failed[int(p.TransactionIndex)] = true
			}
		}
		if d := model.DiffFlat(r.W.DeviceFlat(t), r.Ref.ExpectedDevice(t, failed).Flat()); d != "" {
			return vstat.Violf("%s: device %s (connected, reported synchronized, nothing applying) differs from the stored configuration restricted to the transactions whose apply did not fail: %s; state %s", when, t, d, r.W.DescribeState())
		}
	}
	return nil
}

// CheckTerminal verifies that every logged transaction is terminal with the
// outcome the reference predicts.
func (r *Run) CheckTerminal(when string) error {
	for _, t := range r.Txs() {
		if int(t.Index) > len(r.Ref.Txs) {
			continue
		}
		rt := r.Ref.Txs[t.Index-1]
		st := t.Status.State
		switch rt.Outcome {
		case "committed":
			if len(rt.Refused) > 0 {
				if st != configapi.TransactionStatus_FAILED {
					return vstat.Violf("%s: transaction %d is refused by a device and must end FAILED, it is %v; state %s", when, t.Index, st, r.W.DescribeState())
				}
			} else if st != configapi.TransactionStatus_APPLIED {
				return vstat.Violf("%s: transaction %d is accepted by every model and device and every target is connected, it must end APPLIED, it is %v%s; state %s", when, t.Index, st, failureOf(t), r.W.DescribeState())
			}
		default:
			if st != configapi.TransactionStatus_FAILED {
				return vstat.Violf("%s: transaction %d must be rejected (%s), it is %v; state %s", when, t.Index, rt.Outcome, st, r.W.DescribeState())
			}
			// (whether the abort PHASE bookkeeping reached ABORTED is not part of any statement:
			// a crash between the index write and the proposal's ABORTED write leaves it ABORTING
			// for good, with no effect on later transactions - recorded in DESIGN.md as an observation)
		}
	}
	return nil
}

func failureOf(t *configapi.Transaction) string {
	if t.Status.Failure != nil {
		return fmt.Sprintf(" (%v: %s)", t.Status.Failure.Type, firstLine(t.Status.Failure.Description))
	}
	return ""
}

// Close tears the run down.
func (r *Run) Close() {
	if r != nil && r.W != nil {
		r.W.Close()
	}
}

// CheckStoredQuiet is CheckStored without recording known findings or
// re-synchronising (used as a precondition by idle-time checks).
func (r *Run) CheckStoredQuiet() error {
	for _, t := range r.Sc.TargetIDs() {
		if r.W.Config(t) == nil {
			continue
		}
		got, _, err := r.W.GetProto(t, nil)
		if err != nil {
			return err
		}
		if d := model.DiffFlat(got, r.Ref.Stored[t].Flat()); d != "" {
			return fmt.Errorf("%s", d)
		}
	}
	return nil
}
