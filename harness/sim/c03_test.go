package sim

import (
	"fmt"
	"strings"
	"testing"
	"time"

	gpb "github.com/openconfig/gnmi/proto/gnmi"
	"google.golang.org/grpc/codes"
	"pgregory.net/rapid"

	"verif/harness/fakes"
	"verif/harness/model"
	"verif/harness/vstat"
)

// C03Case is a history of Sets on one or two targets with Gets after each.
type C03Case struct {
	Targets []string  `json:"targets"`
	Steps   []C03Step `json:"steps"`
}

// C03Step is one Set followed by Gets.
type C03Step struct {
	Set  SetSpec   `json:"set"`
	Gets []GetSpec `json:"gets"`
}

func c03Opts(targets []string) *GenOpts {
	return &GenOpts{
		Targets:                  targets,
		AvoidSiblingPrefix:       vstat.IsListed("F-textual-prefix"),
		AvoidAncestorDescendant:  vstat.IsListed("F-ancestor-delete-order"),
		AvoidSamePathDeleteWrite: true,
	}
}

func genC03(rt *rapid.T) C03Case {
	c := C03Case{Targets: []string{"t1"}}
	if rapid.IntRange(0, 4).Draw(rt, "twoTargets") == 0 {
		c.Targets = append(c.Targets, "t2")
	}
	o := c03Opts(c.Targets)
	leaves := workingSet(o.AvoidSiblingPrefix)
	hist := map[string][]model.Path{}
	n := rapid.IntRange(1, 10).Draw(rt, "nsets")
	for i := 0; i < n; i++ {
		st := C03Step{Set: GenSet(rt, o, hist)}
		for _, op := range st.Set.Resolved() {
			if op.Kind != "delete" {
				hist[op.Target] = append(hist[op.Target], op.Path)
			}
		}
		ng := rapid.IntRange(1, 4).Draw(rt, "ngets")
		for j := 0; j < ng; j++ {
			st.Gets = append(st.Gets, GenGet(rt, c.Targets, leaves, hist, true))
		}
		c.Steps = append(c.Steps, st)
	}
	return c
}

// classifyHistory computes the non-trivial classes of a history by the
// property's stated rule.
func classifySet(x *vstat.Ctx, spec SetSpec, ref *Ref, deletedAncestors map[string][]model.Path) {
	for _, op := range spec.Resolved() {
		if op.Kind == "delete" {
			if len(ref.Stored[op.Target].Select(op.Path)) > 1 || (len(op.Path) > 0 && model.IsInterior(model.M1, op.Path)) {
				x.Class("set:subtree-delete")
				deletedAncestors[op.Target] = append(deletedAncestors[op.Target], op.Path)
			}
			if ld, ok := model.Lookup(model.M1, op.Path); ok && ld.IsKey {
				x.Class("set:key-leaf-delete")
			}
			if n := len(op.Path); n > 0 && len(op.Path[n-1].Keys) == 0 {
				if _, _, isList := listOf(op.Path); isList {
					x.Class("set:whole-list-delete")
				}
			}
		} else {
			for _, d := range deletedAncestors[op.Target] {
				if model.Covers(d, op.Path) && len(d) < len(op.Path) {
					x.NonTrivial("write beneath a previously deleted subtree")
				}
			}
			if ld, ok := model.Lookup(model.M1, op.Path); ok && ld.Tags == "sibling" {
				x.Class("set:sibling-prefix-name")
			}
		}
	}
	if len(spec.PrefixElems) > 0 {
		x.Class("set:prefix-elems")
	}
}

func listOf(p model.Path) (string, []string, bool) {
	s := model.SchemaOf(p)
	for _, l := range model.M1 {
		if strings.HasPrefix(l.Schema, s+"[") {
			return s, nil, true
		}
	}
	return "", nil, false
}

// submitAndSettle issues one Set through the real handler, runs the
// controllers to quiescence (FIFO) and returns the handler's verdict.
func submitAndSettle(w *World, name string, spec SetSpec) (*Call, error) {
	call, err := w.StartSet(name, spec.Build(), nil, nil)
	if err != nil {
		return nil, err
	}
	if call.Panic != nil {
		return call, vstat.Violf("Set handler panicked on %s: %v\n%s", spec.Describe(), call.Panic, call.Stack)
	}
	if err := w.S.Run(); err != nil {
		return call, err
	}
	w.AwaitCalls(10 * time.Second)
	return call, nil
}

// zombieTracker remembers which nodes were deleted by which request and which
// leaves were written by which request, to recognise finding F-zombie-tombstone:
// a leaf written (by a LATER request) beneath a node that an earlier request
// deleted is dropped from the stored configuration by the next commit on that
// target, because the stale tombstone stays in the store.
type writeRec struct {
	path model.Path
	req  int
}

type zombieTracker struct {
	listCase  bool
	allWrites map[string]map[string][]writeRec
	deleted   map[string][]delRec       // target -> deleted nodes
	written   map[string]map[string]int // target -> leaf path text -> request number of the last write
}

type delRec struct {
	node model.Path
	req  int
}

func newZombieTracker() *zombieTracker {
	return &zombieTracker{deleted: map[string][]delRec{}, written: map[string]map[string]int{}}
}

func (z *zombieTracker) note(req int, ops []model.Op) {
	for _, op := range ops {
		if op.Kind == "delete" {
			z.deleted[op.Target] = append(z.deleted[op.Target], delRec{EffectiveDelete(op.Path), req})
		} else {
			if z.written[op.Target] == nil {
				z.written[op.Target] = map[string]int{}
			}
			z.written[op.Target][op.Path.String()] = req
			if z.allWrites == nil {
				z.allWrites = map[string]map[string][]writeRec{}
			}
			if z.allWrites[op.Target] == nil {
				z.allWrites[op.Target] = map[string][]writeRec{}
			}
			z.allWrites[op.Target][op.Path.String()] = append(z.allWrites[op.Target][op.Path.String()], writeRec{op.Path, req})
		}
	}
}

// exposed reports whether leaf l of target t sits beneath a node deleted by a
// request earlier than the one that last wrote l, and at least one LATER request
// (number < cur is the write, cur the request just committed) has been committed
// on the target since: the finding loses the leaf at the NEXT commit, never at
// the commit that wrote it.
func (z *zombieTracker) exposed(t string, l model.Path, cur int) bool {
	wr, ok := z.written[t][l.String()]
	if !ok {
		return false
	}
	for _, d := range z.deleted[t] {
		if d.req < wr && model.Covers(d.node, l) && len(d.node) < len(l) {
			if wr < cur {
				return true
			}
			// F-list-tombstone-never-cleared: the tombstone of a whole list ("/l1",
			// no keys) is never cleared by a later write of an entry, because the
			// walk up the parents goes from "/l1[id=a]" straight to "": the entry is
			// pruned by the very commit that writes it
			if n := len(d.node); n > 0 && len(d.node[n-1].Keys) == 0 && len(l) > n-1 && len(l[n-1].Keys) > 0 {
				z.listCase = true
				return true
			}
			// nested tombstones: the walk up the parents stops at the NEAREST deleted
			// ancestor; if a farther one is a stale tombstone (something was written
			// beneath it by an earlier request, so it sits in the store for good) it
			// prunes the leaf at the very commit that writes it
			if z.staleTombstone(t, d, cur) {
				for _, d2 := range z.deleted[t] {
					if d2.req < cur && model.Covers(d2.node, l) && len(d2.node) > len(d.node) && len(d2.node) < len(l) {
						return true
					}
				}
			}
		}
	}
	return false
}

// staleTombstone: node d was deleted and a LATER request, earlier than cur, wrote
// a leaf beneath it (which cleared the tombstone in memory only).
func (z *zombieTracker) staleTombstone(t string, d delRec, cur int) bool {
	for k, wr := range z.allWrites[t] {
		_ = k
		for _, w := range wr {
			if w.req > d.req && w.req < cur && model.Covers(d.node, w.path) && len(d.node) < len(w.path) {
				return true
			}
		}
	}
	return false
}

// reconcileKnown looks at the full configuration of target t: if it differs
// from the reference ONLY by missing zombie-exposed leaves and the finding is
// listed, the finding is recorded and the reference is re-synchronised with the
// code so that the rest of the history is still checked. Anything else is left
// for checkGet to report.
func reconcileKnown(w *World, x *vstat.Ctx, ref *Ref, z *zombieTracker, t string, cur int) {
	if !vstat.IsKnown("C03", "F-zombie-tombstone") || w.Config(t) == nil {
		return
	}
	got, _, err := w.GetProto(t, nil)
	if err != nil {
		return
	}
	want := ref.Stored[t]
	var missing []string
	for k, l := range want {
		if _, ok := got[k]; !ok {
			if !z.exposed(t, l.Path, cur) {
				return
			}
			missing = append(missing, k)
		} else if got[k] != l.Value.Key() {
			return
		}
	}
	for k := range got {
		if _, ok := want[k]; !ok {
			return
		}
	}
	if len(missing) == 0 {
		return
	}
	if z.listCase {
		z.listCase = false
		x.Known("F-zombie-tombstone", "a list entry written after the whole list (path without keys) was deleted is pruned by the very commit that writes it: the walk up the parents never reaches the list's tombstone")
	} else {
		x.Known("F-zombie-tombstone", "a value written after one of its ancestors was deleted is dropped from the stored configuration by the next commit on that target (the stale tombstone stays in the store and prunes it)")
	}
	x.Logf("   known finding F-zombie-tombstone: %s lost %v; reference re-synchronised", t, missing)
	for _, k := range missing {
		delete(want, k)
	}
}

// checkGet compares one Get with the reference configuration.
func checkGet(w *World, x *vstat.Ctx, ref *Ref, g GetSpec, when string) error {
	if w.Config(g.Target) == nil && len(ref.Stored[g.Target]) == 0 {
		// no Set has ever been logged for this target: no configuration record
		// exists and Get answers NotFound; the statement is about targets that
		// have committed Sets
		x.Class("get:target-without-configuration")
		return nil
	}
	sel := ref.Stored[g.Target].Select(g.Path)
	want := model.Config{}
	for _, l := range sel {
		want[l.Path.String()] = l
	}
	if g.JSON {
		got, raw, err := w.GetJSON(g.Target, g.Path)
		if err != nil {
			return vstat.Violf("%s: JSON Get %s:%s failed: %v (document: %s)", when, g.Target, g.Path, err, trunc(string(raw), 300))
		}
		exp := model.WithImpliedKeys(want, w.Schema)
		if d := model.DiffFlat(got, exp); d != "" {
			return vstat.Violf("%s: JSON Get %s:%s differs from the gNMI-sequential configuration: %s", when, g.Target, g.Path, d)
		}
		return nil
	}
	got, empty, err := w.GetProto(g.Target, g.Path)
	if err != nil {
		return vstat.Violf("%s: Get %s:%s failed: %v", when, g.Target, g.Path, err)
	}
	if d := model.DiffFlat(got, want.Flat()); d != "" {
		return vstat.Violf("%s: Get %s:%s differs from the gNMI-sequential configuration: %s", when, g.Target, g.Path, d)
	}
	if len(want) == 0 && !empty && len(got) == 0 {
		x.Class("get:empty-without-marker")
	}
	return nil
}

// checkGetMulti sends the given queries as one GetRequest with several paths (per-path targets, possibly different
// ones, no prefix) and compares the i-th notification with the reference selection of the i-th path. All paths of a
// request share its encoding: the first query's.
func checkGetMulti(w *World, x *vstat.Ctx, ref *Ref, gets []GetSpec, when string) error {
	var qs []GetSpec
	for _, g := range gets {
		if w.Config(g.Target) == nil && len(ref.Stored[g.Target]) == 0 {
			continue // see checkGet
		}
		qs = append(qs, g)
	}
	if len(qs) < 2 {
		return nil
	}
	x.Class("get:several-paths-in-one-request")
	enc := gpb.Encoding_PROTO
	if qs[0].JSON {
		enc = gpb.Encoding_JSON
	}
	req := &gpb.GetRequest{Encoding: enc}
	var names []string
	sameTarget := true
	for _, g := range qs {
		p := g.Path.Gnmi()
		p.Target = g.Target
		req.Path = append(req.Path, p)
		names = append(names, g.Target+":"+g.Path.String())
		sameTarget = sameTarget && g.Target == qs[0].Target
	}
	if sameTarget {
		x.Class("get:several-paths-of-one-target")
	}
	what := fmt.Sprintf("Get of %d paths in one request %v", len(qs), names)
	resp, err, pan, st := w.Get(req, nil)
	if pan != nil {
		return vstat.Violf("%s: %s panicked: %v\n%s", when, what, pan, st)
	}
	if err != nil {
		return vstat.Violf("%s: %s failed: %v", when, what, err)
	}
	if len(resp.Notification) != len(qs) {
		return vstat.Violf("%s: %s was answered with %d notifications", when, what, len(resp.Notification))
	}
	for i, g := range qs {
		want := model.Config{}
		for _, l := range ref.Stored[g.Target].Select(g.Path) {
			want[l.Path.String()] = l
		}
		got := map[string]string{}
		for _, u := range resp.Notification[i].Update {
			if u.Val == nil {
				continue
			}
			if enc == gpb.Encoding_JSON {
				flat, err := model.FlattenJSON(u.Val.GetJsonVal(), w.Schema)
				if err != nil {
					return vstat.Violf("%s: %s: document of path %d (%s) does not parse: %v", when, what, i+1, names[i], err)
				}
				for k, v := range flat {
					got[k] = v
				}
				continue
			}
			k := fakes.ElemsKey(u.Path.Elem)
			if _, dup := got[k]; dup {
				return vstat.Violf("%s: %s: the answer to path %d (%s) reports %s twice", when, what, i+1, names[i], k)
			}
			got[k] = model.FromGnmiValue(u.Val).Key()
		}
		exp := want.Flat()
		if enc == gpb.Encoding_JSON {
			exp = model.WithImpliedKeys(want, w.Schema)
		}
		if d := model.DiffFlat(got, exp); d != "" {
			return vstat.Violf("%s: %s: the answer to path %d (%s) differs from the gNMI-sequential configuration: %s", when, what, i+1, names[i], d)
		}
	}
	return nil
}

func trunc(s string, n int) string {
	if len(s) > n {
		return s[:n] + "..."
	}
	return s
}

func classifyGet(x *vstat.Ctx, g GetSpec) {
	if g.JSON {
		x.Class("get:json")
	} else {
		x.Class("get:proto")
	}
	wild := false
	for _, e := range g.Path {
		if e.Name == "*" || e.Name == "..." {
			wild = true
		}
		for _, v := range e.Keys {
			if v == "*" {
				wild = true
			}
		}
	}
	if wild {
		x.NonTrivial("wildcard Get")
	}
	if len(g.Path) == 0 {
		x.Class("get:root")
	}
}

func runC03(c C03Case, x *vstat.Ctx) error {
	var specs []TargetSpec
	for _, t := range c.Targets {
		specs = append(specs, TargetSpec{ID: t, Online: false})
	}
	w, err := NewWorld(x, Options{Targets: specs})
	if err != nil {
		return err
	}
	defer w.Close()
	if err := w.S.Run(); err != nil {
		return err
	}
	ref := NewRef(w.Schema, c.Targets)
	o := c03Opts(c.Targets)
	if o.AvoidSiblingPrefix {
		x.Excluded("F-textual-prefix")
	}
	if o.AvoidAncestorDescendant {
		x.Excluded("F-ancestor-delete-order")
	}
	deletedAncestors := map[string][]model.Path{}
	z := newZombieTracker()
	var sample []string
	for i, st := range c.Steps {
		x.Logf("set %d: %s", i+1, st.Set.Describe())
		sample = append(sample, st.Set.Describe())
		classifySet(x, st.Set, ref, deletedAncestors)
		logBefore := len(ref.Txs)
		call, err := submitAndSettle(w, fmt.Sprintf("s%d", i+1), st.Set)
		if err != nil {
			return err
		}
		if !call.Done() {
			return vstat.Violf("set %d was not answered although the controllers are idle: %s; state %s", i+1, st.Set.Describe(), w.DescribeState())
		}
		if !call.Created {
			// refused before being logged: every generated request is valid, so this
			// is outside C03's subject (acknowledged Sets) but worth knowing about
			x.Class("set:refused-before-log:" + Code(call.Err).String())
			x.Logf("   refused before log: %v", call.Err)
			continue
		}
		rtx := ref.Change(st.Set.Resolved())
		_ = logBefore
		if rtx.Outcome == "committed" {
			z.note(i+1, st.Set.Resolved())
		}
		for _, t := range c.Targets {
			reconcileKnown(w, x, ref, z, t, i+1)
		}
		switch rtx.Outcome {
		case "committed":
			if call.Err != nil {
				return vstat.Violf("set %d (%s) should have been committed but the handler answered %v; state %s", i+1, st.Set.Describe(), call.Err, w.DescribeState())
			}
		default:
			if Code(call.Err) != codes.InvalidArgument {
				return vstat.Violf("set %d (%s) is rejected by the model but the handler answered %v", i+1, st.Set.Describe(), call.Err)
			}
		}
		for _, g := range st.Gets {
			classifyGet(x, g)
			if err := checkGet(w, x, ref, g, fmt.Sprintf("after set %d", i+1)); err != nil {
				return err
			}
		}
		// the same queries once more as ONE GetRequest naming several paths (one notification per path, in order)
		if err := checkGetMulti(w, x, ref, st.Gets, fmt.Sprintf("after set %d", i+1)); err != nil {
			return err
		}
		// always read the whole configuration of every target back as well
		for _, t := range c.Targets {
			if err := checkGet(w, x, ref, GetSpec{Target: t}, fmt.Sprintf("after set %d (full read)", i+1)); err != nil {
				return err
			}
		}
	}
	x.Sample(map[string]any{"targets": c.Targets, "sets": sample})
	return nil
}

// TestC03_SequentialSemantics: after every acknowledged Set of a generated
// history, Gets (PROTO and JSON, exact / node / wildcard) return exactly the
// leaves the reference model of gNMI semantics holds.
func TestC03_SequentialSemantics(t *testing.T) {
	vstat.Run(t, "C03", genC03, runC03)
}
