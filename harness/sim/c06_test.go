package sim

import (
	"context"
	"fmt"
	"testing"
	"time"

	configapi "github.com/onosproject/onos-api/go/onos/config/v2"
	"pgregory.net/rapid"

	"verif/harness/model"
	"verif/harness/vstat"
)

// C06Case: a history of Sets (devices online), then a sequence of rollback
// requests: of the latest change, of older changes, of failed changes, of
// rollbacks, of indexes that do not exist; chains (rollback k, then k-1).
type C06Case struct {
	Targets   []string  `json:"targets"`
	Sets      []SetSpec `json:"sets"`
	Rollbacks []int     `json:"rollbacks"` // log indexes asked to be rolled back, in order
	// Restart: after the rollbacks every device restarts empty and is re-synchronised: what it is sent then must
	// still be the state the rollbacks restored (the applied values must have followed the rollback)
	Restart bool `json:"restart,omitempty"`
}

func c06Opts(targets []string) *GenOpts {
	return &GenOpts{
		Targets:                  targets,
		MultiTarget:              len(targets) > 1,
		AllowPoison:              true,
		AvoidAncestorDescendant:  true,
		AvoidSamePathDeleteWrite: true,
		AvoidWriteUnderDeleted:   vstat.IsListed("F-zombie-tombstone"),
	}
}

func genC06(rt *rapid.T) C06Case {
	c := C06Case{Targets: []string{"t1"}}
	if rapid.IntRange(0, 2).Draw(rt, "twoTargets") == 0 {
		c.Targets = append(c.Targets, "t2")
	}
	o := c06Opts(c.Targets)
	hist := map[string][]model.Path{}
	n := rapid.IntRange(1, 6).Draw(rt, "nsets")
	for i := 0; i < n; i++ {
		s := GenSet(rt, o, hist)
		for _, op := range s.Resolved() {
			if op.Kind != "delete" {
				hist[op.Target] = append(hist[op.Target], op.Path)
			}
		}
		c.Sets = append(c.Sets, s)
	}
	nr := rapid.IntRange(1, 4).Draw(rt, "nrollbacks")
	logLen := n
	for i := 0; i < nr; i++ {
		var idx int
		switch rapid.IntRange(0, 7).Draw(rt, "rbkind") {
		case 0, 1, 2, 3: // the most recent entry that is a change not yet rolled back (resolved at run time: 0 = "latest")
			idx = -1
		case 4: // some older index
			idx = rapid.IntRange(1, logLen).Draw(rt, "older")
		case 5: // index zero
			idx = 0
		case 6: // beyond the log
			idx = logLen + rapid.IntRange(1, 5).Draw(rt, "beyond")
		case 7: // any index, including rollbacks appended so far
			idx = rapid.IntRange(1, logLen).Draw(rt, "any")
		}
		c.Rollbacks = append(c.Rollbacks, idx)
		logLen++
	}
	c.Restart = rapid.IntRange(0, 1).Draw(rt, "restart") == 1
	return c
}

// latestRollbackable returns the highest log index that the reference model
// would accept a rollback of (0 if none).
func latestRollbackable(ref *Ref) int {
	for i := len(ref.Txs); i >= 1; i-- {
		tx := ref.Txs[i-1]
		if tx.IsRollback || tx.Outcome != "committed" {
			continue
		}
		ok := true
		for _, t := range tx.Targets {
			if ref.CurIndex[t] != tx.Index {
				ok = false
			}
		}
		if ok {
			return tx.Index
		}
	}
	return 0
}

func compareAll(w *World, ref *Ref, targets []string, when string) error {
	for _, t := range targets {
		if w.Config(t) == nil {
			if len(ref.Stored[t]) != 0 {
				return vstat.Violf("%s: target %s has no configuration but the reference holds %d leaves", when, t, len(ref.Stored[t]))
			}
			continue
		}
		got, _, err := w.GetProto(t, nil)
		if err != nil {
			return vstat.Violf("%s: Get %s failed: %v", when, t, err)
		}
		if d := model.DiffFlat(got, ref.Stored[t].Flat()); d != "" {
			return vstat.Violf("%s: stored configuration of %s: %s", when, t, d)
		}
		if d := model.DiffFlat(w.DeviceFlat(t), ref.Device[t].Flat()); d != "" {
			return vstat.Violf("%s: device %s: %s", when, t, d)
		}
	}
	return nil
}

func runC06(c C06Case, x *vstat.Ctx) error {
	var specs []TargetSpec
	for _, t := range c.Targets {
		specs = append(specs, TargetSpec{ID: t, Online: true})
	}
	w, err := NewWorld(x, Options{Targets: specs})
	if err != nil {
		return err
	}
	defer w.Close()
	if err := w.S.Run(); err != nil {
		return err
	}
	if c06Opts(c.Targets).AvoidWriteUnderDeleted {
		x.Excluded("F-zombie-tombstone")
	}
	x.Excluded("F-ancestor-delete-order")
	ref := NewRef(w.Schema, c.Targets)
	var sample []string
	for i, s := range c.Sets {
		s.Sync = true
		x.Logf("set %d: %s", i+1, s.Describe())
		sample = append(sample, s.Describe())
		call, err := submitAndSettle(w, fmt.Sprintf("s%d", i+1), s)
		if err != nil {
			return err
		}
		if !call.Created {
			return vstat.Violf("history Set %d was refused before being logged: %v (%s)", i+1, call.Err, s.Describe())
		}
		if !call.Done() {
			return vstat.Violf("history Set %d was not answered: %s", i+1, w.DescribeState())
		}
		rtx := ref.Change(s.Resolved())
		if (rtx.Outcome == "committed") != (call.Err == nil) {
			return vstat.Violf("history Set %d: reference says %s, handler answered %v", i+1, rtx.Outcome, call.Err)
		}
		if err := compareAll(w, ref, c.Targets, fmt.Sprintf("after set %d", i+1)); err != nil {
			return err
		}
	}
	for i, want := range c.Rollbacks {
		idx := want
		if idx < 0 {
			idx = latestRollbackable(ref)
			if idx == 0 {
				idx = len(ref.Txs) // nothing can be rolled back: ask for the last entry anyway
			}
		}
		// shape of the change that is about to be rolled back (for the non-trivial rule)
		var target *RefTx
		if idx >= 1 && idx <= len(ref.Txs) {
			target = ref.Txs[idx-1]
		}
		before := map[string]model.Config{}
		for _, t := range c.Targets {
			before[t] = ref.Stored[t].Clone()
		}
		txsBefore, _ := w.St.Tx.List(context.Background())
		rtx := ref.RollbackOf(idx)
		x.Logf("rollback %d: index %d -> reference says %s", i+1, idx, rtx.Outcome)
		sample = append(sample, fmt.Sprintf("rollback(%d) -> %s", idx, rtx.Outcome))
		x.Class("rollback:" + rtx.Outcome)
		if rtx.Outcome == "committed" && target != nil {
			for _, t := range target.Targets {
				for k, l := range target.before[t] {
					if now, ok := before[t][k]; !ok {
						x.NonTrivial("the rolled-back change had deleted existing leaves")
						_ = l
					} else if now.Value.Key() != l.Value.Key() {
						x.NonTrivial("the rolled-back change had overwritten existing leaves")
					}
				}
			}
			if len(target.Targets) > 1 {
				x.Class("rollback:multi-target")
			}
		}
		call, err := w.StartRollback(fmt.Sprintf("rb%d", i+1), configapi.Index(idx), nil)
		if err != nil {
			return err
		}
		if call.Panic != nil {
			return vstat.Violf("RollbackTransaction(%d) panicked: %v\n%s", idx, call.Panic, call.Stack)
		}
		if err := w.S.Run(); err != nil {
			return err
		}
		w.AwaitCalls(10 * time.Second)
		if !call.Done() {
			return vstat.Violf("RollbackTransaction(%d) was not answered although the controllers are idle; state %s", idx, w.DescribeState())
		}
		txsAfter, _ := w.St.Tx.List(context.Background())
		if len(txsAfter) != len(txsBefore)+1 {
			return vstat.Violf("RollbackTransaction(%d): the log grew by %d entries, want exactly 1", idx, len(txsAfter)-len(txsBefore))
		}
		if rtx.Outcome == "committed" {
			if call.Err != nil {
				return vstat.Violf("rollback of index %d (the latest change of its targets) was answered with %v; state %s", idx, call.Err, w.DescribeState())
			}
		} else {
			if call.Err == nil {
				return vstat.Violf("rollback of index %d must be refused (%s) but was answered with success", idx, rtx.Outcome)
			}
			x.Class("refused-with:" + Code(call.Err).String())
		}
		if rtx.Outcome == "committed" && target != nil {
			explainSubtreeRollback(w, x, ref, target)
		}
		if err := compareAll(w, ref, c.Targets, fmt.Sprintf("after rollback(%d) [%s]", idx, rtx.Outcome)); err != nil {
			return err
		}
	}
	if c.Restart {
		x.Class("devices restart empty after the rollbacks and are re-synchronised")
		for _, t := range c.Targets {
			w.LinkDown(t)
			w.Devices[t].RestartEmpty()
			x.Logf("device %s restarted empty", t)
			if err := w.LinkUp(t); err != nil {
				return err
			}
		}
		if err := w.S.Run(); err != nil {
			return err
		}
		if err := compareAll(w, ref, c.Targets, "after the devices restarted empty and were re-synchronised"); err != nil {
			return err
		}
	}
	x.Sample(map[string]any{"targets": c.Targets, "history": sample})
	return nil
}

// explainSubtreeRollback recognises finding F-rollback-subtree-delete: the
// rolled-back change deleted a node with descendants; the descendants were
// removed by the cascading delete at commit time but were never captured in
// the proposal's RollbackValues, so the rollback reports success and restores
// none of them (on the device either). If the finding is listed and the
// difference consists ONLY of such leaves, it is recorded and the reference is
// re-synchronised; anything else is left for compareAll to report.
func explainSubtreeRollback(w *World, x *vstat.Ctx, ref *Ref, target *RefTx) {
	if !vstat.IsKnown("C06", "F-rollback-subtree-delete") {
		return
	}
	for _, t := range target.Targets {
		if w.Config(t) == nil {
			continue
		}
		got, _, err := w.GetProto(t, nil)
		if err != nil {
			continue
		}
		dev := w.DeviceFlat(t)
		want := ref.Stored[t]
		var lost []string
		explained := true
		for k, l := range want {
			_, inCfg := got[k]
			_, inDev := dev[k]
			if inCfg && got[k] == l.Value.Key() {
				continue
			}
			if inCfg || inDev {
				explained = false
				break
			}
			under := false
			for _, op := range opsFor(target.Ops, t) {
				if op.Kind == "delete" {
					d := EffectiveDelete(op.Path)
					if model.Covers(d, l.Path) && len(d) < len(l.Path) {
						under = true
					}
					if n := len(d); n > 0 && len(d[n-1].Keys) == 0 && model.Covers(d, l.Path) {
						under = true
					}
				}
			}
			if !under {
				explained = false
				break
			}
			lost = append(lost, k)
		}
		for k := range got {
			if _, ok := want[k]; !ok {
				explained = false
			}
		}
		if !explained || len(lost) == 0 {
			continue
		}
		x.Known("F-rollback-subtree-delete", "rolling back a change that deleted a node with descendants reports success but restores none of the descendants (they are removed by the cascading delete at commit time and never captured in RollbackValues)")
		x.Logf("   known finding F-rollback-subtree-delete: %s not restored: %v; reference re-synchronised", t, lost)
		for _, k := range lost {
			delete(ref.Stored[t], k)
			delete(ref.Device[t], k)
		}
	}
}

// TestC06_RollbackRestores: rolling back the latest change restores stored
// configuration and device exactly; every other rollback request is refused
// and alters nothing.
func TestC06_RollbackRestores(t *testing.T) {
	vstat.Run(t, "C06", genC06, runC06)
}
