package sim

import (
	"context"
	"fmt"
	"sort"
	"strings"

	"github.com/gogo/protobuf/proto"
	configapi "github.com/onosproject/onos-api/go/onos/config/v2"
	sb "github.com/onosproject/onos-config/pkg/southbound/gnmi"
	valuesv2 "github.com/onosproject/onos-config/pkg/utils/v2/values"
	gpb "github.com/openconfig/gnmi/proto/gnmi"
	"github.com/openconfig/gnmi/proto/gnmi_ext"
	"google.golang.org/grpc/codes"
	"google.golang.org/grpc/status"

	"verif/harness/fakes"
	"verif/harness/model"
)

// SetSpec is a JSON-serialisable description of a gNMI Set request.
type SetSpec struct {
	PrefixTarget string     `json:"prefixTarget,omitempty"`
	PrefixElems  model.Path `json:"prefixElems,omitempty"`
	// Ops carry paths RELATIVE to the prefix; Target is the per-path target ("" = none).
	Ops  []model.Op `json:"ops"`
	Sync bool       `json:"sync,omitempty"`
	// Serializable asks for SERIALIZABLE isolation through extension 111.
	Serializable bool `json:"serializable,omitempty"`
	// Ext are additional registered extensions carried verbatim.
	Ext []ExtSpec `json:"ext,omitempty"`
	// LeadExt puts an extension the handlers have no use for IN FRONT of the others: "arbitration" (the
	// well-known master-arbitration arm), "history", "registered" (a registered extension with an id nobody knows)
	LeadExt string `json:"leadExt,omitempty"`
}

// ExtSpec is a raw registered extension.
type ExtSpec struct {
	ID  uint32 `json:"id"`
	Msg []byte `json:"msg"`
}

// OverrideExt is extension 112 naming type and version for one target.
func OverrideExt(target, typ, version string) ExtSpec {
	b, _ := proto.Marshal(&configapi.TargetVersionOverrides{Overrides: map[string]*configapi.TargetTypeVersion{
		target: {TargetType: configapi.TargetType(typ), TargetVersion: configapi.TargetVersion(version)}}})
	return ExtSpec{ID: uint32(configapi.TargetVersionOverridesID), Msg: b}
}

// Build renders the request.
func (s SetSpec) Build() *gpb.SetRequest {
	req := &gpb.SetRequest{}
	if s.PrefixTarget != "" || len(s.PrefixElems) > 0 {
		req.Prefix = s.PrefixElems.Gnmi()
		req.Prefix.Target = s.PrefixTarget
	}
	for _, o := range s.Ops {
		p := o.Path.Gnmi()
		p.Target = o.Target
		switch o.Kind {
		case "delete":
			req.Delete = append(req.Delete, p)
		case "replace":
			req.Replace = append(req.Replace, &gpb.Update{Path: p, Val: o.Val.Gnmi()})
		default:
			req.Update = append(req.Update, &gpb.Update{Path: p, Val: o.Val.Gnmi()})
		}
	}
	switch s.LeadExt {
	case "arbitration":
		req.Extension = append(req.Extension, &gnmi_ext.Extension{Ext: &gnmi_ext.Extension_MasterArbitration{
			MasterArbitration: &gnmi_ext.MasterArbitration{Role: &gnmi_ext.Role{Id: "r"}, ElectionId: &gnmi_ext.Uint128{Low: 1}}}})
	case "history":
		req.Extension = append(req.Extension, &gnmi_ext.Extension{Ext: &gnmi_ext.Extension_History{History: &gnmi_ext.History{}}})
	case "registered":
		req.Extension = append(req.Extension, &gnmi_ext.Extension{Ext: &gnmi_ext.Extension_RegisteredExt{
			RegisteredExt: &gnmi_ext.RegisteredExtension{Id: gnmi_ext.ExtensionID(4711), Msg: []byte{1, 2, 3}}}})
	}
	if s.Sync || s.Serializable {
		st := &configapi.TransactionStrategy{}
		if s.Sync {
			st.Synchronicity = configapi.TransactionStrategy_SYNCHRONOUS
		}
		if s.Serializable {
			st.Isolation = configapi.TransactionStrategy_SERIALIZABLE
		}
		b, _ := proto.Marshal(st)
		req.Extension = append(req.Extension, &gnmi_ext.Extension{Ext: &gnmi_ext.Extension_RegisteredExt{
			RegisteredExt: &gnmi_ext.RegisteredExtension{Id: configapi.TransactionStrategyExtensionID, Msg: b}}})
	}
	for _, e := range s.Ext {
		req.Extension = append(req.Extension, &gnmi_ext.Extension{Ext: &gnmi_ext.Extension_RegisteredExt{
			RegisteredExt: &gnmi_ext.RegisteredExtension{Id: gnmi_ext.ExtensionID(e.ID), Msg: e.Msg}}})
	}
	return req
}

// Resolved returns the operations with the effective target (prefix target
// overrides per-path targets) and the effective path (prefix followed by path).
func (s SetSpec) Resolved() []model.Op {
	out := make([]model.Op, 0, len(s.Ops))
	for _, o := range s.Ops {
		r := model.Op{Kind: o.Kind, Target: o.Target, Path: model.Join(s.PrefixElems, o.Path), Val: o.Val}
		if s.PrefixTarget != "" {
			r.Target = s.PrefixTarget
		}
		out = append(out, r)
	}
	return out
}

// Targets returns the distinct effective targets, sorted.
func (s SetSpec) Targets() []string {
	m := map[string]bool{}
	for _, o := range s.Resolved() {
		m[o.Target] = true
	}
	out := make([]string, 0, len(m))
	for t := range m {
		out = append(out, t)
	}
	sort.Strings(out)
	return out
}

// Describe renders the request compactly.
func (s SetSpec) Describe() string {
	var parts []string
	for _, o := range s.Resolved() {
		parts = append(parts, o.Describe())
	}
	mode := "async"
	if s.Sync {
		mode = "sync"
	}
	if s.Serializable {
		mode += ",serializable"
	}
	pfx := ""
	if s.PrefixTarget != "" || len(s.PrefixElems) > 0 {
		pfx = fmt.Sprintf(" prefix=%s:%s", s.PrefixTarget, s.PrefixElems)
	}
	return fmt.Sprintf("Set(%s%s){%s}", mode, pfx, strings.Join(parts, "; "))
}

// GetProto issues a PROTO Get for one path on a target and returns the live
// leaves it reports as canonical path text -> value key. The second result
// reports whether the response was the "nothing found" form (one update with a
// nil value).
func (w *World) GetProto(target string, q model.Path) (map[string]string, bool, error) {
	p := q.Gnmi()
	p.Target = target
	resp, err, pan, st := w.Get(&gpb.GetRequest{Path: []*gpb.Path{p}, Encoding: gpb.Encoding_PROTO}, nil)
	if pan != nil {
		return nil, false, fmt.Errorf("Get panicked: %v\n%s", pan, st)
	}
	if err != nil {
		return nil, false, err
	}
	out := map[string]string{}
	empty := false
	for _, n := range resp.Notification {
		for _, u := range n.Update {
			if u.Val == nil {
				empty = true
				continue
			}
			out[fakes.ElemsKey(u.Path.Elem)] = model.FromGnmiValue(u.Val).Key()
		}
	}
	return out, empty, nil
}

// GetJSON issues a JSON Get for one path and returns the flattened document.
func (w *World) GetJSON(target string, q model.Path) (map[string]string, []byte, error) {
	p := q.Gnmi()
	p.Target = target
	resp, err, pan, st := w.Get(&gpb.GetRequest{Path: []*gpb.Path{p}, Encoding: gpb.Encoding_JSON}, nil)
	if pan != nil {
		return nil, nil, fmt.Errorf("Get panicked: %v\n%s", pan, st)
	}
	if err != nil {
		return nil, nil, err
	}
	out := map[string]string{}
	var raw []byte
	for _, n := range resp.Notification {
		for _, u := range n.Update {
			if u.Val == nil {
				continue
			}
			raw = u.Val.GetJsonVal()
			flat, err := model.FlattenJSON(raw, w.Schema)
			if err != nil {
				return nil, raw, err
			}
			for k, v := range flat {
				out[k] = v
			}
		}
	}
	return out, raw, nil
}

// DeviceFlat returns a device's leaves as path text -> value key.
func (w *World) DeviceFlat(target string) map[string]string {
	out := map[string]string{}
	for k, v := range w.Devices[target].Leaves() {
		out[k] = model.FromGnmiValue(v).Key()
	}
	return out
}

// Code returns the gRPC code of a handler error (OK for nil).
func Code(err error) codes.Code {
	if err == nil {
		return codes.OK
	}
	return status.Code(err)
}

// nativeKey renders a stored onos-config value as a model value key (through
// the code's own native->gNMI conversion, which C17 checks on its own).
func nativeKey(pv *configapi.PathValue) (string, error) {
	tv, err := valuesv2.NativeTypeToGnmiTypedValue(&pv.Value)
	if err != nil {
		return "", err
	}
	return model.FromGnmiValue(tv).Key(), nil
}

func configTarget(t string) configapi.TargetID { return configapi.TargetID(t) }

func connID(s string) sb.ConnID { return sb.ConnID(s) }

func ctxBg() context.Context { return context.Background() }

// GetProtoConfig reads a target's whole configuration as a model.Config.
func (w *World) GetProtoConfig(target string) (model.Config, bool, error) {
	p := &gpb.Path{Target: target}
	resp, err, pan, st := w.Get(&gpb.GetRequest{Path: []*gpb.Path{p}, Encoding: gpb.Encoding_PROTO}, nil)
	if pan != nil {
		return nil, false, fmt.Errorf("Get panicked: %v\n%s", pan, st)
	}
	if err != nil {
		return nil, false, err
	}
	out := model.Config{}
	empty := false
	for _, n := range resp.Notification {
		for _, u := range n.Update {
			if u.Val == nil {
				empty = true
				continue
			}
			mp := model.FromGnmi(u.Path.Elem)
			out[mp.String()] = model.Leaf{Path: mp, Value: model.FromGnmiValue(u.Val)}
		}
	}
	return out, empty, nil
}
