package sim

import (
	"errors"
	"testing"

	"pgregory.net/rapid"

	"verif/harness/vstat"
)

func genC09(rt *rapid.T) Scenario {
	return genScenario(rt, Profile{MinTargets: 1, MaxTargets: 3, MinSets: 2, MaxSets: 6, MultiTarget: true, Poison: true, Offline: true, Refuse: true, Rollbacks: true,
		Faults: true, Transient: true, FaultInSync: true, Preempt: 2, Drawn: true, Serializable: true, Pace: true})
}

// checkFixedPoint: with no pending work, one extra reconcile of every
// transaction, proposal and configuration (and every other controller's
// objects) performs no store write, no topology write and no device call.
func checkFixedPoint(r *Run) error {
	el, parked, inflight := r.W.S.Pending()
	if el != 0 || inflight != 0 {
		return vstat.Violf("harness: Run returned with %d eligible items and %d in-flight tasks", el, inflight)
	}
	_ = parked
	n, err := r.W.S.ReconcileAll()
	if err != nil {
		return err
	}
	if n != 0 {
		return vstat.Violf("the controllers had no pending work, yet re-examining every transaction, proposal and configuration performed %d writes/device calls: the system was not at a fixed point (a wake-up was lost); state before the extra pass is in the history, state now %s", n, r.W.DescribeState())
	}
	return nil
}

func runC09(sc Scenario, x *vstat.Ctx) error {
	r, err := Execute(x, sc, nil)
	defer r.Close()
	x.Sample(describeScenario(sc))
	if err != nil {
		if errors.Is(err, ErrBudget) {
			return vstat.Violf("the controllers did not quiesce within the step budget (%d steps): %s", r.W.S.Steps, r.W.DescribeState())
		}
		return err
	}
	shared := map[string]int{}
	for i, a := range sc.Actions {
		if a.Kind == "set" && r.RefTxs[i] != nil {
			for _, t := range r.RefTxs[i].Targets {
				shared[t]++
			}
		}
	}
	for _, n := range shared {
		if n >= 2 && r.W.S.DecisionsDrawn() > 10 {
			x.NonTrivial(">=2 transactions sharing a target under a drawn delivery order")
		}
	}
	if sc.Preempt {
		x.Class("mode:pre-emptive")
	} else {
		x.Class("mode:atomic")
	}
	x.Logf("state at quiescence: %s", r.W.DescribeState())
	if err := checkFixedPoint(r); err != nil {
		return err
	}
	if err := r.CheckTerminal("at quiescence with every target connected"); err != nil {
		return err
	}
	return nil
}

// TestC09_NoStrandedTransaction: for every generated history and drawn
// delivery order the system quiesces at a fixed point where every accepted
// transaction is applied or failed.
func TestC09_NoStrandedTransaction(t *testing.T) {
	vstat.Run(t, "C09", genC09, runC09)
}
