package sim

import (
	"fmt"
	"math/rand"
	"runtime/debug"
	"sort"
	"strconv"
	"strings"
	"sync"
	"time"

	configapi "github.com/onosproject/onos-api/go/onos/config/v2"
	topoapi "github.com/onosproject/onos-api/go/onos/topo"
	sb "github.com/onosproject/onos-config/pkg/southbound/gnmi"
	"github.com/onosproject/onos-lib-go/pkg/controller"

	"verif/harness/vstat"
)

// Mode selects how reconcile steps are interleaved.
type Mode int

const (
	// Atomic runs every reconcile to completion before the next decision.
	Atomic Mode = iota
	// Preempt makes every store / topology / southbound call a yield point.
	Preempt
)

const sentinelBase = configapi.Index(1) << 60
const sentinelPrefix = "~s-"

// ErrBudget is returned when a run did not quiesce within its step budget.
var ErrBudget = fmt.Errorf("did not quiesce within the step budget")

// ErrInconclusive is returned when the harness itself could not make progress
// (a sentinel did not come back): never a violation.
var ErrInconclusive = fmt.Errorf("harness inconclusive")

type item struct {
	id       controller.ID
	seq      int
	errs     int  // consecutive failed attempts
	failedAt int  // effect counter when it last failed
	deferred bool // straggler: taken up only when nothing else can run (see DeferReplayed)
}

type slot struct {
	c        *ctl
	part     string
	rec      controller.Reconciler
	gate     *Gate
	pending  []*item
	inflight *task
}

type ctl struct {
	name      string
	partition func(controller.ID) string
	factory   func(g *Gate) controller.Reconciler
	slots     map[string]*slot
	order     []string
}

type task struct {
	sl       *slot
	it       *item
	seq      int
	yieldCh  chan struct{}
	resume   chan struct{}
	done     chan struct{}
	atOp     string
	poisoned bool
	deferred bool // straggler: resumed only when nothing else can run and HoldExternals externals have run
	res      controller.Result
	err      error
	panicked any
	stack    string
}

type watcherRun struct {
	name  string
	c     *ctl
	w     controller.Watcher
	ch    chan controller.ID
	mu    sync.Mutex
	buf   []controller.ID
	acks  map[int]int
	need  int
	ended chan struct{}
	quit  chan struct{}
	ackCh chan struct{}
}

// External is an action of the outside world (a northbound request, a fault)
// that the scheduler may place anywhere in the interleaving.
type External struct {
	Name string
	Fn   func() error
	// WhenIdle: even under a drawn schedule the action is performed only when the controllers have nothing to do
	// (the client, or the fault, comes after everything earlier has settled).
	WhenIdle bool
}

// StepInfo describes one executed reconcile (or segment) for monitors.
type StepInfo struct {
	Ctl, Part, ID string
	Op            string // "" for a whole reconcile, else the call that was granted
	Done          bool
	Err           error
}

// Sched is the harness-owned replacement of onos-lib-go's controller runtime.
type Sched struct {
	w     *World
	x     *vstat.Ctx
	Mode  Mode
	Drawn bool // decisions are drawn through x.Choose (else FIFO)
	// ReverseReplay: after a crash the work the restarted watchers replay is taken up newest first
	// (once; FIFO from there on). The real replay order is a map iteration order: both are legal.
	ReverseReplay bool
	// DeferReplayed >= 0: the n-th work item replayed after a crash is a straggler: it is taken up only when
	// nothing else can run (its partition's worker was slow to start or sits in a retry back-off).
	DeferReplayed int
	// StragglerHold: the straggler additionally waits until this many more external actions have been performed
	// (a request that arrives while one partition's worker has still not looked at its replayed item)
	StragglerHold int
	// ParkAt, when set, is consumed by the next matching task (see ParkSpec); Parked counts how often that happened
	ParkAt *ParkSpec
	Parked int
	// DeferInterrupted: the straggler is the very item whose reconcile the crash interrupted
	DeferInterrupted bool
	interrupted      StepCtx
	// HoldExternals: a deferred in-flight task (DeferInflight) stays parked until this many more external
	// actions have been performed and nothing else can run.
	HoldExternals int
	ctls          []*ctl
	watchers      []*watcherRun
	seq           int
	Steps         int
	Budget        int
	gen           int

	emu       sync.Mutex
	effects   int
	CrashAt   int  // effect position before which the process crashes (-1: never)
	CrashMid  bool // with CrashAt: cut INSIDE that store call instead of before it ...
	CrashMidK int  // ... namely before its CrashMidK-th Atomix write (>= 2)
	// EffectWrites (with RecordEffects) holds, per effect point, how many Atomix writes the store call made
	// (0 for calls that are not counted: only the configuration store has methods of several writes)
	EffectWrites []int
	crashPending bool
	Crashes      int
	// CrashHook, when set, is consulted at every effect point in drawn mode.
	Externals []External
	// Monitor is called after every executed step once events are settled.
	Monitor func(StepInfo) error
	// StopAt, when > 0, makes Run return once that many steps have been executed in total.
	StopAt int
	// RecordEffects keeps the name of every effect point in EffectOps.
	RecordEffects bool
	EffectOps     []string
	// OnQuiescent is called whenever the controllers have nothing left to do
	// (before the next external action, and at the end).
	OnQuiescent func() error
	// OnRestart is called after a crash once the process is back (before anything runs).
	OnRestart func()
	// MaxIdleRetries bounds re-runs of an erroring reconcile while nothing else changed.
	MaxIdleRetries int
	// Panics collects reconciler panics (the real process would die).
	Panics []string
	// stats
	MaxInflight    map[string]int
	ParkedRetries  int
	Conflicts      int
	decisionsDrawn int
	deferredSince  int // step at which the current straggler was held back (0 = none)
	cur            *StepCtx
}

// StepCtx names the reconcile step that is executing right now.
type StepCtx struct {
	Ctl, Part, ID string
}

// Current returns the step that is executing (nil between steps).
func (s *Sched) Current() *StepCtx { return s.cur }

// DecisionsDrawn returns how many scheduling decisions had more than one candidate and were drawn.
func (s *Sched) DecisionsDrawn() int { return s.decisionsDrawn }

func newSched(w *World, x *vstat.Ctx) *Sched {
	return &Sched{w: w, x: x, CrashAt: -1, DeferReplayed: -1, Budget: 6000, MaxIdleRetries: 2, MaxInflight: map[string]int{}}
}

// Effects returns the number of effect points passed so far.
func (s *Sched) Effects() int {
	s.emu.Lock()
	defer s.emu.Unlock()
	return s.effects
}

// ---------------------------------------------------------------------------
// gate protocol

func (s *Sched) enter(g *Gate, op string, effect bool) error {
	if g.nb {
		if effect {
			s.emu.Lock()
			s.effects++
			if s.RecordEffects {
				s.EffectOps = append(s.EffectOps, "nb:"+op)
				s.EffectWrites = append(s.EffectWrites, 0)
			}
			s.emu.Unlock()
		}
		return nil
	}
	t := g.task
	if t != nil && t.poisoned {
		return errCrashed
	}
	if s.Mode == Preempt && t != nil {
		t.atOp = op
		t.yieldCh <- struct{}{}
		<-t.resume
		if t.poisoned {
			return errCrashed
		}
	}
	if effect {
		s.emu.Lock()
		if s.CrashAt >= 0 && s.CrashAt == s.effects && !s.CrashMid {
			s.emu.Unlock()
			s.x.Logf("  crash point %d reached before %s [%s]", s.CrashAt, op, g.name)
			s.crashNow(g)
			return errCrashed
		}
		s.effects++
		if s.RecordEffects {
			s.EffectOps = append(s.EffectOps, op)
			s.EffectWrites = append(s.EffectWrites, 0)
		}
		s.emu.Unlock()
	}
	return nil
}

// noteSubWrites records how many Atomix writes the store call of the effect point just passed has made.
func (s *Sched) noteSubWrites(n int) {
	s.emu.Lock()
	if s.RecordEffects && len(s.EffectWrites) > 0 {
		s.EffectWrites[len(s.EffectWrites)-1] = n
	}
	s.emu.Unlock()
}

// midCallCrash reports whether the two-phase call that has just passed its
// effect point must be cut between its two sub-writes.
func (s *Sched) midCallCrash(g *Gate, op string) int {
	s.emu.Lock()
	defer s.emu.Unlock()
	if s.CrashAt >= 0 && s.CrashMid && s.CrashAt == s.effects-1 {
		return max(2, s.CrashMidK)
	}
	return 0
}

func (s *Sched) crashNow(g *Gate) {
	s.emu.Lock()
	s.crashPending = true
	s.CrashAt = -1
	if s.cur != nil {
		s.interrupted = *s.cur
	}
	s.emu.Unlock()
	if g.task != nil {
		g.task.poisoned = true
	}
}

// Crash makes the process crash at the next decision point.
func (s *Sched) Crash() {
	s.emu.Lock()
	s.crashPending = true
	s.emu.Unlock()
}

// ---------------------------------------------------------------------------
// controllers and watchers

func (s *Sched) addCtl(name string, partition func(controller.ID) string, factory func(g *Gate) controller.Reconciler) *ctl {
	c := &ctl{name: name, partition: partition, factory: factory, slots: map[string]*slot{}}
	s.ctls = append(s.ctls, c)
	return c
}

func (c *ctl) slotFor(s *Sched, part string) *slot {
	if sl, ok := c.slots[part]; ok {
		return sl
	}
	g := &Gate{s: s, name: c.name + "[" + part + "]"}
	sl := &slot{c: c, part: part, gate: g}
	sl.rec = c.factory(g)
	c.slots[part] = sl
	c.order = append(c.order, part)
	return sl
}

func (s *Sched) addWatcher(c *ctl, name string, w controller.Watcher, need int) {
	wr := &watcherRun{name: name, c: c, w: w, need: need}
	s.watchers = append(s.watchers, wr)
}

func (s *Sched) startWatchers() error {
	for _, wr := range s.watchers {
		wr.ch = make(chan controller.ID, 1024)
		wr.acks = map[int]int{}
		wr.buf = nil
		wr.ended = make(chan struct{})
		wr.quit = make(chan struct{})
		wr.ackCh = make(chan struct{}, 1)
		if err := wr.w.Start(wr.ch); err != nil {
			return err
		}
		go func(wr *watcherRun) {
			defer close(wr.ended)
			for {
				select {
				case id, ok := <-wr.ch:
					if !ok {
						return
					}
					wr.mu.Lock()
					if gen, ok := sentinelGen(id); ok {
						wr.acks[gen]++
					} else {
						wr.buf = append(wr.buf, id)
					}
					wr.mu.Unlock()
					select {
					case wr.ackCh <- struct{}{}:
					default:
					}
				case <-wr.quit:
					// most watchers never close their output channel; the watcher
					// goroutine ends when its (hub-closed) event channel is drained,
					// the 1024-slot buffer absorbs whatever it still emits
					return
				}
			}
		}(wr)
	}
	return nil
}

func sentinelGen(id controller.ID) (int, bool) {
	var str string
	switch v := id.Value.(type) {
	case configapi.Index:
		if v >= sentinelBase {
			return int(v - sentinelBase), true
		}
		return 0, false
	case configapi.ProposalID:
		str = string(v)
	case configapi.ConfigurationID:
		str = string(v)
	case topoapi.ID:
		str = string(v)
	case sb.ConnID:
		str = string(v)
	default:
		return 0, false
	}
	if !strings.HasPrefix(str, sentinelPrefix) {
		return 0, false
	}
	rest := str[len(sentinelPrefix):]
	if i := strings.IndexByte(rest, '-'); i >= 0 {
		rest = rest[:i]
	}
	n, err := strconv.Atoi(rest)
	if err != nil {
		return 0, false
	}
	return n, true
}

// settle pushes a sentinel through every event path and waits until every
// watcher has mapped everything that was emitted before it; then moves the
// collected IDs into the pending queues in a fixed order.
func (s *Sched) settle() error {
	s.gen++
	// Two sentinels per generation: every watcher is a single FIFO goroutine, so
	// once the FIRST id produced by sentinel B has arrived, every id produced by
	// the real events and by sentinel A has been delivered - however many ids
	// the watcher emits per event (the harness does not depend on that number).
	a, b := 2*s.gen, 2*s.gen+1
	s.w.emitSentinels(a)
	s.w.emitSentinels(b)
	deadline := time.Now().Add(30 * time.Second)
	for _, wr := range s.watchers {
		for {
			wr.mu.Lock()
			ok := wr.acks[b] >= 1
			if ok {
				delete(wr.acks, a)
			}
			wr.mu.Unlock()
			if ok {
				break
			}
			select {
			case <-wr.ackCh:
			case <-time.After(50 * time.Millisecond):
				if time.Now().After(deadline) {
					return fmt.Errorf("%w: sentinel %d did not come back through watcher %s", ErrInconclusive, s.gen, wr.name)
				}
			}
		}
	}
	for _, wr := range s.watchers {
		wr.mu.Lock()
		buf := wr.buf
		wr.buf = nil
		if len(wr.acks) > 64 {
			wr.acks = map[int]int{}
		}
		wr.mu.Unlock()
		for _, id := range buf {
			s.enqueue(wr.c, id)
		}
	}
	return nil
}

func (s *Sched) enqueue(c *ctl, id controller.ID) {
	sl := c.slotFor(s, c.partition(id))
	s.enqueueSlot(sl, id)
}

// idString renders an ID for histories; connection ids (random UUIDs) are
// replaced by the harness's stable labels.
func (s *Sched) idStr(id controller.ID) string {
	if c, ok := id.Value.(sb.ConnID); ok {
		if l := s.w.Conns.Label(c); l != "" {
			return "conn:" + l
		}
	}
	return fmt.Sprint(id.Value)
}

func (s *Sched) enqueueSlot(sl *slot, id controller.ID) {
	for _, it := range sl.pending {
		if it.id.Value == id.Value {
			return
		}
	}
	s.seq++
	sl.pending = append(sl.pending, &item{id: id, seq: s.seq})
	if vstat.Tracing() {
		s.x.Logf("      enqueue %s[%s] %s (seq %d)", sl.c.name, sl.part, s.idStr(id), s.seq)
	}
}

// ---------------------------------------------------------------------------
// running

type cand struct {
	kind string // "task" | "item" | "ext"
	t    *task
	sl   *slot
	it   *item
}

func (s *Sched) eligible(it *item) bool {
	if it.errs == 0 {
		return true
	}
	if s.Effects()+s.w.Topo.WriteCount() != it.failedAt {
		return true
	}
	return it.errs <= s.MaxIdleRetries
}

// hasDeferred reports whether a step or work item is being held back (the system is then not idle).
func (s *Sched) hasDeferred() bool {
	for _, c := range s.ctls {
		for _, sl := range c.slots {
			if sl.inflight != nil && sl.inflight.deferred {
				return true
			}
			for _, it := range sl.pending {
				if it.deferred {
					return true
				}
			}
		}
	}
	return false
}

// ParkSpec arms the parking of a task: the next task of controller Ctl that is about to perform store call Op
// (pre-emptive mode) stays parked until Hold more external actions have been performed and nothing else can run.
type ParkSpec struct {
	Ctl, Op string
	Hold    int
}

func (s *Sched) candidates() []cand {
	if pa := s.ParkAt; pa != nil {
		for _, c := range s.ctls {
			if c.name != pa.Ctl {
				continue
			}
			for _, sl := range c.slots {
				if t := sl.inflight; t != nil && t.atOp == pa.Op && !t.deferred && s.ParkAt != nil {
					t.deferred = true
					s.deferredSince = max(1, s.Steps)
					s.HoldExternals = pa.Hold
					s.x.Logf("  (the %s step of %s is held back before its %s)", c.name, s.idStr(t.it.id), t.atOp)
					s.Parked++
					s.ParkAt = nil
				}
			}
		}
	}
	var tasks, items []cand
	for _, c := range s.ctls {
		for _, p := range c.order {
			sl := c.slots[p]
			if sl.inflight != nil {
				tasks = append(tasks, cand{kind: "task", t: sl.inflight, sl: sl})
				continue
			}
			for _, it := range sl.pending {
				if s.eligible(it) {
					items = append(items, cand{kind: "item", sl: sl, it: it})
					if s.Mode == Preempt {
						break // one startable item per idle slot: the partition is sequential
					}
				}
			}
		}
	}
	if s.Drawn {
		// canonical order (controller, partition, id): the meaning of a drawn
		// index must not depend on the order in which IDs happened to arrive
		// (Go map iteration inside the code under test)
		key := func(c cand) string {
			var id string
			if c.t != nil {
				id = s.idStr(c.t.it.id)
			} else {
				id = s.idStr(c.it.id)
			}
			return fmt.Sprintf("%02d|%s|%s", s.ctlIndex(c.sl.c), c.sl.part, id)
		}
		sort.SliceStable(tasks, func(i, j int) bool { return key(tasks[i]) < key(tasks[j]) })
		sort.SliceStable(items, func(i, j int) bool { return key(items[i]) < key(items[j]) })
	} else {
		sort.SliceStable(tasks, func(i, j int) bool { return tasks[i].t.seq < tasks[j].t.seq })
		sort.SliceStable(items, func(i, j int) bool { return items[i].it.seq < items[j].it.seq })
	}
	// stragglers run only when nothing else can
	var normal, late []cand
	for _, c := range items {
		if c.it.deferred {
			late = append(late, c)
		} else {
			normal = append(normal, c)
		}
	}
	// a straggler is slow, not dead: it is taken up at the latest deferLimit steps after it was held back (the
	// others may keep each other busy for as long as it stays away)
	if s.deferredSince > 0 && s.Steps-s.deferredSince > deferLimit {
		for _, c := range items {
			c.it.deferred = false
		}
		for _, c := range tasks {
			c.t.deferred = false
		}
		s.deferredSince, s.HoldExternals = 0, 0
		normal, late = items, nil
	}
	var running, parked []cand
	for _, c := range tasks {
		if c.t.deferred {
			parked = append(parked, c)
		} else {
			running = append(running, c)
		}
	}
	if len(running)+len(normal) == 0 && (s.HoldExternals <= 0 || len(s.Externals) == 0) {
		for _, c := range parked {
			c.t.deferred = false
		}
		running, parked = parked, nil
	}
	if len(running)+len(parked)+len(normal) == 0 && (s.HoldExternals <= 0 || len(s.Externals) == 0) {
		for _, c := range late {
			c.it.deferred = false
		}
		normal = late
	}
	out := append(running, normal...)
	return out
}

// DeferInflight parks the in-flight task of the named controller (pre-emptive mode): it is resumed only when
// nothing else can run and hold more external actions have been performed. Returns false if there is none.
func (s *Sched) DeferInflight(ctlName string, hold int) bool {
	for _, c := range s.ctls {
		if c.name != ctlName {
			continue
		}
		for _, sl := range c.slots {
			if sl.inflight != nil {
				sl.inflight.deferred = true
				s.deferredSince = max(1, s.Steps)
				s.HoldExternals = hold
				return true
			}
		}
	}
	return false
}

func (s *Sched) ctlIndex(c *ctl) int {
	for i, x := range s.ctls {
		if x == c {
			return i
		}
	}
	return 99
}

// Unpark makes every parked item (one whose retries the harness had stopped because nothing changed between
// them) eligible again: the real work queue retries a failing reconcile for ever, with back-off.
func (s *Sched) Unpark() {
	for _, c := range s.ctls {
		for _, sl := range c.slots {
			for _, it := range sl.pending {
				it.errs = 0
			}
		}
	}
}

// Pending returns the number of pending (eligible or parked) items and in-flight tasks.
func (s *Sched) Pending() (eligible, parked, inflight int) {
	for _, c := range s.ctls {
		for _, sl := range c.slots {
			if sl.inflight != nil {
				inflight++
			}
			for _, it := range sl.pending {
				if s.eligible(it) {
					eligible++
				} else {
					parked++
				}
			}
		}
	}
	return
}

// Run drives the controllers until nothing is left to do (quiescence), the
// budget is exhausted, or the harness is inconclusive. External actions that
// were queued are interleaved (drawn mode) or executed when the controllers
// are idle (FIFO).
func (s *Sched) Run() error {
	for {
		if err := s.settle(); err != nil {
			return err
		}
		s.emu.Lock()
		cp := s.crashPending
		s.emu.Unlock()
		if cp {
			if err := s.restart(); err != nil {
				return err
			}
			continue
		}
		cands := s.candidates()
		if len(cands) == 0 && s.OnQuiescent != nil && !s.hasDeferred() {
			if err := s.OnQuiescent(); err != nil {
				return err
			}
		}
		if len(s.Externals) > 0 && ((s.Drawn && !s.Externals[0].WhenIdle) || len(cands) == 0) {
			cands = append(cands, cand{kind: "ext"})
		}
		if len(cands) == 0 {
			return nil
		}
		if s.Steps >= s.Budget {
			return ErrBudget
		}
		if s.StopAt > 0 && s.Steps >= s.StopAt {
			return nil
		}
		pick := 0
		if s.Drawn && len(cands) > 1 {
			pick = s.x.Choose(len(cands), "sched")
			s.decisionsDrawn++
		}
		c := cands[pick]
		var info StepInfo
		switch c.kind {
		case "ext":
			e := s.Externals[0]
			s.Externals = s.Externals[1:]
			s.x.Logf("  ext: %s", e.Name)
			if s.HoldExternals > 0 {
				s.HoldExternals--
			}
			if err := e.Fn(); err != nil {
				return err
			}
			info = StepInfo{Ctl: "ext", ID: e.Name, Done: true}
		case "item":
			s.Steps++
			c.sl.pending = removeItem(c.sl.pending, c.it)
			if s.Mode == Atomic {
				info = s.runAtomic(c.sl, c.it)
			} else {
				info = s.startTask(c.sl, c.it)
			}
		case "task":
			s.Steps++
			info = s.advance(c.t)
		}
		if len(s.Panics) > 0 {
			return vstat.Violf("a reconciler panicked (the onos-config process would have died): %s", s.Panics[0])
		}
		if s.Monitor != nil {
			if err := s.settle(); err != nil {
				return err
			}
			if err := s.Monitor(info); err != nil {
				return err
			}
		}
	}
}

func removeItem(l []*item, it *item) []*item {
	for i, x := range l {
		if x == it {
			return append(l[:i:i], l[i+1:]...)
		}
	}
	return l
}

func (s *Sched) reconcile(sl *slot, it *item) (res controller.Result, err error, panicked any, stack string) {
	defer func() {
		if p := recover(); p != nil {
			panicked = p
			stack = vstat.CleanStack(string(debug.Stack()))
		}
	}()
	// mastership election uses the global math/rand: pin it per step so a case replays
	rand.Seed(int64(s.Steps)) //nolint
	res, err = sl.rec.Reconcile(it.id)
	return
}

func (s *Sched) runAtomic(sl *slot, it *item) StepInfo {
	t := &task{sl: sl, it: it}
	sl.gate.task = t
	s.cur = &StepCtx{Ctl: sl.c.name, Part: sl.part, ID: s.idStr(it.id)}
	res, err, p, st := s.reconcile(sl, it)
	s.cur = nil
	sl.gate.task = nil
	t.res, t.err, t.panicked, t.stack = res, err, p, st
	s.finish(t)
	return StepInfo{Ctl: sl.c.name, Part: sl.part, ID: s.idStr(it.id), Done: true, Err: err}
}

func (s *Sched) startTask(sl *slot, it *item) StepInfo {
	s.seq++
	t := &task{sl: sl, it: it, seq: s.seq, yieldCh: make(chan struct{}), resume: make(chan struct{}), done: make(chan struct{})}
	sl.inflight = t
	sl.gate.task = t
	n := 0
	for _, c := range s.ctls {
		for _, x := range c.slots {
			if x.inflight != nil {
				n++
			}
		}
	}
	if n > s.MaxInflight["all"] {
		s.MaxInflight["all"] = n
	}
	s.cur = &StepCtx{Ctl: sl.c.name, Part: sl.part, ID: s.idStr(it.id)}
	go func() {
		defer close(t.done)
		t.res, t.err, t.panicked, t.stack = s.reconcile(sl, it)
	}()
	return s.waitTask(t)
}

func (s *Sched) advance(t *task) StepInfo {
	s.cur = &StepCtx{Ctl: t.sl.c.name, Part: t.sl.part, ID: s.idStr(t.it.id)}
	t.resume <- struct{}{}
	return s.waitTask(t)
}

func (s *Sched) waitTask(t *task) StepInfo {
	defer func() { s.cur = nil }()
	select {
	case <-t.yieldCh:
		return StepInfo{Ctl: t.sl.c.name, Part: t.sl.part, ID: s.idStr(t.it.id), Op: t.atOp}
	case <-t.done:
		t.sl.inflight = nil
		t.sl.gate.task = nil
		s.finish(t)
		return StepInfo{Ctl: t.sl.c.name, Part: t.sl.part, ID: s.idStr(t.it.id), Done: true, Err: t.err}
	}
}

func (s *Sched) finish(t *task) {
	sl, it := t.sl, t.it
	if t.panicked != nil {
		s.Panics = append(s.Panics, fmt.Sprintf("%s %s: %v\n%s", sl.c.name, s.idStr(it.id), t.panicked, t.stack))
		return
	}
	if t.poisoned {
		s.x.Logf("  step %d %s[%s] %s -> lost in crash", s.Steps, sl.c.name, sl.part, s.idStr(it.id))
		return
	}
	if t.err != nil {
		// errs counts failures with NOTHING changing between them (a failure that repeats on the same state is not
		// retried for ever by the harness); an attempt that failed after something had changed since the last
		// failure - typically a version conflict of a pre-empted step - starts the count again
		if now := s.Effects() + s.w.Topo.WriteCount(); it.errs > 0 && now != it.failedAt {
			it.errs = 0
		}
		it.errs++
		it.failedAt = s.Effects() + s.w.Topo.WriteCount()
		s.seq++
		it.seq = s.seq
		// the real controller re-submits the same request to the same partition after a back-off
		dup := false
		for _, p := range sl.pending {
			if p.id.Value == it.id.Value {
				dup = true
				p.errs, p.failedAt = it.errs, it.failedAt
			}
		}
		if !dup {
			sl.pending = append(sl.pending, it)
		}
		s.x.Logf("  step %d %s[%s] %s -> error (attempt %d): %v", s.Steps, sl.c.name, sl.part, s.idStr(it.id), it.errs, firstLine(t.err.Error()))
		return
	}
	if t.res.Requeue.Value != nil {
		s.enqueueSlot(sl, t.res.Requeue)
		s.x.Logf("  step %d %s[%s] %s -> requeue %s", s.Steps, sl.c.name, sl.part, s.idStr(it.id), s.idStr(t.res.Requeue))
		return
	}
	s.x.Logf("  step %d %s[%s] %s", s.Steps, sl.c.name, sl.part, s.idStr(it.id))
}

func firstLine(s string) string {
	if i := strings.IndexByte(s, '\n'); i >= 0 {
		s = s[:i]
	}
	if len(s) > 160 {
		s = s[:160]
	}
	return s
}

// stopWatchers stops every real watcher and waits until every event
// subscription it held is gone.
func (s *Sched) stopWatchers() error {
	for _, wr := range s.watchers {
		if wr.quit != nil {
			wr.w.Stop()
		}
	}
	deadline := time.Now().Add(20 * time.Second)
	for s.w.liveSubscriptions() > 0 {
		if time.Now().After(deadline) {
			return fmt.Errorf("%w: event subscriptions did not end", ErrInconclusive)
		}
		time.Sleep(200 * time.Microsecond)
	}
	for _, wr := range s.watchers {
		if wr.quit != nil {
			close(wr.quit)
			wr.quit = nil
		}
	}
	return nil
}

// restart performs the crash: every in-flight task is poisoned, all volatile
// state (queues, watchers, connections) is dropped, and a fresh set of
// reconcilers and watchers is started with replay.
func (s *Sched) restart() error {
	s.Crashes++
	s.x.Logf("  *** CRASH #%d (after %d effects) ***", s.Crashes, s.Effects())
	for _, c := range s.ctls {
		for _, p := range c.order {
			sl := c.slots[p]
			if t := sl.inflight; t != nil {
				t.poisoned = true
				for {
					done := false
					select {
					case t.resume <- struct{}{}:
						select {
						case <-t.yieldCh:
						case <-t.done:
							done = true
						}
					case <-t.done:
						done = true
					}
					if done {
						break
					}
				}
				sl.inflight = nil
				sl.gate.task = nil
			}
		}
	}
	if err := s.stopWatchers(); err != nil {
		return err
	}
	s.w.dropVolatile()
	for _, c := range s.ctls {
		c.slots = map[string]*slot{}
		c.order = nil
	}
	s.emu.Lock()
	s.crashPending = false
	s.emu.Unlock()
	s.w.rebuildWatchers()
	if err := s.startWatchers(); err != nil {
		return err
	}
	if s.ReverseReplay || s.DeferReplayed >= 0 || s.DeferInterrupted {
		if err := s.settle(); err != nil {
			return err
		}
		if s.DeferInterrupted && s.Crashes == 1 && s.interrupted.Ctl != "" {
			for _, c := range s.ctls {
				if c.name != s.interrupted.Ctl {
					continue
				}
				for _, sl := range c.slots {
					for _, it := range sl.pending {
						if s.idStr(it.id) == s.interrupted.ID && s.deferredSince == 0 {
							it.deferred = true
							s.deferredSince = max(1, s.Steps)
							s.HoldExternals = s.StragglerHold
							s.x.Logf("  (straggler after the crash: the interrupted %s %s)", c.name, s.interrupted.ID)
						}
					}
				}
			}
		}
		if s.DeferReplayed >= 0 && s.Crashes == 1 {
			if all := s.allPending(); s.DeferReplayed < len(all) {
				all[s.DeferReplayed].deferred = true
				s.deferredSince = max(1, s.Steps)
				s.HoldExternals = s.StragglerHold
				s.x.Logf("  (straggler after the crash: %s)", s.idStr(all[s.DeferReplayed].id))
			}
		}
		if s.ReverseReplay {
			s.reversePending()
		}
	}
	if s.OnRestart != nil {
		s.OnRestart()
	}
	return nil
}

const deferLimit = 150

// allPending returns every queued item in arrival order.
func (s *Sched) allPending() []*item {
	var all []*item
	for _, c := range s.ctls {
		for _, sl := range c.slots {
			all = append(all, sl.pending...)
		}
	}
	sort.Slice(all, func(i, j int) bool { return all[i].seq < all[j].seq })
	return all
}

// reversePending reverses the order in which the currently queued items will be taken up (FIFO mode).
func (s *Sched) reversePending() {
	all := s.allPending()
	for i, j := 0, len(all)-1; i < j; i, j = i+1, j-1 {
		all[i].seq, all[j].seq = all[j].seq, all[i].seq
	}
	for _, c := range s.ctls {
		for _, sl := range c.slots {
			sort.SliceStable(sl.pending, func(i, j int) bool { return sl.pending[i].seq < sl.pending[j].seq })
		}
	}
}

// stop ends all watchers (end of a case).
func (s *Sched) stop() {
	for _, c := range s.ctls {
		for _, sl := range c.slots {
			if t := sl.inflight; t != nil {
				t.poisoned = true
				for {
					done := false
					select {
					case t.resume <- struct{}{}:
						select {
						case <-t.yieldCh:
						case <-t.done:
							done = true
						}
					case <-t.done:
						done = true
					}
					if done {
						break
					}
				}
				sl.inflight = nil
			}
		}
	}
	_ = s.stopWatchers()
}

// ReconcileAll runs one extra reconcile of every transaction, proposal and
// configuration through every controller and returns the number of store
// writes, topology writes and device calls that caused (fixed-point oracle).
func (s *Sched) ReconcileAll() (int, error) {
	before := s.w.St.Writes() + s.w.Topo.WriteCount() + s.w.deviceCalls()
	ids, err := s.w.allIDs()
	if err != nil {
		return 0, err
	}
	saveMode := s.Mode
	s.Mode = Atomic
	defer func() { s.Mode = saveMode }()
	for _, c := range s.ctls {
		for _, id := range ids[c.name] {
			sl := c.slotFor(s, c.partition(id))
			it := &item{id: id}
			s.Steps++
			b0 := s.w.St.Writes() + s.w.Topo.WriteCount() + s.w.deviceCalls()
			res, err, p, st := s.reconcile(sl, it)
			if d := s.w.St.Writes() + s.w.Topo.WriteCount() + s.w.deviceCalls() - b0; d != 0 {
				s.x.Logf("  extra pass: %s %s performed %d writes/device calls (requeue %v, err %v)", c.name, s.idStr(id), d, res.Requeue.Value, err)
			}
			if p != nil {
				return 0, vstat.Violf("reconciler %s panicked on %v: %v\n%s", c.name, id.Value, p, st)
			}
			_ = res
			_ = err
		}
	}
	if err := s.settle(); err != nil {
		return 0, err
	}
	after := s.w.St.Writes() + s.w.Topo.WriteCount() + s.w.deviceCalls()
	return after - before, nil
}
