package sim

import (
	"context"
	"fmt"
	"runtime/debug"
	"sync"
	"time"

	adminapi "github.com/onosproject/onos-api/go/onos/config/admin"
	configapi "github.com/onosproject/onos-api/go/onos/config/v2"
	txstore "github.com/onosproject/onos-config/pkg/store/v2/transaction"
	gpb "github.com/openconfig/gnmi/proto/gnmi"
	"google.golang.org/grpc/metadata"

	"verif/harness/vstat"
)

type callKey struct{}

// Call is one northbound request in flight (Set or rollback), executed by the
// REAL handler in its own goroutine.
type Call struct {
	w      *World
	Kind   string
	Name   string
	ctx    context.Context
	cancel context.CancelFunc
	done   chan struct{}

	// RawWatch: no buffer between the store's Watch and this handler (see nbWatch)
	RawWatch bool
	Resp     *gpb.SetResponse
	RbResp   *adminapi.RollbackResponse
	Err      error
	Panic    any
	Stack    string

	mu        sync.Mutex
	TxID      configapi.TransactionID
	TxIndex   configapi.Index
	Created   bool
	Watched   bool
	Forwarded []configapi.TransactionEvent
	Aborted   string
	Hung      bool

	createdCh chan struct{}
	parkedCh  chan struct{}
	heldCh    chan struct{}
	heldCh2   chan struct{}
	release2  chan struct{}
	held2Once sync.Once
	// hold points (C08): when set before Start, the handler blocks there until Release.
	HoldAfterCreate bool
	HoldAfterWatch  bool
	release         chan struct{}
	parkOnce        sync.Once
	heldOnce        sync.Once
	createOnce      sync.Once
}

func (w *World) newCall(kind, name string, md metadata.MD) *Call {
	ctx, cancel := context.WithCancel(context.Background())
	c := &Call{w: w, Kind: kind, Name: name, done: make(chan struct{}), createdCh: make(chan struct{}), parkedCh: make(chan struct{}),
		heldCh: make(chan struct{}), release: make(chan struct{}), heldCh2: make(chan struct{}), release2: make(chan struct{})}
	ctx = context.WithValue(ctx, callKey{}, c)
	if md != nil {
		ctx = metadata.NewIncomingContext(ctx, md)
	}
	c.ctx, c.cancel = ctx, cancel
	w.mu.Lock()
	w.calls = append(w.calls, c)
	w.mu.Unlock()
	return c
}

func callOf(ctx context.Context) *Call {
	c, _ := ctx.Value(callKey{}).(*Call)
	return c
}

// nbAfterCreate runs in the handler's goroutine right after transactions.Create succeeded.
func (w *World) nbAfterCreate(ctx context.Context, t *configapi.Transaction) {
	c := callOf(ctx)
	if c == nil {
		return
	}
	c.mu.Lock()
	c.TxID, c.TxIndex, c.Created = t.ID, t.Index, true
	c.mu.Unlock()
	c.createOnce.Do(func() { close(c.createdCh) })
	if c.HoldAfterCreate {
		c.heldOnce.Do(func() { close(c.heldCh) })
		select {
		case <-c.release:
		case <-ctx.Done():
		}
	}
}

// nbWatch gives the handler the REAL store's Watch, through a proxy that always
// drains the store's side, so a handler that went away can never park the
// store's event pump (DESIGN.md §6 row 5); C08 and C15 observe the raw behaviour.
func (w *World) nbWatch(ctx context.Context, ch chan<- configapi.TransactionEvent, opts ...txstore.WatchOption) error {
	c := callOf(ctx)
	size := 4096
	if c != nil && c.RawWatch {
		// the store sees this consumer as it is: nothing is taken from the channel while the handler is held
		// back, the store's goroutines wait (or whatever they do instead) until it reads again
		size = 0
	}
	pch := make(chan configapi.TransactionEvent, size)
	pctx, pcancel := context.WithCancel(context.Background())
	if err := w.St.Tx.Watch(pctx, pch, opts...); err != nil {
		pcancel()
		return err
	}
	if c != nil {
		c.mu.Lock()
		c.Watched = true
		c.mu.Unlock()
		if c.HoldAfterWatch {
			// the store's listener is registered; hold the handler before it receives anything
			c.held2Once.Do(func() { close(c.heldCh2) })
			select {
			case <-c.release2:
			case <-ctx.Done():
			}
		}
	}
	go func() {
		defer func() {
			pcancel()
			go func() {
				for range pch {
				}
			}()
		}()
		for {
			select {
			case ev, ok := <-pch:
				if !ok {
					close(ch)
					return
				}
				select {
				case ch <- ev:
					if c != nil {
						c.mu.Lock()
						c.Forwarded = append(c.Forwarded, ev)
						c.mu.Unlock()
						c.parkOnce.Do(func() { close(c.parkedCh) })
					}
				case <-ctx.Done():
					close(ch)
					return
				}
			case <-ctx.Done():
				close(ch)
				return
			}
		}
	}()
	return nil
}

func (c *Call) run(fn func(ctx context.Context)) error {
	go func() {
		defer close(c.done)
		defer c.cancel()
		defer func() {
			if p := recover(); p != nil {
				c.Panic = p
				c.Stack = vstat.CleanStack(string(debug.Stack()))
			}
		}()
		fn(c.ctx)
	}()
	select {
	case <-c.done:
	case <-c.parkedCh:
	case <-c.heldCh:
	case <-time.After(30 * time.Second):
		return fmt.Errorf("%w: northbound call %s neither returned nor parked", ErrInconclusive, c.Name)
	}
	return nil
}

// Release lets a held handler continue and waits until it is parked again or done.
func (c *Call) Release() error {
	select {
	case <-c.release:
		return nil
	default:
		close(c.release)
	}
	select {
	case <-c.done:
	case <-c.parkedCh:
	case <-time.After(30 * time.Second):
		return fmt.Errorf("%w: northbound call %s neither returned nor parked after release", ErrInconclusive, c.Name)
	}
	return nil
}

// Release2 lets a handler held after Watch continue.
func (c *Call) Release2() {
	select {
	case <-c.release2:
	default:
		close(c.release2)
	}
	select {
	case <-c.done:
	case <-c.parkedCh:
	case <-time.After(30 * time.Second):
	}
}

// Done reports whether the handler has returned.
func (c *Call) Done() bool {
	select {
	case <-c.done:
		return true
	default:
		return false
	}
}

// Wait waits for the handler to return.
func (c *Call) Wait(d time.Duration) bool {
	select {
	case <-c.done:
		return true
	case <-time.After(d):
		return false
	}
}

func (c *Call) abort(why string) {
	c.mu.Lock()
	if c.Aborted == "" && !c.Done() {
		c.Aborted = why
	}
	c.mu.Unlock()
	c.cancel()
	select {
	case <-c.release:
	default:
		close(c.release)
	}
	select {
	case <-c.release2:
	default:
		close(c.release2)
	}
	c.Wait(10 * time.Second)
}

// Abort cancels the caller's context (the client went away).
func (c *Call) Abort(why string) { c.abort(why) }

// StartSet issues a gNMI Set through the real handler. It returns once the
// handler has returned, or is parked waiting for transaction events, or is
// held at a hold point.
func (w *World) StartSet(name string, req *gpb.SetRequest, md metadata.MD, prep func(*Call)) (*Call, error) {
	c := w.newCall("set", name, md)
	if prep != nil {
		prep(c)
	}
	err := c.run(func(ctx context.Context) { c.Resp, c.Err = w.Gnmi.Set(ctx, req) })
	return c, err
}

// StartRollback issues an admin RollbackTransaction through the real handler.
func (w *World) StartRollback(name string, index configapi.Index, prep func(*Call)) (*Call, error) {
	c := w.newCall("rollback", name, nil)
	if prep != nil {
		prep(c)
	}
	err := c.run(func(ctx context.Context) {
		c.RbResp, c.Err = w.Admin.RollbackTransaction(ctx, &adminapi.RollbackRequest{Index: index})
	})
	return c, err
}

// TxState reads the transaction created by the call (nil if none).
func (c *Call) Tx() *configapi.Transaction {
	c.mu.Lock()
	id, created := c.TxID, c.Created
	c.mu.Unlock()
	if !created {
		return nil
	}
	t, err := c.w.St.Tx.Get(context.Background(), id)
	if err != nil {
		return nil
	}
	return t
}

// Awaited reports whether the transaction has reached the state the caller
// asked to wait for (or any later state), or has failed.
func Awaited(t *configapi.Transaction) bool {
	if t == nil {
		return false
	}
	if t.Status.State == configapi.TransactionStatus_FAILED {
		return true
	}
	if t.TransactionStrategy.Synchronicity == configapi.TransactionStrategy_SYNCHRONOUS {
		return t.Status.State == configapi.TransactionStatus_APPLIED
	}
	return t.Status.State == configapi.TransactionStatus_COMMITTED || t.Status.State == configapi.TransactionStatus_APPLIED
}

// AwaitCalls waits (bounded) for every handler whose transaction has reached
// the awaited stage to return; a handler that does not is marked Hung.
func (w *World) AwaitCalls(bound time.Duration) {
	w.mu.Lock()
	calls := append([]*Call{}, w.calls...)
	w.mu.Unlock()
	for _, c := range calls {
		if c.Done() {
			continue
		}
		t := c.Tx()
		if !Awaited(t) {
			continue
		}
		if !c.Wait(bound) {
			c.mu.Lock()
			c.Hung = true
			c.mu.Unlock()
		}
	}
}

// Get issues a gNMI Get through the real handler (under recover).
func (w *World) Get(req *gpb.GetRequest, md metadata.MD) (resp *gpb.GetResponse, err error, panicked any, stack string) {
	ctx := context.Background()
	if md != nil {
		ctx = metadata.NewIncomingContext(ctx, md)
	}
	defer func() {
		if p := recover(); p != nil {
			panicked = p
			stack = vstat.CleanStack(string(debug.Stack()))
		}
	}()
	resp, err = w.Gnmi.Get(ctx, req)
	return
}
