package sim

import (
	"testing"

	configapi "github.com/onosproject/onos-api/go/onos/config/v2"
	topoapi "github.com/onosproject/onos-api/go/onos/topo"
	"pgregory.net/rapid"

	"verif/harness/fakes"
	"verif/harness/model"
	"verif/harness/vstat"
)

func genC04(rt *rapid.T) Scenario {
	sc := genScenario(rt, Profile{MinTargets: 1, MaxTargets: 2, MinSets: 2, MaxSets: 6, MultiTarget: true, Poison: true, Refuse: true, Offline: true,
		Faults: true, Transient: true, FaultInSync: true, HardFaults: true, ParkWrites: true, Rollbacks: true, Serializable: true, Preempt: 2, Drawn: false, Pace: true})
	sc.Drawn = rapid.IntRange(0, 1).Draw(rt, "drawn") == 1
	if !sc.Drawn {
		sc.Preempt = false
	} else {
		paceActions(rt, &sc)
	}
	return sc
}

// checkTermDiscipline (C04's "pushed again before anything new", C10's write
// rules) over the requests the devices ACCEPTED or refused on content: the
// election id is the configuration's term at that moment, the request
// travelled over the master's connection, and in every term in which applied
// values exist the first requests are re-synchronisation pushes covering them
// before any proposal's change is sent.
func checkTermDiscipline(r *Run) error {
	type key struct {
		t    string
		term uint64
	}
	synced := map[key]map[string]string{}
	for _, s := range r.Sent {
		if !s.Req.Accepted && fakes.RefusalCode(s.Req.Req) == 0 {
			continue // arbitration or injected transport answers: nothing was delivered
		}
		if !s.Req.HasArb {
			return vstat.Violf("a write to %s carried no master arbitration: %s", s.Target, fakes.DescribeReq(s.Req))
		}
		if s.Req.ElectionID != s.Term {
			return vstat.Violf("a write to %s carried election id %d while the mastership term was %d: %s [by %s %s]", s.Target, s.Req.ElectionID, s.Term, fakes.DescribeReq(s.Req), s.Ctl, s.ID)
		}
		if s.MasterLabel != "" && s.Req.Conn != s.MasterLabel {
			return vstat.Violf("a write to %s travelled over connection %s while the master was %s: %s", s.Target, s.Req.Conn, s.MasterLabel, fakes.DescribeReq(s.Req))
		}
		k := key{s.Target, s.Req.ElectionID}
		if synced[k] == nil {
			synced[k] = map[string]string{}
		}
		switch s.Ctl {
		case "configuration":
			for _, u := range s.Req.Req.Update {
				synced[k][fakes.ElemsKey(u.Path.Elem)] = model.FromGnmiValue(u.Val).Key()
			}
		case "proposal":
			// everything that had been applied in earlier terms must have been re-sent in this term first
			if s.AppliedTerm < s.Term {
				return vstat.Violf("the change of transaction %d was sent to %s in term %d before the configuration was re-synchronised in that term (applied term %d): %s", s.TxIdx, s.Target, s.Term, s.AppliedTerm, fakes.DescribeReq(s.Req))
			}
		}
	}
	return nil
}

// checkResyncAfterRestart: after a device restarted empty and was reconnected,
// at the next quiescent moment (synchronized) it holds the reference's applied
// configuration again — checked by CheckDevices at every idle point.

func runC04(sc Scenario, x *vstat.Ctx) error {
	idle := func(r *Run) error {
		if err := r.CheckStoredQuiet(); err != nil {
			return nil // the stored configuration itself is other properties' subject
		}
		return r.CheckDevices("at an idle moment")
	}
	r, err := Execute(x, sc, nil, func(r *Run) { r.Idle = idle })
	defer r.Close()
	x.Sample(describeScenario(sc))
	if err != nil {
		return err
	}
	faultBetween, applied := false, false
	for i, a := range sc.Actions {
		switch a.Kind {
		case "set":
			if r.RefTxs[i] != nil && r.RefTxs[i].Outcome == "committed" {
				applied = true
			}
		case "linkdown", "linkup", "restart":
			if applied {
				faultBetween = true
			}
			x.Class("fault:" + a.Kind)
		case "rollback":
			x.Class("rollback")
		}
	}
	if faultBetween {
		x.NonTrivial("a fault after at least one applied transaction")
	}
	if err := r.CheckStored("at quiescence"); err != nil {
		return err
	}
	if err := r.CheckDevices("at quiescence"); err != nil {
		return err
	}
	for _, t := range sc.TargetIDs() {
		c := r.W.Config(t)
		if c != nil && r.W.Connected(t) && c.Status.State != configapi.ConfigurationStatus_SYNCHRONIZED {
			return vstat.Violf("target %s is connected and the controllers are idle, yet its configuration is %v, not SYNCHRONIZED; state %s", t, c.Status.State, r.W.DescribeState())
		}
		_ = topoapi.ID(t)
	}
	return checkTermDiscipline(r)
}

// TestC04_DeviceConverges: whatever faults happen, a connected synchronized
// device holds the stored configuration restricted to the transactions whose
// apply did not fail; re-synchronisation precedes new changes.
func TestC04_DeviceConverges(t *testing.T) {
	vstat.Run(t, "C04", genC04, runC04)
}
