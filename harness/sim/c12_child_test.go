package sim

// C12, the part no recover() can contain: a plain Subscribe that names a
// connected target is handed to the REAL southbound client. When the target
// refuses the stream (or the subscriber is already gone) the client's own
// goroutine dereferences a stream that was never opened and the whole process
// dies. The handler is therefore run in a child process and the parent judges
// how the child ended.

import (
	"bytes"
	"context"
	"encoding/json"
	"fmt"
	"os"
	"os/exec"
	"strings"
	"testing"
	"time"

	gpb "github.com/openconfig/gnmi/proto/gnmi"
	"pgregory.net/rapid"

	"verif/harness/vstat"
)

// C12SubCase is one well-formed subscription session towards a connected target.
type C12SubCase struct {
	Target string `json:"target"` // t1 | t4 (both connected; the fake device does not serve Subscribe: it answers Unimplemented)
	Mode   int32  `json:"mode"`   // SubscriptionList mode
	Poll   bool   `json:"poll"`   // a Poll follows the subscription
	Gone   bool   `json:"gone"`   // the subscriber's context is already cancelled when its message is processed
	InPath bool   `json:"inPath"` // the target is named by the entry's path instead of the prefix
	Down   bool   `json:"down"`   // the device has gone away (its server is stopped) while its connection is still registered
	Polls  int    `json:"polls"`  // further Poll messages after the first one
}

// c12SubAll writes the session domain out in full: 2 targets x 3 modes x poll x subscriber-gone x target-in-path x
// device-down = 96 sessions. Every quick run serves all of them (spread over the workers), because the shapes that
// matter are single points of this product (e.g. "subscriber gone AND a Poll follows").
func c12SubAll() []C12SubCase {
	var out []C12SubCase
	for _, tg := range []string{"t1", "t4"} {
		for mode := int32(0); mode < 3; mode++ {
			for bits := 0; bits < 16; bits++ {
				out = append(out, C12SubCase{Target: tg, Mode: mode, Poll: bits&1 != 0, Gone: bits&2 != 0, InPath: bits&4 != 0, Down: bits&8 != 0})
			}
		}
	}
	return out
}

func genC12Sub(rt *rapid.T) C12SubCase {
	return C12SubCase{
		Target: []string{"t1", "t4"}[c12Pick(rt, 2, "target", 1)],
		Mode:   int32(c12Pick(rt, 3, "mode", 2)),
		Poll:   c12Pick(rt, 2, "poll", 3) == 0,
		Gone:   c12Pick(rt, 2, "gone", 4) == 0,
		InPath: c12Pick(rt, 2, "inpath", 5) == 0,
		Down:   c12Pick(rt, 2, "down", 6) == 0,
		Polls:  c12Pick(rt, 3, "polls", 7),
	}
}

func (c C12SubCase) msgs() []*gpb.SubscribeRequest {
	l := &gpb.SubscriptionList{Mode: gpb.SubscriptionList_Mode(c.Mode)}
	if c.InPath {
		l.Subscription = []*gpb.Subscription{{Path: c12P(c.Target, c12E("a"), c12E("b"))}}
	} else {
		l.Prefix = &gpb.Path{Target: c.Target}
		l.Subscription = []*gpb.Subscription{{Path: c12P("", c12E("a"), c12E("b"))}}
	}
	out := []*gpb.SubscribeRequest{{Request: &gpb.SubscribeRequest_Subscribe{Subscribe: l}}}
	if c.Poll {
		for i := 0; i <= c.Polls; i++ {
			out = append(out, &gpb.SubscribeRequest{Request: &gpb.SubscribeRequest_Poll{Poll: &gpb.Poll{}}})
		}
	}
	return out
}

const c12ChildOK = "C12CHILD-SURVIVED"

// TestC12Child is the child process: it serves the session with the real
// handler and the real southbound client WITHOUT recover(), as onos-config does.
func TestC12Child(t *testing.T) {
	cj := os.Getenv("C12_CHILD")
	if cj == "" {
		t.Skip("helper process of TestC12_SubscribeRefusedByTarget")
	}
	var c C12SubCase
	if err := json.Unmarshal([]byte(cj), &c); err != nil {
		t.Fatal(err)
	}
	w, err := NewWorld(&vstat.Ctx{}, Options{Targets: c12Targets})
	if err != nil {
		t.Fatal(err)
	}
	if err := w.S.Run(); err != nil {
		t.Fatal(err)
	}
	if c.Down {
		w.Devices[c.Target].Stop()
	}
	// the session is opened three times, as three subscribers would: only a connection's first southbound stream is at risk
	for i := 0; i < 3; i++ {
		var wire [][]byte
		for _, m := range c.msgs() {
			b, err := c12Codec.Marshal(m)
			if err != nil {
				t.Fatal(err)
			}
			wire = append(wire, b)
		}
		var msgs []*gpb.SubscribeRequest
		for _, b := range wire {
			m := &gpb.SubscribeRequest{}
			if err := c12Codec.Unmarshal(b, m); err != nil {
				t.Fatal(err)
			}
			msgs = append(msgs, m)
		}
		ctx, cancel := context.WithCancel(context.Background())
		if c.Gone {
			cancel()
		}
		st := &c12SubStream{ctx: ctx, msgs: msgs, end: "eof"}
		err := w.Gnmi.Subscribe(st)
		fmt.Printf("session %d answered: %v\n", i+1, err)
		time.Sleep(100 * time.Millisecond)
		cancel()
	}
	time.Sleep(200 * time.Millisecond)
	fmt.Println(c12ChildOK)
}

func runC12Sub(c C12SubCase, x *vstat.Ctx) error {
	x.Class(fmt.Sprintf("child:target-in-path=%v,poll=%v,subscriber-gone=%v,device-down=%v", c.InPath, c.Poll, c.Gone, c.Down))
	x.NonTrivial("a well-formed Subscribe reached the real southbound client of a connected target")
	cj, _ := json.Marshal(c)
	dir, err := os.MkdirTemp("", "c12child")
	if err != nil {
		return err
	}
	defer os.RemoveAll(dir)
	ctx, cancel := context.WithTimeout(context.Background(), 120*time.Second)
	defer cancel()
	exe, err := os.Executable()
	if err != nil {
		return err
	}
	cmd := exec.CommandContext(ctx, exe, "-test.run", "^TestC12Child$", "-test.count=1", "-test.timeout=100s", "-test.v")
	cmd.Dir = dir
	for _, kv := range os.Environ() {
		if strings.HasPrefix(kv, "VERIF_STATS=") || strings.HasPrefix(kv, "VERIF_REPLAY=") || strings.HasPrefix(kv, "C12_CHILD=") || strings.HasPrefix(kv, "GOTRACEBACK=") {
			continue
		}
		cmd.Env = append(cmd.Env, kv)
	}
	cmd.Env = append(cmd.Env, "C12_CHILD="+string(cj), "GOTRACEBACK=single")
	out, runErr := cmd.CombinedOutput()
	x.Logf("child process for %s ended with %v", cj, runErr)
	if runErr == nil && bytes.Contains(out, []byte(c12ChildOK)) {
		x.Class("child:survived")
		return nil
	}
	text := string(out)
	i := strings.Index(text, "\npanic: ")
	if j := strings.Index(text, "\nfatal error: "); i < 0 || (j >= 0 && j < i) {
		i = j
	}
	if i < 0 {
		return fmt.Errorf("%w: the child process failed without a panic: %v\n%s", ErrInconclusive, runErr, trunc(text, 3000))
	}
	dump := text[i+1:]
	val := dump
	if k := strings.Index(val, "\n"); k >= 0 {
		val = val[:k]
	}
	x.Class("child:process-died")
	return c12Judge(x, &c12Panic{Where: "the onos-config process, serving a well-formed Subscribe towards a connected target,", Val: val, Stack: vstat.CleanStack(trunc(dump, 5000))})
}

// TestC12_SubscribeRefusedByTarget: a well-formed Subscribe towards a connected
// target whose device refuses the stream (or whose subscriber has already left)
// must be answered; the process must survive it.
func TestC12_SubscribeRefusedByTarget(t *testing.T) {
	vstat.RunEnum(t, "C12", c12SubAll(), genC12Sub, runC12Sub)
}
