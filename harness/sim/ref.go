package sim

import (
	"fmt"
	"sort"

	"google.golang.org/grpc/codes"

	"verif/harness/fakes"
	"verif/harness/model"
)

// RefTx is the reference model's view of one log entry.
type RefTx struct {
	Index      int
	IsRollback bool
	Rollback   int // the index a rollback entry asks to roll back
	Ops        []model.Op
	Targets    []string
	// Outcome: "committed" (merged into every target), "invalid" (model
	// rejected it), "forbidden"/"notfound" (rollback refused).
	Outcome string
	// Refused lists the targets whose device refuses the change, with the code.
	Refused map[string]codes.Code
	before  map[string]model.Config
	after   map[string]model.Config
	devOps  map[string][]model.Op // what the transaction sends to each target's device when it is applied
	prevIdx map[string]int
}

// Ref folds the log in index order with gNMI semantics (DESIGN.md §4.4).
type Ref struct {
	Schema   []model.LeafDef
	NoPlugin map[string]bool
	Stored   map[string]model.Config // what Get must return
	Device   map[string]model.Config // what a connected, synchronized device must hold
	CurIndex map[string]int          // index of the change each target's configuration reflects
	Txs      []*RefTx
	// Past records, per target and path, every value the path has held after an
	// accepted transaction ("" = absent); used to recognise stale write-backs.
	Past map[string]map[string]map[string]bool
}

func (r *Ref) notePast(t string) {
	if r.Past == nil {
		r.Past = map[string]map[string]map[string]bool{}
	}
	if r.Past[t] == nil {
		r.Past[t] = map[string]map[string]bool{}
	}
	for k, l := range r.Stored[t] {
		if r.Past[t][k] == nil {
			r.Past[t][k] = map[string]bool{"": true}
		}
		r.Past[t][k][l.Value.Key()] = true
	}
	for k := range r.Past[t] {
		if _, ok := r.Stored[t][k]; !ok {
			r.Past[t][k][""] = true
		}
	}
}

// WasEver reports whether path k of target t held value v ("" = was absent)
// after some earlier accepted transaction.
func (r *Ref) WasEver(t, k, v string) bool {
	if v == "" {
		if r.Past[t][k] == nil {
			return true
		}
	}
	return r.Past[t][k][v]
}

// NewRef creates an empty reference system.
func NewRef(schema []model.LeafDef, targets []string) *Ref {
	r := &Ref{Schema: schema, NoPlugin: map[string]bool{}, Stored: map[string]model.Config{}, Device: map[string]model.Config{}, CurIndex: map[string]int{}}
	for _, t := range targets {
		r.Stored[t] = model.Config{}
		r.Device[t] = model.Config{}
	}
	return r
}

func opsFor(ops []model.Op, target string) []model.Op {
	var out []model.Op
	for _, o := range ops {
		if o.Target == target {
			out = append(out, o)
		}
	}
	return out
}

func targetsOf(ops []model.Op) []string {
	m := map[string]bool{}
	for _, o := range ops {
		m[o.Target] = true
	}
	out := make([]string, 0, len(m))
	for t := range m {
		out = append(out, t)
	}
	sort.Strings(out)
	return out
}

// refusalOf returns the code the device refuses a change with (OK if it accepts).
func refusalOf(ops []model.Op) codes.Code {
	for _, o := range ops {
		if o.Kind != "delete" && o.Val != nil && o.Val.T == "s" {
			var n int
			if _, err := fmt.Sscanf(o.Val.S, fakes.RefusePrefix+"%d", &n); err == nil && n > 0 && n <= 16 {
				return codes.Code(n)
			}
		}
	}
	return codes.OK
}

// Change appends a change transaction (ops resolved to targets and absolute
// paths) that the northbound handler ACCEPTED INTO THE LOG, and returns the
// entry with its predicted outcome.
func (r *Ref) Change(ops []model.Op) *RefTx {
	tx := &RefTx{Index: len(r.Txs) + 1, Ops: ops, Targets: targetsOf(ops), Refused: map[string]codes.Code{}, before: map[string]model.Config{}, after: map[string]model.Config{}, prevIdx: map[string]int{}}
	r.Txs = append(r.Txs, tx)
	cands := map[string]model.Config{}
	ok := true
	for _, t := range tx.Targets {
		c := r.Stored[t].Clone()
		c.Apply(opsFor(ops, t), r.Schema)
		cands[t] = c
		if valid, _ := model.PluginAccepts(c.Flat()); !valid {
			ok = false
		}
	}
	if !ok {
		tx.Outcome = "invalid"
		return tx
	}
	tx.Outcome = "committed"
	for _, t := range tx.Targets {
		tx.before[t] = r.Stored[t]
		tx.after[t] = cands[t]
		tx.prevIdx[t] = r.CurIndex[t]
		r.notePast(t)
		r.Stored[t] = cands[t]
		r.CurIndex[t] = tx.Index
		if tx.devOps == nil {
			tx.devOps = map[string][]model.Op{}
		}
		tx.devOps[t] = opsFor(ops, t)
		if c := refusalOf(opsFor(ops, t)); c != codes.OK {
			tx.Refused[t] = c
		} else {
			d := r.Device[t].Clone()
			d.Apply(opsFor(ops, t), r.Schema)
			r.Device[t] = d
		}
	}
	return tx
}

// RollbackOf appends a rollback of log index idx and predicts its outcome.
func (r *Ref) RollbackOf(idx int) *RefTx {
	tx := &RefTx{Index: len(r.Txs) + 1, IsRollback: true, Rollback: idx, Refused: map[string]codes.Code{}}
	r.Txs = append(r.Txs, tx)
	if idx < 1 || idx >= tx.Index {
		tx.Outcome = "notfound"
		return tx
	}
	tgt := r.Txs[idx-1]
	if tgt.IsRollback {
		tx.Outcome = "forbidden"
		return tx
	}
	tx.Targets = tgt.Targets
	for _, t := range tgt.Targets {
		if r.CurIndex[t] != idx || tgt.Outcome != "committed" {
			tx.Outcome = "forbidden"
			return tx
		}
	}
	tx.Outcome = "committed"
	for _, t := range tgt.Targets {
		// A rollback puts every leaf the change wrote or removed back to what it
		// was immediately before the change, in the stored configuration and (by
		// sending those values) on the device; like any other change this one can
		// be refused by the device. Leaves the change did not touch stay as they are.
		after := tgt.after[t]
		before := tgt.before[t]
		var rb []model.Op
		touched := map[string]model.Path{}
		for _, o := range opsFor(tgt.Ops, t) {
			if o.Kind != "delete" {
				touched[o.Path.String()] = o.Path
			}
		}
		for k, l := range before {
			if _, is := after[k]; !is {
				touched[k] = l.Path
			}
		}
		keys := make([]string, 0, len(touched))
		for k := range touched {
			keys = append(keys, k)
		}
		sort.Strings(keys)
		for _, k := range keys {
			if l, was := before[k]; was {
				v := l.Value
				rb = append(rb, model.Op{Kind: "update", Target: t, Path: l.Path, Val: &v})
			} else {
				rb = append(rb, model.Op{Kind: "delete", Target: t, Path: touched[k]})
			}
		}
		if tx.devOps == nil {
			tx.devOps = map[string][]model.Op{}
		}
		tx.devOps[t] = rb
		if c := refusalOf(rb); c != codes.OK {
			tx.Refused[t] = c
		} else {
			d := r.Device[t].Clone()
			d.Apply(rb, nil)
			r.Device[t] = d
		}
		r.notePast(t)
		st := r.Stored[t].Clone()
		st.Apply(rb, nil)
		r.Stored[t] = st
		r.CurIndex[t] = tgt.prevIdx[t]
	}
	return tx
}

// ExpectedDevice folds, in log order, what every merged transaction sends to
// target t, leaving out the transactions whose apply the SYSTEM recorded as
// failed (failed[index]): "the stored configuration restricted to the
// transactions whose apply did not fail".
func (r *Ref) ExpectedDevice(t string, failed map[int]bool) model.Config {
	d := model.Config{}
	for _, tx := range r.Txs {
		if tx.Outcome != "committed" || failed[tx.Index] {
			continue
		}
		if ops, ok := tx.devOps[t]; ok {
			if tx.IsRollback {
				d.Apply(ops, nil)
			} else {
				d.Apply(ops, r.Schema)
			}
		}
	}
	return d
}
