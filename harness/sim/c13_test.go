package sim

import (
	"context"
	"fmt"

	"github.com/gogo/protobuf/proto"
	configapi "github.com/onosproject/onos-api/go/onos/config/v2"
	topoapi "github.com/onosproject/onos-api/go/onos/topo"
	"regexp"
	"sort"
	"strings"
	"testing"

	"pgregory.net/rapid"

	"verif/harness/model"
	"verif/harness/vstat"
)

// C13Case: a few valid Sets to populate, then one request that may carry
// invalid ingredients, against a given GNMI_SET_SIZE_LIMIT.
type C13Case struct {
	Limit    int       `json:"limit"`
	Populate []SetSpec `json:"populate"`
	Req      SetSpec   `json:"req"`
	Muts     []string  `json:"muts"`
}

var c13Targets = []string{"t1", "t2"} // t3 exists but has no model plugin; "nosuch" is not in the topology

func genC13(rt *rapid.T) C13Case {
	c := C13Case{Limit: []int{0, 0, 1, 2, 5}[rapid.IntRange(0, 4).Draw(rt, "limit")]}
	o := &GenOpts{Targets: c13Targets, MultiTarget: true, AvoidAncestorDescendant: true, AvoidSamePathDeleteWrite: true, MaxOps: 3}
	hist := map[string][]model.Path{}
	if c.Limit == 0 {
		np := rapid.IntRange(0, 2).Draw(rt, "npop")
		po := &GenOpts{Targets: c13Targets, AvoidAncestorDescendant: true, AvoidSamePathDeleteWrite: true, NoDelete: true, MaxOps: 3}
		for i := 0; i < np; i++ {
			s := GenSet(rt, po, hist)
			for _, op := range s.Resolved() {
				hist[op.Target] = append(hist[op.Target], op.Path)
			}
			c.Populate = append(c.Populate, s)
		}
	}
	if c.Limit > 0 && rapid.IntRange(0, 2).Draw(rt, "single") > 0 {
		o.MultiTarget = false
	}
	c.Req = GenSet(rt, o, hist)
	nm := rapid.IntRange(0, 2).Draw(rt, "nmut")
	for i := 0; i < nm; i++ {
		pool := []string{"op-target-unknown", "op-target-empty", "op-target-noplugin", "prefix-target-unknown", "path-target-differs", "update-interior", "update-nonmodel",
			"key-mismatch", "key-name-wrong", "keys-dropped", "key-badchars", "delete-key-badchars", "override-unknown-target", "override-known-target", "target-removed", "ext-malformed", "no-ops", "more-ops", "second-target", "delete-nonmodel", "delete-textual-stub", "json-root", "json-at-path", "json-root-many"}
		// with a size limit a JSON-valued update counts with the values it expands to (the refusal's own text:
		// "number of updates and deletes in a gNMI Set must not exceed ...")
		m := pool[rapid.IntRange(0, len(pool)-1).Draw(rt, "mut")]
		c.Muts = append(c.Muts, m)
		applyC13Mutation(rt, &c.Req, m)
	}
	// a request that deletes an ancestor and writes a descendant is finding
	// F-ancestor-delete-order (C03, nondeterministic): keep it out of C13's domain
	res := c.Req.Resolved()
	var keep []model.Op
	for i, o := range c.Req.Ops {
		drop := false
		if o.Kind != "delete" {
			for j, d := range res {
				if i != j && d.Kind == "delete" && d.Target == res[i].Target && model.Covers(EffectiveDelete(d.Path), res[i].Path) {
					drop = true
				}
			}
		}
		if !drop {
			keep = append(keep, o)
		}
	}
	if len(keep) > 0 || len(c.Req.Ops) == 0 {
		c.Req.Ops = keep
	}
	return c
}

func applyC13Mutation(rt *rapid.T, s *SetSpec, m string) {
	pick := func() int {
		if len(s.Ops) == 0 {
			return -1
		}
		return rapid.IntRange(0, len(s.Ops)-1).Draw(rt, "mutop")
	}
	v := model.Str("v1")
	switch m {
	case "op-target-unknown":
		if i := pick(); i >= 0 {
			s.Ops[i].Target = "nosuch"
		}
	case "op-target-empty":
		if i := pick(); i >= 0 {
			s.Ops[i].Target = ""
		}
	case "op-target-noplugin":
		if i := pick(); i >= 0 {
			s.Ops[i].Target = "t3"
		}
	case "prefix-target-unknown":
		s.PrefixTarget = "nosuch"
	case "path-target-differs":
		// the prefix names a target, a path names another one (or nonsense): the prefix wins
		if s.PrefixTarget == "" {
			s.PrefixTarget = "t1"
		}
		if i := pick(); i >= 0 {
			s.Ops[i].Target = []string{"t2", "nosuch", "t1"}[rapid.IntRange(0, 2).Draw(rt, "othert")]
		}
	case "update-interior":
		s.Ops = append(s.Ops, model.Op{Kind: "update", Target: firstTarget(s), Path: relTo(s, model.Parse("/a/c")), Val: &v})
	case "update-nonmodel":
		s.Ops = append(s.Ops, model.Op{Kind: "update", Target: firstTarget(s), Path: relTo(s, model.Parse("/a/zz")), Val: &v})
	case "key-mismatch":
		// a key leaf written with a value that contradicts the key in its path: single-key list, the second key of
		// a two-key list, the key of a list nested in a list (the outer key is right), a module-prefixed list
		switch rapid.IntRange(0, 4).Draw(rt, "keymismatch") {
		case 0:
			kv := model.Str("other")
			s.Ops = append(s.Ops, model.Op{Kind: "update", Target: firstTarget(s), Path: relTo(s, model.Parse("/l1[id=1]/id")), Val: &kv})
		case 1:
			kv := model.Bool(false)
			s.Ops = append(s.Ops, model.Op{Kind: "update", Target: firstTarget(s), Path: relTo(s, model.Parse("/l2[k1=1][k2=true]/k2")), Val: &kv})
		case 2:
			kv := model.Uint(2)
			s.Ops = append(s.Ops, model.Op{Kind: "update", Target: firstTarget(s), Path: relTo(s, model.Parse("/l2[k1=1][k2=true]/k1")), Val: &kv})
		case 3:
			kv := model.Str("xy")
			s.Ops = append(s.Ops, model.Op{Kind: "update", Target: firstTarget(s), Path: relTo(s, model.Parse("/l1[id=1]/l3[n=x]/n")), Val: &kv})
		case 4:
			kv := model.Str("1") // equals the OUTER key, contradicts its own
			s.Ops = append(s.Ops, model.Op{Kind: "update", Target: firstTarget(s), Path: relTo(s, model.Parse("/l1[id=1]/l3[n=x]/n")), Val: &kv})
		}
	case "key-name-wrong":
		// a look-alike of a valid path: right list, right leaf, wrong key NAME (written validly just before, so
		// that anything that remembers the valid path is primed)
		ok := model.Path{{Name: "l1", Keys: map[string]string{"id": "1"}}, {Name: "v"}}
		bad := model.Path{{Name: "l1", Keys: map[string]string{"idx": "1"}}, {Name: "v"}}
		s.Ops = append(s.Ops, model.Op{Kind: "update", Target: firstTarget(s), Path: relTo(s, ok), Val: &v})
		s.Ops = append(s.Ops, model.Op{Kind: "update", Target: firstTarget(s), Path: relTo(s, bad), Val: &v})
	case "keys-dropped":
		ok := model.Path{{Name: "l1", Keys: map[string]string{"id": "1"}}, {Name: "v"}}
		bad := model.Path{{Name: "l1"}, {Name: "v"}}
		s.Ops = append(s.Ops, model.Op{Kind: "update", Target: firstTarget(s), Path: relTo(s, ok), Val: &v})
		s.Ops = append(s.Ops, model.Op{Kind: "update", Target: firstTarget(s), Path: relTo(s, bad), Val: &v})
	case "key-badchars":
		bad := []string{"a b", "a,b", "a+b", "a(b"}[rapid.IntRange(0, 3).Draw(rt, "badkey")]
		p := model.Path{{Name: "l1", Keys: map[string]string{"id": bad}}, {Name: "v"}}
		s.Ops = append(s.Ops, model.Op{Kind: "update", Target: firstTarget(s), Path: relTo(s, p), Val: &v})
	case "delete-key-badchars":
		bad := []string{"a b", "a,b", "a+b", "a(b"}[rapid.IntRange(0, 3).Draw(rt, "badkey")]
		p := model.Path{{Name: "l1", Keys: map[string]string{"id": bad}}}
		s.Ops = append(s.Ops, model.Op{Kind: "delete", Target: firstTarget(s), Path: relTo(s, p)})
	case "override-unknown-target":
		// naming type and version for a target does not make the target exist
		if i := pick(); i >= 0 && s.PrefixTarget == "" {
			s.Ops[i].Target = "nosuch"
			s.Ext = append(s.Ext, OverrideExt("nosuch", "m1", "1.0.0"))
		}
	case "target-removed":
		// t2 is served once and then removed from the topology (runC13): the request must name it
		if s.PrefixTarget == "" {
			s.Ops = append(s.Ops, model.Op{Kind: "update", Target: "t2", Path: relTo(s, model.Parse("/a/b")), Val: &v})
		} else {
			s.PrefixTarget = "t2"
		}
	case "override-known-target":
		s.Ext = append(s.Ext, OverrideExt("t1", "m1", "1.0.0"))
	case "ext-malformed":
		id := []uint32{111, 112}[rapid.IntRange(0, 1).Draw(rt, "extid")]
		s.Ext = append(s.Ext, ExtSpec{ID: id, Msg: []byte{0xff, 0xff, 0xff}})
		switch rapid.IntRange(0, 3).Draw(rt, "extafter") {
		case 1:
			// a well-formed extension of the OTHER kind follows the malformed one
			if id == 111 {
				s.Ext = append(s.Ext, OverrideExt("t1", "m1", "1.0.0"))
			} else {
				b, _ := proto.Marshal(&configapi.TransactionStrategy{Synchronicity: configapi.TransactionStrategy_ASYNCHRONOUS})
				s.Ext = append(s.Ext, ExtSpec{ID: uint32(configapi.TransactionStrategyExtensionID), Msg: b})
			}
		case 2:
			// ... or an extension nobody knows
			s.Ext = append(s.Ext, ExtSpec{ID: 4711, Msg: []byte{1}})
		}
	case "no-ops":
		s.Ops = nil
	case "more-ops":
		n := rapid.IntRange(1, 5).Draw(rt, "extra")
		for i := 0; i < n; i++ {
			p := model.Path{{Name: "l1", Keys: map[string]string{"id": model.KeyPools["id"][i%5]}}, {Name: "v"}}
			s.Ops = append(s.Ops, model.Op{Kind: "update", Target: firstTarget(s), Path: relTo(s, p), Val: &v})
		}
	case "second-target":
		if s.PrefixTarget == "" {
			s.Ops = append(s.Ops, model.Op{Kind: "update", Target: "t2", Path: relTo(s, model.Parse("/mtu")), Val: uptr(9)})
			s.Ops = append(s.Ops, model.Op{Kind: "update", Target: "t1", Path: relTo(s, model.Parse("/mtu")), Val: uptr(9)})
		}
	case "delete-nonmodel":
		s.Ops = append(s.Ops, model.Op{Kind: "delete", Target: firstTarget(s), Path: relTo(s, model.Parse("/zz/y"))})
	case "delete-textual-stub":
		stub := []string{"/mt", "/a/c/f/", "/l1[id=1]/su", "/limits/m"}[rapid.IntRange(0, 3).Draw(rt, "stub")]
		s.Ops = append(s.Ops, model.Op{Kind: "delete", Target: firstTarget(s), Path: relTo(s, model.Parse(strings.TrimSuffix(stub, "/")))})
	case "json-root":
		// documented usage (Test_SetJsonUpdate): a JSON value at the root / at the prefix
		j := model.Value{T: "json", S: `{"a":{"c":{"d":"jv"}},"mtu":9}`}
		if len(s.PrefixElems) > 0 {
			return
		}
		s.Ops = append(s.Ops, model.Op{Kind: "update", Target: firstTarget(s), Path: nil, Val: &j})
	case "json-root-many":
		// one operation, six values: what counts against a size limit is what the request CHANGES
		j := model.Value{T: "json", S: c13JSONMany}
		if len(s.PrefixElems) > 0 {
			return
		}
		s.Ops = append(s.Ops, model.Op{Kind: "update", Target: firstTarget(s), Path: nil, Val: &j})
	case "json-at-path":
		j := model.Value{T: "json", S: `{"d":"jv"}`}
		s.Ops = append(s.Ops, model.Op{Kind: "update", Target: firstTarget(s), Path: relTo(s, model.Parse("/a/c")), Val: &j})
	}
}

func uptr(u uint64) *model.Value { v := model.Uint(u); return &v }

func firstTarget(s *SetSpec) string {
	if s.PrefixTarget != "" {
		return ""
	}
	for _, o := range s.Ops {
		if o.Target != "" {
			return o.Target
		}
	}
	return "t1"
}

// relTo expresses absolute path p relative to the request's prefix elements
// when p lies beneath them; otherwise the request's prefix is dropped into the
// existing paths (the request then has no prefix elements).
func relTo(s *SetSpec, p model.Path) model.Path {
	if len(s.PrefixElems) == 0 {
		return p
	}
	if len(p) > len(s.PrefixElems) && model.Covers(s.PrefixElems, p) && p[:len(s.PrefixElems)].String() == s.PrefixElems.String() {
		return p[len(s.PrefixElems):].Clone()
	}
	for i := range s.Ops {
		s.Ops[i].Path = model.Join(s.PrefixElems, s.Ops[i].Path)
	}
	s.PrefixElems = nil
	return p
}

var keyAllowed = regexp.MustCompile(`^[a-zA-Z0-9*._-]+$`)

// expectC13 evaluates the documented acceptance rules on a request,
// independently of the code: it returns why the request must be refused before
// being logged ("" = must be accepted) and, for accepted requests, the
// resolved (target, absolute path, kind) set.
const c13JSONMany = `{"a":{"b":"x","bc":"y","c":{"d":"jv","e":3}},"mtu":9,"mtux":1}`

// c13JSONLeaves: the leaves (relative to the update's path) of the two JSON documents the mutations use.
func c13JSONLeaves(doc string) []string {
	switch doc {
	case `{"a":{"c":{"d":"jv"}},"mtu":9}`:
		return []string{"/a/c/d", "/mtu"}
	case `{"d":"jv"}`:
		return []string{"/d"}
	case c13JSONMany:
		return []string{"/a/b", "/a/bc", "/a/c/d", "/a/c/e", "/mtu", "/mtux"}
	}
	return nil
}

func expectC13(s SetSpec, limit int, known map[string]bool, noPlugin map[string]bool) (refuse string, resolved []model.Op, special []string) {
	var jsonResolved []model.Op
	if len(s.Ops) == 0 {
		return "no operations", nil, nil
	}
	// the handlers read the FIRST extension carrying an id and ignore further ones with the same id
	seenExt := map[uint32]bool{}
	if s.Sync || s.Serializable {
		seenExt[111] = true // Build puts the request's own (well-formed) strategy first
	}
	for _, e := range s.Ext {
		if seenExt[e.ID] {
			continue
		}
		seenExt[e.ID] = true
		if (e.ID == 111 || e.ID == 112) && len(e.Msg) == 3 && e.Msg[0] == 0xff {
			return "malformed extension", nil, nil
		}
	}
	for _, o := range s.Resolved() {
		if !known[o.Target] {
			return fmt.Sprintf("unknown target %q", o.Target), nil, nil
		}
		if noPlugin[o.Target] {
			return fmt.Sprintf("target %q has no model plugin", o.Target), nil, nil
		}
		for _, e := range o.Path {
			for _, kv := range e.Keys {
				if !keyAllowed.MatchString(kv) {
					return fmt.Sprintf("key value %q has characters outside the accepted set", kv), nil, nil
				}
			}
		}
		switch o.Kind {
		case "delete":
			if _, ok := model.Lookup(model.M1, o.Path); !ok && !model.IsInterior(model.M1, o.Path) {
				if isTextualStub(o.Path) {
					special = append(special, "delete-textual-stub")
				}
				return fmt.Sprintf("delete path %s is not a node of the model", o.Path), nil, special
			}
			resolved = append(resolved, model.Op{Kind: "delete", Target: o.Target, Path: EffectiveDelete(o.Path)})
		default:
			if o.Val != nil && o.Val.T == "json" {
				if len(o.Path) == len(s.PrefixElems) {
					special = append(special, "json-at-prefix")
				} else {
					special = append(special, "json-at-path")
				}
				// the values the document expands to count towards the size limit ("number of updates and deletes")
				for _, rel := range c13JSONLeaves(o.Val.S) {
					jsonResolved = append(jsonResolved, model.Op{Kind: "update", Target: o.Target, Path: model.Join(o.Path, model.Parse(rel))})
				}
				continue
			}
			ld, ok := model.Lookup(model.M1, o.Path)
			if !ok {
				return fmt.Sprintf("update path %s is not a writable leaf of the model", o.Path), nil, nil
			}
			if ld.IsKey && o.Val.Text() != o.Path[len(o.Path)-2].Keys[ld.Attr()] {
				return fmt.Sprintf("key leaf %s contradicts its key", o.Path), nil, nil
			}
			resolved = append(resolved, model.Op{Kind: o.Kind, Target: o.Target, Path: o.Path, Val: o.Val})
		}
	}
	if limit > 0 {
		perTarget := map[string]map[string]bool{}
		dels := map[string]int{}
		for _, o := range append(append([]model.Op{}, resolved...), jsonResolved...) {
			if perTarget[o.Target] == nil {
				perTarget[o.Target] = map[string]bool{}
			}
			if o.Kind == "delete" {
				dels[o.Target]++
			} else {
				perTarget[o.Target][o.Path.String()] = true
			}
		}
		if len(perTarget) != 1 {
			return fmt.Sprintf("%d targets with a size limit", len(perTarget)), nil, special
		}
		for t, m := range perTarget {
			if len(m)+dels[t] > limit {
				return fmt.Sprintf("%d operations exceed the limit %d", len(m)+dels[t], limit), nil, special
			}
		}
	}
	return "", resolved, special
}

func isTextualStub(p model.Path) bool {
	s := p.String()
	for _, l := range model.M1 {
		if strings.HasPrefix(model.RemoveKeys(l.Schema), model.RemoveKeys(s)) {
			return true
		}
	}
	return false
}

func runC13(c C13Case, x *vstat.Ctx) error {
	w, err := NewWorld(x, Options{Targets: []TargetSpec{{ID: "t1"}, {ID: "t2"}, {ID: "t3", NoPlugin: true}}, SetSizeLimit: c.Limit})
	if err != nil {
		return err
	}
	defer w.Close()
	if err := w.S.Run(); err != nil {
		return err
	}
	known := map[string]bool{"t1": true, "t2": true, "t3": true}
	noPlugin := map[string]bool{"t3": true}
	ref := NewRef(w.Schema, []string{"t1", "t2"})
	z := newZombieTracker()
	for i, s := range c.Populate {
		call, err := submitAndSettle(w, fmt.Sprintf("p%d", i), s)
		if err != nil {
			return err
		}
		if !call.Created || call.Err != nil {
			return vstat.Violf("populating Set %s was not accepted: %v", s.Describe(), call.Err)
		}
		ref.Change(s.Resolved())
		z.note(i+1, s.Resolved())
	}
	for _, m := range c.Muts {
		if m != "target-removed" || !known["t2"] {
			continue
		}
		// serve t2 once (anything that remembers a target is primed), then remove it from the topology
		pv := model.Uint(7)
		prime := SetSpec{Ops: []model.Op{{Kind: "update", Target: "t2", Path: model.Parse("/mtu"), Val: &pv}}}
		if c.Limit == 0 {
			call, err := submitAndSettle(w, "prime", prime)
			if err != nil {
				return err
			}
			if !call.Created || call.Err != nil {
				return vstat.Violf("priming Set %s was not accepted: %v", prime.Describe(), call.Err)
			}
			ref.Change(prime.Resolved())
		}
		if err := w.Topo.Delete(context.Background(), &topoapi.Object{ID: "t2"}); err != nil {
			return err
		}
		if err := w.S.Run(); err != nil {
			return err
		}
		known["t2"] = false
		x.Logf("target t2 removed from the topology")
	}
	x.Logf("request (limit %d, mutations %v): %s", c.Limit, c.Muts, c.Req.Describe())
	for _, m := range c.Muts {
		x.Class("mut:" + m)
	}
	if c.Limit > 0 {
		x.Class(fmt.Sprintf("limit:%d", c.Limit))
		x.NonTrivial("size limit is non-zero")
	}
	if len(c.Req.PrefixElems) > 0 || c.Req.PrefixTarget != "" {
		x.NonTrivial("prefix present")
	}
	refuse, resolved, special := expectC13(c.Req, c.Limit, known, noPlugin)
	if len(c.Req.Ops) >= 2 && refuse != "" && len(c.Muts) > 0 {
		x.NonTrivial("several operations of which one is invalid")
	}
	for _, sp := range special {
		x.Class("special:" + sp)
	}
	before := map[string]map[string]string{}
	for _, t := range []string{"t1", "t2"} {
		if w.Config(t) != nil {
			before[t], _, _ = w.GetProto(t, nil)
		}
	}
	txsBefore, _ := w.St.Tx.List(context.Background())
	call, err := submitAndSettle(w, "req", c.Req)
	if err != nil {
		return err
	}
	txsAfter, _ := w.St.Tx.List(context.Background())
	x.Sample(map[string]any{"limit": c.Limit, "mutations": c.Muts, "request": c.Req.Describe(), "expect_refused": refuse})

	jsonSpecial := false
	for _, sp := range special {
		if strings.HasPrefix(sp, "json") {
			jsonSpecial = true
		}
	}
	if refuse != "" {
		x.Class("expect:refused")
		if call.Created || len(txsAfter) != len(txsBefore) {
			if len(special) > 0 && special[0] == "delete-textual-stub" {
				if vstat.IsKnown("C13", "F-delete-stub-accepted") {
					x.Known("F-delete-stub-accepted", "a delete whose path is only a textual stub of a model path (e.g. /mt for /mtu) is accepted and logged instead of being refused as a non-model path")
					return nil
				}
			}
			return vstat.Violf("request must be refused before being logged (%s) but a transaction was created (handler answered %v): %s", refuse, call.Err, c.Req.Describe())
		}
		if call.Err == nil {
			return vstat.Violf("request must be refused (%s) but the handler answered success: %s", refuse, c.Req.Describe())
		}
		x.Class("refused-with:" + Code(call.Err).String())
		for _, t := range []string{"t1", "t2"} {
			if !known[t] {
				continue // removed from the topology: Get no longer serves it (that nothing was logged is checked above)
			}
			if b, ok := before[t]; ok {
				a, _, err := w.GetProto(t, nil)
				if err != nil {
					return vstat.Violf("Get %s failed after a refused request: %v", t, err)
				}
				if d := model.DiffFlat(a, b); d != "" {
					return vstat.Violf("a refused request (%s) changed the configuration of %s: %s", refuse, t, d)
				}
			} else if w.Config(t) != nil {
				return vstat.Violf("a refused request (%s) created a configuration for %s", refuse, t)
			}
		}
		return nil
	}
	if jsonSpecial {
		// JSON-valued updates: separately counted class (DESIGN.md §6 row 12). What
		// is asserted: the values land beneath prefix+path, nothing lands elsewhere.
		return checkC13JSON(w, x, c, call, ref)
	}
	x.Class("expect:accepted")
	if !call.Created {
		return vstat.Violf("a request that satisfies every documented rule was refused with %v: %s", call.Err, c.Req.Describe())
	}
	tx := call.Tx()
	if tx == nil || tx.GetChange() == nil {
		return vstat.Violf("accepted request has no change transaction in the log")
	}
	// the stored transaction's change keys must be exactly the resolved (target, prefix+path) set
	want := map[string]string{}
	// gNMI order inside one request: deletes, then replaces, then updates (an update of a leaf overrides a
	// replace of the same leaf, whatever the order in which the lists name them)
	for _, kind := range []string{"delete", "replace", "update"} {
		for _, o := range resolved {
			k := o.Target + ":" + o.Path.String()
			switch {
			case o.Kind != kind:
			case kind == "delete":
				want[k] = "delete"
			case want[k] != "delete":
				want[k] = "update " + o.Val.Key()
			}
		}
	}
	got := map[string]string{}
	for tgt, pvs := range tx.GetChange().Values {
		for path, pv := range pvs.Values {
			k := string(tgt) + ":" + path
			if pv.Deleted {
				got[k] = "delete"
			} else {
				gv, err := nativeKey(pv)
				if err != nil {
					return vstat.Violf("stored change value for %s cannot be converted: %v", k, err)
				}
				got[k] = "update " + gv
			}
			if pv.Path != path {
				return vstat.Violf("stored change value is keyed %q but carries path %q", path, pv.Path)
			}
		}
	}
	if d := model.DiffFlat(got, want); d != "" {
		return vstat.Violf("the logged change does not land on exactly the named targets and paths: %s; request %s", d, c.Req.Describe())
	}
	// and the configuration afterwards is the gNMI-sequential result
	rtx := ref.Change(c.Req.Resolved())
	if rtx.Outcome == "committed" {
		z.note(len(c.Populate)+1, c.Req.Resolved())
		if call.Err != nil {
			return vstat.Violf("accepted and valid request was answered with %v", call.Err)
		}
	}
	for _, t := range []string{"t1", "t2"} {
		if !known[t] {
			continue // removed from the topology: no longer served
		}
		reconcileKnown(w, x, ref, z, t, len(c.Populate)+1)
		if err := checkGet(w, x, ref, GetSpec{Target: t}, "after the request"); err != nil {
			return err
		}
	}
	return nil
}

func checkC13JSON(w *World, x *vstat.Ctx, c C13Case, call *Call, ref *Ref) error {
	var jsonOps []model.Op
	for _, o := range c.Req.Resolved() {
		if o.Val != nil && o.Val.T == "json" {
			jsonOps = append(jsonOps, o)
		}
	}
	if !call.Created {
		x.Class("json:refused:" + Code(call.Err).String())
		atPath := false
		for _, o := range jsonOps {
			if len(o.Path) > len(c.Req.PrefixElems) {
				atPath = true
			}
		}
		if atPath {
			if vstat.IsKnown("C13", "F-json-update-path-ignored") {
				x.Known("F-json-update-path-ignored", "a JSON-valued update is resolved against the request prefix only: the update's own path is ignored, so the values land elsewhere or the request is refused")
				return nil
			}
			return vstat.Violf("a JSON-valued update at %s (valid beneath that path) was refused with %v: the update's own path is not used to place the values", jsonOps[0].Path, call.Err)
		}
		return vstat.Violf("a JSON-valued update at the request prefix was refused with %v: %s", call.Err, c.Req.Describe())
	}
	tx := call.Tx()
	for _, o := range jsonOps {
		found := 0
		for path := range tx.GetChange().Values[configTarget(o.Target)].Values {
			if model.Covers(o.Path, model.Parse(path)) {
				found++
			}
		}
		if found == 0 {
			if len(o.Path) > len(c.Req.PrefixElems) && vstat.IsKnown("C13", "F-json-update-path-ignored") {
				x.Known("F-json-update-path-ignored", "a JSON-valued update is resolved against the request prefix only: the update's own path is ignored, so the values land elsewhere or the request is refused")
				return nil
			}
			var keys []string
			for path := range tx.GetChange().Values[configTarget(o.Target)].Values {
				keys = append(keys, path)
			}
			sort.Strings(keys)
			return vstat.Violf("a JSON-valued update at %s:%s produced no change beneath that path; the logged change has %v", o.Target, o.Path, keys)
		}
	}
	x.Class("json:landed-beneath-path")
	return nil
}

// TestC13_RefusedSetsChangeNothing: requests with invalid ingredients are
// refused before being logged and change nothing; accepted requests land on
// exactly the targets and paths they name (prefix target wins, prefix+path).
func TestC13_RefusedSetsChangeNothing(t *testing.T) {
	vstat.Run(t, "C13", genC13, runC13)
}
