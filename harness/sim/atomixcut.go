package sim

import (
	"context"
	"reflect"
	"strings"
	"sync"
	"unsafe"

	"github.com/atomix/go-sdk/pkg/primitive"
	"google.golang.org/grpc"
	"google.golang.org/grpc/codes"
	"google.golang.org/grpc/status"
)

// atomixCut lets the harness end the process BETWEEN two Atomix writes of one
// store method: every connection the configuration store opens carries a unary
// interceptor that counts the write calls (Put, Insert, Update, Remove, Clear,
// transaction Commit) made while a store method is being executed and refuses
// the k-th one and everything after it. Which sub-write follows which is
// whatever the store's code does - the cut does not assume an order.
type atomixCut struct {
	mu       sync.Mutex
	counting bool
	writes   int
	failAt   int // cut before the failAt-th write of the current method (0 = no cut)
	dead     bool
	fired    bool
}

func isAtomixWrite(method string) bool {
	for _, m := range []string{"/Put", "/Insert", "/Update", "/Remove", "/Clear", "/Commit"} {
		if strings.HasSuffix(method, m) {
			return true
		}
	}
	return false
}

func (a *atomixCut) intercept(ctx context.Context, method string, req, reply interface{}, cc *grpc.ClientConn, invoker grpc.UnaryInvoker, opts ...grpc.CallOption) error {
	if isAtomixWrite(method) {
		a.mu.Lock()
		if a.counting {
			a.writes++
			if a.failAt > 0 && a.writes >= a.failAt {
				a.dead, a.fired = true, true
			}
		}
		dead := a.dead
		a.mu.Unlock()
		if dead {
			return status.Error(codes.Unavailable, "verif: the process ended before this write")
		}
	}
	return invoker(ctx, method, req, reply, cc, opts...)
}

// begin starts counting the writes of one store method; failAt > 0 cuts before that write.
func (a *atomixCut) begin(failAt int) {
	a.mu.Lock()
	a.counting, a.writes, a.failAt, a.dead, a.fired = true, 0, failAt, false, false
	a.mu.Unlock()
}

// end stops counting and returns the number of writes attempted and whether the cut happened.
func (a *atomixCut) end() (int, bool) {
	a.mu.Lock()
	defer a.mu.Unlock()
	n, f := a.writes, a.fired
	a.counting, a.failAt, a.dead, a.fired = false, 0, false, false
	return n, f
}

// cutClient hands out the inner client's connections with the interceptor installed.
type cutClient struct {
	inner primitive.Client
	cut   *atomixCut
}

func (c *cutClient) Connect(ctx context.Context) (*grpc.ClientConn, error) {
	conn, err := c.inner.Connect(ctx)
	if err != nil {
		return nil, err
	}
	installUnaryInterceptor(conn, c.cut.intercept)
	return conn, nil
}

// installUnaryInterceptor wraps the connection's (already chained) unary
// interceptor. grpc offers no way to add one after Dial and the Atomix test
// client dials by itself, so the private field is reached by reflection (grpc
// v1.54.0, pinned by the repository's go.mod: ClientConn.dopts.unaryInt, read
// at every Invoke).
func installUnaryInterceptor(conn *grpc.ClientConn, outer grpc.UnaryClientInterceptor) {
	f := reflect.ValueOf(conn).Elem().FieldByName("dopts").FieldByName("unaryInt")
	f = reflect.NewAt(f.Type(), unsafe.Pointer(f.UnsafeAddr())).Elem()
	inner, _ := f.Interface().(grpc.UnaryClientInterceptor)
	wrapped := grpc.UnaryClientInterceptor(func(ctx context.Context, method string, req, reply interface{}, cc *grpc.ClientConn, invoker grpc.UnaryInvoker, opts ...grpc.CallOption) error {
		next := invoker
		if inner != nil {
			next = func(ctx context.Context, method string, req, reply interface{}, cc *grpc.ClientConn, opts ...grpc.CallOption) error {
				return inner(ctx, method, req, reply, cc, invoker, opts...)
			}
		}
		return outer(ctx, method, req, reply, cc, next, opts...)
	})
	f.Set(reflect.ValueOf(wrapped))
}
