package sim

import (
	"fmt"
	"testing"

	configapi "github.com/onosproject/onos-api/go/onos/config/v2"
	"google.golang.org/grpc/codes"
	"pgregory.net/rapid"

	"verif/harness/model"
	"verif/harness/vstat"
)

// C11Case fixes everything but the status code; the run enumerates ALL gRPC
// status codes 1..16 for it (fault_enumeration).
type C11Case struct {
	NTx     int  `json:"ntx"`     // transactions in the history (3..5)
	Pos     int  `json:"pos"`     // which one meets the fault (0-based)
	Sync    bool `json:"sync"`    // the faulted request is synchronous
	Burst   int  `json:"burst"`   // length of a transient burst
	Multi   bool `json:"multi"`   // the faulted transaction also names the neighbour target
	Preempt bool `json:"preempt"` // pre-emptive drawn schedule instead of FIFO
	// Serializable: the faulted request asks for SERIALIZABLE isolation. Only used for real refusals under the
	// FIFO schedule, where every request meets its predecessor finished: the shapes in which a successor has to
	// WAIT for a SERIALIZABLE predecessor are the listed C09 findings F-serializable-*.
	Serializable bool `json:"serializable,omitempty"`
	// Restart: after the history the faulted device restarts empty and is re-synchronised: what it holds then must
	// still be the fold of the changes that were NOT refused (a refusal must not come back through the applied values)
	Restart bool `json:"restart,omitempty"`
}

func genC11(rt *rapid.T) C11Case {
	c := C11Case{NTx: rapid.IntRange(3, 5).Draw(rt, "ntx"), Sync: rapid.IntRange(0, 1).Draw(rt, "sync") == 1, Burst: rapid.IntRange(1, 5).Draw(rt, "burst"),
		Multi: rapid.IntRange(0, 2).Draw(rt, "multi") == 0, Preempt: rapid.IntRange(0, 3).Draw(rt, "preempt") == 0}
	c.Pos = rapid.IntRange(0, c.NTx-1).Draw(rt, "pos")
	c.Serializable = !c.Preempt && rapid.IntRange(0, 2).Draw(rt, "serializable") == 0
	c.Restart = rapid.IntRange(0, 1).Draw(rt, "restart") == 1
	return c
}

// failureTypeFor is the documented class of a refusal (the switch in
// reconcileApply); ok=false for codes without a class of their own.
func failureTypeFor(c codes.Code) (configapi.Failure_Type, bool) {
	switch c {
	case codes.Unknown:
		return configapi.Failure_UNKNOWN, true
	case codes.NotFound:
		return configapi.Failure_NOT_FOUND, true
	case codes.AlreadyExists:
		return configapi.Failure_ALREADY_EXISTS, true
	case codes.Unauthenticated:
		return configapi.Failure_UNAUTHORIZED, true
	case codes.FailedPrecondition:
		return configapi.Failure_CONFLICT, true
	case codes.InvalidArgument:
		return configapi.Failure_INVALID, true
	case codes.Unimplemented:
		return configapi.Failure_NOT_SUPPORTED, true
	case codes.Internal:
		return configapi.Failure_INTERNAL, true
	}
	return 0, false
}

func c11Scenario(c C11Case, code codes.Code) (Scenario, string) {
	sc := Scenario{Targets: []TargetSpec{{ID: "t1", Online: true}, {ID: "t2", Online: true}}, Preempt: c.Preempt, Drawn: c.Preempt}
	kind := "refuse"
	switch code {
	case codes.Unavailable, codes.Canceled, codes.DeadlineExceeded:
		kind = "transient"
	case codes.PermissionDenied:
		kind = "superseded"
	}
	leaves := []string{"/a/b", "/a/bc", "/a/c/d", "/a/c/f/g", "/a/cx/d"}
	for i := 0; i < c.NTx; i++ {
		v := model.Str(fmt.Sprintf("v%d", i+1))
		spec := &SetSpec{}
		if i == c.Pos {
			spec.Sync = c.Sync
			switch kind {
			case "refuse":
				v = model.Str(fmt.Sprintf("REFUSE:%d", int(code)))
				spec.Serializable = c.Serializable
			case "transient":
				var cs []int
				for k := 0; k < c.Burst; k++ {
					cs = append(cs, int(code))
				}
				sc.Actions = append(sc.Actions, Action{Kind: "faults", Target: "t1", Codes: cs})
			case "superseded":
				sc.Actions = append(sc.Actions, Action{Kind: "faults", Target: "t1", Codes: []int{int(code)}})
			}
			if c.Multi {
				nv := model.Str("n-faulted")
				spec.Ops = append(spec.Ops, model.Op{Kind: "update", Target: "t2", Path: model.Parse("/a/bc"), Val: &nv})
			}
		}
		spec.Ops = append(spec.Ops, model.Op{Kind: "update", Target: "t1", Path: model.Parse(leaves[i%len(leaves)]), Val: &v})
		sc.Actions = append(sc.Actions, Action{Kind: "set", Set: spec})
		// a neighbour on the other target after every change
		nv := model.Str(fmt.Sprintf("n%d", i+1))
		sc.Actions = append(sc.Actions, Action{Kind: "set", Set: &SetSpec{Ops: []model.Op{{Kind: "update", Target: "t2", Path: model.Parse("/a/b"), Val: &nv}}}})
		if i == c.Pos && kind == "superseded" {
			// the superseding master shows as a replaced connection a little later
			sc.Actions = append(sc.Actions, Action{Kind: "linkdown", Target: "t1"}, Action{Kind: "linkup", Target: "t1"})
		}
	}
	if c.Restart {
		sc.Actions = append(sc.Actions, Action{Kind: "restart", Target: "t1", Idle: true})
	}
	return sc, kind
}

func runC11(c C11Case, x *vstat.Ctx) error {
	if c.Pos < c.NTx-1 {
		x.NonTrivial("the faulted transaction has a successor on the same target and neighbours on another target")
	}
	x.Sample(map[string]any{"case": c, "codes": "all of 1..16, one world each"})
	if c.Serializable {
		x.Class("refused-request:SERIALIZABLE")
	}
	if c.Restart {
		x.Class("device restarts empty after the history and is re-synchronised")
	}
	for code := codes.Code(1); code <= 16; code++ {
		sc, kind := c11Scenario(c, code)
		x.Class("code-kind:" + kind)
		x.Logf("=== code %d (%s), %s", int(code), code, kind)
		if err := runC11One(c, code, kind, sc, x); err != nil {
			return err
		}
	}
	return nil
}

func runC11One(c C11Case, code codes.Code, kind string, sc Scenario, x *vstat.Ctx) error {
	r, err := Execute(x, sc, nil)
	defer r.Close()
	if err != nil {
		return err
	}
	// locate the faulted request
	var faulted *Call
	var frt *RefTx
	n := 0
	for i, a := range sc.Actions {
		if a.Kind == "set" && len(a.Set.Targets()) > 0 && a.Set.Targets()[0] == "t1" {
			if n == c.Pos {
				faulted, frt = r.Calls[i], r.RefTxs[i]
			}
			n++
		}
	}
	if faulted == nil || frt == nil || !faulted.Created {
		return vstat.Violf("code %d: the faulted request was not logged", int(code))
	}
	tx := faulted.Tx()
	switch kind {
	case "refuse":
		if tx.Status.State != configapi.TransactionStatus_FAILED {
			return vstat.Violf("code %d (%s): the device refused the change of transaction %d, which must be reported FAILED, it is %v; state %s", int(code), code, tx.Index, tx.Status.State, r.W.DescribeState())
		}
		if want, ok := failureTypeFor(code); ok {
			if tx.Status.Failure == nil || tx.Status.Failure.Type != want {
				return vstat.Violf("code %d (%s): transaction %d failed with class %v, the device's error class is %v", int(code), code, tx.Index, failureTypeOf(tx), want)
			}
			if c.Sync && faulted.Done() && Code(faulted.Err) != code {
				return vstat.Violf("code %d (%s): the synchronous caller was answered with %v, the device's error class is %s", int(code), code, faulted.Err, code)
			}
		} else {
			x.Class(fmt.Sprintf("refusal-without-own-class:%d->%v", int(code), failureTypeOf(tx)))
		}
		if c.Sync && !faulted.Done() {
			return vstat.Violf("code %d: the synchronous caller of the refused change was never answered", int(code))
		}
	case "transient", "superseded":
		if tx.Status.State == configapi.TransactionStatus_FAILED {
			return vstat.Violf("code %d (%s): the device was merely unreachable/superseded %d time(s), yet transaction %d was failed (%v); it must stay pending and be applied once the device can be reached", int(code), code, c.Burst, tx.Index, failureTypeOf(tx))
		}
		if tx.Status.State != configapi.TransactionStatus_APPLIED {
			return vstat.Violf("code %d (%s): after the device became reachable again transaction %d must be applied, it is %v; state %s", int(code), code, tx.Index, tx.Status.State, r.W.DescribeState())
		}
		if c.Sync && faulted.Done() && faulted.Err != nil {
			return vstat.Violf("code %d (%s): the synchronous caller was answered with %v although the change was applied", int(code), code, faulted.Err)
		}
	}
	// every other transaction has the model's outcome and the devices hold the model's state
	if err := r.CheckStored(fmt.Sprintf("code %d at quiescence", int(code))); err != nil {
		return err
	}
	if err := r.CheckDevices(fmt.Sprintf("code %d at quiescence", int(code))); err != nil {
		return err
	}
	if err := r.CheckTerminal(fmt.Sprintf("code %d at quiescence", int(code))); err != nil {
		return err
	}
	return checkSendOrder(r)
}

func failureTypeOf(t *configapi.Transaction) string {
	if t.Status.Failure == nil {
		return "<none>"
	}
	return t.Status.Failure.Type.String()
}

// TestC11_DeviceErrors: for every gRPC status code a device can answer with,
// at any transaction of a history: real refusals fail that change only (with
// the device's class), unreachability and superseded mastership fail nothing.
func TestC11_DeviceErrors(t *testing.T) {
	vstat.Run(t, "C11", genC11, runC11)
}
