package sim

// C17 end-to-end half: value type, palettes, test-local model, and the INDEPENDENT decoders / encoders the oracle
// of TestC17_EndToEnd judges with. Nothing in this file calls the conversion functions of the code under test
// (GnmiTypedValueToNativeType, NativeTypeToGnmiTypedValue, tree.BuildTree, the TypedXxx accessors of onos-api):
// stored values are decoded from their raw Bytes/TypeOpts as documented next to the onos-api constructors, JSON is
// judged by an RFC 7951 encoder written from the RFC (same rules as pure/c17_test.go, copied so that the pure
// test stays untouched).

import (
	"bytes"
	"encoding/base64"
	"encoding/binary"
	"encoding/json"
	"fmt"
	"math"
	"math/big"
	"regexp"
	"sort"
	"strconv"
	"strings"
	"unicode/utf8"

	configapi "github.com/onosproject/onos-api/go/onos/config/v2"
	gpb "github.com/openconfig/gnmi/proto/gnmi"
	"pgregory.net/rapid"

	"verif/harness/model"
	"verif/harness/vstat"
)

// ---- the test-local model ---------------------------------------------------------------

// c17eLeaf is one writable leaf of the model the end-to-end check runs against.
type c17eLeaf struct {
	Path  string // concrete path the test writes ("/ent[id=a]/n64")
	Kind  string // string int uint bool bytes decimal float
	List  bool
	Width int // int/uint: TypeOpts[0] the model reports (0 = the model reports none: documented default 32)
	MPrec int // decimal: fraction-digits the model reports as TypeOpts[0] (0 = none)
	Key   bool
}

func (l c17eLeaf) eff() int {
	if l.Width == 0 {
		return 32
	}
	return l.Width
}

func (l c17eLeaf) name() string {
	k := l.Kind
	if l.Kind == "int" || l.Kind == "uint" {
		if l.Width == 0 {
			k += "(no-width)"
		} else {
			k += strconv.Itoa(l.Width)
		}
	}
	if l.List {
		return "leaflist-" + k
	}
	return k
}

var c17eLeaves = []c17eLeaf{
	{Path: "/types/i64", Kind: "int", Width: 64},
	{Path: "/types/dec3", Kind: "decimal", MPrec: 3},
	{Path: "/types/lli64", Kind: "int", List: true, Width: 64},
	{Path: "/types/u64", Kind: "uint", Width: 64},
	{Path: "/types/lld", Kind: "decimal", List: true, MPrec: 2},
	{Path: "/types/lly", Kind: "bytes", List: true},
	{Path: "/types/llu64", Kind: "uint", List: true, Width: 64},
	{Path: "/types/dec", Kind: "decimal"},
	{Path: "/types/float", Kind: "float"},
	{Path: "/types/lls", Kind: "string", List: true},
	{Path: "/types/i32", Kind: "int", Width: 32},
	{Path: "/types/llf", Kind: "float", List: true},
	{Path: "/types/str", Kind: "string"},
	{Path: "/types/bytes", Kind: "bytes"},
	{Path: "/types/u32", Kind: "uint", Width: 32},
	{Path: "/types/lli32", Kind: "int", List: true, Width: 32},
	{Path: "/types/bool", Kind: "bool"},
	{Path: "/types/dec18", Kind: "decimal", MPrec: 18},
	{Path: "/types/i8", Kind: "int", Width: 8},
	{Path: "/types/i16", Kind: "int", Width: 16},
	{Path: "/types/u8", Kind: "uint", Width: 8},
	{Path: "/types/u16", Kind: "uint", Width: 16},
	{Path: "/types/inone", Kind: "int"},
	{Path: "/types/unone", Kind: "uint"},
	{Path: "/types/dec1", Kind: "decimal", MPrec: 1},
	{Path: "/types/lli8", Kind: "int", List: true, Width: 8},
	{Path: "/types/llinone", Kind: "int", List: true},
	{Path: "/types/llu16", Kind: "uint", List: true, Width: 16},
	{Path: "/types/llu32", Kind: "uint", List: true, Width: 32},
	{Path: "/types/llb", Kind: "bool", List: true},
	{Path: "/types/lldnone", Kind: "decimal", List: true},
	{Path: "/top64", Kind: "uint", Width: 64},
	{Path: "/topstr", Kind: "string"},
	{Path: "/ent[id=a]/id", Kind: "string", Key: true},
	{Path: "/ent[id=a]/n64", Kind: "int", Width: 64},
	{Path: "/ent[id=a]/dec", Kind: "decimal", MPrec: 2},
	{Path: "/ent[id=a]/u64s", Kind: "uint", List: true, Width: 64},
	{Path: "/ent[id=b]/id", Kind: "string", Key: true},
	{Path: "/ent[id=b]/n64", Kind: "int", Width: 64},
	{Path: "/ent[id=b]/dec", Kind: "decimal", MPrec: 2},
	{Path: "/ent[id=b]/u64s", Kind: "uint", List: true, Width: 64},
}

// containers a JSON-valued update may be rooted at
var c17eContainers = []string{"/", "/types", "/ent[id=a]", "/ent[id=b]"}

func c17eLeafOf(path string) (c17eLeaf, bool) {
	for _, l := range c17eLeaves {
		if l.Path == path {
			return l, true
		}
	}
	return c17eLeaf{}, false
}

func c17eBeneath(container, leaf string) bool {
	if container == "/" {
		return true
	}
	return strings.HasPrefix(leaf, container+"/")
}

func c17eValueType(kind string, list bool) configapi.ValueType {
	switch kind {
	case "string":
		if list {
			return configapi.ValueType_LEAFLIST_STRING
		}
		return configapi.ValueType_STRING
	case "int":
		if list {
			return configapi.ValueType_LEAFLIST_INT
		}
		return configapi.ValueType_INT
	case "uint":
		if list {
			return configapi.ValueType_LEAFLIST_UINT
		}
		return configapi.ValueType_UINT
	case "bool":
		if list {
			return configapi.ValueType_LEAFLIST_BOOL
		}
		return configapi.ValueType_BOOL
	case "bytes":
		if list {
			return configapi.ValueType_LEAFLIST_BYTES
		}
		return configapi.ValueType_BYTES
	case "decimal":
		if list {
			return configapi.ValueType_LEAFLIST_DECIMAL
		}
		return configapi.ValueType_DECIMAL
	case "float":
		if list {
			return configapi.ValueType_LEAFLIST_FLOAT
		}
		return configapi.ValueType_FLOAT
	}
	return configapi.ValueType_EMPTY
}

// c17eSchema renders the leaf table in the format model plugins publish (what World hands to the plugin registry).
func c17eSchema() []model.LeafDef {
	seen := map[string]bool{}
	var out []model.LeafDef
	for _, l := range c17eLeaves {
		s := model.SchemaOf(model.Parse(l.Path))
		if seen[s] {
			continue
		}
		seen[s] = true
		w := uint64(l.Width)
		if l.Kind == "decimal" {
			w = uint64(l.MPrec)
		}
		out = append(out, model.LeafDef{Schema: s, Type: c17eValueType(l.Kind, l.List), Width: w, IsKey: l.Key})
	}
	return out
}

// ---- the client's value -----------------------------------------------------------------

// c17eVal is a client value: a scalar (one element) or a homogeneous leaf-list (1..8 elements).
type c17eVal struct {
	Kind string   `json:"kind"`
	List bool     `json:"list,omitempty"`
	Prec int      `json:"prec,omitempty"` // decimal: precision the CLIENT sends (0..18)
	S    []string `json:"s,omitempty"`
	I    []int64  `json:"i,omitempty"`
	U    []uint64 `json:"u,omitempty"`
	B    []bool   `json:"b,omitempty"`
	Y    [][]byte `json:"y,omitempty"`
	F    []uint32 `json:"f,omitempty"` // float32 bit patterns (finite)
}

func (v c17eVal) n() int {
	switch v.Kind {
	case "string":
		return len(v.S)
	case "int", "decimal":
		return len(v.I)
	case "uint":
		return len(v.U)
	case "bool":
		return len(v.B)
	case "bytes":
		return len(v.Y)
	case "float":
		return len(v.F)
	}
	return 0
}

func (v c17eVal) clone() c17eVal {
	o := v
	o.S = append([]string(nil), v.S...)
	o.I = append([]int64(nil), v.I...)
	o.U = append([]uint64(nil), v.U...)
	o.B = append([]bool(nil), v.B...)
	o.F = append([]uint32(nil), v.F...)
	o.Y = nil
	for _, y := range v.Y {
		o.Y = append(o.Y, append([]byte{}, y...))
	}
	return o
}

func c17eIntRange(w int) (int64, int64) {
	if w >= 64 {
		return math.MinInt64, math.MaxInt64
	}
	return -(1 << (w - 1)), (1 << (w - 1)) - 1
}

func c17eUintMax(w int) uint64 {
	if w >= 64 {
		return math.MaxUint64
	}
	return 1<<w - 1
}

// validFor: is v a value of the supported domain for leaf l?
func (v c17eVal) validFor(l c17eLeaf) bool {
	if v.Kind != l.Kind || v.List != l.List || l.Key {
		return false
	}
	n := v.n()
	if n < 1 || n > 8 || (!v.List && n != 1) {
		return false
	}
	if len(v.S)+len(v.I)+len(v.U)+len(v.B)+len(v.Y)+len(v.F) != n {
		return false
	}
	switch v.Kind {
	case "string":
		for _, s := range v.S {
			if !utf8.ValidString(s) {
				return false
			}
		}
	case "int":
		lo, hi := c17eIntRange(l.eff())
		for _, i := range v.I {
			if i < lo || i > hi {
				return false
			}
		}
	case "uint":
		for _, u := range v.U {
			if u > c17eUintMax(l.eff()) {
				return false
			}
		}
	case "decimal":
		if v.Prec < 0 || v.Prec > 18 {
			return false
		}
	case "float":
		for _, f := range v.F {
			if f&0x7f800000 == 0x7f800000 { // NaN is refused (C12); +-Inf cannot be rendered as JSON, so the Set is refused as invalid
				return false
			}
		}
	}
	if v.Kind != "decimal" && v.Prec != 0 {
		return false
	}
	return true
}

func (v c17eVal) elemString(i int) string {
	switch v.Kind {
	case "string":
		return strconv.Quote(v.S[i])
	case "int":
		return strconv.FormatInt(v.I[i], 10)
	case "uint":
		return strconv.FormatUint(v.U[i], 10)
	case "bool":
		return strconv.FormatBool(v.B[i])
	case "bytes":
		return fmt.Sprintf("x%x", v.Y[i])
	case "decimal":
		return fmt.Sprintf("%de-%d", v.I[i], v.Prec)
	case "float":
		return fmt.Sprintf("%g(0x%08x)", math.Float32frombits(v.F[i]), v.F[i])
	}
	return "?"
}

func (v c17eVal) String() string {
	var parts []string
	for i := 0; i < v.n(); i++ {
		parts = append(parts, v.elemString(i))
	}
	if v.List {
		return v.Kind + "[" + strings.Join(parts, ",") + "]"
	}
	if len(parts) == 0 {
		return v.Kind + ":<none>"
	}
	return v.Kind + ":" + parts[0]
}

func (v c17eVal) equal(o c17eVal) bool {
	if v.Kind != o.Kind || v.List != o.List || v.n() != o.n() || (v.Kind == "decimal" && v.Prec != o.Prec) {
		return false
	}
	for i := 0; i < v.n(); i++ {
		switch v.Kind {
		case "string":
			if v.S[i] != o.S[i] {
				return false
			}
		case "int", "decimal":
			if v.I[i] != o.I[i] {
				return false
			}
		case "uint":
			if v.U[i] != o.U[i] {
				return false
			}
		case "bool":
			if v.B[i] != o.B[i] {
				return false
			}
		case "bytes":
			if !bytes.Equal(v.Y[i], o.Y[i]) {
				return false
			}
		case "float":
			if v.F[i] != o.F[i] {
				return false
			}
		}
	}
	return true
}

// gnmiElem renders element i in the gNMI arm the client uses: enc "" = the arm of the leaf's type, "ascii" =
// ascii_val for text, "xarm" = the OTHER integer arm (uint_val for a non-negative value of an int leaf, int_val
// for a value of a uint leaf that fits int64).
func (v c17eVal) gnmiElem(i int, enc string) *gpb.TypedValue {
	switch v.Kind {
	case "string":
		if enc == "ascii" {
			return &gpb.TypedValue{Value: &gpb.TypedValue_AsciiVal{AsciiVal: v.S[i]}}
		}
		return &gpb.TypedValue{Value: &gpb.TypedValue_StringVal{StringVal: v.S[i]}}
	case "int":
		if enc == "xarm" {
			return &gpb.TypedValue{Value: &gpb.TypedValue_UintVal{UintVal: uint64(v.I[i])}}
		}
		return &gpb.TypedValue{Value: &gpb.TypedValue_IntVal{IntVal: v.I[i]}}
	case "uint":
		if enc == "xarm" {
			return &gpb.TypedValue{Value: &gpb.TypedValue_IntVal{IntVal: int64(v.U[i])}}
		}
		return &gpb.TypedValue{Value: &gpb.TypedValue_UintVal{UintVal: v.U[i]}}
	case "bool":
		return &gpb.TypedValue{Value: &gpb.TypedValue_BoolVal{BoolVal: v.B[i]}}
	case "bytes":
		return &gpb.TypedValue{Value: &gpb.TypedValue_BytesVal{BytesVal: append([]byte{}, v.Y[i]...)}}
	case "decimal":
		//nolint:staticcheck // the deprecated Decimal64 is what onos-config supports
		return &gpb.TypedValue{Value: &gpb.TypedValue_DecimalVal{DecimalVal: &gpb.Decimal64{Digits: v.I[i], Precision: uint32(v.Prec)}}}
	case "float":
		//nolint:staticcheck
		return &gpb.TypedValue{Value: &gpb.TypedValue_FloatVal{FloatVal: math.Float32frombits(v.F[i])}}
	}
	return nil
}

func (v c17eVal) gnmi(enc string) *gpb.TypedValue {
	if !v.List {
		return v.gnmiElem(0, enc)
	}
	arr := &gpb.ScalarArray{}
	for i := 0; i < v.n(); i++ {
		arr.Element = append(arr.Element, v.gnmiElem(i, enc))
	}
	return &gpb.TypedValue{Value: &gpb.TypedValue_LeaflistVal{LeaflistVal: arr}}
}

// xarmOK: may the client use the other integer arm for this value?
func (v c17eVal) xarmOK() bool {
	switch v.Kind {
	case "int":
		for _, i := range v.I {
			if i < 0 {
				return false
			}
		}
		return true
	case "uint":
		for _, u := range v.U {
			if u > math.MaxInt64 {
				return false
			}
		}
		return true
	}
	return false
}

// ---- listed dependency deviations (same triggers and models as pure/c17_test.go) -------------

const (
	c17eFSep       = "F-apival-leaflist-sep"
	c17eFBytesList = "F-apival-leaflist-bytes-empty"
	c17eFFloatFmt  = "F-apival-float-format"
)

func (v c17eVal) trigSep() bool {
	if !v.List || v.Kind != "string" {
		return false
	}
	for _, s := range v.S {
		if strings.IndexByte(s, 0x1D) >= 0 {
			return true
		}
	}
	return false
}

func (v c17eVal) trigBytesList() bool {
	if !v.List || v.Kind != "bytes" {
		return false
	}
	for i := 1; i < len(v.Y); i++ {
		if len(v.Y[i]) == 0 {
			return true
		}
	}
	return false
}

// c17eBytesListAsDecoded models F-apival-leaflist-bytes-empty: the onos-api decoder closes at most one entry per
// byte, so after an empty entry at index >= 1 the boundaries slip.
func c17eBytesListAsDecoded(ys [][]byte) [][]byte {
	var all []byte
	for _, y := range ys {
		all = append(all, y...)
	}
	out := [][]byte{}
	buf := []byte{}
	idx, startAt := 0, 0
	for i, b := range all {
		if n := len(ys[idx]); i-startAt == n {
			out = append(out, buf)
			buf = []byte{}
			idx++
			startAt += n
		}
		buf = append(buf, b)
	}
	return append(out, buf)
}

func c17eTrigFloatFmt(f float32) bool {
	s := strconv.FormatFloat(float64(f), 'f', 6, 32)
	p, err := strconv.ParseFloat(s, 64)
	return err != nil || float32(p) != f
}

// ---- independent decoder of the stored encoding ----------------------------------------------

// c17eStored is a stored configapi.TypedValue decoded from its raw fields.
type c17eStored struct {
	Val   c17eVal
	Width int // int/uint: TypeOpts[0]
}

func c17eMag(b []byte, neg bool, what string) (int64, error) {
	m := new(big.Int).SetBytes(b)
	if neg {
		m.Neg(m)
	}
	if !m.IsInt64() {
		return 0, fmt.Errorf("%s magnitude %x (negative=%v) does not fit int64", what, b, neg)
	}
	return m.Int64(), nil
}

// c17eDecodeStored reads a stored value as the onos-api constructors document the encoding:
// STRING text; INT big-endian magnitude + TypeOpts [width, negative]; UINT magnitude + [width]; BOOL one byte;
// DECIMAL magnitude of the digits + [precision, negative]; FLOAT big.Float in gob form; BYTES raw;
// LEAFLIST_STRING entries joined by 0x1D; LEAFLIST_INT/DECIMAL magnitudes concatenated + [width|precision,
// (length, negative) per entry]; LEAFLIST_UINT + [width, length per entry]; LEAFLIST_BOOL one byte per entry;
// LEAFLIST_FLOAT little-endian float64 per entry; LEAFLIST_BYTES concatenated + [length per entry].
func c17eDecodeStored(tv *configapi.TypedValue) (c17eStored, error) {
	var out c17eStored
	opts := tv.TypeOpts
	need := func(n int) error {
		if len(opts) < n {
			return fmt.Errorf("%v carries type options %v, want at least %d", tv.Type, opts, n)
		}
		return nil
	}
	switch tv.Type {
	case configapi.ValueType_STRING:
		out.Val = c17eVal{Kind: "string", S: []string{string(tv.Bytes)}}
	case configapi.ValueType_INT:
		if err := need(2); err != nil {
			return out, err
		}
		i, err := c17eMag(tv.Bytes, opts[1] != 0, "INT")
		if err != nil {
			return out, err
		}
		out.Val, out.Width = c17eVal{Kind: "int", I: []int64{i}}, int(opts[0])
	case configapi.ValueType_UINT:
		if err := need(1); err != nil {
			return out, err
		}
		m := new(big.Int).SetBytes(tv.Bytes)
		if !m.IsUint64() {
			return out, fmt.Errorf("UINT magnitude %x does not fit uint64", tv.Bytes)
		}
		out.Val, out.Width = c17eVal{Kind: "uint", U: []uint64{m.Uint64()}}, int(opts[0])
	case configapi.ValueType_BOOL:
		if len(tv.Bytes) != 1 || tv.Bytes[0] > 1 {
			return out, fmt.Errorf("BOOL stored as bytes %x", tv.Bytes)
		}
		out.Val = c17eVal{Kind: "bool", B: []bool{tv.Bytes[0] == 1}}
	case configapi.ValueType_DECIMAL:
		if err := need(2); err != nil {
			return out, err
		}
		d, err := c17eMag(tv.Bytes, opts[1] != 0, "DECIMAL")
		if err != nil {
			return out, err
		}
		out.Val = c17eVal{Kind: "decimal", Prec: int(opts[0]), I: []int64{d}}
	case configapi.ValueType_FLOAT:
		var f big.Float
		if err := f.GobDecode(tv.Bytes); err != nil {
			return out, fmt.Errorf("FLOAT bytes %x are not a big.Float: %v", tv.Bytes, err)
		}
		f32, acc := f.Float32()
		if acc != big.Exact {
			return out, fmt.Errorf("FLOAT holds %s, which is not a float32", f.Text('g', 20))
		}
		out.Val = c17eVal{Kind: "float", F: []uint32{math.Float32bits(f32)}}
	case configapi.ValueType_BYTES:
		out.Val = c17eVal{Kind: "bytes", Y: [][]byte{append([]byte{}, tv.Bytes...)}}
	case configapi.ValueType_LEAFLIST_STRING:
		out.Val = c17eVal{Kind: "string", List: true, S: strings.Split(string(tv.Bytes), "\x1d")}
	case configapi.ValueType_LEAFLIST_INT, configapi.ValueType_LEAFLIST_DECIMAL:
		if err := need(1); err != nil {
			return out, err
		}
		if (len(opts)-1)%2 != 0 {
			return out, fmt.Errorf("%v carries type options %v: want one (length, negative) pair per entry", tv.Type, opts)
		}
		v := c17eVal{Kind: "int", List: true}
		if tv.Type == configapi.ValueType_LEAFLIST_DECIMAL {
			v.Kind, v.Prec = "decimal", int(opts[0])
		} else {
			out.Width = int(opts[0])
		}
		pos := 0
		for k := 1; k+1 < len(opts); k += 2 {
			ln := int(opts[k])
			if ln < 0 || pos+ln > len(tv.Bytes) {
				return out, fmt.Errorf("%v entry lengths %v exceed the %d stored bytes", tv.Type, opts, len(tv.Bytes))
			}
			i, err := c17eMag(tv.Bytes[pos:pos+ln], opts[k+1] != 0, tv.Type.String())
			if err != nil {
				return out, err
			}
			v.I = append(v.I, i)
			pos += ln
		}
		if pos != len(tv.Bytes) {
			return out, fmt.Errorf("%v entry lengths %v cover %d of the %d stored bytes", tv.Type, opts, pos, len(tv.Bytes))
		}
		out.Val = v
	case configapi.ValueType_LEAFLIST_UINT:
		if err := need(1); err != nil {
			return out, err
		}
		v := c17eVal{Kind: "uint", List: true}
		out.Width = int(opts[0])
		pos := 0
		for k := 1; k < len(opts); k++ {
			ln := int(opts[k])
			if ln < 0 || pos+ln > len(tv.Bytes) {
				return out, fmt.Errorf("LEAFLIST_UINT entry lengths %v exceed the %d stored bytes", opts, len(tv.Bytes))
			}
			m := new(big.Int).SetBytes(tv.Bytes[pos : pos+ln])
			if !m.IsUint64() {
				return out, fmt.Errorf("LEAFLIST_UINT entry %x does not fit uint64", tv.Bytes[pos:pos+ln])
			}
			v.U = append(v.U, m.Uint64())
			pos += ln
		}
		if pos != len(tv.Bytes) {
			return out, fmt.Errorf("LEAFLIST_UINT entry lengths %v cover %d of the %d stored bytes", opts, pos, len(tv.Bytes))
		}
		out.Val = v
	case configapi.ValueType_LEAFLIST_BOOL:
		v := c17eVal{Kind: "bool", List: true}
		for _, b := range tv.Bytes {
			if b > 1 {
				return out, fmt.Errorf("LEAFLIST_BOOL stored as bytes %x", tv.Bytes)
			}
			v.B = append(v.B, b == 1)
		}
		out.Val = v
	case configapi.ValueType_LEAFLIST_FLOAT:
		if len(tv.Bytes)%8 != 0 {
			return out, fmt.Errorf("LEAFLIST_FLOAT holds %d bytes, not a multiple of 8", len(tv.Bytes))
		}
		v := c17eVal{Kind: "float", List: true}
		for p := 0; p < len(tv.Bytes); p += 8 {
			f64 := math.Float64frombits(binary.LittleEndian.Uint64(tv.Bytes[p : p+8]))
			f32 := float32(f64)
			if float64(f32) != f64 || math.Signbit(float64(f32)) != math.Signbit(f64) {
				return out, fmt.Errorf("LEAFLIST_FLOAT entry %v is not a float32", f64)
			}
			v.F = append(v.F, math.Float32bits(f32))
		}
		out.Val = v
	case configapi.ValueType_LEAFLIST_BYTES:
		v := c17eVal{Kind: "bytes", List: true}
		pos := 0
		for _, o := range opts {
			ln := int(o)
			if ln < 0 || pos+ln > len(tv.Bytes) {
				return out, fmt.Errorf("LEAFLIST_BYTES entry lengths %v exceed the %d stored bytes", opts, len(tv.Bytes))
			}
			v.Y = append(v.Y, append([]byte{}, tv.Bytes[pos:pos+ln]...))
			pos += ln
		}
		if pos != len(tv.Bytes) {
			return out, fmt.Errorf("LEAFLIST_BYTES entry lengths %v cover %d of the %d stored bytes", opts, pos, len(tv.Bytes))
		}
		out.Val = v
	default:
		return out, fmt.Errorf("stored with the unexpected type %v", tv.Type)
	}
	return out, nil
}

// c17eNumEqual compares two integer values of possibly different signedness by number.
func c17eNumEqual(a, b c17eVal) bool {
	if a.List != b.List || a.n() != b.n() {
		return false
	}
	num := func(v c17eVal, i int) *big.Int {
		if v.Kind == "int" {
			return big.NewInt(v.I[i])
		}
		return new(big.Int).SetUint64(v.U[i])
	}
	if (a.Kind != "int" && a.Kind != "uint") || (b.Kind != "int" && b.Kind != "uint") {
		return false
	}
	for i := 0; i < a.n(); i++ {
		if num(a, i).Cmp(num(b, i)) != 0 {
			return false
		}
	}
	return true
}

// ---- comparison with a gNMI value on the wire (device request, PROTO Get) -----------------------

// c17eFromWire reads a gNMI TypedValue into a c17eVal (kind = the arm found). ok=false for arms outside the statement.
func c17eFromWire(g *gpb.TypedValue) (v c17eVal, ascii bool, ok bool) {
	one := func(e *gpb.TypedValue, v *c17eVal) (string, bool) {
		switch x := e.GetValue().(type) {
		case *gpb.TypedValue_StringVal:
			v.S = append(v.S, x.StringVal)
			return "string", true
		case *gpb.TypedValue_AsciiVal:
			v.S = append(v.S, x.AsciiVal)
			return "ascii", true
		case *gpb.TypedValue_IntVal:
			v.I = append(v.I, x.IntVal)
			return "int", true
		case *gpb.TypedValue_UintVal:
			v.U = append(v.U, x.UintVal)
			return "uint", true
		case *gpb.TypedValue_BoolVal:
			v.B = append(v.B, x.BoolVal)
			return "bool", true
		case *gpb.TypedValue_BytesVal:
			v.Y = append(v.Y, append([]byte{}, x.BytesVal...))
			return "bytes", true
		case *gpb.TypedValue_DecimalVal:
			//nolint:staticcheck
			if x.DecimalVal == nil {
				return "", false
			}
			//nolint:staticcheck
			v.I = append(v.I, x.DecimalVal.Digits)
			//nolint:staticcheck
			p := int(x.DecimalVal.Precision)
			if len(v.I) > 1 && p != v.Prec {
				return "", false
			}
			v.Prec = p
			return "decimal", true
		case *gpb.TypedValue_FloatVal:
			//nolint:staticcheck
			v.F = append(v.F, math.Float32bits(x.FloatVal))
			return "float", true
		}
		return "", false
	}
	if g == nil {
		return v, false, false
	}
	if ll, isList := g.GetValue().(*gpb.TypedValue_LeaflistVal); isList {
		v.List = true
		kind := ""
		for _, e := range ll.LeaflistVal.GetElement() {
			k, ok := one(e, &v)
			if !ok || (kind != "" && k != kind) {
				return v, false, false
			}
			kind = k
		}
		if kind == "" {
			return v, false, false
		}
		v.Kind = kind
	} else {
		k, ok := one(g, &v)
		if !ok {
			return v, false, false
		}
		v.Kind = k
	}
	if v.Kind == "ascii" {
		v.Kind, ascii = "string", true
	}
	return v, ascii, true
}

// ---- RFC 7951 expectations (independent encoder) ----------------------------------------------

var c17eDecLex = regexp.MustCompile(`^-?[0-9]+(\.[0-9]+)?$`) // RFC 7950 §9.3.1 lexical representation

func c17ePow10(p int) *big.Int { return new(big.Int).Exp(big.NewInt(10), big.NewInt(int64(p)), nil) }

// c17eDecEqual: does the decimal text s denote exactly digits * 10^-prec ? (exact, big integers: no float64)
func c17eDecEqual(s string, digits int64, prec int) bool {
	if !c17eDecLex.MatchString(s) {
		return false
	}
	frac := 0
	if i := strings.IndexByte(s, '.'); i >= 0 {
		frac = len(s) - i - 1
		s = s[:i] + s[i+1:]
	}
	got, ok := new(big.Int).SetString(s, 10)
	if !ok {
		return false
	}
	l := new(big.Int).Mul(got, c17ePow10(prec))
	r := new(big.Int).Mul(big.NewInt(digits), c17ePow10(frac))
	return l.Cmp(r) == 0
}

// c17eDecString is the client's own rendering of a decimal64 (used in JSON-valued updates).
func c17eDecString(digits int64, prec int) string {
	m := new(big.Int).Abs(big.NewInt(digits)).String()
	if prec > 0 {
		for len(m) <= prec {
			m = "0" + m
		}
		m = m[:len(m)-prec] + "." + m[len(m)-prec:]
	}
	if digits < 0 {
		m = "-" + m
	}
	return m
}

type c17eRep interface {
	Known(id, what string)
}

// c17eCheckJSONElem compares one rendered JSON value (decoded with UseNumber) with what RFC 7951 prescribes for
// element i of v at a leaf of effective integer width w.
func c17eCheckJSONElem(v c17eVal, w int, i int, jv any, rep c17eRep) error {
	wantNumber := func(digits string) error {
		n, ok := jv.(json.Number)
		if !ok {
			return fmt.Errorf("rendered as %T %v, want the JSON number %s", jv, jv, digits)
		}
		if n.String() != digits {
			return fmt.Errorf("rendered as number %s, want %s", n.String(), digits)
		}
		return nil
	}
	wantString := func(s string) error {
		got, ok := jv.(string)
		if !ok {
			return fmt.Errorf("rendered as %T %v, want the JSON string %q", jv, jv, s)
		}
		if got != s {
			return fmt.Errorf("rendered as string %q, want %q", got, s)
		}
		return nil
	}
	switch v.Kind {
	case "string":
		return wantString(v.S[i])
	case "int":
		d := strconv.FormatInt(v.I[i], 10)
		if w > 32 {
			return wantString(d) // RFC 7951 §6.1: a 64-bit integer is a string of decimal digits
		}
		return wantNumber(d)
	case "uint":
		d := strconv.FormatUint(v.U[i], 10)
		if w > 32 {
			return wantString(d)
		}
		return wantNumber(d)
	case "bool":
		got, ok := jv.(bool)
		if !ok || got != v.B[i] {
			return fmt.Errorf("rendered as %T %v, want the JSON boolean %v", jv, jv, v.B[i])
		}
		return nil
	case "bytes":
		return wantString(base64.StdEncoding.EncodeToString(v.Y[i])) // RFC 7951 §6.6
	case "decimal":
		got, ok := jv.(string) // RFC 7951 §6.1: decimal64 is a string holding the decimal digits
		if ok && c17eDecEqual(got, v.I[i], v.Prec) {
			return nil
		}
		return fmt.Errorf("rendered as %T %v, want a JSON string denoting exactly %d * 10^-%d", jv, jv, v.I[i], v.Prec)
	case "float":
		f := math.Float32frombits(v.F[i])
		var text string
		switch t := jv.(type) {
		case string: // YANG has no float: the repository renders scalar floats like decimal64, as a string of digits
			text = t
		case json.Number:
			text = t.String()
		default:
			return fmt.Errorf("rendered as %T %v, want the digits of %v", jv, jv, f)
		}
		p, err := strconv.ParseFloat(text, 64)
		if err != nil {
			return fmt.Errorf("rendered as %q, which is not a number", text)
		}
		if float32(p) == f {
			return nil // the digits identify the float32
		}
		if math.Abs(p-float64(f)) > 5e-7+math.Abs(p)*0x1p-50 {
			return fmt.Errorf("rendered as %q = %v, which is neither the float32 %v nor within 5e-7 of it", text, p, f)
		}
		if c17eTrigFloatFmt(f) && !v.List && vstat.IsKnown("C17", c17eFFloatFmt) {
			rep.Known(c17eFFloatFmt, "scalar floats are rendered with %f (six decimals): the float32 cannot be recovered, small magnitudes collapse to 0.000000")
			return nil
		}
		return fmt.Errorf("rendered as %q, which parses to the float32 %v, not %v", text, float32(p), f)
	}
	return fmt.Errorf("harness: unknown kind %q", v.Kind)
}

func c17eCheckJSON(v c17eVal, w int, jv any, rep c17eRep) error {
	if !v.List {
		return c17eCheckJSONElem(v, w, 0, jv, rep)
	}
	arr, ok := jv.([]any)
	if !ok {
		return fmt.Errorf("leaf-list rendered as %T %v, want a JSON array", jv, jv)
	}
	if len(arr) != v.n() {
		return fmt.Errorf("leaf-list of %d entries rendered with %d entries: %v", v.n(), len(arr), arr)
	}
	for i := range arr {
		if err := c17eCheckJSONElem(v, w, i, arr[i], rep); err != nil {
			return fmt.Errorf("entry %d: %v", i, err)
		}
	}
	return nil
}

// c17eFlattenDoc turns an RFC 7951 document of the test-local model into leaf path -> raw JSON value (decoded
// with UseNumber; leaf-lists stay arrays). Members the model does not know are reported under "?<path>".
func c17eFlattenDoc(doc []byte, at string) (map[string]any, error) {
	dec := json.NewDecoder(bytes.NewReader(doc))
	dec.UseNumber()
	var root any
	if err := dec.Decode(&root); err != nil {
		return nil, fmt.Errorf("not valid JSON: %v", err)
	}
	if dec.More() {
		return nil, fmt.Errorf("trailing data after the JSON document")
	}
	obj, ok := root.(map[string]any)
	if !ok {
		return nil, fmt.Errorf("document root is %T, want an object", root)
	}
	out := map[string]any{}
	if at == "/" {
		at = ""
	}
	return out, c17eFlattenObj(obj, at, out)
}

func c17eIsListName(p string) bool { return p == "/ent" }

func c17eFlattenObj(obj map[string]any, prefix string, out map[string]any) error {
	names := make([]string, 0, len(obj))
	for n := range obj {
		names = append(names, n)
	}
	sort.Strings(names)
	for _, name := range names {
		val := obj[name]
		p := prefix + "/" + name
		if c17eIsListName(p) {
			arr, ok := val.([]any)
			if !ok {
				return fmt.Errorf("%s: list rendered as %T, want an array", p, val)
			}
			seen := map[string]bool{}
			for _, e := range arr {
				eo, ok := e.(map[string]any)
				if !ok {
					return fmt.Errorf("%s: list entry rendered as %T, want an object", p, e)
				}
				id, ok := eo["id"].(string)
				if !ok {
					return fmt.Errorf("%s: list entry without a string key member \"id\": %v", p, eo)
				}
				if seen[id] {
					return fmt.Errorf("%s: list entry id=%s appears twice", p, id)
				}
				seen[id] = true
				if err := c17eFlattenObj(eo, p+"[id="+id+"]", out); err != nil {
					return err
				}
			}
			continue
		}
		if _, isLeaf := c17eLeafOf(p); isLeaf {
			out[p] = val
			continue
		}
		if sub, ok := val.(map[string]any); ok && (p == "/types") {
			if err := c17eFlattenObj(sub, p, out); err != nil {
				return err
			}
			continue
		}
		out["?"+p] = val
	}
	return nil
}

// ---- the client's JSON document for a JSON-valued update, and the model plugin's reading of it ---------

func c17eToJSON(l c17eLeaf, v c17eVal) any {
	one := func(i int) any {
		switch v.Kind {
		case "string":
			return v.S[i]
		case "int":
			if l.eff() > 32 {
				return strconv.FormatInt(v.I[i], 10)
			}
			return json.Number(strconv.FormatInt(v.I[i], 10))
		case "uint":
			if l.eff() > 32 {
				return strconv.FormatUint(v.U[i], 10)
			}
			return json.Number(strconv.FormatUint(v.U[i], 10))
		case "bool":
			return v.B[i]
		case "bytes":
			return base64.StdEncoding.EncodeToString(v.Y[i])
		case "decimal":
			return c17eDecString(v.I[i], v.Prec)
		case "float":
			return json.Number(strconv.FormatFloat(float64(math.Float32frombits(v.F[i])), 'g', -1, 32))
		}
		return nil
	}
	if !v.List {
		return one(0)
	}
	arr := make([]any, v.n())
	for i := range arr {
		arr[i] = one(i)
	}
	return arr
}

// c17eClientJSON builds the document of a JSON-valued update rooted at container `at` for the given leaves.
func c17eClientJSON(at string, ops []c17eOp) ([]byte, error) {
	root := map[string]any{}
	base := model.Parse(strings.TrimSuffix(at, "/"))
	for _, op := range ops {
		l, ok := c17eLeafOf(op.Leaf)
		if !ok {
			return nil, fmt.Errorf("unknown leaf %s", op.Leaf)
		}
		p := model.Parse(op.Leaf)
		if len(p) <= len(base) {
			return nil, fmt.Errorf("leaf %s is not beneath %s", op.Leaf, at)
		}
		node := root
		for _, e := range p[len(base) : len(p)-1] {
			if len(e.Keys) == 0 {
				sub, _ := node[e.Name].(map[string]any)
				if sub == nil {
					sub = map[string]any{}
					node[e.Name] = sub
				}
				node = sub
				continue
			}
			arr, _ := node[e.Name].([]any)
			var ent map[string]any
			for _, x := range arr {
				if xo := x.(map[string]any); xo["id"] == e.Keys["id"] {
					ent = xo
				}
			}
			if ent == nil {
				ent = map[string]any{"id": e.Keys["id"]}
				node[e.Name] = append(arr, ent)
			}
			node = ent
		}
		node[p[len(p)-1].Name] = c17eToJSON(l, op.Val)
	}
	return json.Marshal(root)
}

// c17eFromJSON is the model plugin's side: one JSON value of leaf l read back into a value.
func c17eFromJSON(l c17eLeaf, jv any) (c17eVal, error) {
	v := c17eVal{Kind: l.Kind, List: l.List}
	one := func(x any) error {
		switch l.Kind {
		case "string":
			s, ok := x.(string)
			if !ok {
				return fmt.Errorf("want a string")
			}
			v.S = append(v.S, s)
		case "int":
			txt, ok := x.(string)
			if n, isNum := x.(json.Number); isNum {
				txt, ok = n.String(), true
			}
			i, err := strconv.ParseInt(txt, 10, 64)
			if !ok || err != nil {
				return fmt.Errorf("want an integer")
			}
			v.I = append(v.I, i)
		case "uint":
			txt, ok := x.(string)
			if n, isNum := x.(json.Number); isNum {
				txt, ok = n.String(), true
			}
			u, err := strconv.ParseUint(txt, 10, 64)
			if !ok || err != nil {
				return fmt.Errorf("want an unsigned integer")
			}
			v.U = append(v.U, u)
		case "bool":
			b, ok := x.(bool)
			if !ok {
				return fmt.Errorf("want a boolean")
			}
			v.B = append(v.B, b)
		case "bytes":
			s, ok := x.(string)
			raw, err := base64.StdEncoding.DecodeString(s)
			if !ok || err != nil {
				return fmt.Errorf("want base64")
			}
			v.Y = append(v.Y, raw)
		case "decimal":
			s, ok := x.(string)
			if !ok || !c17eDecLex.MatchString(s) {
				return fmt.Errorf("want a decimal64 string")
			}
			prec := 0
			if i := strings.IndexByte(s, '.'); i >= 0 {
				prec = len(s) - i - 1
				s = s[:i] + s[i+1:]
			}
			d, err := strconv.ParseInt(s, 10, 64)
			if err != nil || (len(v.I) > 0 && prec != v.Prec) {
				return fmt.Errorf("want a decimal64 string")
			}
			v.I, v.Prec = append(v.I, d), prec
		case "float":
			n, ok := x.(json.Number)
			f, err := strconv.ParseFloat(n.String(), 32)
			if !ok || err != nil {
				return fmt.Errorf("want a number")
			}
			v.F = append(v.F, math.Float32bits(float32(f)))
		}
		return nil
	}
	if !l.List {
		return v, one(jv)
	}
	arr, ok := jv.([]any)
	if !ok {
		return v, fmt.Errorf("want an array")
	}
	for _, x := range arr {
		if err := one(x); err != nil {
			return v, err
		}
	}
	return v, nil
}

// c17eMkStored is what a model plugin does with a value it parsed: the onos-api constructors with the model's width.
func c17eMkStored(l c17eLeaf, v c17eVal) *configapi.TypedValue {
	w := configapi.Width(l.eff())
	switch {
	case v.Kind == "string" && !v.List:
		return configapi.NewTypedValueString(v.S[0])
	case v.Kind == "string":
		return configapi.NewLeafListStringTv(v.S)
	case v.Kind == "int" && !v.List:
		return configapi.NewTypedValueInt(int(v.I[0]), w)
	case v.Kind == "int":
		return configapi.NewLeafListIntTv(v.I, w)
	case v.Kind == "uint" && !v.List:
		return configapi.NewTypedValueUint(uint(v.U[0]), w)
	case v.Kind == "uint":
		return configapi.NewLeafListUintTv(v.U, w)
	case v.Kind == "bool" && !v.List:
		return configapi.NewTypedValueBool(v.B[0])
	case v.Kind == "bool":
		return configapi.NewLeafListBoolTv(v.B)
	case v.Kind == "bytes" && !v.List:
		return configapi.NewTypedValueBytes(v.Y[0])
	case v.Kind == "bytes":
		return configapi.NewLeafListBytesTv(v.Y)
	case v.Kind == "decimal" && !v.List:
		return configapi.NewTypedValueDecimal(v.I[0], uint8(v.Prec))
	case v.Kind == "decimal":
		return configapi.NewLeafListDecimalTv(v.I, uint8(v.Prec))
	case v.Kind == "float" && !v.List:
		return configapi.NewTypedValueFloat(float64(math.Float32frombits(v.F[0])))
	case v.Kind == "float":
		fs := make([]float32, len(v.F))
		for i, f := range v.F {
			fs[i] = math.Float32frombits(f)
		}
		return configapi.NewLeafListFloatTv(fs)
	}
	return nil
}

// ---- palettes (same as the pure half, without infinities) -----------------------------------------

type c17eSrc struct{ t *rapid.T }

func (r c17eSrc) Intn(n int, label string) int {
	if n <= 1 {
		return 0
	}
	return rapid.IntRange(0, n-1).Draw(r.t, label)
}
func (r c17eSrc) U64(label string) uint64 { return rapid.Uint64().Draw(r.t, label) }

var c17eStringPalette = []string{
	"", "a", "hello world", "é", "日本語", "a\x00b", "\x1f", "tab\there", "line\nbreak", "\"q\\\"", "<&>", " ",
	"😀", "é", " lead", "trail ", "null", "true", "123", "-0", "1e5", "[1,2]", "{}", "\ufeff", "\x7f", "a,b", "\r\n", "\x1d", "a\x1db",
}

var c17eRunePalette = []rune{'a', 'b', 'Z', '0', ' ', '"', '\\', '/', '\n', '\t', 0, 0x1c, 0x1e, 0x1f, 0x7f, 0x80, 0xe9, 0x3b1,
	0x2028, 0x2029, 0xfeff, 0xfffd, 0x1f600, 0x10ffff, '<', '>', '&', ',', '[', ']', '{', '}', '=', 0x1d}

func c17eGenString(s c17eSrc) string {
	if s.Intn(3, "strmode") < 2 {
		return c17eStringPalette[s.Intn(len(c17eStringPalette), "strpal")]
	}
	n := s.Intn(13, "strlen")
	var b strings.Builder
	for i := 0; i < n; i++ {
		b.WriteRune(c17eRunePalette[s.Intn(len(c17eRunePalette), "rune")])
	}
	return b.String()
}

var c17eIntEdges = []int64{127, 128, -128, -129, 255, 256, 32767, 32768, -32768, -32769, 65535, 65536, 1<<31 - 1, 1 << 31, -(1 << 31), -(1 << 31) - 1,
	1<<32 - 1, 1 << 32, 1 << 53, 1<<53 + 1, -(1 << 53) - 1, 1e15, 1e18, 258, 5}

func c17eGenInt(s c17eSrc, w int) int64 {
	min, max := c17eIntRange(w)
	switch s.Intn(10, "intpick") {
	case 0:
		return 0
	case 1:
		return -1
	case 2:
		return 1
	case 3:
		return min
	case 4:
		return max
	case 5:
		return min + 1
	case 6:
		return max - 1
	case 7:
		e := c17eIntEdges[s.Intn(len(c17eIntEdges), "intedge")]
		if e >= min && e <= max {
			return e
		}
		return max
	}
	r := int64(s.U64("intrand"))
	if w < 64 {
		r >>= uint(64 - w)
	}
	return r
}

var c17eUintEdges = []uint64{127, 128, 255, 256, 65535, 65536, 1<<31 - 1, 1 << 31, 1<<32 - 1, 1 << 32, 1 << 53, 1<<53 + 1, 1<<63 - 1, 1 << 63, 1<<63 + 1, 1e19, 258}

func c17eGenUint(s c17eSrc, w int) uint64 {
	max := c17eUintMax(w)
	switch s.Intn(8, "uintpick") {
	case 0:
		return 0
	case 1:
		return 1
	case 2:
		return max
	case 3:
		return max - 1
	case 4, 5:
		e := c17eUintEdges[s.Intn(len(c17eUintEdges), "uintedge")]
		if e <= max {
			return e
		}
		return max
	}
	r := s.U64("uintrand")
	if w < 64 {
		r >>= uint(64 - w)
	}
	return r
}

func c17eGenDigits(s c17eSrc, prec int) int64 {
	p10 := int64(1)
	for i := 0; i < prec; i++ {
		p10 *= 10
	}
	switch s.Intn(17, "decpick") {
	case 0:
		return 0
	case 1:
		return 1
	case 2:
		return -1
	case 3:
		return math.MaxInt64
	case 4:
		return math.MinInt64
	case 5:
		return p10
	case 6:
		return -p10
	case 7:
		return p10 - 1
	case 8:
		return -(p10 - 1)
	case 9:
		return -p10 - 1
	case 10:
		return -5
	case 11:
		return 1<<53 + 1
	case 12:
		return int64(s.U64("decrand")) >> 40
	case 13:
		return -(int64(s.U64("decrand")>>1) % (p10 + 1)) // inside (-1,0] when prec > 0
	case 14:
		return 15
	}
	return int64(s.U64("decrand"))
}

var c17eFloatPalette = []uint32{0, 0x3f800000, 0xbf800000, 0x3fc00000, 0x3dcccccd, 0x80000000, 0x7f7fffff, 0xff7fffff, 1, 0x00800000, 0x4b800000,
	0x4b800001, 0x33d6bf95, 0x47f12065, 0x3eaaaaab, 0x42f6e979, 0x358637bd, 0xb58637bd, 0xbff70000, 0x80000001}

func c17eGenFloat(s c17eSrc) uint32 {
	if s.Intn(3, "fmode") < 2 {
		return c17eFloatPalette[s.Intn(len(c17eFloatPalette), "fpal")]
	}
	f := uint32(s.U64("frand"))
	if f&0x7f800000 == 0x7f800000 {
		f &^= 0x40000000 // NaN/Inf -> a finite number with the same mantissa
	}
	return f
}

func c17eGenBytes(s c17eSrc, allowEmpty bool) []byte {
	n := []int{0, 1, 2, 3, 16, 5, 8, 12}[s.Intn(8, "blen")]
	if n == 0 && !allowEmpty {
		n = 1
	}
	out := make([]byte, 0, n)
	for len(out) < n {
		r := s.U64("bytes")
		for k := 0; k < 8 && len(out) < n; k++ {
			out = append(out, byte(r>>(8*uint(k))))
		}
	}
	return out
}

var c17ePrecs = []int{1, 0, 18, 2, 3, 5, 6, 9, 12, 15, 17, 4, 7, 8, 10, 11, 13, 14, 16}

// c17eGenVal draws a value of the supported domain for leaf l.
func c17eGenVal(s c17eSrc, l c17eLeaf) c17eVal {
	v := c17eVal{Kind: l.Kind, List: l.List}
	n := 1
	if l.List {
		n = 1 + s.Intn(8, "llen")
	}
	if l.Kind == "decimal" {
		if l.MPrec > 0 && s.Intn(2, "modelprec") == 0 {
			v.Prec = l.MPrec // the usual client: the model's fraction-digits
		} else {
			v.Prec = c17ePrecs[s.Intn(len(c17ePrecs), "prec")]
		}
	}
	for i := 0; i < n; i++ {
		switch l.Kind {
		case "string":
			v.S = append(v.S, c17eGenString(s))
		case "int":
			v.I = append(v.I, c17eGenInt(s, l.eff()))
		case "uint":
			v.U = append(v.U, c17eGenUint(s, l.eff()))
		case "bool":
			v.B = append(v.B, s.Intn(2, "bool") == 1)
		case "bytes":
			allowEmpty := !l.List || i == 0 || s.Intn(8, "emptyelem") == 0
			v.Y = append(v.Y, c17eGenBytes(s, allowEmpty))
		case "decimal":
			v.I = append(v.I, c17eGenDigits(s, v.Prec))
		case "float":
			v.F = append(v.F, c17eGenFloat(s))
		}
	}
	return v
}

// ---- same-leaf follow-ups: the next value a history writes to a leaf it wrote before -------------------

func c17eMagBytes(v c17eVal, i int) []byte {
	if v.Kind == "uint" {
		return new(big.Int).SetUint64(v.U[i]).Bytes()
	}
	return new(big.Int).Abs(big.NewInt(v.I[i])).Bytes()
}

// c17eFollow derives from prev (last value written to leaf l with encoding enc) a follow-up whose stored byte
// string tends to COINCIDE with prev's while the value differs: negation, same digits at another precision,
// leaf-list entries merged / split / re-cut at other boundaries, the other integer arm; also the same value again,
// a reversed and a shortened leaf-list. It returns the new value, its encoding and a label for the histogram.
// Only transformations applicable to the value are drawn from.
func c17eFollow(s c17eSrc, l c17eLeaf, prev c17eVal, enc string) (c17eVal, string, string) {
	v := prev.clone()
	lo, hi := c17eIntRange(l.eff())
	if v.Kind == "decimal" {
		lo, hi = math.MinInt64, math.MaxInt64
	}
	neg := func(i int64) int64 {
		if i == lo {
			return hi
		}
		return -i
	}
	// merged: the first two entries become one whose magnitude bytes are theirs concatenated (nil if out of range)
	merged := func() *c17eVal {
		if !v.List || v.n() < 2 || (v.Kind != "int" && v.Kind != "uint" && v.Kind != "decimal") {
			return nil
		}
		m := new(big.Int).SetBytes(append(append([]byte{}, c17eMagBytes(v, 0)...), c17eMagBytes(v, 1)...))
		o := v.clone()
		if v.Kind == "uint" {
			if !m.IsUint64() || m.Uint64() > c17eUintMax(l.eff()) {
				return nil
			}
			o.U = append([]uint64{m.Uint64()}, v.U[2:]...)
			return &o
		}
		if v.I[0] < 0 {
			m.Neg(m)
		}
		if !m.IsInt64() || m.Int64() < lo || m.Int64() > hi {
			return nil
		}
		o.I = append([]int64{m.Int64()}, v.I[2:]...)
		return &o
	}
	// split: the first entry is cut after its first magnitude byte
	split := func() *c17eVal {
		if !v.List || v.n() >= 8 || (v.Kind != "int" && v.Kind != "uint" && v.Kind != "decimal") {
			return nil
		}
		a := c17eMagBytes(v, 0)
		if len(a) < 2 || a[1] == 0 {
			return nil
		}
		h, lw := new(big.Int).SetBytes(a[:1]), new(big.Int).SetBytes(a[1:])
		o := v.clone()
		if v.Kind == "uint" {
			o.U = append([]uint64{h.Uint64(), lw.Uint64()}, v.U[1:]...)
			return &o
		}
		hv := h.Int64()
		if v.I[0] < 0 {
			hv = -hv
		}
		o.I = append([]int64{hv, lw.Int64()}, v.I[1:]...)
		return &o
	}
	var opts []string
	opts = append(opts, "same-value-again")
	switch v.Kind {
	case "int", "decimal", "float", "bool":
		opts = append(opts, "negated", "negated")
	}
	if v.Kind == "decimal" {
		opts = append(opts, "same-digits-other-precision", "same-digits-other-precision")
	}
	if merged() != nil {
		opts = append(opts, "leaf-list-entries-merged", "leaf-list-entries-merged")
	}
	if split() != nil {
		opts = append(opts, "leaf-list-entry-split", "leaf-list-entry-split")
	}
	if v.List && v.Kind == "bytes" && v.n() >= 2 && len(v.Y[0])+len(v.Y[1]) >= 2 {
		opts = append(opts, "leaf-list-boundaries-moved", "leaf-list-boundaries-moved")
	}
	if v.List && v.n() >= 2 {
		opts = append(opts, "leaf-list-reversed", "leaf-list-shortened")
	}
	if v.xarmOK() {
		opts = append(opts, "other-integer-arm")
	}
	if v.Kind == "string" {
		opts = append(opts, "other-text-arm", "fresh-value")
	}
	if v.Kind == "uint" || v.Kind == "bytes" {
		opts = append(opts, "fresh-value")
	}
	label := opts[s.Intn(len(opts), "follow")]
	switch label {
	case "negated":
		k := s.Intn(v.n(), "negidx")
		switch v.Kind {
		case "int", "decimal":
			v.I[k] = neg(v.I[k])
			if v.I[k] < 0 && enc == "xarm" {
				enc = ""
			}
		case "float":
			v.F[k] ^= 0x80000000
		case "bool":
			v.B[k] = !v.B[k]
		}
	case "same-digits-other-precision":
		v.Prec = (v.Prec + 1 + s.Intn(18, "reprec")) % 19
	case "leaf-list-entries-merged":
		v = *merged()
		if !v.xarmOK() && enc == "xarm" {
			enc = ""
		}
	case "leaf-list-entry-split":
		v = *split()
	case "leaf-list-boundaries-moved":
		all := append(append([]byte{}, v.Y[0]...), v.Y[1]...)
		k := 1 + s.Intn(len(all), "cut") // 1..len(all): the first entry is never empty; k == len(all) empties the second (listed finding)
		if k == len(v.Y[0]) {
			k = k%len(all) + 1
		}
		v.Y[0], v.Y[1] = all[:k], all[k:]
	case "leaf-list-reversed":
		for i, j := 0, v.n()-1; i < j; i, j = i+1, j-1 {
			switch v.Kind {
			case "string":
				v.S[i], v.S[j] = v.S[j], v.S[i]
			case "int", "decimal":
				v.I[i], v.I[j] = v.I[j], v.I[i]
			case "uint":
				v.U[i], v.U[j] = v.U[j], v.U[i]
			case "bool":
				v.B[i], v.B[j] = v.B[j], v.B[i]
			case "bytes":
				v.Y[i], v.Y[j] = v.Y[j], v.Y[i]
			case "float":
				v.F[i], v.F[j] = v.F[j], v.F[i]
			}
		}
	case "leaf-list-shortened":
		k := v.n() - 1
		switch v.Kind {
		case "string":
			v.S = v.S[:k]
		case "int", "decimal":
			v.I = v.I[:k]
		case "uint":
			v.U = v.U[:k]
		case "bool":
			v.B = v.B[:k]
		case "bytes":
			v.Y = v.Y[:k]
		case "float":
			v.F = v.F[:k]
		}
	case "other-integer-arm":
		if enc == "xarm" {
			enc = ""
		} else {
			enc = "xarm"
		}
	case "other-text-arm":
		if enc == "ascii" {
			enc = ""
		} else {
			enc = "ascii"
		}
	case "fresh-value":
		return c17eGenVal(s, l), "", label
	}
	return v, enc, label
}
