package sim

import (
	"fmt"
	"strings"

	configapi "github.com/onosproject/onos-api/go/onos/config/v2"
	"pgregory.net/rapid"

	"verif/harness/model"
)

// GenOpts steers the Set generator.
type GenOpts struct {
	Targets []string
	// MultiTarget allows one Set to name several targets.
	MultiTarget bool
	// Leaves restricts the schema leaves used (nil = default working set).
	Leaves []model.LeafDef
	// MaxOps bounds operations per Set.
	MaxOps int
	// AllowPoison lets updates write /poison=bad and the limits leaves.
	AllowPoison bool
	// AllowRefuse lets string updates carry a device refusal marker.
	AllowRefuse bool
	// NoPrefix disables prefix splitting.
	NoPrefix bool
	// NoDelete disables deletes.
	NoDelete bool
	// Avoid* switch off shapes that are listed findings (counted by the caller).
	AvoidSiblingPrefix       bool // do not use names that are textual prefixes of siblings
	AvoidAncestorDescendant  bool // never delete an ancestor and write a descendant in one request
	AvoidSamePathDeleteWrite bool // never delete and write the same path in one request
	AvoidKeyLeafDelete       bool
	AvoidWriteUnderDeleted   bool // never write beneath a node deleted earlier in the history
	AvoidUnkeyedListDelete   bool
	deleted                  map[string][]model.Path
}

// workingSet is the default subset of M1 used for histories: the shapes the
// statements talk about, without the type zoo.
func workingSet(avoidSiblings bool) []model.LeafDef {
	var out []model.LeafDef
	for _, l := range model.M1 {
		if strings.HasPrefix(l.Schema, "/types/") || l.Tags == "pad" || l.Tags == "poison" || l.Tags == "min" || l.Tags == "max" {
			continue
		}
		if avoidSiblings && l.Tags == "sibling" && l.Schema != "/a/b" && l.Schema != "/mtu" {
			continue
		}
		out = append(out, l)
	}
	return out
}

var stringPool = []string{"v1", "v2", "x", "long-value-0123456789", ""}

func instantiate(rt *rapid.T, schema string, label string) model.Path {
	p := model.Parse(schema)
	for i := range p {
		if len(p[i].Keys) == 0 {
			continue
		}
		for k := range sortedKeyNames(p[i].Keys) {
			_ = k
		}
		for _, k := range sortedKeyNames(p[i].Keys) {
			pool := model.KeyPools[k]
			p[i].Keys[k] = pool[rapid.IntRange(0, len(pool)-1).Draw(rt, label+"."+k)]
		}
	}
	return p
}

func sortedKeyNames(m map[string]string) []string {
	out := make([]string, 0, len(m))
	for k := range m {
		out = append(out, k)
	}
	for i := 1; i < len(out); i++ {
		for j := i; j > 0 && out[j] < out[j-1]; j-- {
			out[j], out[j-1] = out[j-1], out[j]
		}
	}
	return out
}

// GenValue draws a value for a leaf definition; key leaves get the value their path dictates.
func GenValue(rt *rapid.T, ld model.LeafDef, p model.Path, o *GenOpts) model.Value {
	if ld.IsKey {
		kv := p[len(p)-2].Keys[ld.Attr()]
		switch ld.Type {
		case configapi.ValueType_UINT:
			var n uint64
			fmt.Sscanf(kv, "%d", &n)
			return model.Uint(n)
		case configapi.ValueType_BOOL:
			return model.Bool(kv == "true")
		}
		return model.Str(kv)
	}
	switch ld.Type {
	case configapi.ValueType_STRING:
		if o != nil && o.AllowRefuse && rapid.IntRange(0, 7).Draw(rt, "refuse") == 0 {
			codes := []int{3, 5, 9, 13, 12, 2}
			return model.Str(fmt.Sprintf("REFUSE:%d", codes[rapid.IntRange(0, len(codes)-1).Draw(rt, "code")]))
		}
		return model.Str(stringPool[rapid.IntRange(0, len(stringPool)-1).Draw(rt, "str")])
	case configapi.ValueType_UINT:
		max := uint64(1)<<ld.Width - 1
		if ld.Width == 64 || ld.Width == 0 {
			max = 1<<63 - 1
		}
		pool := []uint64{0, 1, 7, 1500, max}
		v := pool[rapid.IntRange(0, len(pool)-1).Draw(rt, "uint")]
		if v > max {
			v = max
		}
		return model.Uint(v)
	case configapi.ValueType_INT:
		pool := []int64{0, -1, 42, -(1 << (ld.Width - 1)), 1<<(ld.Width-1) - 1}
		return model.Int(pool[rapid.IntRange(0, len(pool)-1).Draw(rt, "int")])
	case configapi.ValueType_BOOL:
		return model.Bool(rapid.IntRange(0, 1).Draw(rt, "bool") == 1)
	}
	return model.Str("v")
}

func genLeaf(rt *rapid.T, leaves []model.LeafDef, label string) (model.LeafDef, model.Path) {
	ld := leaves[rapid.IntRange(0, len(leaves)-1).Draw(rt, label+".leaf")]
	return ld, instantiate(rt, ld.Schema, label)
}

// GenNode draws a node path: a leaf path cut at some depth; a trailing list
// element may lose its keys (addressing the whole list).
func GenNode(rt *rapid.T, leaves []model.LeafDef, label string, allowUnkeyed bool) model.Path {
	_, p := genLeaf(rt, leaves, label)
	d := rapid.IntRange(1, len(p)).Draw(rt, label+".depth")
	p = p[:d].Clone()
	if allowUnkeyed && len(p[d-1].Keys) > 0 && rapid.IntRange(0, 2).Draw(rt, label+".unkey") == 0 {
		p[d-1].Keys = nil
	}
	return p
}

// GenSet draws one Set request. hist is the list of paths written so far per
// target (used to aim deletes and re-creations at existing data).
func GenSet(rt *rapid.T, o *GenOpts, hist map[string][]model.Path) SetSpec {
	leaves := o.Leaves
	if leaves == nil {
		leaves = workingSet(o.AvoidSiblingPrefix)
	}
	maxOps := o.MaxOps
	if maxOps == 0 {
		maxOps = 4
	}
	nops := rapid.IntRange(1, maxOps).Draw(rt, "nops")
	spec := SetSpec{}
	tgt := o.Targets[rapid.IntRange(0, len(o.Targets)-1).Draw(rt, "target")]
	for i := 0; i < nops; i++ {
		t := tgt
		if o.MultiTarget && len(o.Targets) > 1 && rapid.IntRange(0, 1).Draw(rt, "othertarget") == 1 {
			t = o.Targets[rapid.IntRange(0, len(o.Targets)-1).Draw(rt, "target2")]
		}
		kind := rapid.IntRange(0, 9).Draw(rt, "kind")
		switch {
		case kind >= 7 && !o.NoDelete: // delete
			var p model.Path
			if h := hist[t]; len(h) > 0 && rapid.IntRange(0, 3).Draw(rt, "aim") > 0 {
				// aim at something written before: the leaf itself or one of its ancestors
				base := h[rapid.IntRange(0, len(h)-1).Draw(rt, "histpick")]
				d := rapid.IntRange(1, len(base)).Draw(rt, "depth")
				p = base[:d].Clone()
				if !o.AvoidUnkeyedListDelete && len(p[d-1].Keys) > 0 && rapid.IntRange(0, 3).Draw(rt, "unkey") == 0 {
					p[d-1].Keys = nil
				}
			} else {
				p = GenNode(rt, leaves, "del", !o.AvoidUnkeyedListDelete)
			}
			if o.AvoidKeyLeafDelete {
				if ld, ok := model.Lookup(model.M1, p); ok && ld.IsKey {
					p = p[:len(p)-1]
				}
			}
			spec.Ops = append(spec.Ops, model.Op{Kind: "delete", Target: t, Path: p})
		default:
			var ld model.LeafDef
			var p model.Path
			if o.AllowPoison && rapid.IntRange(0, 5).Draw(rt, "poison") == 0 {
				switch rapid.IntRange(0, 2).Draw(rt, "which") {
				case 0:
					p = model.Parse("/poison")
					bad := rapid.IntRange(0, 1).Draw(rt, "bad") == 1
					v := model.Str("ok")
					if bad {
						v = model.Str("bad")
					}
					spec.Ops = append(spec.Ops, model.Op{Kind: "update", Target: t, Path: p, Val: &v})
					continue
				case 1:
					p = model.Parse("/limits/min")
				case 2:
					p = model.Parse("/limits/max")
				}
				v := model.Uint(uint64(rapid.IntRange(0, 9).Draw(rt, "limit")))
				spec.Ops = append(spec.Ops, model.Op{Kind: "update", Target: t, Path: p, Val: &v})
				continue
			}
			sib := false
			if n := len(spec.Ops); n > 0 && spec.Ops[n-1].Kind != "delete" && spec.Ops[n-1].Target == t && rapid.IntRange(0, 2).Draw(rt, "sibling") == 0 {
				// clients write several leaves of one container or list entry in one request
				ld, p, sib = siblingLeaf(rt, leaves, spec.Ops[n-1].Path)
			}
			if sib {
				// drawn above
			} else if h := hist[t]; len(h) > 0 && rapid.IntRange(0, 2).Draw(rt, "rewrite") == 0 {
				p = h[rapid.IntRange(0, len(h)-1).Draw(rt, "histpick")].Clone()
				ld, _ = model.Lookup(model.M1, p)
			} else {
				ld, p = genLeaf(rt, leaves, "upd")
			}
			v := GenValue(rt, ld, p, o)
			k := "update"
			if kind == 6 {
				k = "replace"
			}
			spec.Ops = append(spec.Ops, model.Op{Kind: k, Target: t, Path: p, Val: &v})
			if kind == 6 && !ld.IsKey && rapid.IntRange(0, 2).Draw(rt, "replaceandupdate") == 0 {
				// the same leaf in the replace list and in the update list of one request: the update is applied last
				v2 := GenValue(rt, ld, p, o)
				op2 := model.Op{Kind: "update", Target: t, Path: p.Clone(), Val: &v2}
				if rapid.IntRange(0, 1).Draw(rt, "updatefirst") == 0 {
					spec.Ops = append(spec.Ops, op2)
				} else {
					spec.Ops = append(spec.Ops[:len(spec.Ops)-1], op2, spec.Ops[len(spec.Ops)-1])
				}
			}
		}
	}
	spec.Ops = sanitizeOps(spec.Ops, o)
	if o.AvoidWriteUnderDeleted {
		var keep []model.Op
		for _, op := range spec.Ops {
			bad := false
			if op.Kind != "delete" {
				for _, d := range o.deleted[op.Target] {
					if model.Covers(d, op.Path) {
						bad = true
					}
				}
			}
			if !bad {
				keep = append(keep, op)
			}
		}
		if len(keep) == 0 {
			v := model.Uint(1)
			keep = append(keep, model.Op{Kind: "update", Target: spec.Ops[0].Target, Path: model.Parse("/mtu"), Val: &v})
		}
		spec.Ops = keep
	}
	for _, op := range spec.Ops {
		if op.Kind == "delete" {
			if o.deleted == nil {
				o.deleted = map[string][]model.Path{}
			}
			o.deleted[op.Target] = append(o.deleted[op.Target], EffectiveDelete(op.Path))
		}
	}
	// target placement: all ops on one target -> maybe move the target to the prefix
	same := true
	for _, op := range spec.Ops {
		if op.Target != spec.Ops[0].Target {
			same = false
		}
	}
	if same && rapid.IntRange(0, 1).Draw(rt, "prefixTarget") == 1 {
		spec.PrefixTarget = spec.Ops[0].Target
		if rapid.IntRange(0, 1).Draw(rt, "keepPathTargets") == 0 {
			for i := range spec.Ops {
				spec.Ops[i].Target = ""
			}
		}
	}
	// prefix elems: a common element prefix of all paths may move into the request prefix
	if !o.NoPrefix && rapid.IntRange(0, 2).Draw(rt, "prefixElems") == 0 {
		common := commonPrefix(spec.Ops)
		if common > 0 {
			n := rapid.IntRange(1, common).Draw(rt, "prefixLen")
			spec.PrefixElems = spec.Ops[0].Path[:n].Clone()
			for i := range spec.Ops {
				spec.Ops[i].Path = spec.Ops[i].Path[n:].Clone()
			}
		}
	}
	return spec
}

// siblingLeaf draws a leaf that shares its parent node (same container, same list entry) with prev.
func siblingLeaf(rt *rapid.T, leaves []model.LeafDef, prev model.Path) (model.LeafDef, model.Path, bool) {
	if len(prev) < 2 {
		return model.LeafDef{}, nil, false
	}
	ps := model.SchemaOf(prev)
	i := strings.LastIndex(ps, "/")
	if i <= 0 {
		return model.LeafDef{}, nil, false
	}
	var cands []model.LeafDef
	for _, l := range leaves {
		if l.Schema != ps && strings.HasPrefix(l.Schema, ps[:i+1]) && !strings.Contains(l.Schema[i+1:], "/") {
			cands = append(cands, l)
		}
	}
	if len(cands) == 0 {
		return model.LeafDef{}, nil, false
	}
	ld := cands[rapid.IntRange(0, len(cands)-1).Draw(rt, "sibleaf")]
	p := prev[:len(prev)-1].Clone()
	p = append(p, model.Elem{Name: ld.Attr()})
	return ld, p, true
}

// commonPrefix returns how many leading elements all op paths share, leaving
// at least one element in every path.
func commonPrefix(ops []model.Op) int {
	n := len(ops[0].Path) - 1
	for _, o := range ops[1:] {
		if len(o.Path)-1 < n {
			n = len(o.Path) - 1
		}
	}
	for i := 0; i < n; i++ {
		for _, o := range ops[1:] {
			if o.Path[:i+1].String() != ops[0].Path[:i+1].String() {
				return i
			}
		}
	}
	if n < 0 {
		n = 0
	}
	return n
}

// EffectiveDelete returns the node a delete really addresses: deleting a list
// KEY leaf deletes the list entry (documented in doDelete).
func EffectiveDelete(p model.Path) model.Path {
	if ld, ok := model.Lookup(model.M1, p); ok && ld.IsKey && len(p) > 1 {
		return p[:len(p)-1]
	}
	return p
}

// sanitizeOps removes duplicates the gNMI semantics make ambiguous or that
// are listed findings the caller asked to avoid.
func sanitizeOps(ops []model.Op, o *GenOpts) []model.Op {
	var out []model.Op
	for i, a := range ops {
		drop := false
		for j, b := range ops {
			if i == j || a.Target != b.Target {
				continue
			}
			// two writes of one path in one request: keep the last only (order of
			// duplicates inside update[] is not something the statement speaks about)
			// (a replace and an update of one path are both kept: gNMI applies replaces before updates)
			if a.Kind != "delete" && a.Kind == b.Kind && a.Path.String() == b.Path.String() && j > i {
				drop = true
			}
			if o.AvoidSamePathDeleteWrite && a.Kind == "delete" && b.Kind != "delete" && a.Path.String() == b.Path.String() {
				drop = true
			}
			if o.AvoidAncestorDescendant && a.Kind == "delete" && b.Kind != "delete" && model.Covers(EffectiveDelete(a.Path), b.Path) && a.Path.String() != b.Path.String() {
				drop = true
			}
			// a delete beneath another delete of the same request is redundant, but its
			// ROLLBACK is "ancestor tombstone + descendant write" in one change: the
			// same listed finding (F-ancestor-delete-order) through the back door
			if o.AvoidAncestorDescendant && a.Kind == "delete" && b.Kind == "delete" && model.Covers(EffectiveDelete(b.Path), EffectiveDelete(a.Path)) &&
				(len(EffectiveDelete(b.Path)) < len(EffectiveDelete(a.Path)) || j < i) {
				drop = true
			}
		}
		if !drop {
			out = append(out, a)
		}
	}
	if len(out) == 0 {
		out = append(out, ops[len(ops)-1])
	}
	return out
}

// GetSpec is one generated Get.
type GetSpec struct {
	Target string     `json:"target"`
	Path   model.Path `json:"path"`
	JSON   bool       `json:"json,omitempty"`
}

// GenGet draws a Get query: root, exact leaf, container, list entry, "*" in a
// name, "*" in a key, "...".
func GenGet(rt *rapid.T, targets []string, leaves []model.LeafDef, hist map[string][]model.Path, wild bool) GetSpec {
	g := GetSpec{Target: targets[rapid.IntRange(0, len(targets)-1).Draw(rt, "gtarget")]}
	g.JSON = rapid.IntRange(0, 3).Draw(rt, "json") == 0
	kind := rapid.IntRange(0, 6).Draw(rt, "gkind")
	if !wild && kind >= 4 {
		kind = kind - 3
	}
	var base model.Path
	if h := hist[g.Target]; len(h) > 0 && rapid.IntRange(0, 2).Draw(rt, "ghist") > 0 {
		base = h[rapid.IntRange(0, len(h)-1).Draw(rt, "ghistpick")].Clone()
	} else {
		_, base = genLeaf(rt, leaves, "get")
	}
	switch kind {
	case 0: // root
		g.Path = nil
	case 1: // exact leaf
		g.Path = base
	case 2, 3: // interior node
		d := rapid.IntRange(1, len(base)).Draw(rt, "gdepth")
		g.Path = base[:d]
		if len(g.Path[d-1].Keys) > 0 && rapid.IntRange(0, 2).Draw(rt, "gunkey") == 0 {
			g.Path[d-1].Keys = nil
		}
	case 4: // "*" as a name (only in place of an element without keys: whether "*"
		// also stands for a keyed list element is not something the code documents)
		i := rapid.IntRange(0, len(base)-1).Draw(rt, "gstar")
		g.Path = base
		if len(g.Path[i].Keys) == 0 {
			g.Path[i] = model.Elem{Name: "*"}
		}
	case 5: // "*" as a key value
		g.Path = base
		done := false
		for i := range g.Path {
			for _, k := range sortedKeyNames(g.Path[i].Keys) {
				if !done {
					g.Path[i].Keys[k] = "*"
					done = true
				}
			}
		}
	case 6: // "..." in place of one or more intermediate elements
		if len(base) < 2 {
			g.Path = base
			break
		}
		i := rapid.IntRange(0, len(base)-2).Draw(rt, "gdots")
		g.Path = append(append(base[:i].Clone(), model.Elem{Name: "..."}), base[len(base)-1])
	}
	return g
}
