package sim

import (
	"context"
	"fmt"
	"os"
	"sort"
	"strings"
	"sync"
	"time"

	"github.com/atomix/go-sdk/pkg/test"
	adminapi "github.com/onosproject/onos-api/go/onos/config/admin"
	configapi "github.com/onosproject/onos-api/go/onos/config/v2"
	topoapi "github.com/onosproject/onos-api/go/onos/topo"
	"github.com/onosproject/onos-config/pkg/controller/connection"
	"github.com/onosproject/onos-config/pkg/controller/target"
	ctlutils "github.com/onosproject/onos-config/pkg/controller/utils"
	cfgctl "github.com/onosproject/onos-config/pkg/controller/v2/configuration"
	mastctl "github.com/onosproject/onos-config/pkg/controller/v2/mastership"
	propctl "github.com/onosproject/onos-config/pkg/controller/v2/proposal"
	txctl "github.com/onosproject/onos-config/pkg/controller/v2/transaction"
	nbadmin "github.com/onosproject/onos-config/pkg/northbound/admin"
	nbgnmi "github.com/onosproject/onos-config/pkg/northbound/gnmi/v2"
	"github.com/onosproject/onos-config/pkg/pluginregistry"
	sb "github.com/onosproject/onos-config/pkg/southbound/gnmi"
	cfgstore "github.com/onosproject/onos-config/pkg/store/v2/configuration"
	propstore "github.com/onosproject/onos-config/pkg/store/v2/proposal"
	txstore "github.com/onosproject/onos-config/pkg/store/v2/transaction"
	"github.com/onosproject/onos-lib-go/pkg/controller"
	"github.com/onosproject/onos-lib-go/pkg/logging"

	"verif/harness/fakes"
	"verif/harness/model"
	"verif/harness/vstat"
)

func init() {
	logging.SetLevel(logging.FatalLevel)
	_ = os.Setenv("POD_ID", "onos-config-0")
}

// TargetSpec describes one target of a world.
type TargetSpec struct {
	ID         string `json:"id"`
	Type       string `json:"type,omitempty"`    // default model.M1Name
	Version    string `json:"version,omitempty"` // default model.M1Version
	Online     bool   `json:"online"`            // device reachable from the start
	NoPlugin   bool   `json:"noPlugin,omitempty"`
	Persistent bool   `json:"persistent,omitempty"`
}

// Options configures a world.
type Options struct {
	Targets      []TargetSpec
	SetSizeLimit int
	Mode         Mode
	Drawn        bool
	Schema       []model.LeafDef // default model.M1
}

// World is one assembled system under test.
type World struct {
	X      *vstat.Ctx
	Opt    Options
	atomix *test.Client
	Topo   *fakes.Topo
	Conns  *fakes.Conns
	St     *Stores
	Plugin *fakes.Plugin
	Reg    pluginregistry.PluginRegistry
	Gnmi   *nbgnmi.Server
	Admin  *nbadmin.Server
	S      *Sched
	Schema []model.LeafDef

	Devices map[string]*fakes.Device
	Specs   map[string]TargetSpec
	// link state the harness wants (a crash drops connections; OnRestart re-establishes)
	linkUp map[string]bool

	nbGate *Gate
	calls  []*Call
	mu     sync.Mutex
	closed bool
}

// NewWorld builds a world: real stores on a fresh in-memory Atomix client,
// real plugin registry around the fake plugin, fake topology, fake connection
// manager with real southbound connections to fake devices, real reconcilers
// and watchers under the harness scheduler, real gNMI and admin servers.
func NewWorld(x *vstat.Ctx, opt Options) (*World, error) {
	w := &World{X: x, Opt: opt, Devices: map[string]*fakes.Device{}, Specs: map[string]TargetSpec{}, linkUp: map[string]bool{}}
	w.Schema = opt.Schema
	if w.Schema == nil {
		w.Schema = model.M1
	}
	w.atomix = test.NewClient()
	w.Topo = fakes.NewTopo()
	w.Conns = fakes.NewConns()
	w.St = &Stores{}
	var err error
	w.St.cut = &atomixCut{}
	if w.St.Cfg, err = cfgstore.NewAtomixStore(&cutClient{inner: w.atomix, cut: w.St.cut}); err != nil {
		return nil, err
	}
	if w.St.Prop, err = propstore.NewAtomixStore(w.atomix); err != nil {
		return nil, err
	}
	if w.St.Tx, err = txstore.NewAtomixStore(w.atomix); err != nil {
		return nil, err
	}
	w.Plugin = fakes.NewPlugin(model.M1Name, model.M1Version, w.Schema)
	w.Reg = pluginregistry.NewPluginRegistry("fake-plugin:5152")
	w.Reg.NewClientFn(func(string) (adminapi.ModelPluginServiceClient, error) { return w.Plugin, nil })
	w.Reg.Start()

	ctx := context.Background()
	_ = w.Topo.Create(ctx, &topoapi.Object{ID: ctlutils.GetOnosConfigID(), Type: topoapi.Object_ENTITY,
		Obj: &topoapi.Object_Entity{Entity: &topoapi.Entity{KindID: topoapi.ONOS_CONFIG}}})
	for _, ts := range opt.Targets {
		if ts.Type == "" {
			ts.Type = model.M1Name
		}
		if ts.Version == "" {
			ts.Version = model.M1Version
		}
		if ts.NoPlugin {
			ts.Type = "nomodel"
		}
		w.Specs[ts.ID] = ts
		o := &topoapi.Object{ID: topoapi.ID(ts.ID), Type: topoapi.Object_ENTITY,
			Obj: &topoapi.Object_Entity{Entity: &topoapi.Entity{KindID: topoapi.ID(ts.Type)}}}
		_ = o.SetAspect(&topoapi.Configurable{Type: ts.Type, Version: ts.Version, Target: ts.ID, Address: "bufnet", Persistent: ts.Persistent})
		if err := w.Topo.Create(ctx, o); err != nil {
			return nil, err
		}
		w.Devices[ts.ID] = fakes.NewDevice(ts.ID)
	}

	w.S = newSched(w, x)
	w.S.Mode = opt.Mode
	w.S.Drawn = opt.Drawn
	w.nbGate = &Gate{s: w.S, nb: true, name: "nb"}
	nbTx := &txView{st: w.St, g: w.nbGate}
	nbTx.nbWatch = w.nbWatch
	nbTx.afterCreate = w.nbAfterCreate
	w.Gnmi = nbgnmi.NewServerForVerif(w.Topo, nbTx, w.St.Prop, w.St.Cfg, w.Reg, w.Conns, opt.SetSizeLimit)
	w.Admin = nbadmin.NewServerForVerif(nbTx, w.St.Cfg, w.Reg)

	w.buildControllers()
	w.rebuildWatchers()
	if err := w.S.startWatchers(); err != nil {
		return nil, err
	}
	w.S.OnRestart = func() {
		for _, id := range w.TargetIDs() {
			if w.linkUp[id] {
				w.linkUp[id] = false
				_ = w.LinkUp(id)
			}
		}
	}
	for _, ts := range opt.Targets {
		if ts.Online {
			if err := w.LinkUp(ts.ID); err != nil {
				return nil, err
			}
		}
	}
	return w, nil
}

// TargetIDs returns the target ids in sorted order.
func (w *World) TargetIDs() []string {
	ids := make([]string, 0, len(w.Specs))
	for id := range w.Specs {
		ids = append(ids, id)
	}
	sort.Strings(ids)
	return ids
}

func propPartition(id controller.ID) string {
	s := string(id.Value.(configapi.ProposalID))
	if i := strings.LastIndex(s, "-"); i >= 0 {
		return s[:i]
	}
	return s
}

func single(controller.ID) string { return "" }

func (w *World) buildControllers() {
	s := w.S
	s.addCtl("target", single, func(g *Gate) controller.Reconciler {
		return target.NewReconcilerForVerif(&topoView{w.Topo, g}, &connsView{w.Conns, g})
	})
	s.addCtl("connection", single, func(g *Gate) controller.Reconciler {
		return connection.NewReconcilerForVerif(&topoView{w.Topo, g}, &connsView{w.Conns, g})
	})
	s.addCtl("mastership", single, func(g *Gate) controller.Reconciler {
		return mastctl.NewReconcilerForVerif(&topoView{w.Topo, g}, &cfgView{w.St, g})
	})
	s.addCtl("configuration", single, func(g *Gate) controller.Reconciler {
		return cfgctl.NewReconcilerForVerif(&topoView{w.Topo, g}, &connsView{w.Conns, g}, &cfgView{w.St, g})
	})
	s.addCtl("proposal", propPartition, func(g *Gate) controller.Reconciler {
		return propctl.NewReconcilerForVerif(&topoView{w.Topo, g}, &connsView{w.Conns, g}, &propView{w.St, g}, &cfgView{w.St, g}, w.Reg)
	})
	s.addCtl("transaction", single, func(g *Gate) controller.Reconciler {
		return txctl.NewReconcilerForVerif(&txView{st: w.St, g: g}, &propView{w.St, g})
	})
}

func (w *World) ctl(name string) *ctl {
	for _, c := range w.S.ctls {
		if c.name == name {
			return c
		}
	}
	return nil
}

// rebuildWatchers creates a fresh set of real watchers (after start and after every crash).
func (w *World) rebuildWatchers() {
	s := w.S
	s.watchers = nil
	ng := &Gate{} // watchers are not gated
	_ = ng
	tv := &topoView{w.Topo, nil}
	cv := &connsView{w.Conns, nil}
	s.addWatcher(w.ctl("target"), "target/topo", target.NewTopoWatcherForVerif(tv), 1)
	s.addWatcher(w.ctl("target"), "target/conn", target.NewConnWatcherForVerif(cv), 1)
	s.addWatcher(w.ctl("connection"), "connection/conn", connection.NewConnWatcherForVerif(cv), 1)
	s.addWatcher(w.ctl("connection"), "connection/topo", connection.NewTopoWatcherForVerif(tv), 1)
	s.addWatcher(w.ctl("mastership"), "mastership/topo", mastctl.NewTopoWatcherForVerif(tv), 1)
	s.addWatcher(w.ctl("mastership"), "mastership/cfg", mastctl.NewConfigurationStoreWatcherForVerif(&cfgView{w.St, nil}), 1)
	s.addWatcher(w.ctl("configuration"), "configuration/cfg", cfgctl.NewWatcherForVerif(&cfgView{w.St, nil}), 1)
	s.addWatcher(w.ctl("configuration"), "configuration/topo", cfgctl.NewTopoWatcherForVerif(tv), 1)
	s.addWatcher(w.ctl("proposal"), "proposal/prop", propctl.NewWatcherForVerif(&propView{w.St, nil}), 1)
	s.addWatcher(w.ctl("proposal"), "proposal/cfg", propctl.NewConfigurationWatcherForVerif(&cfgView{w.St, nil}), 2)
	s.addWatcher(w.ctl("transaction"), "transaction/tx", txctl.NewWatcherForVerif(&txView{st: w.St}), 1)
	s.addWatcher(w.ctl("transaction"), "transaction/prop", txctl.NewProposalWatcherForVerif(&propView{w.St, nil}), 1)
}

func (w *World) emitSentinels(gen int) {
	sid := fmt.Sprintf("%s%d", sentinelPrefix, gen)
	w.St.txHub.Emit(configapi.TransactionEvent{Transaction: configapi.Transaction{ID: configapi.TransactionID(sid), Index: sentinelBase + configapi.Index(gen)}})
	w.St.propHub.Emit(configapi.ProposalEvent{Proposal: configapi.Proposal{ID: configapi.ProposalID(sid), TargetID: "~s", TransactionIndex: sentinelBase + configapi.Index(gen)}})
	w.St.cfgHub.Emit(configapi.ConfigurationEvent{Configuration: configapi.Configuration{ID: configapi.ConfigurationID(sid), TargetID: "~s", Index: configapi.Index(gen),
		Status: configapi.ConfigurationStatus{Applied: configapi.AppliedConfigurationStatus{Index: configapi.Index(gen)}}}})
	ent := topoapi.Object{ID: topoapi.ID(sid), Type: topoapi.Object_ENTITY, Obj: &topoapi.Object_Entity{Entity: &topoapi.Entity{KindID: "~s"}}}
	_ = ent.SetAspect(&topoapi.Configurable{Type: "~s", Version: "0"})
	w.Topo.EmitRaw(topoapi.Event{Type: topoapi.EventType_NONE, Object: ent})
	rel := topoapi.Object{ID: topoapi.ID(sid), Type: topoapi.Object_RELATION, Obj: &topoapi.Object_Relation{Relation: &topoapi.Relation{
		KindID: topoapi.CONTROLS, SrcEntityID: ctlutils.GetOnosConfigID(), TgtEntityID: "~s-none"}}}
	w.Topo.EmitRaw(topoapi.Event{Type: topoapi.EventType_NONE, Object: rel})
	w.Conns.EmitRaw(&fakes.SentinelConn{Cid: sb.ConnID(sid), Tid: topoapi.ID(sid)})
}

func (w *World) liveSubscriptions() int {
	return w.St.txHub.Len() + w.St.propHub.Len() + w.St.cfgHub.Len() + w.Topo.Watchers() + w.Conns.Watchers()
}

// dropVolatile drops what does not survive a process crash: connections.
func (w *World) dropVolatile() {
	for _, id := range w.TargetIDs() {
		for _, cid := range w.Conns.Live(topoapi.ID(id)) {
			w.Conns.LinkDown(cid)
		}
	}
	w.mu.Lock()
	calls := append([]*Call{}, w.calls...)
	w.mu.Unlock()
	for _, c := range calls {
		c.abort("process crashed")
	}
}

func (w *World) deviceCalls() int {
	n := 0
	for _, d := range w.Devices {
		n += d.LogLen()
	}
	return n
}

func (w *World) allIDs() (map[string][]controller.ID, error) {
	ctx := context.Background()
	out := map[string][]controller.ID{}
	txs, err := w.St.Tx.List(ctx)
	if err != nil {
		return nil, err
	}
	for _, t := range txs {
		out["transaction"] = append(out["transaction"], controller.NewID(t.Index))
	}
	props, err := w.St.Prop.List(ctx)
	if err != nil {
		return nil, err
	}
	sort.Slice(props, func(i, j int) bool {
		if props[i].TransactionIndex != props[j].TransactionIndex {
			return props[i].TransactionIndex < props[j].TransactionIndex
		}
		return props[i].TargetID < props[j].TargetID
	})
	for _, p := range props {
		out["proposal"] = append(out["proposal"], controller.NewID(p.ID))
	}
	cfgs, err := w.St.Cfg.List(ctx)
	if err != nil {
		return nil, err
	}
	sort.Slice(cfgs, func(i, j int) bool { return cfgs[i].ID < cfgs[j].ID })
	for _, c := range cfgs {
		out["configuration"] = append(out["configuration"], controller.NewID(c.ID))
		out["mastership"] = append(out["mastership"], controller.NewID(c.ID))
	}
	for _, id := range w.TargetIDs() {
		out["target"] = append(out["target"], controller.NewID(topoapi.ID(id)))
		for _, cid := range w.Conns.Live(topoapi.ID(id)) {
			out["connection"] = append(out["connection"], controller.NewID(cid))
		}
	}
	return out, nil
}

// LinkUp brings up a (new) connection to the target's device.
func (w *World) LinkUp(id string) error {
	if w.linkUp[id] {
		return nil
	}
	_, label, err := w.Conns.LinkUp(topoapi.ID(id), w.Devices[id])
	if err != nil {
		return err
	}
	w.linkUp[id] = true
	w.X.Logf("  link up %s (%s)", id, label)
	return nil
}

// LinkUpStandby adds ANOTHER connection to the target's device while one is up
// (a second channel of this node: the mastership controller then has several
// CONTROLS relations to choose from).
func (w *World) LinkUpStandby(id string) error {
	_, label, err := w.Conns.LinkUp(topoapi.ID(id), w.Devices[id])
	if err != nil {
		return err
	}
	w.linkUp[id] = true
	w.X.Logf("  standby link up %s (%s)", id, label)
	return nil
}

// LinkDownMaster drops only the connection that is the target's master (if any);
// other connections stay.
func (w *World) LinkDownMaster(id string) {
	c := w.Config(id)
	if c == nil || c.Status.Mastership.Master == "" {
		return
	}
	m := sb.ConnID(c.Status.Mastership.Master)
	if _, ok := w.Conns.Get(context.Background(), m); !ok {
		return
	}
	w.X.Logf("  master link down %s (%s)", id, w.Conns.Label(m))
	w.Conns.LinkDown(m)
	if len(w.Conns.Live(topoapi.ID(id))) == 0 {
		w.linkUp[id] = false
	}
}

// LinkDown tears down the target's connection(s).
func (w *World) LinkDown(id string) {
	for _, cid := range w.Conns.Live(topoapi.ID(id)) {
		w.Conns.LinkDown(cid)
	}
	w.linkUp[id] = false
	w.X.Logf("  link down %s", id)
}

// Connected reports whether the harness wants the link up.
func (w *World) Connected(id string) bool { return w.linkUp[id] }

// Close tears the world down.
func (w *World) Close() {
	w.mu.Lock()
	if w.closed {
		w.mu.Unlock()
		return
	}
	w.closed = true
	calls := append([]*Call{}, w.calls...)
	w.mu.Unlock()
	for _, c := range calls {
		c.abort("world closed")
	}
	w.S.stop()
	w.Conns.CloseAll()
	for _, d := range w.Devices {
		d.Stop()
	}
	done := make(chan struct{})
	go func() {
		_ = w.St.Tx.Close(context.Background())
		_ = w.St.Prop.Close(context.Background())
		_ = w.St.Cfg.Close(context.Background())
		w.atomix.Close()
		close(done)
	}()
	select {
	case <-done:
	case <-time.After(10 * time.Second):
	}
}

// ConfigID returns the configuration id of a target.
func (w *World) ConfigID(target string) configapi.ConfigurationID {
	ts := w.Specs[target]
	return cfgstore.NewID(configapi.TargetID(target), configapi.TargetType(ts.Type), configapi.TargetVersion(ts.Version))
}

// Config reads a target's configuration record (nil if none).
func (w *World) Config(target string) *configapi.Configuration {
	c, err := w.St.Cfg.Get(context.Background(), w.ConfigID(target))
	if err != nil {
		return nil
	}
	return c
}

// DescribeState renders the persistent state compactly (for histories).
func (w *World) DescribeState() string {
	var b strings.Builder
	txs, _ := w.St.Tx.List(context.Background())
	for _, t := range txs {
		f := ""
		if t.Status.Failure != nil {
			f = ":" + t.Status.Failure.Type.String()
		}
		fmt.Fprintf(&b, "[tx%d %v%s] ", t.Index, t.Status.State, f)
	}
	for _, id := range w.TargetIDs() {
		c := w.Config(id)
		if c == nil {
			fmt.Fprintf(&b, "{%s: no config} ", id)
			continue
		}
		fmt.Fprintf(&b, "{%s idx=%d prop=%d com=%d app=%d %v term=%d/%d master=%q} ", id, c.Index, c.Status.Proposed.Index, c.Status.Committed.Index,
			c.Status.Applied.Index, c.Status.State, c.Status.Mastership.Term, c.Status.Applied.Mastership.Term, w.Conns.Label(sb.ConnID(c.Status.Mastership.Master)))
	}
	return b.String()
}
