package sim

// C12 - no request can crash the server.
//
// Any gNMI Capabilities, Get, Set or Subscribe request and any admin request
// that can be decoded from the wire, whatever its paths, keys, values,
// extensions or omissions, is answered with a response or a gRPC status; the
// server process never panics (the gRPC server runs without a recovery
// interceptor, so one panicking handler - or one controller panicking over
// what a request logged - ends onos-config for every client).

import (
	"fmt"
	"math"
	"os"
	"testing"

	adminapi "github.com/onosproject/onos-api/go/onos/config/admin"
	gpb "github.com/openconfig/gnmi/proto/gnmi"
	"github.com/openconfig/gnmi/proto/gnmi_ext"
	"pgregory.net/rapid"

	"verif/harness/model"
	"verif/harness/vstat"
)

// C12Case is a short sequence of northbound calls against one world.
type C12Case struct {
	// World: "empty" (targets only) or "pop" (populated by a fixed valid history).
	World string   `json:"world"`
	Reqs  []C12Req `json:"reqs"`
}

// c12MaxWire is gRPC's default MaxRecvMsgSize: what onos-config's servers run with.
const c12MaxWire = 4 << 20

// c12Encode encodes the generated message(s) of one call with the gRPC codec.
func c12Encode(g *c12G, kind string, msgs []any) C12Req {
	r := C12Req{Kind: kind}
	for _, m := range msgs {
		b, err := c12Codec.Marshal(m)
		if err != nil {
			// not expressible on the wire (e.g. a proto3 string that is not UTF-8): outside the domain, counted
			r.Unencodable++
			continue
		}
		if len(b) > c12MaxWire {
			// larger than a gRPC server's default receive limit (4 MB): the transport refuses it before decoding
			r.TooLarge++
			continue
		}
		if g != nil && g.pct(8, "wire.mutate") {
			b = g.mutateWire(b)
		}
		if b == nil {
			b = []byte{}
		}
		r.Wire = append(r.Wire, b)
	}
	if g != nil {
		r.Tags = g.sortedTags()
	}
	return r
}

var c12KindWeights = []struct {
	kind string
	w    int
}{
	{c12Set, 36}, {c12Get, 22}, {c12Sub, 9}, {c12Cap, 2}, {c12LeafSel, 11}, {c12Rollback, 3}, {c12ListModels, 2},
	{c12GetTx, 3}, {c12ListTx, 2}, {c12WatchTx, 3}, {c12GetCfg, 3}, {c12ListCfg, 2}, {c12WatchCfg, 2},
}

func genC12ReqOfKind(rt *rapid.T, kind string) C12Req {
	g := &c12G{rt: rt, tags: map[string]bool{}}
	var r C12Req
	switch kind {
	case c12Set:
		r = c12Encode(g, kind, []any{g.setReq()})
	case c12Get:
		r = c12Encode(g, kind, []any{g.getReq()})
	case c12Sub:
		var ms []any
		for _, m := range g.subMsgs() {
			ms = append(ms, m)
		}
		r = c12Encode(g, kind, ms)
		if g.pct(30, "sub.end") {
			r.End = "cancel"
		}
	case c12Cap:
		r = c12Encode(g, kind, []any{&gpb.CapabilityRequest{Extension: g.extensions()}})
	default:
		r = c12Encode(g, kind, []any{g.adminMsg(kind)})
	}
	if g.pct(6, "md") {
		r.MD = "user"
		r.Tags = append(r.Tags, "metadata:user")
	}
	return r
}

func genC12Req(rt *rapid.T) C12Req {
	if c12Pick(rt, 100, "const", 101) < 8 {
		cs := c12Constants()
		return cs[c12Pick(rt, len(cs), "which", 102)]
	}
	sum := 0
	for _, k := range c12KindWeights {
		sum += k.w
	}
	n := c12Pick(rt, sum, "kind", 103)
	for _, k := range c12KindWeights {
		if n < k.w {
			return genC12ReqOfKind(rt, k.kind)
		}
		n -= k.w
	}
	return genC12ReqOfKind(rt, c12Set)
}

func genC12(rt *rapid.T) C12Case {
	c := C12Case{World: "pop"}
	if c12Pick(rt, 100, "world", 104) < 22 {
		c.World = "empty"
	}
	n := 1 + c12Pick(rt, 4, "nreqs", 105)
	for i := 0; i < n; i++ {
		r := genC12Req(rt)
		// the scrambled draws do not shrink towards simpler values, so give rapid a plain handle on the length of
		// the sequence: a biased draw whose minimum (what shrinking moves to) drops the request
		if rapid.IntRange(0, 9).Draw(rt, "keep") == 0 && (i < n-1 || len(c.Reqs) > 0) {
			continue
		}
		c.Reqs = append(c.Reqs, r)
	}
	return c
}

// ---------------------------------------------------------------------------
// hostile constants: the shapes found by reading the code, each a complete request

func c12Const(name, kind string, msgs ...any) C12Req {
	r := c12Encode(nil, kind, msgs)
	r.Tags = []string{"const:" + name}
	return r
}

func c12P(target string, elems ...*gpb.PathElem) *gpb.Path {
	return &gpb.Path{Target: target, Elem: elems}
}

func c12E(name string, kv ...string) *gpb.PathElem {
	e := &gpb.PathElem{Name: name}
	for i := 0; i+1 < len(kv); i += 2 {
		if e.Key == nil {
			e.Key = map[string]string{}
		}
		e.Key[kv[i]] = kv[i+1]
	}
	return e
}

var c12ConstCache []C12Req

func c12Constants() []C12Req {
	if c12ConstCache != nil {
		return c12ConstCache
	}
	f32 := func(f float32) *gpb.TypedValue { return &gpb.TypedValue{Value: &gpb.TypedValue_FloatVal{FloatVal: f}} }
	dec := func(d int64, p uint32) *gpb.TypedValue {
		return &gpb.TypedValue{Value: &gpb.TypedValue_DecimalVal{DecimalVal: &gpb.Decimal64{Digits: d, Precision: p}}}
	}
	ext112 := func(payload []byte) []*gnmi_ext.Extension {
		return []*gnmi_ext.Extension{{Ext: &gnmi_ext.Extension_RegisteredExt{RegisteredExt: &gnmi_ext.RegisteredExtension{Id: 112, Msg: payload}}}}
	}
	keyOnly := []byte{0x0a, 0x04, 0x0a, 0x02, 't', '1'} // overrides{ "t1": <no value> }
	cs := []C12Req{
		c12Const("set-float-NaN", c12Set, &gpb.SetRequest{Update: []*gpb.Update{{Path: c12P("t1", c12E("types"), c12E("float")), Val: f32(float32(math.NaN()))}}}),
		c12Const("set-float-Inf", c12Set, &gpb.SetRequest{Update: []*gpb.Update{{Path: c12P("t1", c12E("types"), c12E("float")), Val: f32(float32(math.Inf(1)))}}}),
		c12Const("set-leaflist-float-NaN", c12Set, &gpb.SetRequest{Update: []*gpb.Update{{Path: c12P("t1", c12E("types"), c12E("lls")), Val: c12LL(f32(float32(math.NaN())))}}}),
		c12Const("set-delete-element-form-brackets", c12Set, &gpb.SetRequest{Delete: []*gpb.Path{{Target: "t1", Element: []string{"a[x]"}}}}),
		c12Const("set-delete-name-closing-bracket", c12Set, &gpb.SetRequest{Delete: []*gpb.Path{c12P("t1", c12E("a]"))}}),
		c12Const("set-delete-name-bracket-group-without-equals", c12Set, &gpb.SetRequest{Delete: []*gpb.Path{c12P("t1", c12E("a"), c12E("c[x]"))}}),
		c12Const("set-delete-element-form-valid", c12Set, &gpb.SetRequest{Delete: []*gpb.Path{{Target: "t1", Element: []string{"l1[id=1]", "v"}}}}),
		c12Const("set-update-element-form-valid", c12Set, &gpb.SetRequest{Update: []*gpb.Update{{Path: &gpb.Path{Target: "t1", Element: []string{"l1[id=1]", "v"}}, Val: c12Str("x")}}}),
		c12Const("set-delete-key-with-space", c12Set, &gpb.SetRequest{Delete: []*gpb.Path{c12P("t1", c12E("l1", "id", "a b"))}}),
		c12Const("set-delete-key-wildcard", c12Set, &gpb.SetRequest{Delete: []*gpb.Path{c12P("t1", c12E("l1", "id", "*"))}}),
		c12Const("set-delete-empty-key-group", c12Set, &gpb.SetRequest{Delete: []*gpb.Path{{Target: "t1", Element: []string{"a[=]"}}}}),
		c12Const("set-double-val", c12Set, &gpb.SetRequest{Update: []*gpb.Update{{Path: c12P("t1", c12E("a"), c12E("b")), Val: &gpb.TypedValue{Value: &gpb.TypedValue_DoubleVal{DoubleVal: math.NaN()}}}}}),
		c12Const("set-val-omitted", c12Set, &gpb.SetRequest{Update: []*gpb.Update{{Path: c12P("t1", c12E("a"), c12E("b"))}}}),
		c12Const("set-path-omitted", c12Set, &gpb.SetRequest{Prefix: &gpb.Path{Target: "t1"}, Update: []*gpb.Update{{Val: c12Str("x")}}, Delete: []*gpb.Path{{}}}),
		c12Const("set-decimal-precision-255", c12Set, &gpb.SetRequest{Update: []*gpb.Update{{Path: c12P("t1", c12E("types"), c12E("dec")), Val: dec(12345, 255)}}}),
		c12Const("set-decimal-precision-64", c12Set, &gpb.SetRequest{Update: []*gpb.Update{{Path: c12P("t1", c12E("types"), c12E("dec")), Val: dec(math.MinInt64, 64)}}}),
		c12Const("set-key-leaf-decimal", c12Set, &gpb.SetRequest{Update: []*gpb.Update{{Path: c12P("t1", c12E("l1", "id", "1"), c12E("id")), Val: dec(1, 200)}}}),
		c12Const("set-key-leaf-empty-leaflist-bool", c12Set, &gpb.SetRequest{Update: []*gpb.Update{{Path: c12P("t1", c12E("l2", "k1", "1", "k2", "true"), c12E("k2")), Val: &gpb.TypedValue{Value: &gpb.TypedValue_BytesVal{}}}}}),
		c12Const("set-string-leaf-gets-leaflist-bytes", c12Set, &gpb.SetRequest{Update: []*gpb.Update{{Path: c12P("t1", c12E("a"), c12E("b")),
			Val: c12LL(&gpb.TypedValue{Value: &gpb.TypedValue_BytesVal{BytesVal: []byte{}}}, &gpb.TypedValue{Value: &gpb.TypedValue_BytesVal{BytesVal: []byte{1}}}, &gpb.TypedValue{Value: &gpb.TypedValue_BytesVal{}})}}}),
		c12Const("set-overrides-entry-without-value", c12Set, &gpb.SetRequest{Update: []*gpb.Update{{Path: c12P("t1", c12E("a"), c12E("b")), Val: c12Str("x")}}, Extension: ext112(keyOnly)}),
		c12Const("get-overrides-entry-without-value", c12Get, &gpb.GetRequest{Path: []*gpb.Path{c12P("t1")}, Encoding: gpb.Encoding_PROTO, Extension: ext112(keyOnly)}),
		c12Const("get-regexp-metacharacters", c12Get, &gpb.GetRequest{Path: []*gpb.Path{c12P("t1", c12E("("), c12E("a[", "[", "("))}, Encoding: gpb.Encoding_PROTO}),
		c12Const("get-path-omitted-prefix-omitted", c12Get, &gpb.GetRequest{Path: []*gpb.Path{{}}, Encoding: gpb.Encoding_JSON}),
		c12Const("get-state-unknown-target", c12Get, &gpb.GetRequest{Path: []*gpb.Path{c12P("nosuch", c12E("a"))}, Type: gpb.GetRequest_STATE, Encoding: gpb.Encoding_PROTO}),
		c12Const("get-state-connected-target", c12Get, &gpb.GetRequest{Path: []*gpb.Path{c12P("t1", c12E("a"))}, Type: gpb.GetRequest_OPERATIONAL, Encoding: gpb.Encoding_PROTO}),
		c12Const("get-sync-strategy", c12Get, &gpb.GetRequest{Path: []*gpb.Path{c12P("t1")}, Encoding: gpb.Encoding_PROTO,
			Extension: []*gnmi_ext.Extension{{Ext: &gnmi_ext.Extension_RegisteredExt{RegisteredExt: &gnmi_ext.RegisteredExtension{Id: 111, Msg: []byte{0x08, 0x01}}}}}}),
		c12Const("get-all-targets", c12Get, &gpb.GetRequest{Path: []*gpb.Path{c12P("*")}, Encoding: gpb.Encoding_PROTO}),
		c12Const("subscribe-prefix-omitted", c12Sub, &gpb.SubscribeRequest{Request: &gpb.SubscribeRequest_Subscribe{Subscribe: &gpb.SubscriptionList{Subscription: []*gpb.Subscription{{Path: c12P("t1", c12E("a"))}}}}}),
		c12Const("subscribe-path-omitted", c12Sub, &gpb.SubscribeRequest{Request: &gpb.SubscribeRequest_Subscribe{Subscribe: &gpb.SubscriptionList{Prefix: &gpb.Path{}, Subscription: []*gpb.Subscription{{}}}}}),
		c12Const("subscribe-then-poll", c12Sub, &gpb.SubscribeRequest{Request: &gpb.SubscribeRequest_Subscribe{Subscribe: &gpb.SubscriptionList{Prefix: &gpb.Path{Target: "t1"}, Mode: gpb.SubscriptionList_POLL,
			Subscription: []*gpb.Subscription{{Path: c12P("", c12E("a"))}}}}}, &gpb.SubscribeRequest{Request: &gpb.SubscribeRequest_Poll{Poll: &gpb.Poll{}}}),
		c12Const("subscribe-poll-first", c12Sub, &gpb.SubscribeRequest{Request: &gpb.SubscribeRequest_Poll{Poll: &gpb.Poll{}}}),
		c12Const("leafsel-change-context-on-configuration-without-values", c12LeafSel, &adminapi.LeafSelectionQueryRequest{Target: "t4", Type: model.M1Name, Version: model.M1Version, SelectionPath: "/a/b",
			ChangeContext: &gpb.SetRequest{Update: []*gpb.Update{{Path: c12P("", c12E("a"), c12E("b")), Val: c12Str("x")}}}}),
		c12Const("leafsel-change-context-delete", c12LeafSel, &adminapi.LeafSelectionQueryRequest{Target: "t1", Type: model.M1Name, Version: model.M1Version, SelectionPath: "/a/b",
			ChangeContext: &gpb.SetRequest{Delete: []*gpb.Path{c12P("", c12E("a]"))}, Update: []*gpb.Update{{Path: c12P("", c12E("types"), c12E("float")), Val: f32(float32(math.NaN()))}}}}),
		c12Const("leafsel-plain", c12LeafSel, &adminapi.LeafSelectionQueryRequest{Target: "t1", Type: model.M1Name, Version: model.M1Version, SelectionPath: "/a/b"}),
		c12Const("rollback-index-0", c12Rollback, &adminapi.RollbackRequest{Index: 0}),
		c12Const("rollback-index-1", c12Rollback, &adminapi.RollbackRequest{Index: 1}),
		c12Const("rollback-index-max", c12Rollback, &adminapi.RollbackRequest{Index: math.MaxUint64}),
		c12Const("rollback-of-failed-change", c12Rollback, &adminapi.RollbackRequest{Index: 5}),
		c12Const("get-transaction-index-1", c12GetTx, &adminapi.GetTransactionRequest{Index: 1}),
		c12Const("get-configuration-t1", c12GetCfg, &adminapi.GetConfigurationRequest{ConfigurationID: "t1-m1-1.0.0"}),
		c12Const("watch-transactions-replay", c12WatchTx, &adminapi.WatchTransactionsRequest{}),
		c12Const("watch-configurations-replay", c12WatchCfg, &adminapi.WatchConfigurationsRequest{}),
		c12Const("list-models-verbose", c12ListModels, &adminapi.ListModelsRequest{Verbose: true}),
		c12Const("capabilities", c12Cap, &gpb.CapabilityRequest{}),
	}
	c12ConstCache = cs
	return cs
}

// ---------------------------------------------------------------------------

func runC12(c C12Case, x *vstat.Ctx) error {
	x.Class("world:" + c.World)
	e, err := c12Acquire(x, c.World)
	if err != nil {
		return err
	}
	var sample []string
	for i, r := range c.Reqs {
		x.Logf("request %d: %s %v", i+1, r.Kind, r.Tags)
		sample = append(sample, fmt.Sprintf("%s %v", r.Kind, r.Tags))
		c12Trace(c.World, r)
		err := c12Exec(x, e, r, true)
		c12PruneCalls(e.w)
		if err != nil {
			e.dirty = true
			return err
		}
	}
	x.Sample(map[string]any{"world": c.World, "requests": sample})
	vstat.SetExtra("C12", "TestC12_NoRequestCrashesTheServer", "worlds_built", c12WorldsBuilt)
	return nil
}

// TestC12_NoRequestCrashesTheServer: every generated, wire-decoded gNMI and
// admin request is answered by the real handlers without a panic, and the
// controllers digest whatever an accepted request logged without a panic.
func TestC12_NoRequestCrashesTheServer(t *testing.T) {
	t.Cleanup(c12CloseAll)
	vstat.Run(t, "C12", genC12, runC12)
}

// c12Trace appends every request to the file named by C12_TRACE before it is
// served (diagnostics only): should a goroutine started by the code under test
// ever take the whole worker down, the last line names the request.
func c12Trace(world string, r C12Req) {
	p := os.Getenv("C12_TRACE")
	if p == "" {
		return
	}
	f, err := os.OpenFile(p, os.O_APPEND|os.O_CREATE|os.O_WRONLY, 0o644)
	if err != nil {
		return
	}
	defer f.Close()
	fmt.Fprintf(f, "%s %s %v end=%s md=%s", world, r.Kind, r.Tags, r.End, r.MD)
	for _, w := range r.Wire {
		fmt.Fprintf(f, " %s", c12Hex(w))
	}
	fmt.Fprintln(f)
}
