package sim

import (
	"context"
	"sync"

	"github.com/gogo/protobuf/proto"
	configapi "github.com/onosproject/onos-api/go/onos/config/v2"
	cfgstore "github.com/onosproject/onos-config/pkg/store/v2/configuration"
	propstore "github.com/onosproject/onos-config/pkg/store/v2/proposal"
	txstore "github.com/onosproject/onos-config/pkg/store/v2/transaction"

	"verif/harness/fakes"
)

// Stores groups the real v2 stores and the hubs that carry the synthetic
// store events to the controllers' real watchers.
type Stores struct {
	Tx   txstore.Store
	Prop propstore.Store
	Cfg  cfgstore.Store

	txHub   fakes.Hub[configapi.TransactionEvent]
	propHub fakes.Hub[configapi.ProposalEvent]
	cfgHub  fakes.Hub[configapi.ConfigurationEvent]

	mu     sync.Mutex
	writes int // successful store writes (all stores)

	cut *atomixCut // cuts the configuration store's methods between two Atomix writes
}

func (s *Stores) noteWrite() {
	s.mu.Lock()
	s.writes++
	s.mu.Unlock()
}

// Writes returns the number of successful store writes so far.
func (s *Stores) Writes() int {
	s.mu.Lock()
	defer s.mu.Unlock()
	return s.writes
}

// gogo's proto.Clone cannot merge onos-api's cast types, so clone through the wire format.
func cloneTx(t *configapi.Transaction) configapi.Transaction {
	var c configapi.Transaction
	b, err := proto.Marshal(t)
	if err == nil {
		err = proto.Unmarshal(b, &c)
	}
	if err != nil {
		panic(err)
	}
	return c
}
func cloneProp(p *configapi.Proposal) configapi.Proposal {
	var c configapi.Proposal
	b, err := proto.Marshal(p)
	if err == nil {
		err = proto.Unmarshal(b, &c)
	}
	if err != nil {
		panic(err)
	}
	return c
}
func cloneCfg(p *configapi.Configuration) configapi.Configuration {
	var c configapi.Configuration
	b, err := proto.Marshal(p)
	if err == nil {
		err = proto.Unmarshal(b, &c)
	}
	if err != nil {
		panic(err)
	}
	return c
}

// ---------------------------------------------------------------------------
// transactions

type txView struct {
	st *Stores
	g  *Gate
	// nbWatch, when non-nil, replaces Watch (northbound handlers watch the REAL store).
	nbWatch func(ctx context.Context, ch chan<- configapi.TransactionEvent, opts ...txstore.WatchOption) error
	// afterCreate is called after a successful Create (northbound hold point).
	afterCreate func(ctx context.Context, t *configapi.Transaction)
}

func (v *txView) Get(ctx context.Context, id configapi.TransactionID) (*configapi.Transaction, error) {
	if err := v.g.enter("tx.Get", false); err != nil {
		return nil, err
	}
	return v.st.Tx.Get(ctx, id)
}
func (v *txView) GetByIndex(ctx context.Context, index configapi.Index) (*configapi.Transaction, error) {
	if err := v.g.enter("tx.GetByIndex", false); err != nil {
		return nil, err
	}
	return v.st.Tx.GetByIndex(ctx, index)
}
func (v *txView) List(ctx context.Context) ([]*configapi.Transaction, error) {
	if err := v.g.enter("tx.List", false); err != nil {
		return nil, err
	}
	return v.st.Tx.List(ctx)
}
func (v *txView) Create(ctx context.Context, t *configapi.Transaction) error {
	if err := v.g.enter("tx.Create", true); err != nil {
		return err
	}
	if err := v.st.Tx.Create(ctx, t); err != nil {
		return err
	}
	v.st.noteWrite()
	v.st.txHub.Emit(configapi.TransactionEvent{Type: configapi.TransactionEvent_CREATED, Transaction: cloneTx(t)})
	if v.afterCreate != nil {
		v.afterCreate(ctx, t)
	}
	return nil
}
func (v *txView) Update(ctx context.Context, t *configapi.Transaction) error {
	if err := v.g.enter("tx.Update", true); err != nil {
		return err
	}
	if err := v.st.Tx.Update(ctx, t); err != nil {
		return err
	}
	v.st.noteWrite()
	v.st.txHub.Emit(configapi.TransactionEvent{Type: configapi.TransactionEvent_UPDATED, Transaction: cloneTx(t)})
	return nil
}
func (v *txView) UpdateStatus(ctx context.Context, t *configapi.Transaction) error {
	if err := v.g.enter("tx.UpdateStatus", true); err != nil {
		return err
	}
	if err := v.st.Tx.UpdateStatus(ctx, t); err != nil {
		return err
	}
	v.st.noteWrite()
	v.st.txHub.Emit(configapi.TransactionEvent{Type: configapi.TransactionEvent_UPDATED, Transaction: cloneTx(t)})
	return nil
}
func (v *txView) Watch(ctx context.Context, ch chan<- configapi.TransactionEvent, opts ...txstore.WatchOption) error {
	if v.nbWatch != nil {
		return v.nbWatch(ctx, ch, opts...)
	}
	_, replay := txstore.WatchOptionsForVerif(opts...)
	var rep []configapi.TransactionEvent
	if replay {
		l, err := v.st.Tx.List(ctx)
		if err != nil {
			return err
		}
		for _, t := range l {
			rep = append(rep, configapi.TransactionEvent{Type: configapi.TransactionEvent_REPLAYED, Transaction: cloneTx(t)})
		}
	}
	v.st.txHub.Subscribe(ctx, ch, rep)
	return nil
}
func (v *txView) Close(ctx context.Context) error { return nil }

var _ txstore.Store = &txView{}

// ---------------------------------------------------------------------------
// proposals

type propView struct {
	st *Stores
	g  *Gate
}

func (v *propView) Get(ctx context.Context, id configapi.ProposalID) (*configapi.Proposal, error) {
	if err := v.g.enter("prop.Get", false); err != nil {
		return nil, err
	}
	return v.st.Prop.Get(ctx, id)
}
func (v *propView) List(ctx context.Context) ([]*configapi.Proposal, error) {
	if err := v.g.enter("prop.List", false); err != nil {
		return nil, err
	}
	return v.st.Prop.List(ctx)
}
func (v *propView) Create(ctx context.Context, p *configapi.Proposal) error {
	if err := v.g.enter("prop.Create", true); err != nil {
		return err
	}
	if err := v.st.Prop.Create(ctx, p); err != nil {
		return err
	}
	v.st.noteWrite()
	v.st.propHub.Emit(configapi.ProposalEvent{Type: configapi.ProposalEvent_CREATED, Proposal: cloneProp(p)})
	return nil
}
func (v *propView) Update(ctx context.Context, p *configapi.Proposal) error {
	if err := v.g.enter("prop.Update", true); err != nil {
		return err
	}
	if err := v.st.Prop.Update(ctx, p); err != nil {
		return err
	}
	v.st.noteWrite()
	v.st.propHub.Emit(configapi.ProposalEvent{Type: configapi.ProposalEvent_UPDATED, Proposal: cloneProp(p)})
	return nil
}
func (v *propView) UpdateStatus(ctx context.Context, p *configapi.Proposal) error {
	if err := v.g.enter("prop.UpdateStatus", true); err != nil {
		return err
	}
	if err := v.st.Prop.UpdateStatus(ctx, p); err != nil {
		return err
	}
	v.st.noteWrite()
	v.st.propHub.Emit(configapi.ProposalEvent{Type: configapi.ProposalEvent_UPDATED, Proposal: cloneProp(p)})
	return nil
}
func (v *propView) Watch(ctx context.Context, ch chan<- configapi.ProposalEvent, opts ...propstore.WatchOption) error {
	_, replay := propstore.WatchOptionsForVerif(opts...)
	var rep []configapi.ProposalEvent
	if replay {
		l, err := v.st.Prop.List(ctx)
		if err != nil {
			return err
		}
		for _, p := range l {
			rep = append(rep, configapi.ProposalEvent{Type: configapi.ProposalEvent_REPLAYED, Proposal: cloneProp(p)})
		}
	}
	v.st.propHub.Subscribe(ctx, ch, rep)
	return nil
}
func (v *propView) Close(ctx context.Context) error { return nil }

var _ propstore.Store = &propView{}

// ---------------------------------------------------------------------------
// configurations

type cfgView struct {
	st *Stores
	g  *Gate
}

func (v *cfgView) Get(ctx context.Context, id configapi.ConfigurationID) (*configapi.Configuration, error) {
	if err := v.g.enter("cfg.Get", false); err != nil {
		return nil, err
	}
	return v.st.Cfg.Get(ctx, id)
}
func (v *cfgView) List(ctx context.Context) ([]*configapi.Configuration, error) {
	if err := v.g.enter("cfg.List", false); err != nil {
		return nil, err
	}
	return v.st.Cfg.List(ctx)
}

func (v *cfgView) emit(typ configapi.ConfigurationEvent_EventType, id configapi.ConfigurationID) {
	// the real store's events carry the record as re-read from the store
	// (values populated), so re-read it
	c, err := v.st.Cfg.Get(context.Background(), id)
	if err != nil {
		return
	}
	v.st.cfgHub.Emit(configapi.ConfigurationEvent{Type: typ, Configuration: cloneCfg(c)})
}

// Create, Update and UpdateStatus consist of several persisted Atomix writes in
// the real store (path values, removals, the record). A crash between two of
// them is produced for real: the store's Atomix connections carry an
// interceptor (atomixcut.go) that refuses the k-th write of the call and
// everything after it, whatever order the store's code writes in.
func (v *cfgView) multiWrite(op string, evt configapi.ConfigurationEvent_EventType, c *configapi.Configuration, call func() error) error {
	if err := v.g.enter(op, true); err != nil {
		return err
	}
	k := 0
	if v.g != nil && v.g.s != nil && !v.g.nb {
		k = v.g.s.midCallCrash(v.g, op)
	}
	cut := v.st.cut
	if cut == nil || v.g == nil || v.g.s == nil {
		if err := call(); err != nil {
			return err
		}
		v.st.noteWrite()
		v.emit(evt, c.ID)
		return nil
	}
	cut.begin(k)
	err := call()
	n, fired := cut.end()
	if !v.g.nb {
		v.g.s.noteSubWrites(n)
	}
	if fired {
		v.g.s.x.Logf("  crash inside %s: before Atomix write %d of the call", op, k)
		v.g.s.crashNow(v.g)
		return errCrashed
	}
	if err != nil {
		return err
	}
	v.st.noteWrite()
	v.emit(evt, c.ID)
	return nil
}

func (v *cfgView) Create(ctx context.Context, c *configapi.Configuration) error {
	return v.multiWrite("cfg.Create", configapi.ConfigurationEvent_CREATED, c, func() error { return v.st.Cfg.Create(ctx, c) })
}
func (v *cfgView) Update(ctx context.Context, c *configapi.Configuration) error {
	return v.multiWrite("cfg.Update", configapi.ConfigurationEvent_UPDATED, c, func() error { return v.st.Cfg.Update(ctx, c) })
}
func (v *cfgView) UpdateStatus(ctx context.Context, c *configapi.Configuration) error {
	return v.multiWrite("cfg.UpdateStatus", configapi.ConfigurationEvent_UPDATED, c, func() error { return v.st.Cfg.UpdateStatus(ctx, c) })
}
func (v *cfgView) Watch(ctx context.Context, ch chan<- configapi.ConfigurationEvent, opts ...cfgstore.WatchOption) error {
	_, replay := cfgstore.WatchOptionsForVerif(opts...)
	var rep []configapi.ConfigurationEvent
	if replay {
		l, err := v.st.Cfg.List(ctx)
		if err != nil {
			return err
		}
		for _, c := range l {
			rep = append(rep, configapi.ConfigurationEvent{Type: configapi.ConfigurationEvent_REPLAYED, Configuration: cloneCfg(c)})
		}
	}
	v.st.cfgHub.Subscribe(ctx, ch, rep)
	return nil
}
func (v *cfgView) Close(ctx context.Context) error { return nil }

var _ cfgstore.Store = &cfgView{}
