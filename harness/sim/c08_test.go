package sim

import (
	"context"
	"fmt"
	"sort"
	"testing"
	"time"

	"github.com/gogo/protobuf/proto"
	configapi "github.com/onosproject/onos-api/go/onos/config/v2"
	gpb "github.com/openconfig/gnmi/proto/gnmi"
	"google.golang.org/grpc/codes"
	"pgregory.net/rapid"

	"verif/harness/fakes"
	"verif/harness/model"
	"verif/harness/vstat"
)

// C08Case: one request, its outcome class, and where the controllers'
// progress is placed relative to the handler's "create" and "watch" steps.
type C08Case struct {
	Kind      string `json:"kind"`              // set | rollback
	Sync      bool   `json:"sync"`              // Set only
	Outcome   string `json:"outcome"`           // ok | invalid | refuse | rb-notfound | rb-forbidden | rb-of-rollback
	Code      int    `json:"code"`              // refusal code for outcome refuse
	StepsGap1 int    `json:"stepsGap1"`         // controller steps while the handler is held between Create and Watch (-1: run to completion)
	StepsGap2 int    `json:"stepsGap2"`         // steps while held between Watch (registered) and the first receive (-1: to completion, -2: not held)
	Raw       bool   `json:"raw,omitempty"`     // with a second hold: the store's Watch feeds the held handler directly (an unbuffered channel nobody reads meanwhile)
	LeadExt   string `json:"leadExt,omitempty"` // an extension the handlers have no use for, in front of the strategy extension
	Multi     bool   `json:"multi"`
	Extra     int    `json:"extra,omitempty"` // Multi: further operations (bit mask over c08Extra), some naming the SAME path on both targets
	Offline   bool   `json:"offline"`         // target offline (async only)
}

func genC08(rt *rapid.T) C08Case {
	c := C08Case{Kind: "set"}
	if rapid.IntRange(0, 3).Draw(rt, "rollback") == 0 {
		c.Kind = "rollback"
		c.Outcome = []string{"ok", "rb-notfound", "rb-forbidden", "rb-of-rollback"}[rapid.IntRange(0, 3).Draw(rt, "rboutcome")]
	} else {
		c.Sync = rapid.IntRange(0, 1).Draw(rt, "sync") == 1
		c.Outcome = []string{"ok", "ok", "invalid", "refuse", "ok", "ok", "invalid", "refuse", "unrenderable"}[rapid.IntRange(0, 8).Draw(rt, "outcome")]
		c.LeadExt = []string{"", "", "", "arbitration", "history", "registered"}[rapid.IntRange(0, 5).Draw(rt, "leadext")]
		c.Multi = rapid.IntRange(0, 2).Draw(rt, "multi") == 0
		if c.Multi {
			c.Extra = int(rapid.Uint64Range(0, 63).Draw(rt, "extra"))
		}
		if c.Outcome == "refuse" {
			c.Code = []int{2, 3, 5, 6, 9, 12, 13, 16}[rapid.IntRange(0, 7).Draw(rt, "code")]
		}
		if (!c.Sync && c.Outcome == "ok") || c.Outcome == "invalid" {
			// also a request that fails validation behind earlier changes that are committed but cannot be
			// applied yet: its failure is known at once and must be answered at once
			c.Offline = rapid.IntRange(0, 3).Draw(rt, "offline") == 0
		}
	}
	gap := func(label string) int {
		switch rapid.IntRange(0, 5).Draw(rt, label+"kind") {
		case 0:
			return 0
		case 1:
			return -1
		}
		return rapid.IntRange(1, 60).Draw(rt, label)
	}
	c.StepsGap1 = gap("gap1")
	c.StepsGap2 = -2
	if rapid.IntRange(0, 1).Draw(rt, "hold2") == 1 {
		c.StepsGap2 = gap("gap2")
		c.Raw = rapid.IntRange(0, 1).Draw(rt, "raw") == 1
	}
	return c
}

// c08Extra: further operations of a multi-target request; the first four name a path that the request also
// names on the other target.
var c08Extra = []model.Op{
	{Kind: "update", Target: "t2", Path: model.Parse("/a/c/d")},
	{Kind: "delete", Target: "t2", Path: model.Parse("/a/bc")},
	{Kind: "update", Target: "t1", Path: model.Parse("/l1[id=1]/v")},
	{Kind: "update", Target: "t1", Path: model.Parse("/mtu")},
	{Kind: "update", Target: "t2", Path: model.Parse("/mtu")},
	{Kind: "update", Target: "t2", Path: model.Parse("/l1[id=10]/v")},
}

var failureCode = map[configapi.Failure_Type]codes.Code{
	configapi.Failure_UNKNOWN: codes.Unknown, configapi.Failure_CANCELED: codes.Canceled, configapi.Failure_NOT_FOUND: codes.NotFound,
	configapi.Failure_ALREADY_EXISTS: codes.AlreadyExists, configapi.Failure_UNAUTHORIZED: codes.Unauthenticated, configapi.Failure_FORBIDDEN: codes.PermissionDenied,
	configapi.Failure_CONFLICT: codes.FailedPrecondition, configapi.Failure_INVALID: codes.InvalidArgument, configapi.Failure_UNAVAILABLE: codes.Unavailable,
	configapi.Failure_NOT_SUPPORTED: codes.Unimplemented, configapi.Failure_TIMEOUT: codes.DeadlineExceeded, configapi.Failure_INTERNAL: codes.Internal,
}

func runC08(c C08Case, x *vstat.Ctx) error {
	w, err := NewWorld(x, Options{Targets: []TargetSpec{{ID: "t1", Online: !c.Offline}, {ID: "t2", Online: true}}})
	if err != nil {
		return err
	}
	defer w.Close()
	if err := w.S.Run(); err != nil {
		return err
	}
	x.Sample(c)
	// a little history so that rollbacks have something to aim at
	v1 := model.Str("v1")
	hist := []SetSpec{
		{Sync: !c.Offline, Ops: []model.Op{{Kind: "update", Target: "t1", Path: model.Parse("/a/b"), Val: &v1}}},
		{Sync: !c.Offline, Ops: []model.Op{{Kind: "update", Target: "t1", Path: model.Parse("/a/bc"), Val: &v1}}},
	}
	if c.Kind == "rollback" && c.Outcome == "rb-of-rollback" {
		hist = append(hist, SetSpec{}) // placeholder: a rollback of index 2 is inserted below
	}
	for i, h := range hist {
		if len(h.Ops) == 0 {
			call, err := w.StartRollback("hist-rb", 2, nil)
			if err != nil {
				return err
			}
			if err := w.S.Run(); err != nil {
				return err
			}
			w.AwaitCalls(10 * time.Second)
			if !call.Done() || call.Err != nil {
				return vstat.ErrSkip
			}
			continue
		}
		call, err := submitAndSettle(w, fmt.Sprintf("h%d", i), h)
		if err != nil {
			return err
		}
		if !call.Done() || call.Err != nil {
			return vstat.Violf("history request %d failed: done=%v err=%v", i, call.Done(), call.Err)
		}
	}
	// the request under test
	var spec SetSpec
	var rbIndex int
	switch c.Kind {
	case "set":
		val := model.Str("v2")
		switch c.Outcome {
		case "refuse":
			val = model.Str(fmt.Sprintf("%s%d", fakes.RefusePrefix, c.Code))
		}
		spec = SetSpec{Sync: c.Sync, LeadExt: c.LeadExt, Ops: []model.Op{{Kind: "update", Target: "t1", Path: model.Parse("/a/c/d"), Val: &val}, {Kind: "delete", Target: "t1", Path: model.Parse("/a/bc")}}}
		if c.Outcome == "unrenderable" {
			// a value the handlers accept and store but that no JSON document can hold: the configuration cannot
			// be shown to the model, the change must be reported failed (and answered), not retried for ever
			inf := model.Value{T: "lfinf"}
			spec.Ops = append(spec.Ops, model.Op{Kind: "update", Target: "t1", Path: model.Parse("/types/float"), Val: &inf})
		}
		if c.Outcome == "invalid" {
			bad := model.Str("bad")
			spec.Ops = append(spec.Ops, model.Op{Kind: "update", Target: "t1", Path: model.Parse("/poison"), Val: &bad})
		}
		if c.Multi {
			n := model.Str("n1")
			spec.Ops = append(spec.Ops, model.Op{Kind: "update", Target: "t2", Path: model.Parse("/l1[id=1]/v"), Val: &n})
			for i, e := range c08Extra {
				if c.Extra&(1<<i) != 0 {
					e := e
					if e.Kind != "delete" {
						v := model.Str("n2")
						if e.Path.String() == "/mtu" {
							v = model.Uint(7)
						}
						e.Val = &v
					}
					spec.Ops = append(spec.Ops, e)
				}
			}
		}
	case "rollback":
		switch c.Outcome {
		case "ok":
			rbIndex = 2
		case "rb-notfound":
			rbIndex = 17
		case "rb-forbidden":
			rbIndex = 1 // not the latest change of t1
		case "rb-of-rollback":
			rbIndex = 3 // index 3 is itself a rollback
		}
	}
	prep := func(call *Call) {
		call.HoldAfterCreate = true
		call.HoldAfterWatch = c.StepsGap2 != -2
		call.RawWatch = c.Raw && call.HoldAfterWatch
	}
	var call *Call
	if c.Kind == "set" {
		call, err = w.StartSet("req", spec.Build(), nil, prep)
	} else {
		call, err = w.StartRollback("req", configapi.Index(rbIndex), prep)
	}
	if err != nil {
		return err
	}
	if call.Panic != nil {
		return vstat.Violf("the handler panicked: %v\n%s", call.Panic, call.Stack)
	}
	if !call.Created {
		return vstat.Violf("the request was refused before being logged: %v", call.Err)
	}
	runSteps := func(n int) error {
		if n == 0 {
			return nil
		}
		w.S.StopAt = 0
		if n > 0 {
			w.S.StopAt = w.S.Steps + n
		}
		err := w.S.Run()
		w.S.StopAt = 0
		return err
	}
	before := w.S.Steps
	if err := runSteps(c.StepsGap1); err != nil {
		return err
	}
	inGap1 := w.S.Steps - before
	// release from "between Create and Watch"; the handler now subscribes (with replay)
	if call.HoldAfterWatch {
		// Release returns when the handler is held again (after Watch registered) or parked/done
		close(call.release)
		select {
		case <-call.done:
		case <-call.heldCh2:
		case <-time.After(30 * time.Second):
			return fmt.Errorf("%w: handler did not reach the second hold point", ErrInconclusive)
		}
		before = w.S.Steps
		if err := runSteps(c.StepsGap2); err != nil {
			return err
		}
		if w.S.Steps-before > 0 {
			x.NonTrivial("controller steps inside the window between Watch and the first receive")
			if c.Raw {
				x.Class("watch:store-feeds-the-held-handler-directly")
			}
		}
		call.Release2()
	} else {
		if err := call.Release(); err != nil {
			return err
		}
	}
	if inGap1 > 0 {
		x.NonTrivial("controller steps inside the window between Create and Watch")
	}
	x.Class(fmt.Sprintf("outcome:%s/%s", c.Kind, c.Outcome))
	if err := w.S.Run(); err != nil {
		return err
	}
	w.AwaitCalls(10 * time.Second)
	tx := call.Tx()
	if tx == nil {
		return vstat.Violf("the transaction of the request is not in the log")
	}
	x.Logf("final record: state %v%s; handler done=%v err=%v; steps in window 1: %d", tx.Status.State, failureOf(tx), call.Done(), call.Err, inGap1)
	if !call.Done() {
		if Awaited(tx) {
			return vstat.Violf("the handler keeps waiting although its transaction %d has finished (state %v%s, %d controller steps ran between Create and Watch): the request is never answered", tx.Index, tx.Status.State, failureOf(tx), inGap1)
		}
		if c.Offline || c.Kind == "rollback" {
			x.Class("still-waiting:target-offline")
			return nil
		}
		return vstat.Violf("the transaction did not reach the awaited stage: %v", tx.Status.State)
	}
	// truthfulness
	if c.Kind == "set" {
		if logged := tx.TransactionStrategy.Synchronicity == configapi.TransactionStrategy_SYNCHRONOUS; logged != c.Sync {
			return vstat.Violf("the request asked for synchronous=%v (extension 111%s) but its transaction was logged with synchronous=%v: the caller is answered at the wrong stage", c.Sync, map[bool]string{true: ", behind a leading " + c.LeadExt + " extension", false: ""}[c.LeadExt != ""], logged)
		}
	}
	if call.Err == nil {
		sync := tx.TransactionStrategy.Synchronicity == configapi.TransactionStrategy_SYNCHRONOUS
		st := tx.Status.State
		if sync && st != configapi.TransactionStatus_APPLIED {
			return vstat.Violf("a synchronous request was answered with success but its transaction is %v", st)
		}
		// asynchronous: success means the transaction reached the commit stage (it may fail to apply later)
		if !sync && (tx.Status.Phases.Commit == nil || tx.Status.Phases.Commit.State != configapi.TransactionCommitPhase_COMMITTED) {
			return vstat.Violf("an asynchronous request was answered with success but its transaction never reached COMMITTED (state %v)", st)
		}
		if c.Outcome != "ok" && !(c.Outcome == "refuse" && !sync) {
			return vstat.Violf("outcome class %s was answered with success", c.Outcome)
		}
		if c.Outcome == "refuse" {
			x.Class("async-answered-at-commit-before-refusal")
		}
	} else {
		if tx.Status.State != configapi.TransactionStatus_FAILED {
			return vstat.Violf("the request was answered with %v but its transaction is %v, not FAILED", call.Err, tx.Status.State)
		}
		if tx.Status.Failure != nil {
			if want, ok := failureCode[tx.Status.Failure.Type]; ok && Code(call.Err) != want {
				return vstat.Violf("the transaction failed with class %v but the caller was answered with %v", tx.Status.Failure.Type, call.Err)
			}
		}
		if c.Outcome == "ok" {
			return vstat.Violf("a request that must succeed was answered with %v (transaction %v%s)", call.Err, tx.Status.State, failureOf(tx))
		}
	}
	if c.Kind == "set" && call.Err == nil {
		// the response lists exactly the changed target/path pairs with their operation
		want := map[string]string{}
		for _, o := range spec.Resolved() {
			op := "UPDATE"
			if o.Kind == "delete" {
				op = "DELETE"
			}
			want[o.Target+":"+o.Path.String()] = op
		}
		got := map[string]string{}
		for _, ur := range call.Resp.Response {
			got[ur.Path.Target+":"+fakes.ElemsKey(ur.Path.Elem)] = ur.Op.String()
		}
		if d := model.DiffFlat(got, want); d != "" {
			return vstat.Violf("the SetResponse does not list exactly the changed target/path pairs: %s", d)
		}
		if len(call.Resp.Response) != len(want) {
			return vstat.Violf("the SetResponse lists %d results for %d changed target/path pairs", len(call.Resp.Response), len(want))
		}
		if c.Extra&7 != 0 {
			x.Class("set:one-path-named-on-two-targets")
		}
		// extension 110 carries id and index of the stored record
		var info *configapi.TransactionInfo
		for _, e := range call.Resp.Extension {
			if re := e.GetRegisteredExt(); re != nil && re.Id == configapi.TransactionInfoExtensionID {
				info = &configapi.TransactionInfo{}
				if err := proto.Unmarshal(re.Msg, info); err != nil {
					return vstat.Violf("extension 110 does not decode: %v", err)
				}
			}
		}
		if info == nil || info.ID != tx.ID || info.Index != tx.Index {
			return vstat.Violf("extension 110 carries %+v, the stored record is id %s index %d", info, tx.ID, tx.Index)
		}
		keys := make([]string, 0, len(got))
		for k := range got {
			keys = append(keys, k)
		}
		sort.Strings(keys)
		_ = keys
		_ = gpb.UpdateResult_UPDATE
		_ = context.Background
	}
	return nil
}

// TestC08_AlwaysAnsweredTruthfully: every placement of the controllers'
// progress relative to the handler's create / subscribe steps.
func TestC08_AlwaysAnsweredTruthfully(t *testing.T) {
	vstat.Run(t, "C08", genC08, runC08)
}
