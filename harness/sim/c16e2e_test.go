package sim

import (
	"context"
	"encoding/json"
	"fmt"
	"sort"
	"strconv"
	"strings"
	"testing"

	configapi "github.com/onosproject/onos-api/go/onos/config/v2"
	gpb "github.com/openconfig/gnmi/proto/gnmi"
	"pgregory.net/rapid"

	"verif/harness/fakes"
	"verif/harness/model"
	"verif/harness/vstat"
)

// ---------------------------------------------------------------------------
// C16, end-to-end half: "the path a client names is the path that is stored,
// pushed to the device and reported back".
//
// Domain (established from the validators and by experiment against the real
// handlers, see c16Domain):
//
//   update / replace of a leaf   every key value the validator looks at must be [A-Za-z0-9._-]+ ('*' passes
//                                CheckPathIndexIsValid but IsPathValid refuses it). CheckKeyValue looks at ALL
//                                keys up to the leaf's own key for a key leaf, but only at the FIRST key of the
//                                path for any other leaf: the later keys of such a path additionally get through
//                                with ':' '/' '[' (IsPathValid admits them, AnonymizePathIndices copes with them).
//   JSON-valued update           the path is not looked at by CheckKeyValue at all; generated over [A-Za-z0-9._-]+
//                                only (what comes back is decided by the model plugin, which is a fake here)
//   delete                       [A-Za-z0-9._-]+ plus ':' '/' '[' in any key; '=' too when the path ends in a
//                                leaf name. Space, ']', '\', '*', ',' ... are refused with an error.
//   empty operation path         legal for a JSON-valued update (everything in the prefix); an update or delete
//                                with an empty path is refused with an error (the text gets a trailing '/').
//
// What is refused with an explicit error is outside the domain: counted, never
// asserted - except for requests of the core domain (all key values over
// [A-Za-z0-9._-]+, no empty path), which MUST be accepted.
// ---------------------------------------------------------------------------

// C16E2ECase is a short history of Sets on one connected target.
type C16E2ECase struct {
	Sets   []SetSpec `json:"sets"`
	Resync bool      `json:"resync,omitempty"` // device restarts empty and reconnects after the last Set
}

const (
	c16T       = "t1"
	c16D1      = "abcdefghijklmnopqrstuvwxyzABCDEFGHIJKLMNOPQRSTUVWXYZ0123456789._-"
	c16Hole    = ":/["
	c16Outside = " ]\\*,=+("
)

// ---- independent path text handling ---------------------------------------

// c16Parse parses path text by the gNMI path conventions: '/' separates elements outside [..] groups, a group is
// [name=value], value runs to the first ']' that is not escaped, '\' escapes the next character. It is the harness's
// own parser (the code under test has utils.SplitPath + utils.ParseGNMIElements and two ad-hoc splitters).
func c16Parse(s string) (model.Path, error) {
	if s == "" || s == "/" {
		return nil, nil
	}
	if s[0] != '/' {
		return nil, fmt.Errorf("path text %q does not start with '/'", s)
	}
	var p model.Path
	i := 0
	for i < len(s) {
		if s[i] != '/' {
			return nil, fmt.Errorf("path text %q: expected '/' at offset %d", s, i)
		}
		i++
		var name strings.Builder
		for i < len(s) && s[i] != '/' && s[i] != '[' {
			if s[i] == '\\' && i+1 < len(s) {
				i++
			}
			name.WriteByte(s[i])
			i++
		}
		if name.Len() == 0 {
			return nil, fmt.Errorf("path text %q: empty element name at offset %d", s, i)
		}
		e := model.Elem{Name: name.String()}
		for i < len(s) && s[i] == '[' {
			i++
			var k, v strings.Builder
			for i < len(s) && s[i] != '=' {
				if s[i] == '\\' && i+1 < len(s) {
					i++
				}
				k.WriteByte(s[i])
				i++
			}
			if i >= len(s) {
				return nil, fmt.Errorf("path text %q: key group without '='", s)
			}
			i++ // '='
			closed := false
			for i < len(s) {
				if s[i] == ']' {
					closed = true
					i++
					break
				}
				if s[i] == '\\' && i+1 < len(s) {
					i++
				}
				v.WriteByte(s[i])
				i++
			}
			if !closed {
				return nil, fmt.Errorf("path text %q: key group without ']'", s)
			}
			if k.Len() == 0 || v.Len() == 0 {
				return nil, fmt.Errorf("path text %q: empty key name or value", s)
			}
			if e.Keys == nil {
				e.Keys = map[string]string{}
			}
			if _, dup := e.Keys[k.String()]; dup {
				return nil, fmt.Errorf("path text %q: key %q twice in one element", s, k.String())
			}
			e.Keys[k.String()] = v.String()
		}
		p = append(p, e)
	}
	return p, nil
}

// c16Render is the harness's own canonical rendering (keys sorted by name, ']' and '\' escaped in key values). It is
// used for the histogram only: the statement does not prescribe one textual form, it asks that there be exactly one.
func c16Render(p model.Path) string {
	if len(p) == 0 {
		return "/"
	}
	var b strings.Builder
	for _, e := range p {
		b.WriteByte('/')
		b.WriteString(e.Name)
		for _, k := range sortedKeyNames(e.Keys) {
			b.WriteString("[" + k + "=")
			for i := 0; i < len(e.Keys[k]); i++ {
				if c := e.Keys[k][i]; c == ']' || c == '\\' {
					b.WriteByte('\\')
				}
				b.WriteByte(e.Keys[k][i])
			}
			b.WriteByte(']')
		}
	}
	return b.String()
}

// c16ID is an injective encoding of a path (quoted names, keys and values), used as a map key by the oracle.
func c16ID(p model.Path) string {
	var b strings.Builder
	for _, e := range p {
		fmt.Fprintf(&b, "/%q", e.Name)
		for _, k := range sortedKeyNames(e.Keys) {
			fmt.Fprintf(&b, "[%q=%q]", k, e.Keys[k])
		}
	}
	return b.String()
}

func c16Same(a, b model.Path) bool {
	if len(a) != len(b) {
		return false
	}
	for i := range a {
		if a[i].Name != b[i].Name || len(a[i].Keys) != len(b[i].Keys) {
			return false
		}
		for k, v := range a[i].Keys {
			if w, ok := b[i].Keys[k]; !ok || w != v {
				return false
			}
		}
	}
	return true
}

// c16Covers: node d addresses leaf l (element-wise prefix, all keys of d equal).
func c16Covers(d, l model.Path) bool {
	return len(d) <= len(l) && model.Covers(d, l)
}

func c16Show(p model.Path) string { return c16Render(p) }

// ---- generator --------------------------------------------------------------

var c16Leaves = func() []model.LeafDef {
	var out []model.LeafDef
	for _, l := range model.M1 {
		if strings.HasPrefix(l.Schema, "/types/") || l.Tags == "pad" || l.Tags == "poison" || l.Tags == "min" || l.Tags == "max" {
			continue
		}
		out = append(out, l)
		if strings.Contains(l.Schema, "[") { // keyed paths three times as often
			out = append(out, l, l)
		}
		if strings.Contains(l.Schema, "/l3[") || strings.Contains(l.Schema, "/l2[") || strings.Contains(l.Schema, "t1e:") {
			out = append(out, l)
		}
		if l.Schema == "/l1[id=*]/l3[n=*]/v" { // the one shape whose later key the update validator does not look at
			out = append(out, l, l, l, l, l, l, l, l)
		}
	}
	return out
}()

// c16Parent is a node with two or more leaf children.
type c16Parent struct {
	Schema string
	Depth  int
	Kids   []model.LeafDef
}

// c16Parents lists the nodes of the model that have sibling leaves; those three or more elements deep are listed
// four times (a request that writes siblings beneath a deep parent is a class of its own).
var c16Parents = func() []c16Parent {
	by := map[string]*c16Parent{}
	var order []string
	seen := map[string]bool{}
	for _, l := range c16Leaves {
		if seen[l.Schema] {
			continue
		}
		seen[l.Schema] = true
		sp := model.Parse(l.Schema)
		ps := sp[:len(sp)-1].String()
		if by[ps] == nil {
			by[ps] = &c16Parent{Schema: ps, Depth: len(sp) - 1}
			order = append(order, ps)
		}
		by[ps].Kids = append(by[ps].Kids, l)
	}
	var out []c16Parent
	for _, ps := range order {
		if p := by[ps]; len(p.Kids) >= 2 && p.Depth >= 1 {
			out = append(out, *p)
			if p.Depth >= 3 {
				out = append(out, *p, *p, *p)
			}
		}
	}
	return out
}()

type c16JSONTemplate struct {
	Schema string
	Doc    string // %s placeholders are replaced by distinct strings
}

var c16JSONTemplates = []c16JSONTemplate{
	{"/l1[id=*]", `{"v":"%s"}`},
	{"/l1[id=*]", `{"sub":{"x":"%s"},"v":"%s"}`},
	{"/l1[id=*]/l3[n=*]", `{"v":"%s"}`},
	{"/l1x[id=*]", `{"v":"%s"}`},
	{"/t1e:list4[id=*]", `{"t1e:leaf":"%s"}`},
	{"/l2[k1=*][k2=*]", `{"v":"%s"}`},
	{"/a/c", `{"d":"%s"}`},
	{"/a", `{"b.x":"%s","b":"%s"}`},
}

type c16Gen struct {
	rt    *rapid.T
	pools map[string][]string
	ref   model.Config // generation-time reference: assumes every request is accepted
	n     int
}

func (g *c16Gen) draw(lo, hi int, label string) int { return rapid.IntRange(lo, hi).Draw(g.rt, label) }

func (g *c16Gen) pick(pool []string, label string) string { return pool[g.draw(0, len(pool)-1, label)] }

func c16Restrict(v, allowed string) string {
	var b strings.Builder
	for i := 0; i < len(v); i++ {
		if strings.IndexByte(allowed, v[i]) >= 0 {
			b.WriteByte(v[i])
		}
	}
	if b.Len() == 0 {
		return "a"
	}
	return b.String()
}

func c16Cap(v string) string {
	if len(v) > 12 {
		return v[:12]
	}
	return v
}

// lookalike returns a value that is easily confused with b.
func (g *c16Gen) lookalike(b string, label string) string {
	seps := []string{".", "-", "_", ""}
	idx := strings.IndexAny(b, "._-")
	switch g.draw(0, 9, label+".la") {
	case 0, 1:
		if idx >= 0 {
			return c16Cap(b[:idx] + seps[g.draw(0, 3, label+".sep")] + b[idx+1:])
		}
		if len(b) >= 2 {
			cut := g.draw(1, len(b)-1, label+".cut")
			return c16Cap(b[:cut] + seps[g.draw(0, 2, label+".sep")] + b[cut:])
		}
		return c16Cap(b + seps[g.draw(0, 2, label+".sep")] + b)
	case 2:
		return c16Cap(strings.NewReplacer(".", "", "-", "", "_", "").Replace(b) + "")
	case 3:
		return c16Cap("0" + b)
	case 4:
		return c16Cap(b + ".0")
	case 5:
		if len(b) > 1 {
			return b[:len(b)-1]
		}
		return b + b
	case 6:
		return c16Cap(b + string(c16D1[g.draw(0, len(c16D1)-1, label+".app")]))
	case 7:
		return c16Cap(b + ".")
	case 8:
		if idx >= 0 {
			return c16Cap(b[:idx+1] + b[idx:]) // doubled separator: a.b -> a..b
		}
		return c16Cap("." + b)
	default:
		c := b[0]
		switch {
		case c >= 'a' && c <= 'z':
			return string(c-32) + b[1:]
		case c >= 'A' && c <= 'Z':
			return string(c+32) + b[1:]
		}
		return c16Cap(b + "-")
	}
}

// keyValue draws a key value. mode: "d1" (validator alphabet), "later" (update, later key of a non-key leaf: the hole
// adds : / [), "del" (delete: : / [ and, when leafEnd, =), plus rarely a character the handlers refuse.
func (g *c16Gen) keyValue(label, key, mode string, leafEnd bool) string {
	switch key {
	case "k1":
		pool := []int{0, 1, 7, 10, 100, 255}
		if g.draw(0, 2, label+".k1r") == 0 {
			return strconv.Itoa(g.draw(0, 255, label+".k1"))
		}
		return strconv.Itoa(pool[g.draw(0, len(pool)-1, label+".k1p")])
	case "k2":
		return []string{"true", "false"}[g.draw(0, 1, label+".k2")]
	}
	pool := g.pools[key]
	var v string
	r := g.draw(0, 11, label+".src")
	switch {
	case r <= 2 && len(pool) > 0:
		v = g.pick(pool, label+".reuse")
	case r <= 5 && len(pool) > 0:
		v = g.lookalike(g.pick(pool, label+".base"), label)
	case r == 6:
		v = g.pick([]string{".", "..", "...", "-", "_", "-.", "._-", "a..b", "a...b", ".a", "a."}, label+".dots")
	case r == 7:
		v = g.pick([]string{"id", "v", "n", "l1", "l3", "sub", "true", "false", "k1", "w", "x", "t1e", "list4"}, label+".names")
	case r == 8:
		n := g.draw(1, 6, label+".nd")
		var b strings.Builder
		for i := 0; i < n; i++ {
			b.WriteByte("0123456789"[g.draw(0, 9, label+".dg")])
		}
		v = b.String()
	default:
		n := g.draw(1, 12, label+".len")
		var b strings.Builder
		for i := 0; i < n; i++ {
			if g.draw(0, 3, label+".pc") == 0 {
				b.WriteByte("._-"[g.draw(0, 2, label+".p")])
			} else {
				b.WriteByte(c16D1[g.draw(0, len(c16D1)-1, label+".c")])
			}
		}
		v = b.String()
	}
	extra := ""
	switch mode {
	case "later":
		extra = c16Hole
	case "del":
		extra = c16Hole
		if leafEnd {
			extra += "="
		}
	}
	v = c16Restrict(v, c16D1+extra)
	if extra != "" && g.draw(0, 1, label+".x") == 0 {
		w := c16Restrict(g.pick(append([]string{"b", "1"}, pool...), label+".xw"), c16D1)
		c := string(extra[g.draw(0, len(extra)-1, label+".xc")])
		switch g.draw(0, 9, label+".xt") {
		case 0:
			v = v + c + w
		case 1:
			v = c + v
		case 2:
			v = v + c
		case 3:
			v = c
		case 4, 5:
			v = v + "/./" + w // what a "cleaning" join would rewrite
		case 6, 7:
			v = v + "/../" + w
		case 8:
			v = "eth1/1"
		default:
			if c == "/" {
				c = ":" // "//" is refused (empty segment), "::" and "[[" are not
			}
			v = v + c + c + w
		}
	}
	if (mode == "del" || mode == "later") && g.draw(0, 99, label+".out") == 0 {
		v = v + string(c16Outside[g.draw(0, len(c16Outside)-1, label+".oc")]) + "z"
	}
	v = c16Cap(v)
	if len(g.pools[key]) < 12 {
		g.pools[key] = append(g.pools[key], v)
	}
	return v
}

// instantiate fills the keys of schema path p from element index `from` on. The first key of the whole path (text
// order) and every key of a key leaf's path are drawn from the validator's alphabet.
func (g *c16Gen) instantiate(p model.Path, from int, kind string, isKey bool, label string) {
	nth := 0
	for i := range p {
		for _, k := range sortedKeyNames(p[i].Keys) {
			if i >= from {
				mode := "d1"
				switch {
				case kind == "delete":
					mode = "del"
				case kind == "update" && !isKey && nth > 0:
					mode = "later"
				}
				leafEnd := len(p[len(p)-1].Keys) == 0
				p[i].Keys[k] = g.keyValue(fmt.Sprintf("%s.%d.%s", label, i, k), k, mode, leafEnd)
			}
			nth++
		}
	}
}

func (g *c16Gen) value(ld model.LeafDef, p model.Path) model.Value {
	g.n++
	if ld.IsKey {
		kv := p[len(p)-2].Keys[ld.Attr()]
		switch ld.Type {
		case configapi.ValueType_UINT:
			n, _ := strconv.ParseUint(kv, 10, 64)
			return model.Uint(n)
		case configapi.ValueType_BOOL:
			return model.Bool(kv == "true")
		}
		return model.Str(kv)
	}
	switch ld.Type {
	case configapi.ValueType_UINT:
		return model.Uint(uint64(g.n))
	case configapi.ValueType_INT:
		return model.Int(int64(-g.n))
	}
	return model.Str(fmt.Sprintf("s%d", g.n))
}

func (g *c16Gen) sortedRef() []model.Leaf {
	out := make([]model.Leaf, 0, len(g.ref))
	for _, l := range g.ref {
		out = append(out, l)
	}
	sort.Slice(out, func(i, j int) bool { return c16ID(out[i].Path) < c16ID(out[j].Path) })
	return out
}

// genWrite draws an update/replace of one leaf: fresh, or derived from an earlier path (a sibling leaf beneath the same
// list entry, or the same leaf with ONE key value replaced by a look-alike).
func (g *c16Gen) genWrite(kind string, earlier []model.Path, label string) model.Op {
	var ld model.LeafDef
	var p model.Path
	if len(earlier) > 0 && g.draw(0, 2, label+".derive") > 0 {
		base := earlier[g.draw(0, len(earlier)-1, label+".base")].Clone()
		var keyed []int
		for i, e := range base {
			if len(e.Keys) > 0 {
				keyed = append(keyed, i)
			}
		}
		if bl, ok := model.Lookup(model.M1, base); ok && len(keyed) > 0 {
			if g.draw(0, 1, label+".how") == 0 {
				// same leaf, one key value replaced by a look-alike
				i := keyed[g.draw(0, len(keyed)-1, label+".ke")]
				ks := sortedKeyNames(base[i].Keys)
				k := ks[g.draw(0, len(ks)-1, label+".kk")]
				if k != "k1" && k != "k2" {
					allowed := c16D1
					if !bl.IsKey && !(i == keyed[0] && k == ks[0]) {
						allowed += c16Hole
					}
					base[i].Keys[k] = c16Restrict(g.lookalike(base[i].Keys[k], label), allowed)
				} else {
					base[i].Keys[k] = g.keyValue(label+".tk", k, "d1", false)
				}
				ld, p = bl, base
			} else {
				// a sibling leaf beneath the same keyed element
				d := keyed[g.draw(0, len(keyed)-1, label+".kd")] + 1
				want := model.SchemaOf(base[:d])
				var cands []model.LeafDef
				for _, l := range c16Leaves {
					sp := model.Parse(l.Schema)
					if len(sp) > d && model.SchemaOf(sp[:d]) == want {
						cands = append(cands, l)
					}
				}
				if len(cands) > 0 {
					ld = cands[g.draw(0, len(cands)-1, label+".sib")]
					p = model.Parse(ld.Schema)
					for i := 0; i < d; i++ {
						p[i] = base[i]
					}
					if ld.IsKey {
						for i := 0; i < d; i++ {
							for k, v := range p[i].Keys {
								p[i].Keys[k] = c16Restrict(v, c16D1)
							}
						}
					}
					g.instantiate(p, d, "update", ld.IsKey, label)
				}
			}
		}
	}
	if p == nil {
		ld = c16Leaves[g.draw(0, len(c16Leaves)-1, label+".leaf")]
		p = model.Parse(ld.Schema)
		g.instantiate(p, 0, "update", ld.IsKey, label)
	}
	v := g.value(ld, p)
	return model.Op{Kind: kind, Target: c16T, Path: p, Val: &v}
}

// genSiblings draws ONE request's worth of writes to two or more sibling leaves of one parent node.
func (g *c16Gen) genSiblings(label string) []model.Op {
	par := c16Parents[g.draw(0, len(c16Parents)-1, label+".parent")]
	n := g.draw(2, len(par.Kids), label+".nkids")
	first := g.draw(0, len(par.Kids)-1, label+".first")
	var kids []model.LeafDef
	anyKey := false
	for i := 0; i < n; i++ {
		k := par.Kids[(first+i)%len(par.Kids)]
		kids = append(kids, k)
		anyKey = anyKey || k.IsKey
	}
	pp := model.Parse(par.Schema)
	g.instantiate(pp, 0, "update", anyKey, label)
	var ops []model.Op
	for _, k := range kids {
		p := append(pp.Clone(), model.Elem{Name: k.Attr()})
		v := g.value(k, p)
		ops = append(ops, model.Op{Kind: "update", Target: c16T, Path: p, Val: &v})
	}
	return ops
}

// genTwoEntries draws writes of one leaf in two entries of the same list that differ in ONE key value.
func (g *c16Gen) genTwoEntries(label string) []model.Op {
	var ld model.LeafDef
	for {
		ld = c16Leaves[g.draw(0, len(c16Leaves)-1, label+".leaf")]
		if strings.Contains(ld.Schema, "[") {
			break
		}
	}
	p1 := model.Parse(ld.Schema)
	g.instantiate(p1, 0, "update", ld.IsKey, label)
	p2 := p1.Clone()
	var keyed []int
	for i, e := range p2 {
		if len(e.Keys) > 0 {
			keyed = append(keyed, i)
		}
	}
	i := keyed[g.draw(0, len(keyed)-1, label+".ke")]
	ks := sortedKeyNames(p2[i].Keys)
	k := ks[g.draw(0, len(ks)-1, label+".kk")]
	if k == "k1" || k == "k2" {
		p2[i].Keys[k] = g.keyValue(label+".tk", k, "d1", false)
	} else {
		allowed := c16D1
		if !ld.IsKey && !(i == keyed[0] && k == ks[0]) {
			allowed += c16Hole
		}
		p2[i].Keys[k] = c16Restrict(g.lookalike(p2[i].Keys[k], label), allowed)
	}
	v1 := g.value(ld, p1)
	ops := []model.Op{{Kind: "update", Target: c16T, Path: p1, Val: &v1}}
	if !c16Same(p1, p2) {
		v2 := g.value(ld, p2)
		ops = append(ops, model.Op{Kind: "update", Target: c16T, Path: p2, Val: &v2})
	}
	return ops
}

func (g *c16Gen) genJSON(label string) model.Op {
	t := c16JSONTemplates[g.draw(0, len(c16JSONTemplates)-1, label+".tmpl")]
	p := model.Parse(t.Schema)
	g.instantiate(p, 0, "json", true, label)
	doc := t.Doc
	for strings.Contains(doc, "%s") {
		g.n++
		doc = strings.Replace(doc, "%s", fmt.Sprintf("j%d", g.n), 1)
	}
	v := model.Value{T: "json", S: doc}
	return model.Op{Kind: "update", Target: c16T, Path: p, Val: &v}
}

func (g *c16Gen) genDelete(label string) model.Op {
	live := g.sortedRef()
	var p model.Path
	if len(live) > 0 && g.draw(0, 9, label+".aim") < 7 {
		l := live[g.draw(0, len(live)-1, label+".live")]
		p = l.Path.Clone()
		switch g.draw(0, 3, label+".what") {
		case 0: // the leaf (a key leaf stands for its entry)
		case 1: // the nearest list entry or the parent container
			for len(p) > 1 && len(p[len(p)-1].Keys) == 0 {
				p = p[:len(p)-1]
				if g.draw(0, 1, label+".stop") == 0 {
					break
				}
			}
		case 2: // the key leaf of the nearest entry
			for i := len(p) - 1; i >= 0; i-- {
				if len(p[i].Keys) > 0 {
					ks := sortedKeyNames(p[i].Keys)
					p = append(p[:i+1].Clone(), model.Elem{Name: ks[g.draw(0, len(ks)-1, label+".kl")]})
					break
				}
			}
		default: // a look-alike of an existing entry (usually not there)
			for i := len(p) - 1; i >= 0; i-- {
				if len(p[i].Keys) > 0 {
					ks := sortedKeyNames(p[i].Keys)
					k := ks[g.draw(0, len(ks)-1, label+".lk")]
					if k != "k1" && k != "k2" {
						p[i].Keys[k] = c16Restrict(g.lookalike(p[i].Keys[k], label), c16D1+c16Hole)
					}
					if g.draw(0, 1, label+".cut") == 0 {
						p = p[:i+1]
					}
					break
				}
			}
		}
	} else {
		ld := c16Leaves[g.draw(0, len(c16Leaves)-1, label+".leaf")]
		p = model.Parse(ld.Schema)
		if ld.IsKey {
			p = p[:len(p)-1]
		}
		// cut at a keyed element sometimes
		if g.draw(0, 1, label+".cutk") == 0 {
			for i := len(p) - 1; i >= 0; i-- {
				if len(p[i].Keys) > 0 {
					p = p[:i+1]
					break
				}
			}
		}
		g.instantiate(p, 0, "delete", false, label)
	}
	return model.Op{Kind: "delete", Target: c16T, Path: p}
}

// c16Touched returns the nodes an operation writes or removes (JSON-valued updates expanded to their leaves).
func c16Touched(o model.Op) []model.Path {
	switch {
	case o.Kind == "delete":
		return []model.Path{EffectiveDelete(o.Path)}
	case o.Val != nil && o.Val.T == "json":
		var out []model.Path
		for _, l := range c16ExpandJSON(o.Path, o.Val.S) {
			out = append(out, l.Path)
		}
		return out
	}
	return []model.Path{o.Path}
}

// c16ExpandJSON flattens a JSON value made of nested objects with string members into leaves beneath base.
func c16ExpandJSON(base model.Path, doc string) []model.Leaf {
	var root map[string]any
	if json.Unmarshal([]byte(doc), &root) != nil {
		return nil
	}
	var out []model.Leaf
	var walk func(at model.Path, m map[string]any)
	walk = func(at model.Path, m map[string]any) {
		names := make([]string, 0, len(m))
		for n := range m {
			names = append(names, n)
		}
		sort.Strings(names)
		for _, n := range names {
			p := append(at.Clone(), model.Elem{Name: n})
			switch v := m[n].(type) {
			case map[string]any:
				walk(p, v)
			case string:
				out = append(out, model.Leaf{Path: p, Value: model.Str(v)})
			}
		}
	}
	walk(base, root)
	return out
}

// c16Conflict: two operations of one request that gNMI semantics or a listed finding make ambiguous - the same node
// twice, a delete covering another operation's node (F-ancestor-delete-order and its relatives).
func c16Conflict(a, b model.Op) bool {
	for _, x := range c16Touched(a) {
		for _, y := range c16Touched(b) {
			if c16Same(x, y) {
				return true
			}
			if a.Kind == "delete" && c16Covers(x, y) {
				return true
			}
			if b.Kind == "delete" && c16Covers(y, x) {
				return true
			}
		}
	}
	return false
}

// c16CleanTwin returns what a path-cleaning join would make of a key value holding a dot segment ("" if it has none).
func c16CleanTwin(v string) string {
	if i := strings.Index(v, "/./"); i >= 0 {
		return v[:i] + "/" + v[i+3:]
	}
	if i := strings.Index(v, "/../"); i >= 0 && len(v) > i+4 {
		return v[i+4:]
	}
	return ""
}

func c16Common(ops []model.Op) int {
	n := len(ops[0].Path)
	for _, o := range ops[1:] {
		k := 0
		for k < n && k < len(o.Path) && c16Same(ops[0].Path[k:k+1], o.Path[k:k+1]) {
			k++
		}
		n = k
	}
	return n
}

func genC16E2E(rt *rapid.T) C16E2ECase {
	g := &c16Gen{rt: rt, pools: map[string][]string{}, ref: model.Config{}}
	c := C16E2ECase{}
	nsets := g.draw(1, 3, "nsets")
	for si := 0; si < nsets; si++ {
		nops := []int{1, 1, 2, 2, 3, 3, 4, 5}[g.draw(0, 7, "nops")]
		var ops []model.Op
		switch sh := g.draw(0, 9, fmt.Sprintf("s%d.shape", si)); {
		case sh <= 2:
			ops = g.genSiblings(fmt.Sprintf("s%d.sib", si))
			nops = []int{0, 0, 1, 2}[g.draw(0, 3, fmt.Sprintf("s%d.more", si))]
		case sh <= 4:
			ops = g.genTwoEntries(fmt.Sprintf("s%d.two", si))
			nops = []int{0, 0, 1, 2}[g.draw(0, 3, fmt.Sprintf("s%d.more", si))]
		}
		for oi := 0; oi < nops; oi++ {
			label := fmt.Sprintf("s%d.o%d", si, oi)
			var earlier []model.Path
			for _, o := range ops {
				if o.Kind != "delete" && (o.Val == nil || o.Val.T != "json") {
					earlier = append(earlier, o.Path)
				}
			}
			if len(earlier) == 0 || g.draw(0, 2, label+".hist") == 0 {
				for _, l := range g.sortedRef() {
					earlier = append(earlier, l.Path)
				}
			}
			var op model.Op
			k := g.draw(0, 19, label+".kind")
			switch {
			case (si > 0 && k < 9) || (si == 0 && k < 2):
				op = g.genDelete(label)
			case (si > 0 && k < 11) || (si == 0 && k < 5):
				op = g.genJSON(label)
			case k == 19:
				op = g.genWrite("replace", earlier, label)
			default:
				op = g.genWrite("update", earlier, label)
			}
			bad := false
			for _, o := range ops {
				if c16Conflict(o, op) {
					bad = true
				}
			}
			if !bad {
				ops = append(ops, op)
			}
		}
		if len(ops) == 0 {
			ops = append(ops, g.genWrite("update", nil, fmt.Sprintf("s%d.fallback", si)))
		}
		// a key value holding a dot segment ("x/./y", "x/../y") is what a "cleaning" join of prefix and path would
		// rewrite: three times out of four the request is cut down to that operation, so that prefix elements are
		// possible, plus - when the value sits behind the first element - a twin: the entry it would collapse onto
		dotOp, dotElem, dotKey := -1, 0, ""
		for oi, o := range ops {
			if o.Val != nil && o.Val.T == "json" {
				continue
			}
			for ei, e := range o.Path {
				for _, k := range sortedKeyNames(e.Keys) {
					if dotOp < 0 && c16CleanTwin(e.Keys[k]) != "" {
						dotOp, dotElem, dotKey = oi, ei, k
					}
				}
			}
		}
		forceSplit := false
		if dotOp >= 0 && g.draw(0, 3, fmt.Sprintf("s%d.dotfocus", si)) > 0 {
			o := ops[dotOp]
			ops = []model.Op{o}
			forceSplit = true
			if dotElem >= 1 && g.draw(0, 1, fmt.Sprintf("s%d.twin", si)) == 0 {
				t := model.Op{Kind: o.Kind, Target: o.Target, Path: o.Path.Clone()}
				t.Path[dotElem].Keys[dotKey] = c16CleanTwin(o.Path[dotElem].Keys[dotKey])
				ok := true
				if o.Kind != "delete" {
					ld, isLeaf := model.Lookup(model.M1, t.Path)
					ok = isLeaf
					if isLeaf {
						v := g.value(ld, t.Path)
						t.Val = &v
					}
				}
				if ok && !c16Conflict(o, t) {
					ops = append(ops, t)
				}
			}
		}
		// generation-time reference
		var exp []model.Op
		for _, o := range ops {
			exp = append(exp, c16Expand(o)...)
		}
		g.ref.Apply(exp, model.M1)

		spec := SetSpec{}
		// prefix/path split at every possible position, including the whole path in the prefix
		common := c16Common(ops)
		s := g.draw(0, common, fmt.Sprintf("s%d.split", si))
		if forceSplit && common > 0 {
			hi := common
			if len(ops) == 1 && hi > 1 {
				hi-- // leave the operation a path
			}
			s = g.draw(1, hi, fmt.Sprintf("s%d.splitdot", si))
		}
		emptyNonJSON := false
		for _, o := range ops {
			if len(o.Path) == s && !(o.Val != nil && o.Val.T == "json") {
				emptyNonJSON = true
			}
		}
		if emptyNonJSON && g.draw(0, 2, fmt.Sprintf("s%d.keepempty", si)) > 0 {
			s = g.draw(0, s-1, fmt.Sprintf("s%d.split2", si))
		}
		spec.PrefixElems = ops[0].Path[:s].Clone()
		for _, o := range ops {
			o.Path = o.Path[s:].Clone()
			spec.Ops = append(spec.Ops, o)
		}
		// who carries the target
		switch g.draw(0, 2, fmt.Sprintf("s%d.tgt", si)) {
		case 0:
			spec.PrefixTarget = c16T
			for i := range spec.Ops {
				spec.Ops[i].Target = ""
			}
		case 1:
			spec.PrefixTarget = c16T
		}
		c.Sets = append(c.Sets, spec)
	}
	c.Resync = g.draw(0, 2, "resync") == 0
	return c
}

// c16Expand turns one operation (absolute path) into plain leaf operations.
func c16Expand(o model.Op) []model.Op {
	if o.Kind != "delete" && o.Val != nil && o.Val.T == "json" {
		var out []model.Op
		for _, l := range c16ExpandJSON(o.Path, o.Val.S) {
			v := l.Value
			out = append(out, model.Op{Kind: "update", Target: o.Target, Path: l.Path, Val: &v})
		}
		return out
	}
	return []model.Op{o}
}

// ---- domain ---------------------------------------------------------------

func c16Only(v, allowed string) bool {
	for i := 0; i < len(v); i++ {
		if strings.IndexByte(allowed, v[i]) < 0 {
			return false
		}
	}
	return v != ""
}

// c16Domain classifies one operation: "core" (must be accepted), "ext:<what>" (accepted by the unchanged code as
// established by experiment; a refusal is counted, not asserted), "out:<what>" (expected to be refused).
func c16Domain(abs model.Op, relLen int) string {
	isJSON := abs.Kind != "delete" && abs.Val != nil && abs.Val.T == "json"
	if relLen == 0 && !isJSON {
		return "out:empty-path"
	}
	ld, isLeaf := model.Lookup(model.M1, abs.Path)
	worst := "core"
	nth := 0
	leafEnd := len(abs.Path) > 0 && len(abs.Path[len(abs.Path)-1].Keys) == 0
	for _, e := range abs.Path {
		for _, k := range sortedKeyNames(e.Keys) {
			v := e.Keys[k]
			first := nth == 0
			nth++
			if c16Only(v, c16D1) {
				continue
			}
			switch {
			case abs.Kind == "delete" && (c16Only(v, c16D1+c16Hole) || (leafEnd && c16Only(v, c16D1+c16Hole+"="))) && !strings.Contains(v, "//"):
				if worst == "core" {
					worst = "ext:delete-with-:/[="
				}
			case abs.Kind != "delete" && !isJSON && isLeaf && !ld.IsKey && !first && c16Only(v, c16D1+c16Hole) && !strings.Contains(v, "//"):
				if worst == "core" {
					worst = "ext:update-later-key-with-:/["
				}
			default:
				return "out:key-value-refused-by-validator"
			}
		}
	}
	return worst
}

// ---- key value classes ----------------------------------------------------------

func c16KVClass(v string) string {
	switch {
	case c16Only(v, "0123456789"):
		return "digits"
	case c16Only(v, "abcdefghijklmnopqrstuvwxyzABCDEFGHIJKLMNOPQRSTUVWXYZ0123456789"):
		return "alnum"
	case c16Only(v, "._-"):
		return "only . _ -"
	case c16Only(v, c16D1):
		return "with . _ -"
	case c16Only(v, c16D1+c16Hole+"="):
		return "with : / [ ="
	}
	return "with a refused character"
}

func c16Skeleton(v string) string {
	s := strings.ToLower(strings.NewReplacer(".", "", "-", "", "_", "", ":", "", "/", "", "[", "", "=", "").Replace(v))
	s = strings.TrimLeft(s, "0")
	return strings.TrimSuffix(s, "0")
}

// c16LookAlike: two different key values that differ only in separators, case, leading/trailing zeros, or of which one
// is a textual prefix of the other.
func c16LookAlike(a, b string) bool {
	if a == b {
		return false
	}
	return c16Skeleton(a) == c16Skeleton(b) || strings.HasPrefix(a, b) || strings.HasPrefix(b, a)
}

// ---- execution ------------------------------------------------------------------

type c16Sent struct {
	Ctl string
	Req fakes.DeviceReq
}

type c16Exp struct {
	Path model.Path
	Del  bool
	Val  string // value key of an update
	seen int
}

type c16Run struct {
	w    *World
	x    *vstat.Ctx
	ref  model.Config
	sent []c16Sent
	// text registry: one path has one text, one text names one path, everywhere and every time
	textOf map[string]string
	pathOf map[string]string
}

// noteText records that the code renders path p as text.
func (r *c16Run) noteText(p model.Path, text, where string) error {
	id := c16ID(p)
	if prev, ok := r.textOf[id]; ok && prev != text {
		return vstat.Violf("%s: one gNMI path has two textual forms: %s is stored as %q here and as %q elsewhere", where, c16Show(p), text, prev)
	}
	if prev, ok := r.pathOf[text]; ok && prev != id {
		return vstat.Violf("%s: two different gNMI paths share the textual form %q: %s and %s", where, text, id, prev)
	}
	r.textOf[id] = text
	r.pathOf[text] = id
	if text != c16Render(p) {
		r.x.Class("text:differs-from-the-harness's-canonical-rendering")
	}
	return nil
}

func c16Expected(abs []model.Op) []*c16Exp {
	var out []*c16Exp
	for _, o := range abs {
		for _, e := range c16Expand(o) {
			if e.Kind == "delete" {
				out = append(out, &c16Exp{Path: EffectiveDelete(e.Path), Del: true})
			} else {
				out = append(out, &c16Exp{Path: e.Path, Val: e.Val.Key()})
			}
		}
	}
	return out
}

func c16Match(exp []*c16Exp, p model.Path, del bool) *c16Exp {
	for _, e := range exp {
		if e.Del == del && c16Same(e.Path, p) {
			return e
		}
	}
	return nil
}

func c16DescribeExp(exp []*c16Exp) string {
	var parts []string
	for _, e := range exp {
		if e.Del {
			parts = append(parts, "delete "+c16Show(e.Path))
		} else {
			parts = append(parts, "update "+c16Show(e.Path)+"="+e.Val)
		}
	}
	return strings.Join(parts, "; ")
}

// checkAll verifies that got (kind, path, value) is exactly the expected set.
func c16CheckSet(where string, exp []*c16Exp, got []c16Exp, withValues bool) error {
	for _, e := range exp {
		e.seen = 0
	}
	for _, g := range got {
		e := c16Match(exp, g.Path, g.Del)
		if e == nil {
			return vstat.Violf("%s: %s %s is not a path the client named; the client named {%s}", where, map[bool]string{true: "delete", false: "update"}[g.Del], c16Show(g.Path), c16DescribeExp(exp))
		}
		e.seen++
		if e.seen > 1 {
			return vstat.Violf("%s: %s appears twice", where, c16Show(g.Path))
		}
		if withValues && !g.Del && g.Val != e.Val {
			return vstat.Violf("%s: %s carries %s, the client wrote %s there (values of two paths swapped or merged)", where, c16Show(g.Path), g.Val, e.Val)
		}
	}
	for _, e := range exp {
		if e.seen == 0 {
			return vstat.Violf("%s: the client's %s %s is missing (dropped or merged with another path); present: {%s}", where, map[bool]string{true: "delete", false: "update"}[e.Del], c16Show(e.Path), c16DescribeGot(got))
		}
	}
	return nil
}

func c16DescribeGot(got []c16Exp) string {
	var parts []string
	for _, g := range got {
		parts = append(parts, map[bool]string{true: "delete ", false: "update "}[g.Del]+c16Show(g.Path))
	}
	return strings.Join(parts, "; ")
}

func c16Full(prefix *gpb.Path, p *gpb.Path) model.Path {
	var pe, qe []*gpb.PathElem
	if prefix != nil {
		pe = prefix.Elem
	}
	if p != nil {
		qe = p.Elem
	}
	return model.Join(model.FromGnmi(pe), model.FromGnmi(qe))
}

const c16SlashFinding = "F-get-proto-slash-in-key"
const c16DotsFinding = "F-get-dots-in-key-are-wildcard"

func c16HasSlashKey(p model.Path) bool {
	for _, e := range p {
		for _, v := range e.Keys {
			if strings.Contains(v, "/") {
				return true
			}
		}
	}
	return false
}

func c16HasDotsKey(p model.Path) bool {
	for _, e := range p {
		for _, v := range e.Keys {
			if strings.Contains(v, "...") {
				return true
			}
		}
	}
	return false
}

// c16Got is what one Get reports for one requested path.
type c16Got struct {
	abs, rel []c16Exp          // PROTO: update paths read as absolute / as relative to the notification's prefix
	flat     map[string]string // JSON: flattened document
}

// get issues one Get for several nodes that share the prefix elements (the target travels in the prefix when there are
// prefix elements, else in the paths) and returns what is reported per requested path (notifications come in request
// order, one per path).
func (r *c16Run) get(prefix model.Path, rels []model.Path, enc gpb.Encoding) ([]c16Got, error) {
	req := &gpb.GetRequest{Encoding: enc}
	if len(prefix) > 0 {
		req.Prefix = prefix.Gnmi()
		req.Prefix.Target = c16T
	}
	for _, rel := range rels {
		p := rel.Gnmi()
		if len(prefix) == 0 {
			p.Target = c16T
		}
		req.Path = append(req.Path, p)
	}
	resp, gerr, pan, st := r.w.Get(req, nil)
	if pan != nil {
		return nil, fmt.Errorf("Get panicked: %v\n%s", pan, st)
	}
	if gerr != nil {
		return nil, gerr
	}
	if len(resp.Notification) != len(rels) {
		return nil, fmt.Errorf("%d notifications for %d requested paths", len(resp.Notification), len(rels))
	}
	out := make([]c16Got, len(rels))
	for i, n := range resp.Notification {
		out[i].flat = map[string]string{}
		for _, u := range n.Update {
			if u.Val == nil {
				continue
			}
			if enc != gpb.Encoding_PROTO {
				f, ferr := model.FlattenJSON(u.Val.GetJsonVal(), r.w.Schema)
				if ferr != nil {
					return nil, fmt.Errorf("JSON document does not flatten: %v (document %s)", ferr, trunc(string(u.Val.GetJsonVal()), 300))
				}
				for k, v := range f {
					out[i].flat[k] = v
				}
				continue
			}
			val := model.FromGnmiValue(u.Val).Key()
			out[i].abs = append(out[i].abs, c16Exp{Path: model.FromGnmi(u.Path.GetElem()), Val: val})
			out[i].rel = append(out[i].rel, c16Exp{Path: c16Full(n.Prefix, u.Path), Val: val})
		}
	}
	return out, nil
}

// wanted returns the reference's leaves beneath node q.
func (r *c16Run) wanted(q model.Path) (want []*c16Exp, cfg model.Config, slash bool) {
	cfg = model.Config{}
	for _, l := range r.sortedRef() {
		if c16Covers(q, l.Path) {
			want = append(want, &c16Exp{Path: l.Path, Val: l.Value.Key()})
			cfg[l.Path.String()] = l
			if c16HasSlashKey(l.Path) {
				slash = true
			}
		}
	}
	return
}

// verify compares what a Get reported for node q with the reference.
func (r *c16Run) verify(q model.Path, split int, got c16Got, enc gpb.Encoding, where string) error {
	want, cfg, _ := r.wanted(q)
	if enc != gpb.Encoding_PROTO {
		if d := model.DiffFlat(got.flat, model.WithImpliedKeys(cfg, r.w.Schema)); d != "" {
			return vstat.Violf("%s (JSON): the flattened document differs from what the client wrote beneath that node: %s", where, d)
		}
		return nil
	}
	e1 := c16CheckSet(where+" (PROTO, update paths read as absolute)", want, got.abs, true)
	if e1 == nil {
		if split > 0 && len(want) > 0 {
			r.x.Class("get:proto paths absolute although the prefix is echoed")
		}
		return nil
	}
	if split == 0 {
		return e1
	}
	if e2 := c16CheckSet(where+" (PROTO, update paths read relative to the notification prefix)", want, got.rel, true); e2 != nil {
		return vstat.Violf("%v; and %v", e1, e2)
	}
	r.x.Class("get:proto paths relative to the echoed prefix")
	return nil
}

// checkGets: Gets of the nodes qs (all beneath the same first `split` elements, which travel as the request's prefix)
// report exactly the leaves of the reference beneath each node, under exactly the paths the client used when it wrote
// them - PROTO update paths and flattened JSON document. The nodes are asked for in one request per encoding; should
// that not give the expected answer, every node is asked for on its own and that answer decides.
func (r *c16Run) checkGets(qs []model.Path, split int, when string) error {
	var nodes []model.Path
	for _, q := range qs {
		if c16HasDotsKey(q) {
			// "..." inside a KEY VALUE of the query is taken for the multi-level wildcard
			got, err := r.get(q[:split], []model.Path{q[split:]}, gpb.Encoding_PROTO)
			where := fmt.Sprintf("%s: Get prefix=%s path=%s", when, c16Show(q[:split]), c16Show(q[split:]))
			if err == nil {
				err = r.verify(q, split, got[0], gpb.Encoding_PROTO, where)
			}
			if err == nil {
				r.x.Class("get:key value with three dots, nothing else matched")
			} else if vstat.IsKnown("C16", c16DotsFinding) {
				r.x.Known(c16DotsFinding, "a Get whose path holds a key value containing \"...\" treats it as the multi-level wildcard and reports other entries too")
			} else if _, ok := err.(*vstat.Violation); ok {
				return vstat.Violf("%v [the query's key value contains \"...\", which is taken for the multi-level wildcard]", err)
			} else {
				return vstat.Violf("%s failed: %v", where, err)
			}
			continue
		}
		nodes = append(nodes, q)
	}
	if len(nodes) == 0 {
		return nil
	}
	prefix := nodes[0][:split]
	for _, enc := range []gpb.Encoding{gpb.Encoding_PROTO, gpb.Encoding_JSON} {
		rels := make([]model.Path, len(nodes))
		for i, q := range nodes {
			rels[i] = q[split:]
		}
		var batchErr error
		got, err := r.get(prefix, rels, enc)
		if err != nil {
			batchErr = err
		} else {
			for i, q := range nodes {
				if e := r.verify(q, split, got[i], enc, fmt.Sprintf("%s: Get prefix=%s path=%s", when, c16Show(prefix), c16Show(rels[i]))); e != nil {
					batchErr = e
					break
				}
			}
		}
		if batchErr == nil {
			continue
		}
		if len(nodes) > 1 {
			r.x.Logf("   %v Get of %d paths in one request: %v; asking one by one", enc, len(nodes), batchErr)
		}
		known := false
		for i, q := range nodes {
			where := fmt.Sprintf("%s: Get prefix=%s path=%s", when, c16Show(prefix), c16Show(rels[i]))
			_, _, slash := r.wanted(q)
			got, err := r.get(prefix, rels[i:i+1], enc)
			switch {
			case err != nil && slash && enc == gpb.Encoding_PROTO:
				if vstat.IsKnown("C16", c16SlashFinding) {
					r.x.Known(c16SlashFinding, "a PROTO Get that selects a stored leaf whose path holds a key value containing '/' fails: createUpdate splits the stored text at every '/'")
					known = true
					continue
				}
				return vstat.Violf("%s (PROTO) failed although every selected leaf was accepted, stored and pushed: %v", where, err)
			case err != nil:
				return vstat.Violf("%s (%v) failed: %v", where, enc, err)
			}
			if e := r.verify(q, split, got[0], enc, where); e != nil {
				return e
			}
		}
		if len(nodes) > 1 && !known {
			r.x.Class("get:several paths in one request answered differently from one by one")
		}
	}
	return nil
}

func (r *c16Run) sortedRef() []model.Leaf {
	out := make([]model.Leaf, 0, len(r.ref))
	for _, l := range r.ref {
		out = append(out, l)
	}
	sort.Slice(out, func(i, j int) bool { return c16ID(out[i].Path) < c16ID(out[j].Path) })
	return out
}

// checkStored: the configuration record's live values, parsed with the harness's parser, are exactly the reference's
// leaves; every stored key (tombstones included) parses, is the key its value carries, and is THE text of its path.
func (r *c16Run) checkStored(when string) error {
	cfg := r.w.Config(c16T)
	if cfg == nil {
		if len(r.ref) > 0 {
			return vstat.Violf("%s: no configuration record although %d leaves were written", when, len(r.ref))
		}
		return nil
	}
	for name, vals := range map[string]map[string]*configapi.PathValue{"configuration values": cfg.Values, "applied values": cfg.Status.Applied.Values} {
		texts := make([]string, 0, len(vals))
		for t := range vals {
			texts = append(texts, t)
		}
		sort.Strings(texts)
		var live []c16Exp
		for _, t := range texts {
			pv := vals[t]
			where := fmt.Sprintf("%s: %s, key %q", when, name, t)
			p, err := c16Parse(t)
			if err != nil {
				return vstat.Violf("%s does not parse as a gNMI path: %v", where, err)
			}
			if pv.Path != t {
				return vstat.Violf("%s holds a value that says its path is %q", where, pv.Path)
			}
			if err := r.noteText(p, t, where); err != nil {
				return err
			}
			if pv.Deleted {
				continue
			}
			k, err := nativeKey(pv)
			if err != nil {
				return vstat.Violf("%s: value cannot be converted: %v", where, err)
			}
			live = append(live, c16Exp{Path: p, Val: k})
		}
		var want []*c16Exp
		for _, l := range r.sortedRef() {
			want = append(want, &c16Exp{Path: l.Path, Val: l.Value.Key()})
		}
		if err := c16CheckSet(fmt.Sprintf("%s: live %s", when, name), want, live, true); err != nil {
			return err
		}
	}
	return nil
}

// checkDevice: the device holds exactly the reference's leaves.
func (r *c16Run) checkDevice(when string) error {
	want := map[string]string{}
	for _, l := range r.ref {
		want[fakes.ElemsKey(l.Path.Gnmi().Elem)] = l.Value.Key()
	}
	if d := model.DiffFlat(r.w.DeviceFlat(c16T), want); d != "" {
		return vstat.Violf("%s: the device does not hold exactly the leaves the client wrote and did not delete: %s", when, d)
	}
	return nil
}

func runC16E2E(c C16E2ECase, x *vstat.Ctx) error {
	w, err := NewWorld(x, Options{Targets: []TargetSpec{{ID: c16T, Online: true}}})
	if err != nil {
		return err
	}
	defer w.Close()
	r := &c16Run{w: w, x: x, ref: model.Config{}, textOf: map[string]string{}, pathOf: map[string]string{}}
	w.Devices[c16T].OnSet = func(req fakes.DeviceReq) {
		s := c16Sent{Req: req}
		if cur := w.S.Current(); cur != nil {
			s.Ctl = cur.Ctl
		}
		r.sent = append(r.sent, s)
		x.Logf("    -> device: %s [by %s]", fakes.DescribeReq(req), s.Ctl)
	}
	if err := w.S.Run(); err != nil {
		return err
	}
	if vstat.IsListed("F-ancestor-delete-order") {
		x.Excluded("F-ancestor-delete-order") // the generator never deletes a node and writes beneath it in one request
	}
	var sample []string
	kvSeen := map[string][]string{} // key name -> values used in the case
	stored := 0
	for si, spec := range c.Sets {
		abs := spec.Resolved()
		x.Logf("set %d: %s", si+1, spec.Describe())
		sample = append(sample, spec.Describe())
		// ---- classes
		split := len(spec.PrefixElems)
		domain := "core"
		for i, o := range abs {
			switch {
			case split == 0:
				x.Class("split:no prefix elements")
			case len(spec.Ops[i].Path) == 0:
				x.Class("split:whole path in the prefix, empty path")
			default:
				x.Class(fmt.Sprintf("split:prefix %d of %d elements", split, len(o.Path)))
				x.NonTrivial("prefix/path split inside the path")
			}
			kind := o.Kind
			if o.Kind != "delete" && o.Val != nil && o.Val.T == "json" {
				kind = "json-valued update"
			}
			x.Class("op:" + kind)
			for ei, e := range o.Path {
				for k, v := range e.Keys {
					x.Class("key value:" + c16KVClass(v))
					if c16CleanTwin(v) != "" {
						x.Class("key value:holds a dot segment (x/./y, x/../y)")
						if split > 0 {
							x.Class("split:dot-segment key value in a request with prefix elements")
						}
					}
					if !c16Only(v, "abcdefghijklmnopqrstuvwxyzABCDEFGHIJKLMNOPQRSTUVWXYZ0123456789") {
						x.NonTrivial("key value outside [A-Za-z0-9]")
						if ei < split {
							x.Class("split:key value outside [A-Za-z0-9] carried by the prefix")
						}
					}
					for _, u := range kvSeen[k] {
						if c16LookAlike(u, v) {
							x.Class("look-alike key values in one case")
							x.NonTrivial("look-alike pair")
						}
					}
					kvSeen[k] = append(kvSeen[k], v)
				}
				if strings.Contains(e.Name, ":") {
					x.Class("name:module-prefixed")
				}
			}
			d := c16Domain(o, len(spec.Ops[i].Path))
			x.Class("domain:" + d)
			if d != "core" && (domain == "core" || strings.HasPrefix(d, "out:")) {
				domain = d
			}
		}
		for i := range abs {
			for j := i + 1; j < len(abs); j++ {
				a, b := abs[i], abs[j]
				if a.Kind == "delete" || b.Kind == "delete" || (a.Val != nil && a.Val.T == "json") || (b.Val != nil && b.Val.T == "json") {
					if len(a.Path) == len(b.Path) && model.SchemaOf(a.Path) == model.SchemaOf(b.Path) && !c16Same(a.Path, b.Path) {
						x.Class("request:two operations (a delete or JSON value among them) on paths that differ in key values only")
					}
					continue
				}
				if len(a.Path) == len(b.Path) && len(a.Path) >= 2 && c16Same(a.Path[:len(a.Path)-1], b.Path[:len(b.Path)-1]) {
					d := len(a.Path) - 1
					x.Class(fmt.Sprintf("request:writes sibling leaves of one parent %d elements deep", d))
					if d >= 3 {
						x.Class("request:writes sibling leaves of one parent 3 or more elements deep")
					}
				}
				if len(a.Path) == len(b.Path) && model.SchemaOf(a.Path) == model.SchemaOf(b.Path) {
					diff := 0
					for ei := range a.Path {
						for k, v := range a.Path[ei].Keys {
							if b.Path[ei].Keys[k] != v {
								diff++
							}
						}
					}
					if diff == 1 {
						x.Class("request:writes one leaf in two entries of a list that differ in one key value")
					}
				}
			}
		}
		if spec.PrefixTarget != "" {
			x.Class("target:carried by the prefix")
		} else {
			x.Class("target:carried by the paths")
		}

		// ---- the request
		txsBefore, _ := w.St.Tx.List(context.Background())
		mark := len(r.sent)
		call, err := submitAndSettle(w, fmt.Sprintf("s%d", si+1), spec)
		if err != nil {
			return err
		}
		if !call.Done() {
			return vstat.Violf("set %d was not answered although the controllers are idle: %s; state %s", si+1, spec.Describe(), w.DescribeState())
		}
		if !call.Created {
			txsAfter, _ := w.St.Tx.List(context.Background())
			if call.Err == nil || len(txsAfter) != len(txsBefore) {
				return vstat.Violf("set %d was neither logged nor refused with an error (answer %v, log %d -> %d entries): %s", si+1, call.Err, len(txsBefore), len(txsAfter), spec.Describe())
			}
			if domain == "core" {
				return vstat.Violf("set %d names only model paths with key values over [A-Za-z0-9._-] and was refused with %v: %s", si+1, call.Err, spec.Describe())
			}
			x.Class("refused before being logged (" + domain + "): " + Code(call.Err).String())
			x.Logf("   refused: %v", call.Err)
			if err := r.checkStored(fmt.Sprintf("after refused set %d", si+1)); err != nil {
				return err
			}
			continue
		}
		tx := call.Tx()
		if tx == nil || tx.GetChange() == nil {
			return vstat.Violf("set %d: accepted request has no change transaction in the log", si+1)
		}
		if tx.Status.State != configapi.TransactionStatus_APPLIED || call.Err != nil {
			if domain == "core" {
				return vstat.Violf("set %d (core domain, target connected) ended %v%s and was answered %v: %s; state %s", si+1, tx.Status.State, failureOf(tx), call.Err, spec.Describe(), w.DescribeState())
			}
			if call.Err == nil {
				return vstat.Violf("set %d was answered with success but its transaction is %v%s: %s", si+1, tx.Status.State, failureOf(tx), spec.Describe())
			}
			x.Class("logged, then failed (" + domain + "): " + Code(call.Err).String())
			if err := r.checkStored(fmt.Sprintf("after failed set %d", si+1)); err != nil {
				return err
			}
			continue
		}
		if domain != "core" {
			x.Class("accepted (" + domain + ")")
		}
		stored++
		exp := c16Expected(abs)
		when := fmt.Sprintf("set %d", si+1)

		// (1) the transaction record
		var got []c16Exp
		for tgt, pvs := range tx.GetChange().Values {
			if string(tgt) != c16T {
				return vstat.Violf("%s: the logged change names target %q", when, tgt)
			}
			texts := make([]string, 0, len(pvs.Values))
			for t := range pvs.Values {
				texts = append(texts, t)
			}
			sort.Strings(texts)
			for _, t := range texts {
				pv := pvs.Values[t]
				where := fmt.Sprintf("%s: transaction record, key %q", when, t)
				p, err := c16Parse(t)
				if err != nil {
					return vstat.Violf("%s does not parse as a gNMI path: %v", where, err)
				}
				if pv.Path != t {
					return vstat.Violf("%s holds a value that says its path is %q", where, pv.Path)
				}
				if err := r.noteText(p, t, where); err != nil {
					return err
				}
				g := c16Exp{Path: p, Del: pv.Deleted}
				if !pv.Deleted {
					if g.Val, err = nativeKey(pv); err != nil {
						return vstat.Violf("%s: value cannot be converted: %v", where, err)
					}
				}
				got = append(got, g)
			}
		}
		if err := c16CheckSet(when+": transaction record", exp, got, true); err != nil {
			return err
		}

		// (4) the SetResponse
		if call.Resp == nil {
			return vstat.Violf("%s: success without a SetResponse", when)
		}
		got = nil
		for _, ur := range call.Resp.Response {
			g := c16Exp{Path: c16Full(call.Resp.Prefix, ur.Path), Del: ur.Op == gpb.UpdateResult_DELETE}
			if ur.Op != gpb.UpdateResult_DELETE && ur.Op != gpb.UpdateResult_UPDATE && ur.Op != gpb.UpdateResult_REPLACE {
				return vstat.Violf("%s: SetResponse reports operation %v for %s", when, ur.Op, c16Show(g.Path))
			}
			if t := ur.Path.GetTarget(); t != c16T && call.Resp.Prefix.GetTarget() != c16T {
				return vstat.Violf("%s: SetResponse reports %s for target %q", when, c16Show(g.Path), t)
			}
			got = append(got, g)
		}
		sort.Slice(got, func(i, j int) bool { return c16ID(got[i].Path) < c16ID(got[j].Path) })
		if err := c16CheckSet(when+": SetResponse", exp, got, false); err != nil {
			return err
		}

		// (2) what the device received
		got = nil
		for _, s := range r.sent[mark:] {
			if s.Ctl != "proposal" {
				x.Class("device: request by the " + s.Ctl + " controller while a change is applied")
				continue
			}
			if !s.Req.Accepted {
				return vstat.Violf("%s: the device refused the request with %v", when, s.Req.Code)
			}
			for _, d := range s.Req.Req.Delete {
				got = append(got, c16Exp{Path: c16Full(s.Req.Req.Prefix, d), Del: true})
			}
			for _, u := range append(append([]*gpb.Update{}, s.Req.Req.Replace...), s.Req.Req.Update...) {
				got = append(got, c16Exp{Path: c16Full(s.Req.Req.Prefix, u.Path), Val: model.FromGnmiValue(u.Val).Key()})
			}
		}
		sort.Slice(got, func(i, j int) bool { return c16ID(got[i].Path) < c16ID(got[j].Path) })
		if err := c16CheckSet(when+": SetRequest received by the device", exp, got, true); err != nil {
			return err
		}

		// reference
		var plain []model.Op
		for _, o := range abs {
			plain = append(plain, c16Expand(o)...)
		}
		before := len(r.ref)
		r.ref.Apply(plain, model.M1)
		for _, o := range abs {
			if o.Kind == "delete" {
				if len(r.ref) < before {
					x.Class("delete:removes existing leaves")
				} else {
					x.Class("delete:of something that is not there")
				}
				for _, l := range r.ref {
					if len(l.Path) >= len(o.Path) && len(o.Path) > 0 && !c16Covers(EffectiveDelete(o.Path), l.Path) {
						n := len(EffectiveDelete(o.Path))
						if n <= len(l.Path) && model.SchemaOf(l.Path[:n]) == model.SchemaOf(EffectiveDelete(o.Path)) {
							x.Class("delete:an entry that differs in key values only stays")
						}
					}
				}
			}
		}

		// (1b) the configuration record, the device, and what Get reports
		if err := r.checkStored("after " + when); err != nil {
			return err
		}
		if err := r.checkDevice("after " + when); err != nil {
			return err
		}
		var qs []model.Path
		seenQ := map[string]bool{}
		for _, o := range abs {
			q := o.Path
			if o.Kind == "delete" {
				q = EffectiveDelete(o.Path)
			}
			if len(q) < split || seenQ[c16ID(q)] {
				continue // (a key leaf's delete names its entry; the entry may be the prefix itself)
			}
			seenQ[c16ID(q)] = true
			qs = append(qs, q)
		}
		if split == 0 {
			qs = append(qs, nil) // the whole configuration
		}
		if err := r.checkGets(qs, split, "after "+when+" (the nodes the operations named, same prefix)"); err != nil {
			return err
		}
	}

	// re-synchronisation: the device comes back empty, the stored paths are pushed again
	if c.Resync && w.Config(c16T) != nil {
		x.Class("resync:device restarted empty and reconnected")
		mark := len(r.sent)
		w.LinkDown(c16T)
		w.Devices[c16T].RestartEmpty()
		x.Logf("device restarted empty")
		if err := w.LinkUp(c16T); err != nil {
			return err
		}
		if err := w.S.Run(); err != nil {
			return err
		}
		var got []c16Exp
		for _, s := range r.sent[mark:] {
			if !s.Req.Accepted {
				continue
			}
			for _, u := range append(append([]*gpb.Update{}, s.Req.Req.Replace...), s.Req.Req.Update...) {
				got = append(got, c16Exp{Path: c16Full(s.Req.Req.Prefix, u.Path), Val: model.FromGnmiValue(u.Val).Key()})
			}
			for _, d := range s.Req.Req.Delete {
				dp := c16Full(s.Req.Req.Prefix, d)
				for _, l := range r.sortedRef() {
					if c16Covers(dp, l.Path) {
						x.Class("resync:a pushed tombstone covers a live leaf (order decides)")
					}
				}
			}
		}
		sort.Slice(got, func(i, j int) bool { return c16ID(got[i].Path) < c16ID(got[j].Path) })
		var want []*c16Exp
		for _, l := range r.sortedRef() {
			want = append(want, &c16Exp{Path: l.Path, Val: l.Value.Key()})
		}
		if len(want) > 0 {
			x.Class("resync:pushes stored leaves again")
		}
		if cfg := w.Config(c16T); cfg == nil || cfg.Status.State != configapi.ConfigurationStatus_SYNCHRONIZED {
			return vstat.Violf("after the device restarted and reconnected the configuration is not reported synchronized; state %s", w.DescribeState())
		}
		if err := c16CheckSet("re-synchronisation: SetRequests received by the restarted device", want, got, true); err != nil {
			return err
		}
		if err := r.checkDevice("after re-synchronisation"); err != nil {
			return err
		}
		if err := r.checkStored("after re-synchronisation"); err != nil {
			return err
		}
	} else if c.Resync {
		x.Class("resync:nothing stored")
	}

	// final reads: the whole configuration, every live leaf and every node above it without prefix (one request), and
	// for up to eight leaves the leaf and its ancestors with the first k elements as prefix, k rotating over every
	// split position including the whole path
	if stored > 0 {
		live := r.sortedRef()
		qs := []model.Path{nil}
		seen := map[string]bool{}
		for _, l := range live {
			for d := len(l.Path); d >= 1; d-- {
				if q := l.Path[:d]; !seen[c16ID(q)] {
					seen[c16ID(q)] = true
					qs = append(qs, q)
				}
			}
		}
		if err := r.checkGets(qs, 0, "final read"); err != nil {
			return err
		}
		for i, l := range live {
			if i >= 8 {
				break
			}
			sp := 1 + i%len(l.Path)
			var under []model.Path
			for d := len(l.Path); d >= sp; d-- {
				under = append(under, l.Path[:d])
			}
			x.Class(fmt.Sprintf("get:prefix %d of %d elements", sp, len(l.Path)))
			if err := r.checkGets(under, sp, "final read"); err != nil {
				return err
			}
		}
	}
	x.Sample(map[string]any{"sets": sample, "resync": c.Resync})
	return nil
}

// TestC16_EndToEnd: the path a client names in a Set (prefix elements followed by the operation's path) is, element by
// element and key by key, the path of the logged change, of the stored configuration, of the SetRequest the device
// receives (change push and re-synchronisation), of the SetResponse and of what Get reports (PROTO paths, JSON
// document); two different client paths never collapse, a delete of one look-alike entry leaves the other alone.
func TestC16_EndToEnd(t *testing.T) {
	vstat.Run(t, "C16", genC16E2E, runC16E2E)
}
