package sim

import (
	"errors"
	"testing"

	"pgregory.net/rapid"

	"verif/harness/model"
	"verif/harness/vstat"
)

func serializableProbeScenario(offline bool, third bool) Scenario {
	v1, v2, v3 := model.Str("v1"), model.Str("v2"), model.Str("v3")
	sc := Scenario{Targets: []TargetSpec{{ID: "t1", Online: !offline}}}
	sc.Actions = append(sc.Actions,
		Action{Kind: "set", Set: &SetSpec{Serializable: true, Ops: []model.Op{{Kind: "update", Target: "t1", Path: model.Parse("/a/b"), Val: &v1}}}},
		Action{Kind: "set", Set: &SetSpec{Ops: []model.Op{{Kind: "update", Target: "t1", Path: model.Parse("/a/bc"), Val: &v2}}}})
	if third {
		sc.Actions = append(sc.Actions, Action{Kind: "set", Set: &SetSpec{Ops: []model.Op{{Kind: "update", Target: "t1", Path: model.Parse("/a/c/d"), Val: &v3}}}})
	}
	return sc
}

// TestC09P_SerializableSuccessorNeverWoken demonstrates finding
// F-serializable-successor-never-woken while it is listed (the main generator
// then produces no SERIALIZABLE request): a transaction that follows a
// SERIALIZABLE one on the same target waits, phase by phase, for the
// predecessor TRANSACTION to reach the phase's end, returns without a re-queue
// and is woken by nothing when the predecessor gets there. The target connects
// only after both requests, so the successor (committed) waits for the
// predecessor to be applied. When the finding is not listed the probe does nothing.
func TestC09P_SerializableSuccessorNeverWoken(t *testing.T) {
	vstat.Run(t, "C09", func(rt *rapid.T) ProbeCase { return ProbeCase{Attempt: rapid.IntRange(0, 1<<20).Draw(rt, "attempt")} }, func(c ProbeCase, x *vstat.Ctx) error {
		if !vstat.IsKnown("C09", "F-serializable-successor-never-woken") {
			return vstat.ErrSkip
		}
		sc := serializableProbeScenario(true, false)
		r, err := Execute(x, sc, nil)
		defer r.Close()
		x.Class("probe:serializable-successor")
		if err != nil {
			if errors.Is(err, ErrBudget) {
				x.Class("probe:did-not-quiesce")
				return nil
			}
			return err
		}
		n, err := r.W.S.ReconcileAll()
		if err != nil {
			return err
		}
		if n != 0 {
			x.Known("F-serializable-successor-never-woken", "a transaction following a SERIALIZABLE one on the same target is left waiting although its predecessor has moved on: with no pending work, re-examining the records makes progress ("+r.W.DescribeState()+")")
		} else {
			x.Class("probe:schedule-did-not-strand-the-successor")
		}
		return nil
	})
}

// TestC09P_SerializableRequeuePingPong demonstrates finding
// F-serializable-requeue-ping-pong while it is listed: target offline, a
// SERIALIZABLE transaction, then two more on the same target. The second is
// committed but may not start applying before the first is applied; the third
// (applying) re-queues the second "to be applied first", the second (committed)
// re-queues "the next one": the two proposals hand the work to each other for
// as long as the target stays away.
func TestC09P_SerializableRequeuePingPong(t *testing.T) {
	vstat.Run(t, "C09", func(rt *rapid.T) ProbeCase { return ProbeCase{Attempt: rapid.IntRange(0, 1<<20).Draw(rt, "attempt")} }, func(c ProbeCase, x *vstat.Ctx) error {
		if !vstat.IsKnown("C09", "F-serializable-requeue-ping-pong") {
			return vstat.ErrSkip
		}
		sc := serializableProbeScenario(true, true)
		r, err := Execute(x, sc, nil, func(r *Run) { r.Budget = 1500 })
		defer r.Close()
		x.Class("probe:serializable-ping-pong")
		if err != nil {
			if errors.Is(err, ErrBudget) {
				x.Known("F-serializable-requeue-ping-pong", "with the target away, the proposals of the two transactions behind a SERIALIZABLE one re-queue each other without end (the controllers never go idle): "+r.W.DescribeState())
				return nil
			}
			return err
		}
		x.Class("probe:quiesced")
		return nil
	})
}
