package sim

import (
	"testing"
	"time"

	"pgregory.net/rapid"

	"verif/harness/model"
	"verif/harness/vstat"
)

type smokeCase struct {
	N int `json:"n"`
}

func TestSmoke(t *testing.T) {
	vstat.Run(t, "SMOKE", func(rt *rapid.T) smokeCase { return smokeCase{N: rapid.IntRange(1, 3).Draw(rt, "n")} }, func(c smokeCase, x *vstat.Ctx) error {
		t0 := time.Now()
		w, err := NewWorld(x, Options{Targets: []TargetSpec{{ID: "t1", Online: true}, {ID: "t2", Online: false}}})
		if err != nil {
			return err
		}
		defer w.Close()
		if err := w.S.Run(); err != nil {
			return err
		}
		x.Logf("initial: %s (steps %d, %v)", w.DescribeState(), w.S.Steps, time.Since(t0))
		v := model.Str("hello")
		spec := SetSpec{Ops: []model.Op{{Kind: "update", Target: "t1", Path: model.Parse("/a/b"), Val: &v}, {Kind: "update", Target: "t2", Path: model.Parse("/a/c/d"), Val: &v}}}
		call, err := w.StartSet("s1", spec.Build(), nil, nil)
		if err != nil {
			return err
		}
		if err := w.S.Run(); err != nil {
			return err
		}
		w.AwaitCalls(5 * time.Second)
		x.Logf("after set: %s (steps %d, %v) done=%v err=%v", w.DescribeState(), w.S.Steps, time.Since(t0), call.Done(), call.Err)
		got, _, err := w.GetProto("t1", nil)
		x.Logf("get t1: %v %v; device t1: %v", got, err, w.DeviceFlat("t1"))
		if err := w.LinkUp("t2"); err != nil {
			return err
		}
		if err := w.S.Run(); err != nil {
			return err
		}
		x.Logf("after link up: %s (steps %d, %v) device t2: %v", w.DescribeState(), w.S.Steps, time.Since(t0), w.DeviceFlat("t2"))
		n, err := w.S.ReconcileAll()
		x.Logf("fixed point writes: %d %v", n, err)
		if c.N >= 1 {
			return vstat.Violf("forced failure to see the history")
		}
		return nil
	})
}
