package sim

import (
	"fmt"
	"strings"

	"pgregory.net/rapid"

	"verif/harness/model"
	"verif/harness/vstat"
)

// Profile steers the scenario generator.
type Profile struct {
	MinTargets, MaxTargets int
	MinSets, MaxSets       int
	MultiTarget            bool // Sets spanning several targets
	Poison                 bool // some targets' share fails validation
	Refuse                 bool // some changes are refused by the device
	Offline                bool // some targets start offline
	Faults                 bool // link down/up, restart-empty
	Transient              bool // transient error bursts
	Standby                bool // additional (standby) connections and loss of the master only
	FaultInSync            bool // connection loss / device restart armed for the moment of a re-synchronisation
	Pace                   bool // under a drawn schedule some actions wait until everything earlier has settled
	ParkWrites             bool // a step is held back right before one of its store writes while the target's connection flaps (a version conflict at a chosen write)
	HardFaults             bool // injected bursts may hold non-transient codes (the outcome of a change that meets one is not predicted)
	Crashes                int  // max crashes
	Rollbacks              bool
	Sync                   bool // some Sets are synchronous
	Serializable           bool // some Sets ask for SERIALIZABLE isolation (their successors wait for them phase by phase)
	Preempt                int  // 0 atomic, 1 pre-emptive, 2 drawn per case
	Drawn                  bool
	MaxOpsPerTarget        int
}

// genScenario draws a scenario. All generated Sets are valid requests; shapes
// that are listed findings of other properties are excluded by construction.
func genScenario(rt *rapid.T, p Profile) Scenario {
	sc := Scenario{Drawn: p.Drawn}
	switch p.Preempt {
	case 1:
		sc.Preempt = true
	case 2:
		sc.Preempt = rapid.IntRange(0, 2).Draw(rt, "preempt") > 0
	}
	nt := rapid.IntRange(p.MinTargets, p.MaxTargets).Draw(rt, "ntargets")
	var ids []string
	for i := 0; i < nt; i++ {
		ts := TargetSpec{ID: fmt.Sprintf("t%d", i+1), Online: true}
		if p.Offline && rapid.IntRange(0, 2).Draw(rt, "offline") == 0 {
			ts.Online = false
		}
		sc.Targets = append(sc.Targets, ts)
		ids = append(ids, ts.ID)
	}
	maxOps := p.MaxOpsPerTarget
	if maxOps == 0 {
		maxOps = 2
	}
	per := map[string]*GenOpts{}
	for _, id := range ids {
		per[id] = &GenOpts{Targets: []string{id}, AvoidAncestorDescendant: true, AvoidSamePathDeleteWrite: true, NoPrefix: true, MaxOps: maxOps,
			AvoidWriteUnderDeleted: vstat.IsListed("F-zombie-tombstone"), AllowRefuse: p.Refuse}
	}
	hist := map[string][]model.Path{}
	ns := rapid.IntRange(p.MinSets, p.MaxSets).Draw(rt, "nsets")
	crashes := 0
	online := map[string]bool{}
	for _, t := range sc.Targets {
		online[t.ID] = t.Online
	}
	nLogged := 0
	hasDelete := map[int]bool{}
	hasLost, hasHard := map[string]bool{}, map[string]bool{}
	for i := 0; i < ns; i++ {
		// faults and crashes between requests
		if p.Faults && rapid.IntRange(0, 2).Draw(rt, "fault") == 0 {
			t := ids[rapid.IntRange(0, len(ids)-1).Draw(rt, "ftarget")]
			switch rapid.IntRange(0, 2).Draw(rt, "fkind") {
			case 0:
				if online[t] {
					sc.Actions = append(sc.Actions, Action{Kind: "linkdown", Target: t})
					online[t] = false
				} else {
					sc.Actions = append(sc.Actions, Action{Kind: "linkup", Target: t})
					online[t] = true
				}
			case 1:
				sc.Actions = append(sc.Actions, Action{Kind: "restart", Target: t})
				online[t] = true
			case 2:
				if online[t] {
					sc.Actions = append(sc.Actions, Action{Kind: "linkdown", Target: t}, Action{Kind: "linkup", Target: t})
				} else {
					sc.Actions = append(sc.Actions, Action{Kind: "linkup", Target: t})
					online[t] = true
				}
			}
		}
		if p.Standby && rapid.IntRange(0, 3).Draw(rt, "standby") == 0 {
			t := ids[rapid.IntRange(0, len(ids)-1).Draw(rt, "starget")]
			if online[t] {
				sc.Actions = append(sc.Actions, Action{Kind: "standby", Target: t})
				if rapid.IntRange(0, 1).Draw(rt, "dropmaster") == 1 {
					sc.Actions = append(sc.Actions, Action{Kind: "masterdown", Target: t})
				}
			}
		}
		if p.FaultInSync && rapid.IntRange(0, 3).Draw(rt, "faultinsync") == 0 {
			t := ids[rapid.IntRange(0, len(ids)-1).Draw(rt, "fistarget")]
			kind := []string{"flapinsync", "restartinsync", "faults", "flapinapply", "restartinapply"}[rapid.IntRange(0, 4).Draw(rt, "fiskind")]
			if strings.HasSuffix(kind, "inapply") {
				// fired when the device next carries out a change: the connection is lost / the device restarts
				// while the answer is on its way
				sc.Actions = append(sc.Actions, Action{Kind: kind, Target: t, Idle: true})
			}
			flapAfter := !strings.HasSuffix(kind, "inapply")
			// armed now, fired by the next re-synchronisation: make one happen
			if kind == "faults" {
				// the device answers the re-synchronisation itself with errors for a while (any class: a
				// re-synchronisation is repeated until it has gone through)
				n := rapid.IntRange(1, 3).Draw(rt, "fisburst")
				var cs []int
				for k := 0; k < n; k++ {
					c := []int{14, 13, 4, 3, 1, 2}[rapid.IntRange(0, 5).Draw(rt, "fiscode")]
					// a device that silently executed a request (lost answer) and then REFUSES its repetition leaves
					// nobody able to tell what it holds: hard refusals are not injected on such a target
					if (hasLost[t] || !p.HardFaults) && (c == 13 || c == 3 || c == 2) {
						c = 14
					}
					if c == 13 || c == 3 || c == 2 {
						hasHard[t] = true
					}
					cs = append(cs, c)
				}
				sc.Actions = append(sc.Actions, Action{Kind: "faults", Target: t, Codes: cs, Idle: true})
				if rapid.IntRange(0, 1).Draw(rt, "fisrestart") == 0 {
					// the device comes back empty: what the re-synchronisation fails to push is missing
					sc.Actions = append(sc.Actions, Action{Kind: "restart", Target: t})
					online[t] = true
					flapAfter = false
				}
			} else if flapAfter {
				// mostly at the first request of the re-synchronisation, sometimes after one or two have gone through
				skip := []int{0, 0, 1, 1, 2}[rapid.IntRange(0, 4).Draw(rt, "fisskip")]
				sc.Actions = append(sc.Actions, Action{Kind: kind, Target: t, Idle: true, Skip: skip})
			}
			if !flapAfter {
				// nothing more to arrange
			} else if online[t] {
				sc.Actions = append(sc.Actions, Action{Kind: "linkdown", Target: t}, Action{Kind: "linkup", Target: t})
			} else {
				sc.Actions = append(sc.Actions, Action{Kind: "linkup", Target: t})
				online[t] = true
			}
		}
		flapAfterSet := ""
		if p.ParkWrites && sc.Preempt && rapid.IntRange(0, 3).Draw(rt, "parkwrite") == 0 {
			t := ids[rapid.IntRange(0, len(ids)-1).Draw(rt, "pwtarget")]
			if online[t] {
				site := [][2]string{{"proposal", "cfg.Update"}, {"proposal", "cfg.UpdateStatus"}, {"proposal", "prop.UpdateStatus"}, {"transaction", "prop.UpdateStatus"},
					{"transaction", "tx.UpdateStatus"}, {"configuration", "cfg.UpdateStatus"}, {"mastership", "cfg.UpdateStatus"}}[rapid.IntRange(0, 6).Draw(rt, "pwsite")]
				sc.Actions = append(sc.Actions, Action{Kind: "parkat", Ctl: site[0], Op: site[1], Hold: 2, Idle: true})
				flapAfterSet = t
			}
		}
		if p.Transient && rapid.IntRange(0, 3).Draw(rt, "transient") == 0 {
			t := ids[rapid.IntRange(0, len(ids)-1).Draw(rt, "ttarget")]
			n := rapid.IntRange(1, 5).Draw(rt, "burst")
			var cs []int
			for k := 0; k < n; k++ {
				cs = append(cs, []int{14, 1, 4}[rapid.IntRange(0, 2).Draw(rt, "tcode")])
			}
			if rapid.IntRange(0, 2).Draw(rt, "lost") == 0 && !hasHard[t] {
				// the device executes the request, the answer is lost (only timeouts: a
				// device that answers Unavailable has not executed anything)
				hasLost[t] = true
				for k := range cs {
					cs[k] = 4
				}
				sc.Actions = append(sc.Actions, Action{Kind: "lostanswer", Target: t, Codes: cs})
			} else {
				sc.Actions = append(sc.Actions, Action{Kind: "faults", Target: t, Codes: cs})
			}
		}
		if crashes < p.Crashes && rapid.IntRange(0, 3).Draw(rt, "crash") == 0 {
			sc.Actions = append(sc.Actions, Action{Kind: "crash"})
			crashes++
		}
		if p.Rollbacks && nLogged > 0 && rapid.IntRange(0, 4).Draw(rt, "rollback") == 0 {
			// rolling back a change that deleted a node is the listed finding
			// F-rollback-subtree-delete (C06): not generated here
			var ok []int
			for idx := 1; idx <= nLogged; idx++ {
				if !hasDelete[idx] {
					ok = append(ok, idx)
				}
			}
			if len(ok) > 0 {
				// mostly the most recent candidates (the ones that can succeed)
				k := len(ok) - 1 - rapid.IntRange(0, min(2, len(ok)-1)).Draw(rt, "rbback")
				sc.Actions = append(sc.Actions, Action{Kind: "rollback", Index: ok[k]})
				nLogged++
				continue
			}
		}
		// the Set itself
		tgts := []string{ids[rapid.IntRange(0, len(ids)-1).Draw(rt, "target")]}
		if p.MultiTarget && len(ids) > 1 && rapid.IntRange(0, 3).Draw(rt, "multi") > 0 {
			k := rapid.IntRange(2, len(ids)).Draw(rt, "ntgts")
			perm := rapid.Permutation(ids).Draw(rt, "perm")
			tgts = append([]string{}, perm[:k]...)
		}
		spec := SetSpec{}
		for _, t := range tgts {
			s := GenSet(rt, per[t], hist)
			spec.Ops = append(spec.Ops, s.Resolved()...)
			pz := 0
			if p.Poison {
				pz = rapid.IntRange(0, 7).Draw(rt, "poison")
			}
			if pz == 1 || pz == 2 || pz == 3 {
				// this target's share must be rejected by its model, whatever else the request does to /poison
				var keep []model.Op
				for _, op := range spec.Ops {
					if !(op.Target == t && op.Path.String() == "/poison") {
						keep = append(keep, op)
					}
				}
				v := model.Str("bad")
				if pz == 3 {
					v = model.Str("ok")
				}
				spec.Ops = append(keep, model.Op{Kind: "update", Target: t, Path: model.Parse("/poison"), Val: &v})
			}
		}
		for _, op := range spec.Ops {
			if op.Kind != "delete" {
				hist[op.Target] = append(hist[op.Target], op.Path)
			}
		}
		if p.Sync && rapid.IntRange(0, 1).Draw(rt, "sync") == 1 {
			spec.Sync = true
		}
		if p.Serializable && rapid.IntRange(0, 3).Draw(rt, "serializable") == 0 {
			// a SERIALIZABLE transaction with a successor on one of its targets is the listed C09 findings
			// F-serializable-successor-never-woken / F-serializable-requeue-ping-pong: left out while listed
			if vstat.IsListed("F-serializable-successor-never-woken") || vstat.IsListed("F-serializable-requeue-ping-pong") {
				if len(sc.Excl) == 0 {
					sc.Excl = append(sc.Excl, "F-serializable-successor-never-woken")
				}
			} else {
				spec.Serializable = true
			}
		}
		sc.Actions = append(sc.Actions, Action{Kind: "set", Set: &spec})
		if flapAfterSet != "" {
			// while the held-back step waits, the master changes: its write meets a newer record
			sc.Actions = append(sc.Actions, Action{Kind: "linkdown", Target: flapAfterSet}, Action{Kind: "linkup", Target: flapAfterSet})
		}
		nLogged++
		for _, op := range spec.Ops {
			if op.Kind == "delete" {
				hasDelete[nLogged] = true
			}
		}
	}
	if crashes < p.Crashes && rapid.IntRange(0, 3).Draw(rt, "lastcrash") == 0 {
		sc.Actions = append(sc.Actions, Action{Kind: "crash"})
	}
	if p.Pace && sc.Drawn {
		paceActions(rt, &sc)
	}
	return sc
}

// describeScenario renders a scenario for evidence samples.
func describeScenario(sc Scenario) map[string]any {
	var acts []string
	for _, a := range sc.Actions {
		acts = append(acts, a.Describe())
	}
	var tg []string
	for _, t := range sc.Targets {
		s := t.ID
		if !t.Online {
			s += "(offline)"
		}
		tg = append(tg, s)
	}
	mode := "atomic"
	if sc.Preempt {
		mode = "pre-emptive"
	}
	return map[string]any{"targets": tg, "mode": mode, "drawn_schedule": sc.Drawn, "actions": acts}
}

// paceActions makes, in half of the scenarios, about a third of the actions wait until everything earlier has
// settled: without pacing nearly all actions of a drawn schedule are performed before the first change is applied.
func paceActions(rt *rapid.T, sc *Scenario) {
	if rapid.IntRange(0, 1).Draw(rt, "paced") == 0 {
		return // half of the scenarios stay unpaced: maximal overlap of requests
	}
	for i := range sc.Actions {
		if rapid.IntRange(0, 2).Draw(rt, "idle") == 0 {
			sc.Actions[i].Idle = true
		}
	}
}
