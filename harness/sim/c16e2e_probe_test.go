package sim

import (
	"context"
	"fmt"
	"os"
	"sort"
	"testing"

	"pgregory.net/rapid"

	"verif/harness/fakes"
	"verif/harness/model"
	"verif/harness/vstat"
)

// TestC16E2EProbe is a development probe (VERIF_C16_PROBE=1): which key values does a Set accept end to end?
func TestC16E2EProbe(t *testing.T) {
	if os.Getenv("VERIF_C16_PROBE") == "" {
		t.Skip()
	}
	vstat.Run(t, "C16", func(rt *rapid.T) ProbeCase { return ProbeCase{Attempt: rapid.IntRange(0, 0).Draw(rt, "a")} }, func(c ProbeCase, x *vstat.Ctx) error {
		c16probe(t, x)
		return nil
	})
}

func c16probe(t *testing.T, x *vstat.Ctx) {
	chars := " !\"#$%&'()*+,-./:;<=>?@[\\]^_`{|}~aZ0"
	type shape struct {
		name string
		mk   func(kv string) SetSpec
	}
	sv := model.Str("v1")
	shapes := []shape{
		{"upd-first-key /l1[id=X]/v", func(kv string) SetSpec {
			return SetSpec{Ops: []model.Op{{Kind: "update", Target: "t1", Path: model.Path{{Name: "l1", Keys: map[string]string{"id": kv}}, {Name: "v"}}, Val: &sv}}}
		}},
		{"upd-nested-2nd-key /l1[id=a]/l3[n=X]/v", func(kv string) SetSpec {
			return SetSpec{Ops: []model.Op{{Kind: "update", Target: "t1", Path: model.Path{{Name: "l1", Keys: map[string]string{"id": "a"}}, {Name: "l3", Keys: map[string]string{"n": kv}}, {Name: "v"}}, Val: &sv}}}
		}},
		{"upd-2nd-key-same-elem /l2[k1=1][k2=X]/v", func(kv string) SetSpec {
			return SetSpec{Ops: []model.Op{{Kind: "update", Target: "t1", Path: model.Path{{Name: "l2", Keys: map[string]string{"k1": "1", "k2": kv}}, {Name: "v"}}, Val: &sv}}}
		}},
		{"upd-keyleaf /l1[id=X]/id", func(kv string) SetSpec {
			kvv := model.Str(kv)
			return SetSpec{Ops: []model.Op{{Kind: "update", Target: "t1", Path: model.Path{{Name: "l1", Keys: map[string]string{"id": kv}}, {Name: "id"}}, Val: &kvv}}}
		}},
		{"upd-keyleaf-nested /l1[id=a]/l3[n=X]/n", func(kv string) SetSpec {
			kvv := model.Str(kv)
			return SetSpec{Ops: []model.Op{{Kind: "update", Target: "t1", Path: model.Path{{Name: "l1", Keys: map[string]string{"id": "a"}}, {Name: "l3", Keys: map[string]string{"n": kv}}, {Name: "n"}}, Val: &kvv}}}
		}},
		{"del-entry /l1[id=X]", func(kv string) SetSpec {
			return SetSpec{Ops: []model.Op{{Kind: "delete", Target: "t1", Path: model.Path{{Name: "l1", Keys: map[string]string{"id": kv}}}}}}
		}},
		{"del-leaf /l1[id=X]/v", func(kv string) SetSpec {
			return SetSpec{Ops: []model.Op{{Kind: "delete", Target: "t1", Path: model.Path{{Name: "l1", Keys: map[string]string{"id": kv}}, {Name: "v"}}}}}
		}},
		{"del-nested /l1[id=a]/l3[n=X]", func(kv string) SetSpec {
			return SetSpec{Ops: []model.Op{{Kind: "delete", Target: "t1", Path: model.Path{{Name: "l1", Keys: map[string]string{"id": "a"}}, {Name: "l3", Keys: map[string]string{"n": kv}}}}}}
		}},
	}
	forms := []func(c byte) string{
		func(c byte) string { return "a" + string(c) + "b" },
		func(c byte) string { return string(c) },
		func(c byte) string { return string(c) + "b" },
		func(c byte) string { return "a" + string(c) },
	}
	for _, sh := range shapes {
		res := map[string][]string{}
		for fi, f := range forms {
			for i := 0; i < len(chars); i++ {
				kv := f(chars[i])
				out := probeOne(t, x, sh.mk(kv))
				res[out] = append(res[out], fmt.Sprintf("%d:%q", fi, kv))
			}
		}
		var ks []string
		for k := range res {
			ks = append(ks, k)
		}
		sort.Strings(ks)
		fmt.Printf("=== %s\n", sh.name)
		for _, k := range ks {
			fmt.Printf("   %-60s %v\n", k, res[k])
		}
	}
}

func probeOne(t *testing.T, x *vstat.Ctx, s SetSpec) string {
	w, err := NewWorld(x, Options{Targets: []TargetSpec{{ID: "t1", Online: true}}})
	if err != nil {
		t.Fatal(err)
	}
	defer w.Close()
	if err := w.S.Run(); err != nil {
		return "run0: " + err.Error()
	}
	var sent []fakes.DeviceReq
	w.Devices["t1"].OnSet = func(r fakes.DeviceReq) { sent = append(sent, r) }
	call, err := submitAndSettle(w, "p", s)
	if err != nil {
		return "settle: " + trunc(err.Error(), 80)
	}
	if !call.Created {
		return "refused-before-log " + Code(call.Err).String()
	}
	tx := call.Tx()
	out := "logged " + tx.Status.State.String()
	if call.Err != nil {
		out += " err=" + Code(call.Err).String()
	}
	if !call.Done() {
		out += " NOT-ANSWERED"
	}
	want := s.Resolved()[0].Path
	for _, pvs := range tx.GetChange().Values {
		for p := range pvs.Values {
			out += fmt.Sprintf(" stored=%v", model.Parse(p).String() == want.String())
		}
	}
	nd := 0
	for _, r := range sent {
		for _, u := range r.Req.Update {
			nd++
			out += fmt.Sprintf(" dev-upd=%v", fakes.ElemsKey(u.Path.Elem) == want.String())
		}
		for _, u := range r.Req.Delete {
			nd++
			out += fmt.Sprintf(" dev-del=%v", fakes.ElemsKey(u.Elem) == want.String())
		}
	}
	if nd == 0 {
		out += " dev-none"
	}
	if s.Ops[0].Kind == "update" {
		got, _, err := w.GetProto("t1", nil)
		if err != nil {
			out += " get-err"
		} else {
			_, ok := got[want.String()]
			out += fmt.Sprintf(" get=%v(%d)", ok, len(got))
		}
		gj, _, err := w.GetJSON("t1", nil)
		if err != nil {
			out += " getjson-err"
		} else {
			_, ok := gj[want.String()]
			out += fmt.Sprintf(" json=%v(%d)", ok, len(gj))
		}
	}
	_ = context.Background()
	return out
}
