package fakes

import (
	"context"
	"fmt"
	"sort"
	"sync"
	"time"

	topoapi "github.com/onosproject/onos-api/go/onos/topo"
	sb "github.com/onosproject/onos-config/pkg/southbound/gnmi"
	"github.com/onosproject/onos-lib-go/pkg/errors"
	baseClient "github.com/openconfig/gnmi/client"
	"google.golang.org/grpc"
)

// Conns is an in-memory ConnManager. Connections are REAL southbound conn
// objects (sb.NewConnForVerif) over an in-process gRPC connection to a Device,
// so error wrapping (errors.FromGRPC) is the production code's.
type Conns struct {
	mu       sync.Mutex
	conns    map[sb.ConnID]sb.Conn
	byTarget map[topoapi.ID]sb.Conn
	ccs      map[sb.ConnID]*grpc.ClientConn
	labels   map[sb.ConnID]string
	seq      int
	hub      Hub[sb.Conn]
	// ConnectCalls / DisconnectCalls record what the target controller asked for.
	ConnectCalls    []topoapi.ID
	DisconnectCalls []topoapi.ID
}

// NewConns returns an empty connection manager.
func NewConns() *Conns {
	return &Conns{conns: map[sb.ConnID]sb.Conn{}, byTarget: map[topoapi.ID]sb.Conn{}, ccs: map[sb.ConnID]*grpc.ClientConn{}, labels: map[sb.ConnID]string{}}
}

// Get returns a connection by id.
func (m *Conns) Get(ctx context.Context, id sb.ConnID) (sb.Conn, bool) {
	m.mu.Lock()
	defer m.mu.Unlock()
	c, ok := m.conns[id]
	return c, ok
}

// GetByTarget returns the client of a target.
func (m *Conns) GetByTarget(ctx context.Context, id topoapi.ID) (sb.Client, error) {
	m.mu.Lock()
	defer m.mu.Unlock()
	if c, ok := m.byTarget[id]; ok {
		return c, nil
	}
	return nil, errors.NewNotFound("gnmi client for target %s not found", id)
}

// Connect records the request; links are brought up by the harness (LinkUp).
func (m *Conns) Connect(ctx context.Context, target *topoapi.Object) error {
	m.mu.Lock()
	defer m.mu.Unlock()
	m.ConnectCalls = append(m.ConnectCalls, target.ID)
	return nil
}

// Disconnect records the request.
func (m *Conns) Disconnect(ctx context.Context, id topoapi.ID) error {
	m.mu.Lock()
	defer m.mu.Unlock()
	m.DisconnectCalls = append(m.DisconnectCalls, id)
	return nil
}

// Watch replays existing connections, then streams additions and removals
// (the same Conn value is sent for both, as the real manager does).
func (m *Conns) Watch(ctx context.Context, ch chan<- sb.Conn) error {
	m.mu.Lock()
	ids := make([]string, 0, len(m.conns))
	for id := range m.conns {
		ids = append(ids, string(id))
	}
	sort.Strings(ids)
	var replay []sb.Conn
	for _, id := range ids {
		replay = append(replay, m.conns[sb.ConnID(id)])
	}
	m.hub.Subscribe(ctx, ch, replay)
	m.mu.Unlock()
	return nil
}

// LinkUp creates a new connection (new connection id) from this node to d.
func (m *Conns) LinkUp(targetID topoapi.ID, d *Device) (sb.Conn, string, error) {
	m.mu.Lock()
	m.seq++
	label := fmt.Sprintf("%s#%d", targetID, m.seq)
	m.mu.Unlock()
	cc, err := d.Dial(label)
	if err != nil {
		return nil, "", err
	}
	c, err := sb.NewConnForVerif(context.Background(), targetID, cc, baseClient.Destination{Addrs: []string{"bufnet"}, Target: string(targetID), Timeout: 5 * time.Second})
	if err != nil {
		_ = cc.Close()
		return nil, "", err
	}
	m.mu.Lock()
	m.conns[c.ID()] = c
	m.byTarget[targetID] = c
	m.ccs[c.ID()] = cc
	m.labels[c.ID()] = label
	m.mu.Unlock()
	m.hub.Emit(c)
	return c, label, nil
}

// LinkDown removes a connection and closes its transport.
func (m *Conns) LinkDown(id sb.ConnID) {
	m.mu.Lock()
	c, ok := m.conns[id]
	if !ok {
		m.mu.Unlock()
		return
	}
	delete(m.conns, id)
	if m.byTarget[c.TargetID()] == c {
		delete(m.byTarget, c.TargetID())
	}
	cc := m.ccs[id]
	delete(m.ccs, id)
	m.mu.Unlock()
	if cc != nil {
		_ = cc.Close()
	}
	m.hub.Emit(c)
}

// Watchers returns the number of live watchers.
func (m *Conns) Watchers() int { return m.hub.Len() }

// EmitRaw sends a Conn value to all watchers (sentinels).
func (m *Conns) EmitRaw(c sb.Conn) { m.hub.Emit(c) }

// Label returns the human label of a connection id ("" if unknown).
func (m *Conns) Label(id sb.ConnID) string {
	m.mu.Lock()
	defer m.mu.Unlock()
	return m.labels[id]
}

// Live returns the ids of live connections for a target, sorted by label.
func (m *Conns) Live(targetID topoapi.ID) []sb.ConnID {
	m.mu.Lock()
	defer m.mu.Unlock()
	var out []sb.ConnID
	for id, c := range m.conns {
		if c.TargetID() == targetID {
			out = append(out, id)
		}
	}
	sort.Slice(out, func(i, j int) bool { return m.labels[out[i]] < m.labels[out[j]] })
	return out
}

// CloseAll closes every transport (end of a case).
func (m *Conns) CloseAll() {
	m.mu.Lock()
	ccs := m.ccs
	m.ccs = map[sb.ConnID]*grpc.ClientConn{}
	m.mu.Unlock()
	for _, cc := range ccs {
		_ = cc.Close()
	}
}

// SentinelConn is a Conn value that only carries ids (never used for I/O).
type SentinelConn struct {
	sb.Conn
	Cid sb.ConnID
	Tid topoapi.ID
}

// ID returns the sentinel connection id.
func (s *SentinelConn) ID() sb.ConnID { return s.Cid }

// TargetID returns the sentinel target id.
func (s *SentinelConn) TargetID() topoapi.ID { return s.Tid }
