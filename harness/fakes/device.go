package fakes

import (
	"context"
	"fmt"
	"net"
	"sort"
	"strconv"
	"strings"
	"sync"

	gpb "github.com/openconfig/gnmi/proto/gnmi"
	"google.golang.org/grpc"
	"google.golang.org/grpc/codes"
	"google.golang.org/grpc/credentials/insecure"
	"google.golang.org/grpc/metadata"
	"google.golang.org/grpc/status"
	"google.golang.org/grpc/test/bufconn"
	"google.golang.org/protobuf/proto"
)

// RefusePrefix marks a string value that makes the device refuse the whole
// SetRequest with the gRPC code that follows (by number), e.g. "REFUSE:3".
// The verdict is a pure predicate of the request, so a reference model can
// predict it.
const RefusePrefix = "REFUSE:"

// DeviceLeaf is one leaf held by the device.
type DeviceLeaf struct {
	Elems []*gpb.PathElem
	Val   *gpb.TypedValue
}

// DeviceReq is one logged southbound request.
type DeviceReq struct {
	Seq        int
	Conn       string // label of the connection it arrived over
	ElectionID uint64
	HasArb     bool
	Accepted   bool
	Code       codes.Code
	Req        *gpb.SetRequest
	Epoch      int  // device incarnation (bumped by RestartEmpty)
	Executed   bool // the request was executed although it was answered with an error (lost answer)
}

// Device is an in-process gNMI target.
type Device struct {
	gpb.UnimplementedGNMIServer
	Name string

	mu        sync.Mutex
	leaves    map[string]*DeviceLeaf
	highest   uint64
	log       []DeviceReq
	faults    []codes.Code // returned (in order) by the next Set calls
	lost      []codes.Code // the next Set calls are EXECUTED but answered with these codes (the answer is lost)
	epoch     int
	lis       *bufconn.Listener
	srv       *grpc.Server
	NoArbiter bool
	// OnSet, when set, is called (outside the lock) after each Set was handled.
	OnSet func(DeviceReq)
}

// NewDevice starts a device served over an in-memory listener.
func NewDevice(name string) *Device {
	d := &Device{Name: name, leaves: map[string]*DeviceLeaf{}, lis: bufconn.Listen(1 << 22), srv: grpc.NewServer(grpc.MaxRecvMsgSize(1 << 28))}
	gpb.RegisterGNMIServer(d.srv, d)
	go func() { _ = d.srv.Serve(d.lis) }()
	return d
}

// Stop shuts the device's server down.
func (d *Device) Stop() {
	d.srv.Stop()
	_ = d.lis.Close()
}

// Dial opens a client connection labelled label (the label travels as
// metadata so the device can log which connection a request used).
func (d *Device) Dial(label string) (*grpc.ClientConn, error) {
	return grpc.DialContext(context.Background(), "bufnet",
		grpc.WithContextDialer(func(ctx context.Context, _ string) (net.Conn, error) { return d.lis.DialContext(ctx) }),
		grpc.WithTransportCredentials(insecure.NewCredentials()),
		grpc.WithDefaultCallOptions(grpc.MaxCallRecvMsgSize(1<<28), grpc.MaxCallSendMsgSize(1<<28)),
		grpc.WithUnaryInterceptor(func(ctx context.Context, method string, req, reply interface{}, cc *grpc.ClientConn, invoker grpc.UnaryInvoker, opts ...grpc.CallOption) error {
			return invoker(metadata.AppendToOutgoingContext(ctx, "x-verif-conn", label), method, req, reply, cc, opts...)
		}))
}

// ElemsKey renders path elements canonically (keys sorted); independent of
// the code under test.
func ElemsKey(elems []*gpb.PathElem) string {
	var b strings.Builder
	for _, e := range elems {
		b.WriteByte('/')
		b.WriteString(e.Name)
		ks := make([]string, 0, len(e.Key))
		for k := range e.Key {
			ks = append(ks, k)
		}
		sort.Strings(ks)
		for _, k := range ks {
			b.WriteString("[" + k + "=" + e.Key[k] + "]")
		}
	}
	return b.String()
}

// elemsCover reports whether path d addresses leaf l: d is an element-wise
// prefix of l; an element of d without keys addresses every list entry, keys
// that are given must match.
func elemsCover(d, l []*gpb.PathElem) bool {
	if len(d) > len(l) {
		return false
	}
	for i, e := range d {
		if e.Name != l[i].Name {
			return false
		}
		for k, v := range e.Key {
			if lv, ok := l[i].Key[k]; !ok || (lv != v && v != "*") {
				return false
			}
		}
	}
	return true
}

func fullElems(prefix, p *gpb.Path) []*gpb.PathElem {
	var out []*gpb.PathElem
	if prefix != nil {
		out = append(out, prefix.Elem...)
	}
	if p != nil {
		out = append(out, p.Elem...)
	}
	return out
}

// RefusalCode returns the code a request is refused with by the pure predicate, or OK.
func RefusalCode(r *gpb.SetRequest) codes.Code {
	for _, u := range append(append([]*gpb.Update{}, r.Replace...), r.Update...) {
		if s, ok := u.GetVal().GetValue().(*gpb.TypedValue_StringVal); ok && strings.HasPrefix(s.StringVal, RefusePrefix) {
			n, err := strconv.Atoi(strings.TrimPrefix(s.StringVal, RefusePrefix))
			if err == nil && n > 0 && n <= 16 {
				return codes.Code(n)
			}
		}
	}
	return codes.OK
}

// Set implements gNMI Set: deletes, then replaces, then updates.
func (d *Device) Set(ctx context.Context, r *gpb.SetRequest) (*gpb.SetResponse, error) {
	rec := DeviceReq{Req: proto.Clone(r).(*gpb.SetRequest), Accepted: true}
	if md, ok := metadata.FromIncomingContext(ctx); ok {
		if v := md.Get("x-verif-conn"); len(v) > 0 {
			rec.Conn = v[0]
		}
	}
	for _, ext := range r.Extension {
		if ma := ext.GetMasterArbitration(); ma != nil {
			rec.HasArb = true
			rec.ElectionID = ma.GetElectionId().GetLow()
		}
	}
	d.mu.Lock()
	rec.Seq = len(d.log)
	rec.Epoch = d.epoch
	var err error
	switch {
	case len(d.faults) > 0:
		c := d.faults[0]
		d.faults = d.faults[1:]
		err = status.Error(c, "injected fault "+c.String())
	case !d.NoArbiter && rec.HasArb && rec.ElectionID < d.highest:
		err = status.Errorf(codes.PermissionDenied, "election id %d superseded by %d", rec.ElectionID, d.highest)
	case RefusalCode(r) != codes.OK:
		if rec.HasArb && rec.ElectionID > d.highest {
			d.highest = rec.ElectionID
		}
		c := RefusalCode(r)
		err = status.Error(c, "device refuses the change: "+c.String())
	default:
		if rec.HasArb && rec.ElectionID > d.highest {
			d.highest = rec.ElectionID
		}
		if len(d.lost) > 0 {
			c := d.lost[0]
			d.lost = d.lost[1:]
			err = status.Error(c, "answer lost: "+c.String())
			rec.Executed = true
		}
		for _, del := range r.Delete {
			de := fullElems(r.Prefix, del)
			for k, l := range d.leaves {
				if elemsCover(de, l.Elems) {
					delete(d.leaves, k)
				}
			}
		}
		for _, u := range append(append([]*gpb.Update{}, r.Replace...), r.Update...) {
			el := fullElems(r.Prefix, u.Path)
			d.leaves[ElemsKey(el)] = &DeviceLeaf{Elems: el, Val: proto.Clone(u.Val).(*gpb.TypedValue)}
		}
	}
	if err != nil {
		rec.Accepted = false
		rec.Code = status.Code(err)
	}
	d.log = append(d.log, rec)
	cb := d.OnSet
	d.mu.Unlock()
	if cb != nil {
		cb(rec)
	}
	if err != nil {
		return nil, err
	}
	return &gpb.SetResponse{Prefix: r.Prefix}, nil
}

// Get answers with the leaves under the requested paths (PROTO values).
func (d *Device) Get(ctx context.Context, r *gpb.GetRequest) (*gpb.GetResponse, error) {
	d.mu.Lock()
	defer d.mu.Unlock()
	n := &gpb.Notification{}
	keys := make([]string, 0, len(d.leaves))
	for k := range d.leaves {
		keys = append(keys, k)
	}
	sort.Strings(keys)
	for _, k := range keys {
		l := d.leaves[k]
		match := len(r.Path) == 0
		for _, p := range r.Path {
			if elemsCover(fullElems(r.Prefix, p), l.Elems) {
				match = true
			}
		}
		if match {
			n.Update = append(n.Update, &gpb.Update{Path: &gpb.Path{Elem: l.Elems}, Val: l.Val})
		}
	}
	return &gpb.GetResponse{Notification: []*gpb.Notification{n}}, nil
}

// Capabilities answers with no models.
func (d *Device) Capabilities(ctx context.Context, r *gpb.CapabilityRequest) (*gpb.CapabilityResponse, error) {
	return &gpb.CapabilityResponse{GNMIVersion: "0.7.0"}, nil
}

// InjectFaults makes the next len(cs) Set calls fail with the given codes.
func (d *Device) InjectFaults(cs ...codes.Code) {
	d.mu.Lock()
	d.faults = append(d.faults, cs...)
	d.mu.Unlock()
}

// InjectLostAnswers makes the device EXECUTE the next len(cs) Set calls but
// answer them with the given codes (the response is lost on the way back).
func (d *Device) InjectLostAnswers(cs ...codes.Code) {
	d.mu.Lock()
	d.lost = append(d.lost, cs...)
	d.mu.Unlock()
}

// PendingFaults returns how many injected faults have not been consumed yet.
func (d *Device) PendingFaults() int {
	d.mu.Lock()
	defer d.mu.Unlock()
	return len(d.faults)
}

// ClearFaults drops injected faults that were not consumed.
func (d *Device) ClearFaults() {
	d.mu.Lock()
	d.faults = nil
	d.lost = nil
	d.mu.Unlock()
}

// RestartEmpty wipes the device (configuration and arbitration memory).
func (d *Device) RestartEmpty() {
	d.mu.Lock()
	d.leaves = map[string]*DeviceLeaf{}
	d.highest = 0
	d.epoch++
	d.mu.Unlock()
}

// Leaves returns a copy of the device's leaf map: canonical path -> value.
func (d *Device) Leaves() map[string]*gpb.TypedValue {
	d.mu.Lock()
	defer d.mu.Unlock()
	out := make(map[string]*gpb.TypedValue, len(d.leaves))
	for k, l := range d.leaves {
		out[k] = l.Val
	}
	return out
}

// Log returns a copy of the request log.
func (d *Device) Log() []DeviceReq {
	d.mu.Lock()
	defer d.mu.Unlock()
	return append([]DeviceReq{}, d.log...)
}

// LogLen returns the number of requests received so far.
func (d *Device) LogLen() int {
	d.mu.Lock()
	defer d.mu.Unlock()
	return len(d.log)
}

// Epoch returns the device incarnation.
func (d *Device) Epoch() int {
	d.mu.Lock()
	defer d.mu.Unlock()
	return d.epoch
}

// DescribeReq renders a request compactly for histories.
func DescribeReq(r DeviceReq) string {
	var parts []string
	for _, del := range r.Req.Delete {
		parts = append(parts, "del "+ElemsKey(fullElems(r.Req.Prefix, del)))
	}
	for _, u := range append(append([]*gpb.Update{}, r.Req.Replace...), r.Req.Update...) {
		parts = append(parts, fmt.Sprintf("upd %s=%s", ElemsKey(fullElems(r.Req.Prefix, u.Path)), ValString(u.Val)))
	}
	st := "ok"
	if !r.Accepted {
		st = r.Code.String()
	}
	return fmt.Sprintf("#%d conn=%s eid=%d %s [%s]", r.Seq, r.Conn, r.ElectionID, st, strings.Join(parts, "; "))
}

// ValString renders a gNMI value compactly and deterministically.
func ValString(v *gpb.TypedValue) string {
	if v == nil {
		return "<nil>"
	}
	switch x := v.Value.(type) {
	case *gpb.TypedValue_StringVal:
		if len(x.StringVal) > 40 {
			return fmt.Sprintf("s:%q...(%d)", x.StringVal[:20], len(x.StringVal))
		}
		return fmt.Sprintf("s:%q", x.StringVal)
	case *gpb.TypedValue_IntVal:
		return fmt.Sprintf("i:%d", x.IntVal)
	case *gpb.TypedValue_UintVal:
		return fmt.Sprintf("u:%d", x.UintVal)
	case *gpb.TypedValue_BoolVal:
		return fmt.Sprintf("b:%v", x.BoolVal)
	case *gpb.TypedValue_BytesVal:
		return fmt.Sprintf("x:%x", x.BytesVal)
	case *gpb.TypedValue_DecimalVal:
		return fmt.Sprintf("d:%d/%d", x.DecimalVal.GetDigits(), x.DecimalVal.GetPrecision())
	case *gpb.TypedValue_FloatVal:
		return fmt.Sprintf("f:%v", x.FloatVal)
	case *gpb.TypedValue_LeaflistVal:
		var p []string
		for _, e := range x.LeaflistVal.GetElement() {
			p = append(p, ValString(e))
		}
		return "[" + strings.Join(p, ",") + "]"
	}
	return strings.TrimSpace(v.String())
}
