package fakes

import (
	"context"
	"sort"
	"sync"

	"github.com/gogo/protobuf/types"
	topoapi "github.com/onosproject/onos-api/go/onos/topo"
	"github.com/onosproject/onos-lib-go/pkg/errors"
)

// Topo is an in-memory implementation of onos-config's topo.Store interface
// (Create/Update/Get/List with the filter shapes onos-config uses/Delete/Watch).
type Topo struct {
	mu   sync.Mutex
	objs map[topoapi.ID]*topoapi.Object
	hub  Hub[topoapi.Event]
	// Writes counts successful mutations (used by the fixed-point oracle).
	Writes int
}

// NewTopo returns an empty topology.
func NewTopo() *Topo { return &Topo{objs: map[topoapi.ID]*topoapi.Object{}} }

func cloneObj(o *topoapi.Object) *topoapi.Object {
	c := *o
	if o.Aspects != nil {
		c.Aspects = make(map[string]*types.Any, len(o.Aspects))
		for k, v := range o.Aspects {
			c.Aspects[k] = v
		}
	}
	return &c
}

// Create adds an object.
func (t *Topo) Create(ctx context.Context, o *topoapi.Object) error {
	t.mu.Lock()
	if _, ok := t.objs[o.ID]; ok {
		t.mu.Unlock()
		return errors.NewAlreadyExists("object %s already exists", o.ID)
	}
	o.Revision = 1
	c := cloneObj(o)
	t.objs[o.ID] = c
	t.Writes++
	t.mu.Unlock()
	t.hub.Emit(topoapi.Event{Type: topoapi.EventType_ADDED, Object: *cloneObj(c)})
	return nil
}

// Update replaces an object.
func (t *Topo) Update(ctx context.Context, o *topoapi.Object) error {
	t.mu.Lock()
	old, ok := t.objs[o.ID]
	if !ok {
		t.mu.Unlock()
		return errors.NewNotFound("object %s not found", o.ID)
	}
	o.Revision = old.Revision + 1
	c := cloneObj(o)
	t.objs[o.ID] = c
	t.Writes++
	t.mu.Unlock()
	t.hub.Emit(topoapi.Event{Type: topoapi.EventType_UPDATED, Object: *cloneObj(c)})
	return nil
}

// Get returns an object.
func (t *Topo) Get(ctx context.Context, id topoapi.ID) (*topoapi.Object, error) {
	t.mu.Lock()
	defer t.mu.Unlock()
	o, ok := t.objs[id]
	if !ok {
		return nil, errors.NewNotFound("object %s not found", id)
	}
	return cloneObj(o), nil
}

// List lists objects, honouring the relation, object-type and aspect filters.
func (t *Topo) List(ctx context.Context, f *topoapi.Filters) ([]topoapi.Object, error) {
	t.mu.Lock()
	defer t.mu.Unlock()
	ids := make([]string, 0, len(t.objs))
	for id := range t.objs {
		ids = append(ids, string(id))
	}
	sort.Strings(ids)
	var out []topoapi.Object
	for _, id := range ids {
		o := t.objs[topoapi.ID(id)]
		if f != nil && f.RelationFilter != nil {
			r := o.GetRelation()
			if r == nil || string(r.KindID) != f.RelationFilter.RelationKind || string(r.SrcEntityID) != f.RelationFilter.SrcId {
				continue
			}
		}
		if f != nil && len(f.ObjectTypes) > 0 {
			ok := false
			for _, ot := range f.ObjectTypes {
				if ot == o.Type {
					ok = true
				}
			}
			if !ok {
				continue
			}
		}
		if f != nil && len(f.WithAspects) > 0 {
			ok := true
			for _, a := range f.WithAspects {
				if _, has := o.Aspects[a]; !has {
					ok = false
				}
			}
			if !ok {
				continue
			}
		}
		out = append(out, *cloneObj(o))
	}
	return out, nil
}

// Delete removes an object.
func (t *Topo) Delete(ctx context.Context, o *topoapi.Object) error {
	t.mu.Lock()
	old, ok := t.objs[o.ID]
	if !ok {
		t.mu.Unlock()
		return errors.NewNotFound("object %s not found", o.ID)
	}
	delete(t.objs, o.ID)
	t.Writes++
	t.mu.Unlock()
	t.hub.Emit(topoapi.Event{Type: topoapi.EventType_REMOVED, Object: *cloneObj(old)})
	return nil
}

// Watch subscribes to events; existing objects are replayed first (as the real
// service does for a watch without the noreplay flag).
func (t *Topo) Watch(ctx context.Context, ch chan<- topoapi.Event, f *topoapi.Filters) error {
	t.mu.Lock()
	ids := make([]string, 0, len(t.objs))
	for id := range t.objs {
		ids = append(ids, string(id))
	}
	sort.Strings(ids)
	var replay []topoapi.Event
	for _, id := range ids {
		replay = append(replay, topoapi.Event{Type: topoapi.EventType_NONE, Object: *cloneObj(t.objs[topoapi.ID(id)])})
	}
	t.hub.Subscribe(ctx, ch, replay)
	t.mu.Unlock()
	return nil
}

// EmitRaw sends an event to all watchers without touching the object map
// (used for sentinels).
func (t *Topo) EmitRaw(e topoapi.Event) { t.hub.Emit(e) }

// Watchers returns the number of live watchers.
func (t *Topo) Watchers() int { return t.hub.Len() }

// WriteCount returns the number of successful mutations so far.
func (t *Topo) WriteCount() int {
	t.mu.Lock()
	defer t.mu.Unlock()
	return t.Writes
}

// Snapshot returns all objects sorted by id.
func (t *Topo) Snapshot() []topoapi.Object {
	l, _ := t.List(context.Background(), nil)
	return l
}
