package fakes

import (
	"context"
	"sort"
	"sync"

	adminapi "github.com/onosproject/onos-api/go/onos/config/admin"
	configapi "github.com/onosproject/onos-api/go/onos/config/v2"
	"google.golang.org/grpc"

	"verif/harness/model"
)

// ValidateCall records one ValidateConfigChunked stream.
type ValidateCall struct {
	Seq    int
	Chunks []int  // size of every chunk received
	Doc    []byte // concatenation
	Valid  bool
	Msg    string
	Flat   map[string]string // flattened document (nil if it did not parse)
	Err    string            // flatten error
	Tag    string            // set by OnValidate (the reconcile step that asked)
}

// Plugin is a fake ModelPluginServiceClient for one model. Its verdict is a
// pure predicate of the document (model.PluginAccepts), so the reference model
// can predict it.
type Plugin struct {
	adminapi.ModelPluginServiceClient
	Info   *adminapi.ModelInfo
	Schema []model.LeafDef

	mu    sync.Mutex
	calls []ValidateCall
	// PathValueCalls records (prefix, json) of GetPathValues calls.
	PathValueCalls [][2]string
	// OnValidate, when set, returns a tag stored with the call.
	OnValidate func() string
}

// NewPlugin builds the fake for a schema.
func NewPlugin(name, version string, schema []model.LeafDef) *Plugin {
	return &Plugin{Info: model.ModelInfo(name, version, schema), Schema: schema}
}

type chunkStream struct {
	grpc.ClientStream
	p      *Plugin
	buf    []byte
	chunks []int
}

func (s *chunkStream) Send(c *adminapi.ValidateConfigRequestChunk) error {
	s.buf = append(s.buf, c.Json...)
	s.chunks = append(s.chunks, len(c.Json))
	return nil
}

func (s *chunkStream) CloseAndRecv() (*adminapi.ValidateConfigResponse, error) {
	call := ValidateCall{Chunks: s.chunks, Doc: s.buf}
	flat, err := model.FlattenJSON(s.buf, s.p.Schema)
	if err != nil {
		call.Err = err.Error()
		call.Valid = false
		call.Msg = "document rejected by the plugin: " + err.Error()
	} else {
		call.Flat = flat
		call.Valid, call.Msg = model.PluginAccepts(flat)
	}
	if s.p.OnValidate != nil {
		call.Tag = s.p.OnValidate()
	}
	s.p.mu.Lock()
	call.Seq = len(s.p.calls)
	s.p.calls = append(s.p.calls, call)
	s.p.mu.Unlock()
	return &adminapi.ValidateConfigResponse{Valid: call.Valid, Message: call.Msg}, nil
}

// GetModelInfo returns the model description.
func (p *Plugin) GetModelInfo(ctx context.Context, in *adminapi.ModelInfoRequest, opts ...grpc.CallOption) (*adminapi.ModelInfoResponse, error) {
	return &adminapi.ModelInfoResponse{ModelInfo: p.Info}, nil
}

// ValidateConfigChunked opens a recording stream.
func (p *Plugin) ValidateConfigChunked(ctx context.Context, opts ...grpc.CallOption) (adminapi.ModelPluginService_ValidateConfigChunkedClient, error) {
	return &chunkStream{p: p}, nil
}

// GetPathValues flattens a JSON value into typed path/values below the prefix
// it is given (which is all a real plugin can do: it sees only prefix and JSON).
func (p *Plugin) GetPathValues(ctx context.Context, in *adminapi.PathValuesRequest, opts ...grpc.CallOption) (*adminapi.PathValuesResponse, error) {
	p.mu.Lock()
	p.PathValueCalls = append(p.PathValueCalls, [2]string{in.PathPrefix, string(in.Json)})
	p.mu.Unlock()
	flat, err := model.FlattenJSONAt(in.Json, p.Schema, in.PathPrefix)
	if err != nil {
		return nil, err
	}
	keys := make([]string, 0, len(flat))
	for k := range flat {
		keys = append(keys, k)
	}
	sort.Strings(keys)
	resp := &adminapi.PathValuesResponse{}
	for _, k := range keys {
		resp.PathValues = append(resp.PathValues, &configapi.PathValue{Path: k, Value: *flat[k]})
	}
	return resp, nil
}

// GetValueSelection answers with a fixed selection.
func (p *Plugin) GetValueSelection(ctx context.Context, in *adminapi.ValueSelectionRequest, opts ...grpc.CallOption) (*adminapi.ValueSelectionResponse, error) {
	return &adminapi.ValueSelectionResponse{Selection: []string{"sel-a", "sel-b"}}, nil
}

// Calls returns a copy of the validation log.
func (p *Plugin) Calls() []ValidateCall {
	p.mu.Lock()
	defer p.mu.Unlock()
	return append([]ValidateCall{}, p.calls...)
}

// NumCalls returns the number of validation streams seen.
func (p *Plugin) NumCalls() int {
	p.mu.Lock()
	defer p.mu.Unlock()
	return len(p.calls)
}
