// Package fakes holds the in-memory stand-ins for onos-config's external
// world: topology service, connection manager, gNMI devices, model plugin.
package fakes

import (
	"context"
	"sync"
)

// Hub fans events out to subscribers through per-subscriber unbounded FIFO
// queues, so that an emitter never blocks and every subscriber sees events in
// emission order. A subscription ends (and its channel is closed) when its
// context is cancelled.
type Hub[E any] struct {
	mu   sync.Mutex
	subs []*hubSub[E]
}

type hubSub[E any] struct {
	ch     chan<- E
	mu     sync.Mutex
	cond   *sync.Cond
	queue  []E
	closed bool
	done   chan struct{}
}

// Subscribe registers ch; replay (may be nil) is delivered first.
func (h *Hub[E]) Subscribe(ctx context.Context, ch chan<- E, replay []E) {
	s := &hubSub[E]{ch: ch, done: make(chan struct{})}
	s.cond = sync.NewCond(&s.mu)
	s.queue = append(s.queue, replay...)
	h.mu.Lock()
	h.subs = append(h.subs, s)
	h.mu.Unlock()
	go func() {
		<-ctx.Done()
		s.mu.Lock()
		s.closed = true
		s.cond.Broadcast()
		s.mu.Unlock()
	}()
	go func() {
		defer close(s.done)
		defer close(ch)
		for {
			s.mu.Lock()
			for len(s.queue) == 0 && !s.closed {
				s.cond.Wait()
			}
			if s.closed {
				s.mu.Unlock()
				h.remove(s)
				return
			}
			e := s.queue[0]
			s.queue = s.queue[1:]
			s.mu.Unlock()
			select {
			case ch <- e:
			case <-ctx.Done():
				h.remove(s)
				return
			}
		}
	}()
}

func (h *Hub[E]) remove(s *hubSub[E]) {
	h.mu.Lock()
	for i, x := range h.subs {
		if x == s {
			h.subs = append(h.subs[:i:i], h.subs[i+1:]...)
			break
		}
	}
	h.mu.Unlock()
}

// Emit queues e for every live subscriber.
func (h *Hub[E]) Emit(e E) {
	h.mu.Lock()
	subs := append([]*hubSub[E]{}, h.subs...)
	h.mu.Unlock()
	for _, s := range subs {
		s.mu.Lock()
		if !s.closed {
			s.queue = append(s.queue, e)
			s.cond.Signal()
		}
		s.mu.Unlock()
	}
}

// Len returns the number of live subscriptions.
func (h *Hub[E]) Len() int {
	h.mu.Lock()
	defer h.mu.Unlock()
	return len(h.subs)
}
