package v3sim

import (
	"fmt"
	"math/rand"
	"runtime/debug"
	"sort"
	"strconv"
	"strings"
	"sync"
	"time"

	configapi "github.com/onosproject/onos-api/go/onos/config/v3"
	"github.com/onosproject/onos-lib-go/pkg/controller"
	"github.com/onosproject/onos-lib-go/pkg/errors"

	"verif/harness/vstat"
)

// Mode selects how reconcile steps are interleaved.
type Mode int

const (
	// Atomic runs every reconcile to completion before the next decision.
	Atomic Mode = iota
	// Preempt makes every store / topology / southbound call a yield point.
	Preempt
)

const sentinelPrefix = "~s-"

// ErrBudget is returned when a run did not quiesce within its step budget.
var ErrBudget = fmt.Errorf("did not quiesce within the step budget")

// ErrInconclusive is returned when the harness itself could not make progress
// (a sentinel did not come back): never a violation.
var ErrInconclusive = fmt.Errorf("harness inconclusive")

type item struct {
	id       controller.ID
	seq      int
	errs     int // consecutive failed attempts
	failedAt int // effect counter when it last failed
}

type slot struct {
	c        *ctl
	part     string
	rec      controller.Reconciler
	gate     *Gate
	pending  []*item
	inflight *task
}

type ctl struct {
	name      string
	partition func(controller.ID) string
	factory   func(g *Gate) controller.Reconciler
	slots     map[string]*slot
	order     []string
}

type task struct {
	sl       *slot
	it       *item
	seq      int
	yieldCh  chan struct{}
	resume   chan struct{}
	done     chan struct{}
	atOp     string
	poisoned bool
	// conflicted: a write of this task was refused for a version conflict and
	// the scheduler was told to end such a reconcile there (AbortOnConflict)
	conflicted bool
	carriedOn  bool
	res        controller.Result
	err        error
	panicked   any
	stack      string
}

type watcherRun struct {
	name  string
	c     *ctl
	w     controller.Watcher
	ch    chan controller.ID
	mu    sync.Mutex
	buf   []controller.ID
	acks  map[int]int
	need  int
	ended chan struct{}
	quit  chan struct{}
	ackCh chan struct{}
}

// External is an action of the outside world (a northbound request, a fault)
// that the scheduler may place anywhere in the interleaving.
type External struct {
	Name string
	Fn   func() error
	// WhenIdle: the action is only placed once the controllers have nothing to do.
	WhenIdle bool
}

// StepInfo describes one executed reconcile (or segment) for monitors.
type StepInfo struct {
	Ctl, Part, ID string
	Op            string // "" for a whole reconcile, else the call that was granted
	Done          bool
	Err           error
}

// Sched is the harness-owned replacement of onos-lib-go's controller runtime.
type Sched struct {
	w        *World
	x        *vstat.Ctx
	Mode     Mode
	Drawn    bool // decisions are drawn through x.Choose (else FIFO)
	ctls     []*ctl
	watchers []*watcherRun
	seq      int
	Steps    int
	Budget   int
	gen      int

	emu          sync.Mutex
	effects      int
	CrashAt      int // effect position before which the process crashes (-1: never)
	CrashMid     bool
	crashPending bool
	Crashes      int
	// MidCalls counts store calls that were cut between their two sub-writes.
	MidCalls int
	// AbortOnConflict: a reconcile whose write is refused for a version conflict
	// ends there (every later call fails, the item is retried) instead of
	// carrying on (work-around for finding F-v3-conflict-swallowed).
	AbortOnConflict bool
	// ConflictCarriedOn counts reconciles that made a further store write or
	// device call after one of their writes had been refused for a conflict.
	ConflictCarriedOn int
	// CrashHook, when set, is consulted at every effect point in drawn mode.
	Externals []External
	// Monitor is called after every executed step once events are settled.
	Monitor func(StepInfo) error
	// OnRestart is called after a crash once the process is back (before anything runs).
	OnRestart func()
	// MaxIdleRetries bounds re-runs of an erroring reconcile while nothing else changed.
	MaxIdleRetries int
	// Panics collects reconciler panics (the real process would die).
	Panics []string
	// stats
	MaxInflight    map[string]int
	ParkedRetries  int
	Conflicts      int
	decisionsDrawn int
}

func newSched(w *World, x *vstat.Ctx) *Sched {
	return &Sched{w: w, x: x, CrashAt: -1, Budget: 6000, MaxIdleRetries: 2, MaxInflight: map[string]int{}}
}

// Effects returns the number of effect points passed so far.
func (s *Sched) Effects() int {
	s.emu.Lock()
	defer s.emu.Unlock()
	return s.effects
}

// ---------------------------------------------------------------------------
// gate protocol

func (s *Sched) enter(g *Gate, op string, effect bool) error {
	if g.nb {
		if effect {
			s.emu.Lock()
			s.effects++
			s.emu.Unlock()
		}
		return nil
	}
	t := g.task
	if t != nil && t.poisoned {
		return errCrashed
	}
	if t != nil && t.conflicted {
		if s.AbortOnConflict {
			return errConflictAbort
		}
		if effect && !t.carriedOn {
			t.carriedOn = true
			s.ConflictCarriedOn++
			s.x.Logf("      (the reconcile carries on with %s after its refused write)", op)
		}
	}
	if s.Mode == Preempt && t != nil {
		t.atOp = op
		t.yieldCh <- struct{}{}
		<-t.resume
		if t.poisoned {
			return errCrashed
		}
	}
	if effect {
		s.emu.Lock()
		if s.CrashAt >= 0 && s.CrashAt == s.effects && !s.CrashMid {
			s.emu.Unlock()
			s.crashNow(g)
			return errCrashed
		}
		s.effects++
		s.emu.Unlock()
	}
	return nil
}

// midCallCrash reports whether the two-phase call that has just passed its
// effect point must be cut between its two sub-writes.
func (s *Sched) midCallCrash(g *Gate, op string) bool {
	s.emu.Lock()
	defer s.emu.Unlock()
	// the cut is placed in the first two-phase call at or after the chosen effect
	return s.CrashAt >= 0 && s.CrashMid && s.effects-1 >= s.CrashAt
}

var errConflictAbort = errors.NewUnavailable("verif: reconcile ended after a refused (conflicting) write")

func (s *Sched) noteConflict(g *Gate, op string) {
	s.Conflicts++
	s.x.Logf("      %s refused: version conflict (%s)", op, g.name)
	// the finding (and its repair) concern the transaction controller, whose
	// actions consist of two writes; the configuration and mastership
	// controllers write once, at the end, and are woken again by the event of
	// the write that beat them
	if g.task != nil && strings.HasPrefix(g.name, "transaction[") {
		g.task.conflicted = true
	}
}

func (s *Sched) noteMidCall() {
	s.emu.Lock()
	s.MidCalls++
	s.emu.Unlock()
}

func (s *Sched) crashNow(g *Gate) {
	s.emu.Lock()
	s.crashPending = true
	s.CrashAt = -1
	s.emu.Unlock()
	if g.task != nil {
		g.task.poisoned = true
	}
}

// Crash makes the process crash at the next decision point.
func (s *Sched) Crash() {
	s.emu.Lock()
	s.crashPending = true
	s.emu.Unlock()
}

// ---------------------------------------------------------------------------
// controllers and watchers

func (s *Sched) addCtl(name string, partition func(controller.ID) string, factory func(g *Gate) controller.Reconciler) *ctl {
	c := &ctl{name: name, partition: partition, factory: factory, slots: map[string]*slot{}}
	s.ctls = append(s.ctls, c)
	return c
}

func (c *ctl) slotFor(s *Sched, part string) *slot {
	if sl, ok := c.slots[part]; ok {
		return sl
	}
	g := &Gate{s: s, name: c.name + "[" + part + "]"}
	sl := &slot{c: c, part: part, gate: g}
	sl.rec = c.factory(g)
	c.slots[part] = sl
	c.order = append(c.order, part)
	return sl
}

func (s *Sched) addWatcher(c *ctl, name string, w controller.Watcher, need int) {
	wr := &watcherRun{name: name, c: c, w: w, need: need}
	s.watchers = append(s.watchers, wr)
}

func (s *Sched) startWatchers() error {
	for _, wr := range s.watchers {
		wr.ch = make(chan controller.ID, 1024)
		wr.acks = map[int]int{}
		wr.buf = nil
		wr.ended = make(chan struct{})
		wr.quit = make(chan struct{})
		wr.ackCh = make(chan struct{}, 1)
		if err := wr.w.Start(wr.ch); err != nil {
			return err
		}
		go func(wr *watcherRun) {
			defer close(wr.ended)
			for {
				select {
				case id, ok := <-wr.ch:
					if !ok {
						return
					}
					wr.mu.Lock()
					if gen, ok := sentinelGen(id); ok {
						wr.acks[gen]++
					} else {
						wr.buf = append(wr.buf, id)
					}
					wr.mu.Unlock()
					select {
					case wr.ackCh <- struct{}{}:
					default:
					}
				case <-wr.quit:
					// most watchers never close their output channel; the watcher
					// goroutine ends when its (hub-closed) event channel is drained,
					// the 1024-slot buffer absorbs whatever it still emits
					return
				}
			}
		}(wr)
	}
	return nil
}

func sentinelGen(id controller.ID) (int, bool) {
	var str string
	switch v := id.Value.(type) {
	case configapi.TransactionID:
		str = string(v.Target.ID)
	case configapi.ConfigurationID:
		str = string(v.Target.ID)
	default:
		return 0, false
	}
	if !strings.HasPrefix(str, sentinelPrefix) {
		return 0, false
	}
	n, err := strconv.Atoi(str[len(sentinelPrefix):])
	if err != nil {
		return 0, false
	}
	return n, true
}

// settle pushes a sentinel through every event path and waits until every
// watcher has mapped everything that was emitted before it; then moves the
// collected IDs into the pending queues in a fixed order.
func (s *Sched) settle() error {
	s.gen++
	s.w.emitSentinels(s.gen)
	deadline := time.Now().Add(30 * time.Second)
	for _, wr := range s.watchers {
		for {
			wr.mu.Lock()
			ok := wr.acks[s.gen] >= wr.need
			if ok {
				delete(wr.acks, s.gen)
			}
			wr.mu.Unlock()
			if ok {
				break
			}
			select {
			case <-wr.ackCh:
			case <-time.After(50 * time.Millisecond):
				if time.Now().After(deadline) {
					return fmt.Errorf("%w: sentinel %d did not come back through watcher %s", ErrInconclusive, s.gen, wr.name)
				}
			}
		}
	}
	for _, wr := range s.watchers {
		wr.mu.Lock()
		buf := wr.buf
		wr.buf = nil
		wr.mu.Unlock()
		for _, id := range buf {
			s.enqueue(wr.c, id)
		}
	}
	return nil
}

func (s *Sched) enqueue(c *ctl, id controller.ID) {
	sl := c.slotFor(s, c.partition(id))
	s.enqueueSlot(sl, id)
}

// idStr renders an ID for histories.
func (s *Sched) idStr(id controller.ID) string {
	switch v := id.Value.(type) {
	case configapi.TransactionID:
		return fmt.Sprintf("tx%d", v.Index)
	case configapi.ConfigurationID:
		return "cfg:" + string(v.Target.ID)
	}
	return fmt.Sprint(id.Value)
}

func (s *Sched) enqueueSlot(sl *slot, id controller.ID) {
	for _, it := range sl.pending {
		if it.id.Value == id.Value {
			return
		}
	}
	s.seq++
	sl.pending = append(sl.pending, &item{id: id, seq: s.seq})
}

// ---------------------------------------------------------------------------
// running

type cand struct {
	kind string // "task" | "item" | "ext"
	t    *task
	sl   *slot
	it   *item
}

func (s *Sched) eligible(it *item) bool {
	if it.errs == 0 {
		return true
	}
	if s.Effects()+s.w.Topo.WriteCount() != it.failedAt {
		return true
	}
	return it.errs <= s.MaxIdleRetries
}

func (s *Sched) candidates() []cand {
	var tasks, items []cand
	for _, c := range s.ctls {
		for _, p := range c.order {
			sl := c.slots[p]
			if sl.inflight != nil {
				tasks = append(tasks, cand{kind: "task", t: sl.inflight, sl: sl})
				continue
			}
			for _, it := range sl.pending {
				if s.eligible(it) {
					items = append(items, cand{kind: "item", sl: sl, it: it})
					if s.Mode == Preempt {
						break // one startable item per idle slot: the partition is sequential
					}
				}
			}
		}
	}
	sort.SliceStable(tasks, func(i, j int) bool { return tasks[i].t.seq < tasks[j].t.seq })
	sort.SliceStable(items, func(i, j int) bool { return items[i].it.seq < items[j].it.seq })
	out := append(tasks, items...)
	return out
}

// Pending returns the number of pending (eligible or parked) items and in-flight tasks.
func (s *Sched) Pending() (eligible, parked, inflight int) {
	for _, c := range s.ctls {
		for _, sl := range c.slots {
			if sl.inflight != nil {
				inflight++
			}
			for _, it := range sl.pending {
				if s.eligible(it) {
					eligible++
				} else {
					parked++
				}
			}
		}
	}
	return
}

// Run drives the controllers until nothing is left to do (quiescence), the
// budget is exhausted, or the harness is inconclusive. External actions that
// were queued are interleaved (drawn mode) or executed when the controllers
// are idle (FIFO).
func (s *Sched) Run() error {
	for {
		if err := s.settle(); err != nil {
			return err
		}
		s.emu.Lock()
		cp := s.crashPending
		s.emu.Unlock()
		if cp {
			if err := s.restart(); err != nil {
				return err
			}
			continue
		}
		cands := s.candidates()
		if len(s.Externals) > 0 && ((s.Drawn && !s.Externals[0].WhenIdle) || len(cands) == 0) {
			cands = append(cands, cand{kind: "ext"})
		}
		if len(cands) == 0 {
			return nil
		}
		if s.Steps >= s.Budget {
			return ErrBudget
		}
		pick := 0
		if s.Drawn && len(cands) > 1 {
			pick = s.x.Choose(len(cands), "sched")
			s.decisionsDrawn++
		}
		c := cands[pick]
		var info StepInfo
		switch c.kind {
		case "ext":
			e := s.Externals[0]
			s.Externals = s.Externals[1:]
			s.x.Logf("  ext: %s", e.Name)
			if err := e.Fn(); err != nil {
				return err
			}
			info = StepInfo{Ctl: "ext", ID: e.Name, Done: true}
		case "item":
			s.Steps++
			c.sl.pending = removeItem(c.sl.pending, c.it)
			if s.Mode == Atomic {
				info = s.runAtomic(c.sl, c.it)
			} else {
				info = s.startTask(c.sl, c.it)
			}
		case "task":
			s.Steps++
			info = s.advance(c.t)
		}
		if len(s.Panics) > 0 {
			return vstat.Violf("a reconciler panicked (the onos-config process would have died): %s", s.Panics[0])
		}
		if s.Monitor != nil {
			if err := s.settle(); err != nil {
				return err
			}
			if err := s.Monitor(info); err != nil {
				return err
			}
		}
	}
}

func removeItem(l []*item, it *item) []*item {
	for i, x := range l {
		if x == it {
			return append(l[:i:i], l[i+1:]...)
		}
	}
	return l
}

func (s *Sched) reconcile(sl *slot, it *item) (res controller.Result, err error, panicked any, stack string) {
	defer func() {
		if p := recover(); p != nil {
			panicked = p
			stack = vstat.CleanStack(string(debug.Stack()))
		}
	}()
	// mastership election uses the global math/rand: pin it per step so a case replays
	rand.Seed(int64(s.Steps)) //nolint
	res, err = sl.rec.Reconcile(it.id)
	return
}

func (s *Sched) runAtomic(sl *slot, it *item) StepInfo {
	t := &task{sl: sl, it: it}
	sl.gate.task = t
	res, err, p, st := s.reconcile(sl, it)
	sl.gate.task = nil
	t.res, t.err, t.panicked, t.stack = res, err, p, st
	s.finish(t)
	return StepInfo{Ctl: sl.c.name, Part: sl.part, ID: s.idStr(it.id), Done: true, Err: err}
}

func (s *Sched) startTask(sl *slot, it *item) StepInfo {
	s.seq++
	t := &task{sl: sl, it: it, seq: s.seq, yieldCh: make(chan struct{}), resume: make(chan struct{}), done: make(chan struct{})}
	sl.inflight = t
	sl.gate.task = t
	n := 0
	for _, c := range s.ctls {
		for _, x := range c.slots {
			if x.inflight != nil {
				n++
			}
		}
	}
	if n > s.MaxInflight["all"] {
		s.MaxInflight["all"] = n
	}
	go func() {
		defer close(t.done)
		t.res, t.err, t.panicked, t.stack = s.reconcile(sl, it)
	}()
	return s.waitTask(t)
}

func (s *Sched) advance(t *task) StepInfo {
	t.resume <- struct{}{}
	return s.waitTask(t)
}

func (s *Sched) waitTask(t *task) StepInfo {
	select {
	case <-t.yieldCh:
		return StepInfo{Ctl: t.sl.c.name, Part: t.sl.part, ID: s.idStr(t.it.id), Op: t.atOp}
	case <-t.done:
		t.sl.inflight = nil
		t.sl.gate.task = nil
		s.finish(t)
		return StepInfo{Ctl: t.sl.c.name, Part: t.sl.part, ID: s.idStr(t.it.id), Done: true, Err: t.err}
	}
}

func (s *Sched) finish(t *task) {
	sl, it := t.sl, t.it
	if t.panicked != nil {
		s.Panics = append(s.Panics, fmt.Sprintf("%s %s: %v\n%s", sl.c.name, s.idStr(it.id), t.panicked, t.stack))
		return
	}
	if t.poisoned {
		s.x.Logf("  step %d %s[%s] %s -> lost in crash", s.Steps, sl.c.name, sl.part, s.idStr(it.id))
		return
	}
	if t.conflicted && s.AbortOnConflict {
		// retried on fresh state, like any reconcile that returned an error; a
		// conflict means somebody else moved, so the retry is never parked
		s.seq++
		it.seq = s.seq
		it.errs = 0
		dup := false
		for _, p := range sl.pending {
			if p.id.Value == it.id.Value {
				dup = true
			}
		}
		if !dup {
			sl.pending = append(sl.pending, it)
		}
		s.x.Logf("  step %d %s[%s] %s -> ended at its refused write, retried", s.Steps, sl.c.name, sl.part, s.idStr(it.id))
		return
	}
	if t.err != nil {
		// errs counts failures with NOTHING changing between them (a failure that repeats on the same state is not
		// retried for ever by the harness); an attempt that failed after something had changed since the last
		// failure - typically a version conflict of a pre-empted step - starts the count again
		if now := s.Effects() + s.w.Topo.WriteCount(); it.errs > 0 && now != it.failedAt {
			it.errs = 0
		}
		it.errs++
		it.failedAt = s.Effects() + s.w.Topo.WriteCount()
		s.seq++
		it.seq = s.seq
		// the real controller re-submits the same request to the same partition after a back-off
		dup := false
		for _, p := range sl.pending {
			if p.id.Value == it.id.Value {
				dup = true
				p.errs, p.failedAt = it.errs, it.failedAt
			}
		}
		if !dup {
			sl.pending = append(sl.pending, it)
		}
		s.x.Logf("  step %d %s[%s] %s -> error (attempt %d): %v", s.Steps, sl.c.name, sl.part, s.idStr(it.id), it.errs, firstLine(t.err.Error()))
		return
	}
	if t.res.Requeue.Value != nil {
		s.enqueueSlot(sl, t.res.Requeue)
		s.x.Logf("  step %d %s[%s] %s -> requeue %s", s.Steps, sl.c.name, sl.part, s.idStr(it.id), s.idStr(t.res.Requeue))
		return
	}
	s.x.Logf("  step %d %s[%s] %s", s.Steps, sl.c.name, sl.part, s.idStr(it.id))
}

func firstLine(s string) string {
	if i := strings.IndexByte(s, '\n'); i >= 0 {
		s = s[:i]
	}
	if len(s) > 160 {
		s = s[:160]
	}
	return s
}

// stopWatchers stops every real watcher and waits until every event
// subscription it held is gone.
func (s *Sched) stopWatchers() error {
	for _, wr := range s.watchers {
		if wr.quit != nil {
			wr.w.Stop()
		}
	}
	deadline := time.Now().Add(20 * time.Second)
	for s.w.liveSubscriptions() > 0 {
		if time.Now().After(deadline) {
			return fmt.Errorf("%w: event subscriptions did not end", ErrInconclusive)
		}
		time.Sleep(200 * time.Microsecond)
	}
	for _, wr := range s.watchers {
		if wr.quit != nil {
			close(wr.quit)
			wr.quit = nil
		}
	}
	return nil
}

// restart performs the crash: every in-flight task is poisoned, all volatile
// state (queues, watchers, connections) is dropped, and a fresh set of
// reconcilers and watchers is started with replay.
func (s *Sched) restart() error {
	s.Crashes++
	s.x.Logf("  *** CRASH #%d (after %d effects) ***", s.Crashes, s.Effects())
	for _, c := range s.ctls {
		for _, p := range c.order {
			sl := c.slots[p]
			if t := sl.inflight; t != nil {
				t.poisoned = true
				for {
					done := false
					select {
					case t.resume <- struct{}{}:
						select {
						case <-t.yieldCh:
						case <-t.done:
							done = true
						}
					case <-t.done:
						done = true
					}
					if done {
						break
					}
				}
				sl.inflight = nil
				sl.gate.task = nil
			}
		}
	}
	if err := s.stopWatchers(); err != nil {
		return err
	}
	s.w.dropVolatile()
	for _, c := range s.ctls {
		c.slots = map[string]*slot{}
		c.order = nil
	}
	s.emu.Lock()
	s.crashPending = false
	s.emu.Unlock()
	s.w.rebuildWatchers()
	if err := s.startWatchers(); err != nil {
		return err
	}
	if s.OnRestart != nil {
		s.OnRestart()
	}
	return nil
}

// stop ends all watchers (end of a case).
func (s *Sched) stop() {
	for _, c := range s.ctls {
		for _, sl := range c.slots {
			if t := sl.inflight; t != nil {
				t.poisoned = true
				for {
					done := false
					select {
					case t.resume <- struct{}{}:
						select {
						case <-t.yieldCh:
						case <-t.done:
							done = true
						}
					case <-t.done:
						done = true
					}
					if done {
						break
					}
				}
				sl.inflight = nil
			}
		}
	}
	_ = s.stopWatchers()
}

// ReconcileAll runs one extra reconcile of every transaction and of the
// configuration through every controller and returns the number of store
// writes, topology writes and device calls that caused (fixed-point oracle).
func (s *Sched) ReconcileAll() (int, error) {
	before := s.w.St.Writes() + s.w.Topo.WriteCount() + s.w.deviceCalls()
	ids, err := s.w.allIDs()
	if err != nil {
		return 0, err
	}
	saveMode := s.Mode
	s.Mode = Atomic
	defer func() { s.Mode = saveMode }()
	for _, c := range s.ctls {
		for _, id := range ids[c.name] {
			sl := c.slotFor(s, c.partition(id))
			it := &item{id: id}
			s.Steps++
			res, err, p, st := s.reconcile(sl, it)
			if p != nil {
				return 0, vstat.Violf("reconciler %s panicked on %v: %v\n%s", c.name, id.Value, p, st)
			}
			_ = res
			_ = err
		}
	}
	if err := s.settle(); err != nil {
		return 0, err
	}
	after := s.w.St.Writes() + s.w.Topo.WriteCount() + s.w.deviceCalls()
	return after - before, nil
}
