package v3sim

import (
	"context"
	"sync"

	"github.com/gogo/protobuf/proto"
	configapi "github.com/onosproject/onos-api/go/onos/config/v3"
	cfgstore "github.com/onosproject/onos-config/pkg/store/v3/configuration"
	txstore "github.com/onosproject/onos-config/pkg/store/v3/transaction"
	"github.com/onosproject/onos-lib-go/pkg/errors"

	"verif/harness/fakes"
)

// Stores groups the REAL v3 stores and the hubs that carry the synthetic store
// events to the controllers' real watchers.
type Stores struct {
	Tx  txstore.Store
	Cfg cfgstore.Store

	txHub  fakes.Hub[configapi.TransactionEvent]
	cfgHub fakes.Hub[configapi.ConfigurationEvent]

	mu     sync.Mutex
	writes int // successful store writes (both stores)

	// afterWrite is called synchronously after every successful write (and after
	// a write that was cut between its sub-writes), before the store event is
	// emitted: this is where the oracle takes its snapshot.
	afterWrite func(op string)

	// fixNilCommitted makes cfgView.Get replace a nil Committed.Values map by an
	// empty one (work-around for finding F-v3-nil-committed-values, see world.go).
	fixNilCommitted bool
}

func (s *Stores) noteWrite(op string) {
	s.mu.Lock()
	s.writes++
	s.mu.Unlock()
	if s.afterWrite != nil {
		s.afterWrite(op)
	}
}

// refused is called with the error of a refused write: a version conflict is
// counted and, when the scheduler is told to (work-around for finding
// F-v3-conflict-swallowed), ends the reconcile that attempted it.
func (s *Stores) refused(g *Gate, op string, err error) {
	if !errors.IsConflict(err) || g == nil || g.s == nil || g.nb {
		return
	}
	g.s.noteConflict(g, op)
}

// Writes returns the number of successful store writes so far.
func (s *Stores) Writes() int {
	s.mu.Lock()
	defer s.mu.Unlock()
	return s.writes
}

// gogo's proto.Clone cannot merge onos-api's cast types, so clone through the wire format.
func cloneTx(t *configapi.Transaction) configapi.Transaction {
	var c configapi.Transaction
	b, err := proto.Marshal(t)
	if err == nil {
		err = proto.Unmarshal(b, &c)
	}
	if err != nil {
		panic(err)
	}
	return c
}

func cloneCfg(p *configapi.Configuration) configapi.Configuration {
	var c configapi.Configuration
	b, err := proto.Marshal(p)
	if err == nil {
		err = proto.Unmarshal(b, &c)
	}
	if err != nil {
		panic(err)
	}
	return c
}

// ---------------------------------------------------------------------------
// transactions

type txView struct {
	st *Stores
	g  *Gate
}

func (v *txView) Get(ctx context.Context, id configapi.TransactionID) (*configapi.Transaction, error) {
	if err := v.g.enter("tx.Get", false); err != nil {
		return nil, err
	}
	return v.st.Tx.Get(ctx, id)
}
func (v *txView) GetKey(ctx context.Context, target configapi.Target, key string) (*configapi.Transaction, error) {
	if err := v.g.enter("tx.GetKey", false); err != nil {
		return nil, err
	}
	return v.st.Tx.GetKey(ctx, target, key)
}
func (v *txView) List(ctx context.Context) ([]configapi.Transaction, error) {
	if err := v.g.enter("tx.List", false); err != nil {
		return nil, err
	}
	return v.st.Tx.List(ctx)
}

func (v *txView) emit(typ configapi.TransactionEvent_EventType, id configapi.TransactionID) {
	// the real store's events carry the stored record (ID and Version filled in)
	t, err := v.st.Tx.Get(context.Background(), id)
	if err != nil {
		return
	}
	t.ID.Target = id.Target
	v.st.txHub.Emit(configapi.TransactionEvent{Type: typ, Transaction: cloneTx(t)})
}

func (v *txView) Create(ctx context.Context, t *configapi.Transaction) error {
	if err := v.g.enter("tx.Create", true); err != nil {
		return err
	}
	if err := v.st.Tx.Create(ctx, t); err != nil {
		return err
	}
	v.st.noteWrite("tx.Create")
	v.emit(configapi.TransactionEvent_CREATED, t.ID)
	return nil
}
func (v *txView) Update(ctx context.Context, t *configapi.Transaction) error {
	if err := v.g.enter("tx.Update", true); err != nil {
		return err
	}
	if err := v.st.Tx.Update(ctx, t); err != nil {
		v.st.refused(v.g, "tx.Update", err)
		return err
	}
	v.st.noteWrite("tx.Update")
	v.emit(configapi.TransactionEvent_UPDATED, t.ID)
	return nil
}
func (v *txView) UpdateStatus(ctx context.Context, t *configapi.Transaction) error {
	if err := v.g.enter("tx.UpdateStatus", true); err != nil {
		return err
	}
	if err := v.st.Tx.UpdateStatus(ctx, t); err != nil {
		v.st.refused(v.g, "tx.UpdateStatus", err)
		return err
	}
	v.st.noteWrite("tx.UpdateStatus")
	v.emit(configapi.TransactionEvent_UPDATED, t.ID)
	return nil
}
func (v *txView) Watch(ctx context.Context, ch chan<- configapi.TransactionEvent, opts ...txstore.WatchOption) error {
	_, replay := txstore.WatchOptionsForVerif(opts...)
	var rep []configapi.TransactionEvent
	if replay {
		l, err := v.st.Tx.List(ctx)
		if err != nil {
			return err
		}
		for i := range l {
			rep = append(rep, configapi.TransactionEvent{Type: configapi.TransactionEvent_REPLAYED, Transaction: cloneTx(&l[i])})
		}
	}
	v.st.txHub.Subscribe(ctx, ch, rep)
	return nil
}
func (v *txView) Close(ctx context.Context) error { return nil }

var _ txstore.Store = &txView{}

// ---------------------------------------------------------------------------
// configurations

type cfgView struct {
	st *Stores
	g  *Gate
}

func (v *cfgView) Get(ctx context.Context, id configapi.ConfigurationID) (*configapi.Configuration, error) {
	if err := v.g.enter("cfg.Get", false); err != nil {
		return nil, err
	}
	c, err := v.st.Cfg.Get(ctx, id)
	if err == nil && v.st.fixNilCommitted && c.Committed.Values == nil {
		c.Committed.Values = map[string]configapi.PathValue{}
	}
	return c, err
}
func (v *cfgView) List(ctx context.Context) ([]*configapi.Configuration, error) {
	if err := v.g.enter("cfg.List", false); err != nil {
		return nil, err
	}
	return v.st.Cfg.List(ctx)
}

func (v *cfgView) emit(typ configapi.ConfigurationEvent_EventType, id configapi.ConfigurationID) {
	// the real store's events carry the record with its values populated, so re-read it
	c, err := v.st.Cfg.Get(context.Background(), id)
	if err != nil {
		return
	}
	v.st.cfgHub.Emit(configapi.ConfigurationEvent{Type: typ, Configuration: cloneCfg(c)})
}

func (v *cfgView) Create(ctx context.Context, c *configapi.Configuration) error {
	if err := v.g.enter("cfg.Create", true); err != nil {
		return err
	}
	if err := v.st.Cfg.Create(ctx, c); err != nil {
		return err
	}
	v.st.noteWrite("cfg.Create")
	v.emit(configapi.ConfigurationEvent_CREATED, c.ID)
	return nil
}

// Update and UpdateStatus of the real v3 configuration store consist of two
// persisted sub-writes: first the values (Committed.Values in Update,
// Applied.Values in UpdateStatus) go into a separate Atomix map in one map
// transaction, then the record is replaced under its version check. A crash
// between the two is emulated by forwarding the call with a stale Version: the
// values are written, the record update is refused — exactly the state such a
// crash leaves behind.
func (v *cfgView) Update(ctx context.Context, c *configapi.Configuration) error {
	if err := v.g.enter("cfg.Update", true); err != nil {
		return err
	}
	if c.Committed.Values != nil && v.g != nil && v.g.s != nil && v.g.s.midCallCrash(v.g, "cfg.Update") {
		stale := cloneCfg(c)
		stale.Version += 1 << 40
		_ = v.st.Cfg.Update(ctx, &stale)
		v.st.noteWrite("cfg.Update(values only)")
		v.g.s.crashNow(v.g)
		return errCrashed
	}
	if err := v.st.Cfg.Update(ctx, c); err != nil {
		v.st.refused(v.g, "cfg.Update", err)
		return err
	}
	v.st.noteWrite("cfg.Update")
	v.emit(configapi.ConfigurationEvent_UPDATED, c.ID)
	return nil
}
func (v *cfgView) UpdateStatus(ctx context.Context, c *configapi.Configuration) error {
	if err := v.g.enter("cfg.UpdateStatus", true); err != nil {
		return err
	}
	if c.Applied.Values != nil && v.g != nil && v.g.s != nil && v.appliedValuesChange(c) && v.g.s.midCallCrash(v.g, "cfg.UpdateStatus") {
		stale := cloneCfg(c)
		stale.Version += 1 << 40
		_ = v.st.Cfg.UpdateStatus(ctx, &stale)
		v.g.s.noteMidCall()
		v.st.noteWrite("cfg.UpdateStatus(values only)")
		v.g.s.crashNow(v.g)
		return errCrashed
	}
	hadValues := c.Applied.Values != nil
	if err := v.st.Cfg.UpdateStatus(ctx, c); err != nil {
		v.st.refused(v.g, "cfg.UpdateStatus", err)
		if hadValues && errors.IsConflict(err) && v.st.afterWrite != nil {
			// the real store has already written the applied values when the record
			// update is refused (C15's F-config-failed-write-leaks-values)
			v.st.afterWrite("cfg.UpdateStatus(values only: record refused)")
		}
		return err
	}
	v.st.noteWrite("cfg.UpdateStatus")
	v.emit(configapi.ConfigurationEvent_UPDATED, c.ID)
	return nil
}

// appliedValuesChange reports whether the call carries applied values that
// differ from the stored ones (only then do the store's two sub-writes differ
// from one).
func (v *cfgView) appliedValuesChange(c *configapi.Configuration) bool {
	cur, err := v.st.Cfg.Get(context.Background(), c.ID)
	if err != nil {
		return false
	}
	if len(cur.Applied.Values) != len(c.Applied.Values) {
		return true
	}
	for p, a := range c.Applied.Values {
		b, ok := cur.Applied.Values[p]
		if !ok || a.Index != b.Index || a.Deleted != b.Deleted {
			return true
		}
	}
	return false
}

func (v *cfgView) Watch(ctx context.Context, ch chan<- configapi.ConfigurationEvent, opts ...cfgstore.WatchOption) error {
	_, replay := cfgstore.WatchOptionsForVerif(opts...)
	var rep []configapi.ConfigurationEvent
	if replay {
		l, err := v.st.Cfg.List(ctx)
		if err != nil {
			return err
		}
		for _, c := range l {
			rep = append(rep, configapi.ConfigurationEvent{Type: configapi.ConfigurationEvent_REPLAYED, Configuration: cloneCfg(c)})
		}
	}
	v.st.cfgHub.Subscribe(ctx, ch, rep)
	return nil
}
func (v *cfgView) Close(ctx context.Context) error { return nil }

var _ cfgstore.Store = &cfgView{}
