// Package v3sim assembles the real v3 (per-target transaction protocol) controllers and stores
// of onos-config around fakes of the external world and drives them with
// a scheduler the harness owns (DESIGN.md §4, "C20"); it mirrors harness/sim.
package v3sim

import (
	"github.com/onosproject/onos-lib-go/pkg/errors"
)

// Gate sits in front of every store, topology and southbound call a reconcile
// task makes. In atomic mode it only counts; in pre-emptive mode every call is
// a yield point where the task blocks until the scheduler grants it; after a
// simulated crash every further call of the task fails without effect.
type Gate struct {
	s    *Sched
	task *task // in-flight task using this gate (pre-emptive mode), or nil
	name string
	// nb gates belong to northbound handlers: never scheduled, never poisoned.
	nb bool
}

var errCrashed = errors.NewUnavailable("verif: process crashed")

// enter is called at the start of every gated call. effect tells whether the
// call mutates persistent state or the device (crash points are counted on
// effects). It returns an error when the task must not perform the call.
func (g *Gate) enter(op string, effect bool) error {
	if g == nil || g.s == nil {
		return nil
	}
	return g.s.enter(g, op, effect)
}
