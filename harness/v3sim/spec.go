package v3sim

import (
	"bytes"
	"context"
	"fmt"
	"sort"
	"strings"

	configapi "github.com/onosproject/onos-api/go/onos/config/v3"
	sb "github.com/onosproject/onos-config/pkg/southbound/gnmi"

	"verif/harness/model"
	"verif/harness/vstat"
)

// This file is the oracle of C20: the records of the v3 stores are read as the
// variables of /repo/spec/Config.tla, every write is turned into the `history`
// events the specification appends, and the invariants Order and Consistency
// (and the action property Transition) of Config.tla are evaluated as Go
// predicates, the TLA+ text quoted next to each translation.
//
// Variable mapping (the authors' own, see /repo/internal/controller/model/state.go):
//
//	transactions[i].phase            Transaction.Status.Phase            (CHANGE | ROLLBACK)
//	transactions[i].change.values    Transaction.Values
//	transactions[i].change.ordinal   Transaction.Status.Change.Ordinal
//	transactions[i].change.commit    Transaction.Status.Change.Commit.State
//	transactions[i].change.apply     Transaction.Status.Change.Apply.State
//	transactions[i].rollback.index   Transaction.Status.Rollback.Index
//	transactions[i].rollback.ordinal Transaction.Status.Rollback.Ordinal
//	transactions[i].rollback.values  Transaction.Status.Rollback.Values
//	transactions[i].rollback.commit  Transaction.Status.Rollback.Commit.State   (nil pointer = Nil)
//	transactions[i].rollback.apply   Transaction.Status.Rollback.Apply.State    (nil pointer = Nil)
//	configuration.committed.{index,change,target,ordinal,revision,values}  Configuration.Committed.{...}
//	configuration.applied.{index,target,ordinal,revision,values}           Configuration.Applied.{...}
//	configuration.state              Configuration.Status.State  (Complete = SYNCHRONIZED, Pending = anything else)
//	configuration.term               Configuration.Applied.Term
//	mastership.{master,term}         Configuration.Status.Mastership.{Master,Term}
//	conns[n] / mastership.conn       the live connections of the fake connection manager / the CONTROLS relation named by Master
//	target.{running,values}          the fake device (World.Running, Device.Leaves)
//	history                          Observer.History (below)

// Spec constants.
const (
	Change   = "Change"
	Rollback = "Rollback"
	Commit   = "Commit"
	Apply    = "Apply"

	Nil        = "<nil>"
	Pending    = "Pending"
	InProgress = "InProgress"
	Complete   = "Complete"
	Aborted    = "Aborted"
	Canceled   = "Canceled"
	Failed     = "Failed"
)

// Event is one element of the spec's `history` sequence.
type Event struct {
	Phase  string
	Event  string
	Index  int
	Status string
	Write  int    // number of the store write that produced it
	Action string // the spec action (branch) the write was matched to
}

func (e Event) String() string {
	return fmt.Sprintf("%s-%s(%d)=%s", e.Phase, e.Event, e.Index, e.Status)
}

// Snap is one reading of all records.
type Snap struct {
	Cfg *configapi.Configuration
	Txs []*configapi.Transaction // Txs[i-1] is transactions[i]
}

func (s Snap) tx(i int) *configapi.Transaction {
	if i < 1 || i > len(s.Txs) {
		return nil
	}
	return s.Txs[i-1]
}

func st(p *configapi.TransactionPhaseStatus) string {
	if p == nil {
		return Nil
	}
	switch p.State {
	case configapi.TransactionPhaseStatus_PENDING:
		return Pending
	case configapi.TransactionPhaseStatus_IN_PROGRESS:
		return InProgress
	case configapi.TransactionPhaseStatus_COMPLETE:
		return Complete
	case configapi.TransactionPhaseStatus_ABORTED:
		return Aborted
	case configapi.TransactionPhaseStatus_CANCELED:
		return Canceled
	case configapi.TransactionPhaseStatus_FAILED:
		return Failed
	}
	return "?"
}

// status returns transactions[i].<phase>.<stage>.
func status(t *configapi.Transaction, phase, stage string) string {
	switch {
	case phase == Change && stage == Commit:
		return st(t.Status.Change.Commit)
	case phase == Change && stage == Apply:
		return st(t.Status.Change.Apply)
	case phase == Rollback && stage == Commit:
		return st(t.Status.Rollback.Commit)
	default:
		return st(t.Status.Rollback.Apply)
	}
}

func isDone(s string) bool {
	return s == Complete || s == Aborted || s == Canceled || s == Failed
}

// Observer reconstructs the spec's history from the sequence of store writes
// and evaluates the invariants after every write.
type Observer struct {
	w       *World
	prev    Snap
	History []Event
	Writes  int
	Viol    error // first violation seen

	// device bookkeeping
	acceptedSeen  int // accepted device Sets at the previous observation
	cleanAccepted int // accepted device Sets when the applied side last completed a push (apply, rollback or re-sync)

	// valuesAhead is set by a write that persisted applied values without the
	// record (crash between the store's two sub-writes) until the applied side
	// moves again.
	valuesAhead bool

	// facts for the histogram / trigger predicates
	SawRefusedApply  bool
	SawTermChange    bool
	SawPartialWrite  bool // a crash separated the configuration write from the transaction write of one spec action
	SawRollbackEvent bool
	SawInvalid       bool
	SawAborted       bool
	Terms            map[configapi.MastershipTerm]bool
	StatusWithoutCfg []string // AtomicStatusChange failures (kept for trigger predicates)

}

func newObserver(w *World) *Observer {
	return &Observer{w: w, Terms: map[configapi.MastershipTerm]bool{}}
}

func (o *Observer) snapshot() Snap {
	var s Snap
	if c := o.w.Config(); c != nil {
		cc := cloneCfg(c)
		s.Cfg = &cc
	}
	for i := 1; i <= o.w.NTx; i++ {
		t := o.w.Tx(i)
		if t == nil {
			s.Txs = append(s.Txs, nil)
			continue
		}
		tc := cloneTx(t)
		s.Txs = append(s.Txs, &tc)
	}
	// a transaction the northbound is just creating is not counted in NTx yet
	if t := o.w.Tx(o.w.NTx + 1); t != nil {
		tc := cloneTx(t)
		s.Txs = append(s.Txs, &tc)
	}
	return s
}

func (o *Observer) accepted() int {
	n := 0
	for _, r := range o.w.Dev.Log() {
		if r.Accepted {
			n++
		}
	}
	return n
}

func (o *Observer) fail(format string, args ...any) {
	if o.Viol == nil {
		o.Viol = vstat.Violf(format, args...)
	}
}

func (o *Observer) add(e Event) {
	e.Write = o.Writes
	o.History = append(o.History, e)
	o.w.X.Logf("      history += %s   [%s]", e, e.Action)
	if e.Phase == Rollback {
		o.SawRollbackEvent = true
	}
}

// onWrite is called by the store decorators after every successful write.
func (o *Observer) onWrite(op string) {
	o.Writes++
	o.w.X.Logf("      write %d: %s", o.Writes, op)
	o.observe(op)
}

// Observe re-reads everything (used after environment actions that do not
// write to a store, e.g. a device restart).
func (o *Observer) Observe(why string) { o.observe(why) }

func (o *Observer) observe(op string) {
	cur := o.snapshot()
	old := o.prev
	o.prev = cur
	acceptedNow := o.accepted()
	deviceAccepted := acceptedNow > o.acceptedSeen
	o.acceptedSeen = acceptedNow
	if strings.Contains(op, "values only") {
		o.valuesAhead = true
	}
	if cur.Cfg == nil {
		return
	}
	if m := cur.Cfg.Status.Mastership; m != nil {
		// the first election (term 0 -> 1) is part of every history; a term
		// change in the sense of the property is a later one (mastership moved)
		if m.Term >= 2 && !o.Terms[m.Term] {
			o.SawTermChange = true
		}
		o.Terms[m.Term] = true
	}
	before := len(o.History)
	if old.Cfg != nil {
		o.diffConfiguration(old, cur, deviceAccepted)
	}
	o.diffTransactions(old, cur)
	if len(o.History) == before && old.Cfg != nil {
		o.checkAtomicStatusChange(old, cur)
	}
	for k := before; k < len(o.History); k++ {
		o.checkOrderAt(k)
		o.checkCommitBeforeApply(k)
	}
	o.checkFailedBlocksLater(cur)
	o.checkConsistency(cur, false)
}

// noteCrash is called when the process has crashed: if at that moment the
// configuration record and a transaction record disagree about how far an
// action got, the crash separated the two writes of one spec action (the
// "\\/ UNCHANGED <<transactions>>" / "\\/ UNCHANGED <<configuration>>" branches).
func (o *Observer) noteCrash() {
	s := o.snapshot()
	if s.Cfg == nil {
		return
	}
	c := s.Cfg
	for i := 1; i <= len(s.Txs); i++ {
		t := s.tx(i)
		if t == nil {
			continue
		}
		idx := configapi.Index(i)
		cc, ca := status(t, Change, Commit), status(t, Change, Apply)
		rc, ra := status(t, Rollback, Commit), status(t, Rollback, Apply)
		lag := false
		switch {
		case cc == Pending && c.Committed.Target == idx,
			cc == InProgress && c.Committed.Change == idx,
			cc == Failed && c.Committed.Change < idx,
			cc == Complete && ca == Pending && c.Applied.Target == idx,
			ca == InProgress && c.Applied.Ordinal == t.Status.Change.Ordinal && c.Applied.Index == idx,
			(ca == Aborted || ca == Failed) && c.Applied.Ordinal < t.Status.Change.Ordinal,
			rc == Pending && c.Committed.Revision == configapi.Revision(i) && c.Committed.Target == t.Status.Rollback.Index && c.Committed.Target != idx,
			rc == InProgress && c.Committed.Revision == configapi.Revision(t.Status.Rollback.Index) && c.Committed.Index == idx,
			rc == Complete && ra == Pending && isDone(ca) && c.Applied.Target == t.Status.Rollback.Index && c.Applied.Ordinal == t.Status.Rollback.Ordinal-1,
			ra == InProgress && c.Applied.Ordinal == t.Status.Rollback.Ordinal:
			lag = true
		}
		if lag {
			o.SawPartialWrite = true
			o.w.X.Logf("      (the crash separated the configuration write from the status write of tx%d)", i)
		}
	}
}

// ---------------------------------------------------------------------------
// history reconstruction

func (o *Observer) diffConfiguration(old, cur Snap, deviceAccepted bool) {
	oc, nc := old.Cfg.Committed, cur.Cfg.Committed
	// CommitChange, Pending branch:
	//   /\ configuration' = [configuration EXCEPT !.committed.target = i]
	//   /\ history' = Append(history, [phase |-> Change, event |-> Commit, index |-> i, status |-> InProgress])
	// CommitRollback, Pending branch:
	//   /\ configuration' = [configuration EXCEPT !.committed.target = transactions[i].rollback.index]
	//   /\ history' = Append(history, [phase |-> Rollback, event |-> Commit, index |-> i, status |-> InProgress])
	//   (guard: configuration.committed.revision = i /\ configuration.committed.target = i)
	if nc.Target != oc.Target {
		if nc.Target > oc.Target {
			o.add(Event{Phase: Change, Event: Commit, Index: int(nc.Target), Status: InProgress, Action: "CommitChange/Pending: committed.target := i"})
		} else {
			o.add(Event{Phase: Rollback, Event: Commit, Index: int(oc.Target), Status: InProgress, Action: "CommitRollback/Pending: committed.target := rollback.index"})
		}
	}
	// CommitChange, InProgress branch, valid change:
	//   configuration' = [configuration EXCEPT !.committed.index = i, !.committed.change = i,
	//                     !.committed.revision = i, !.committed.ordinal = ordinal, !.committed.values = values]
	//   history' = Append(history, [phase |-> Change, event |-> Commit, index |-> i, status |-> Complete])
	// CommitRollback, InProgress branch:
	//   configuration' = [configuration EXCEPT !.committed.index = i, !.committed.ordinal = ordinal,
	//                     !.committed.revision = transactions[i].rollback.index, !.committed.values = values]
	//   history' = Append(history, [phase |-> Rollback, event |-> Commit, index |-> i, status |-> Complete])
	// The committed ordinal increments exactly in these two actions; the
	// revision tells which one it was (revision = index: change).
	if nc.Ordinal != oc.Ordinal {
		i := int(nc.Index)
		switch {
		case nc.Ordinal == oc.Ordinal+1 && nc.Revision == configapi.Revision(nc.Index) && nc.Change == nc.Index && nc.Revision != oc.Revision:
			o.add(Event{Phase: Change, Event: Commit, Index: i, Status: Complete, Action: "CommitChange/InProgress: committed.{index,change,revision} := i, ordinal+1"})
		case nc.Ordinal == oc.Ordinal+1 && nc.Revision < configapi.Revision(nc.Index):
			o.add(Event{Phase: Rollback, Event: Commit, Index: i, Status: Complete, Action: "CommitRollback/InProgress: committed.index := i, revision := rollback.index, ordinal+1"})
		default:
			o.fail("the committed configuration moved in a way no action of Transaction.tla allows: ordinal %d -> %d, index %d -> %d, revision %d -> %d, change %d -> %d",
				oc.Ordinal, nc.Ordinal, oc.Index, nc.Index, oc.Revision, nc.Revision, oc.Change, nc.Change)
		}
	}

	oa, na := old.Cfg.Applied, cur.Cfg.Applied
	// ApplyChange, Pending branch:
	//   /\ configuration' = [configuration EXCEPT !.applied.target = i]
	//   /\ history' = Append(history, [phase |-> Change, event |-> Apply, index |-> i, status |-> InProgress])
	// ApplyRollback, Pending branch (change apply Done):
	//   /\ configuration' = [configuration EXCEPT !.applied.target = transactions[i].rollback.index]
	//   /\ history' = Append(history, [phase |-> Rollback, event |-> Apply, index |-> i, status |-> InProgress])
	//   (guard: configuration.applied.ordinal = transactions[i].rollback.ordinal - 1)
	// A write that moves applied.target together with applied.ordinal is the
	// Aborted/Failed catch-up (no event: the event was stamped with the status).
	if na.Target != oa.Target && na.Ordinal == oa.Ordinal {
		if na.Target > oa.Target {
			o.add(Event{Phase: Change, Event: Apply, Index: int(na.Target), Status: InProgress, Action: "ApplyChange/Pending: applied.target := i"})
		} else {
			i := 0
			for k := len(cur.Txs); k >= 1; k-- {
				t := cur.tx(k)
				if t != nil && t.Status.Phase == configapi.TransactionStatus_ROLLBACK && st(t.Status.Rollback.Commit) == Complete && t.Status.Rollback.Ordinal == oa.Ordinal+1 {
					i = k
					break
				}
			}
			if i == 0 {
				for k := len(cur.Txs); k >= 1; k-- {
					t := cur.tx(k)
					if t != nil && t.Status.Phase == configapi.TransactionStatus_ROLLBACK && t.Status.Rollback.Index == na.Target && !isDone(st(t.Status.Rollback.Apply)) {
						i = k
						break
					}
				}
			}
			o.add(Event{Phase: Rollback, Event: Apply, Index: i, Status: InProgress, Action: "ApplyRollback/Pending: applied.target := rollback.index"})
		}
	}
	// ApplyChange, InProgress branch, target accepted:
	//   configuration' = [configuration EXCEPT !.applied.index = i, !.applied.ordinal = ordinal,
	//                     !.applied.revision = i, !.applied.values = values]
	//   history' = Append(history, [phase |-> Change, event |-> Apply, index |-> i, status |-> Complete])
	// ApplyRollback, InProgress branch:
	//   configuration' = [configuration EXCEPT !.applied.index = i, !.applied.ordinal = ordinal,
	//                     !.applied.revision = transactions[i].rollback.index, !.applied.values = values]
	//   history' = Append(history, [phase |-> Rollback, event |-> Apply, index |-> i, status |-> Complete])
	// Every other move of applied.ordinal is the catch-up of an Aborted/Failed
	// apply (ApplyChange last branch, ApplyRollback third branch): no event.
	if na.Ordinal != oa.Ordinal {
		i := int(na.Index)
		t := cur.tx(i)
		switch {
		case t != nil && na.Ordinal == t.Status.Change.Ordinal && na.Revision == configapi.Revision(i):
			o.add(Event{Phase: Change, Event: Apply, Index: i, Status: Complete, Action: "ApplyChange/InProgress: applied.{index,revision} := i, ordinal := change.ordinal"})
			o.cleanAccepted = o.acceptedSeen
			o.valuesAhead = false
		case t != nil && st(t.Status.Rollback.Commit) == Complete && na.Ordinal == t.Status.Rollback.Ordinal &&
			na.Revision == configapi.Revision(t.Status.Rollback.Index) && deviceAccepted:
			o.add(Event{Phase: Rollback, Event: Apply, Index: i, Status: Complete, Action: "ApplyRollback/InProgress: applied.index := i, revision := rollback.index, ordinal := rollback.ordinal"})
			o.cleanAccepted = o.acceptedSeen
			o.valuesAhead = false
		case t != nil && (na.Ordinal == t.Status.Change.Ordinal || na.Ordinal == t.Status.Rollback.Ordinal) && na.Revision == oa.Revision:
			o.w.X.Logf("      applied.ordinal := %d without values (catch-up of an aborted/failed apply of tx%d)", na.Ordinal, i)
		default:
			o.fail("the applied configuration moved in a way no action of Transaction.tla allows: ordinal %d -> %d, index %d -> %d, revision %d -> %d",
				oa.Ordinal, na.Ordinal, oa.Index, na.Index, oa.Revision, na.Revision)
		}
	}
	// ReconcileConfiguration (Configuration.tla): state Pending -> Complete after
	// the applied values were pushed to the target.
	if cur.Cfg.Status.State == configapi.ConfigurationStatus_SYNCHRONIZED && (old.Cfg.Status.State != configapi.ConfigurationStatus_SYNCHRONIZED || old.Cfg.Applied.Term != cur.Cfg.Applied.Term) {
		o.cleanAccepted = o.acceptedSeen
	}
}

func (o *Observer) diffTransactions(old, cur Snap) {
	for i := 1; i <= len(cur.Txs); i++ {
		nt, ot := cur.tx(i), old.tx(i)
		if nt == nil || ot == nil {
			continue
		}
		// CommitChange, InProgress branch, invalid change:
		//   transactions' = [transactions EXCEPT ![i].change.commit = Failed, ![i].change.apply = Canceled]
		//   history' = Append(history, [phase |-> Change, event |-> Commit, index |-> i, status |-> Failed])
		if a, b := status(ot, Change, Commit), status(nt, Change, Commit); a != b && b == Failed {
			o.add(Event{Phase: Change, Event: Commit, Index: i, Status: Failed, Action: "CommitChange/InProgress: validation failed, change.commit := Failed"})
			o.SawInvalid = true
		}
		// ApplyChange Pending branch (applied.revision < rollback.index) and ApplyRollback first branch:
		//   transactions' = [transactions EXCEPT ![i].change.apply = Aborted]
		//   history' = Append(history, [phase |-> Change, event |-> Apply, index |-> i, status |-> Aborted])
		// ApplyChange InProgress branch (target rejects) and ApplyRollback second branch:
		//   transactions' = [transactions EXCEPT ![i].change.apply = Failed]
		//   history' = Append(history, [phase |-> Change, event |-> Apply, index |-> i, status |-> Failed])
		if a, b := status(ot, Change, Apply), status(nt, Change, Apply); a != b && (b == Aborted || b == Failed) {
			o.add(Event{Phase: Change, Event: Apply, Index: i, Status: b, Action: "ApplyChange|ApplyRollback: change.apply := " + b})
			if b == Failed && nt.Status.Phase == configapi.TransactionStatus_CHANGE {
				o.SawRefusedApply = true
			}
			if b == Aborted {
				o.SawAborted = true
			}
		}
		// Not in the specification (its ApplyRollback cannot fail): the
		// implementation records a refused rollback as rollback.apply = Failed.
		if a, b := status(ot, Rollback, Apply), status(nt, Rollback, Apply); a != b && b == Failed {
			o.add(Event{Phase: Rollback, Event: Apply, Index: i, Status: Failed, Action: "(implementation only) applyRollback: rollback.apply := Failed"})
			o.SawRefusedApply = true
		}
	}
}

// ---------------------------------------------------------------------------
// Transition == [][AtomicStatusChange]_<<transactions, history>>

// checkAtomicStatusChange is called for a step that appended nothing to the history.
//
//	StatusCommitted(i) ==
//	   /\ Len(history) = Len(history')
//	   /\ \/ /\ transactions'[i].change.commit \notin {Pending, Canceled}
//	         /\ transactions[i].change.commit # transactions'[i].change.commit
//	      \/ /\ transactions'[i].rollback.commit \notin {Pending, Canceled}
//	         /\ transactions[i].rollback.commit # transactions'[i].rollback.commit
//	StatusApplied(i) == (same with apply and \notin {Pending, Canceled, Aborted})
//	AtomicStatusChange ==
//	   \A i \in 1..NumTransactions : i \in DOMAIN transactions =>
//	      /\ StatusCommitted(i) => ValidCommit(transactions', i)
//	      /\ StatusApplied(i) => ValidApply(transactions', i)
//
// ValidCommit(t, i): the LAST Commit event of the history is an event of
// transaction i whose status equals t[i]'s status of that event's phase;
// ValidApply likewise for Apply events.
func (o *Observer) checkAtomicStatusChange(old, cur Snap) {
	for i := 1; i <= len(cur.Txs); i++ {
		nt, ot := cur.tx(i), old.tx(i)
		if nt == nil || ot == nil {
			continue
		}
		committed, applied := false, false
		for _, ph := range []string{Change, Rollback} {
			if a, b := status(ot, ph, Commit), status(nt, ph, Commit); a != b && b != Pending && b != Canceled && b != Nil {
				committed = true
			}
			if a, b := status(ot, ph, Apply), status(nt, ph, Apply); a != b && b != Pending && b != Canceled && b != Aborted && b != Nil {
				applied = true
			}
		}
		if committed && !o.validLast(nt, i, Commit) {
			msg := fmt.Sprintf("tx%d commit status moved to change=%s rollback=%s but the last Commit event of the history is %s", i, status(nt, Change, Commit), status(nt, Rollback, Commit), o.lastEvent(Commit))
			o.StatusWithoutCfg = append(o.StatusWithoutCfg, msg)
			o.fail("Transition (AtomicStatusChange) violated: a transaction status may only follow the configuration: %s; history %s", msg, o.HistoryString())
		}
		if applied && !o.validLast(nt, i, Apply) {
			msg := fmt.Sprintf("tx%d apply status moved to change=%s rollback=%s but the last Apply event of the history is %s", i, status(nt, Change, Apply), status(nt, Rollback, Apply), o.lastEvent(Apply))
			o.StatusWithoutCfg = append(o.StatusWithoutCfg, msg)
			o.fail("Transition (AtomicStatusChange) violated: a transaction status may only follow the configuration: %s; history %s", msg, o.HistoryString())
		}
	}
}

func (o *Observer) lastEvent(stage string) string {
	for j := len(o.History) - 1; j >= 0; j-- {
		if o.History[j].Event == stage {
			return o.History[j].String()
		}
	}
	return "none"
}

// ValidStatus(t, i, j) ==
//
//	/\ j \in DOMAIN history
//	/\ history[j].index = i
//	/\ \/ /\ history[j].phase = Change   /\ history[j].event = Commit /\ t[i].change.commit   = history[j].status
//	   \/ /\ history[j].phase = Change   /\ history[j].event = Apply  /\ t[i].change.apply    = history[j].status
//	   \/ /\ history[j].phase = Rollback /\ history[j].event = Commit /\ t[i].rollback.commit = history[j].status
//	   \/ /\ history[j].phase = Rollback /\ history[j].event = Apply  /\ t[i].rollback.apply  = history[j].status
func (o *Observer) validLast(t *configapi.Transaction, i int, stage string) bool {
	for j := len(o.History) - 1; j >= 0; j-- {
		e := o.History[j]
		if e.Event != stage {
			continue
		}
		return e.Index == i && status(t, e.Phase, e.Event) == e.Status
	}
	return false
}

// ---------------------------------------------------------------------------
// Order

// checkOrderAt evaluates the first conjunct of Order for history[k] (the
// conjunct only looks backwards, so each event is checked once, when appended):
//
//	Order == /\ \A i \in DOMAIN history :
//	              history[i].status = Complete =>
//	                 \/ IsOrderedChange(Commit, i) \/ IsOrderedChange(Apply, i)
//	                 \/ IsOrderedRollback(Commit, i) \/ IsOrderedRollback(Apply, i)
func (o *Observer) checkOrderAt(k int) {
	h := o.History
	if h[k].Status != Complete {
		return
	}
	if o.isOrderedChange(Commit, k) || o.isOrderedChange(Apply, k) || o.isOrderedRollback(Commit, k) || o.isOrderedRollback(Apply, k) {
		return
	}
	o.fail("Order violated by history[%d] = %s: %s; history %s", k+1, h[k], o.whyUnordered(k), o.HistoryString())
}

// IsOrderedChange(p, i) ==
//
//	/\ history[i].phase = Change /\ history[i].event = p /\ history[i].status = Complete
//	/\ ~\E j \in DOMAIN history :
//	      /\ j < i /\ history[j].phase = Change /\ history[j].event = p
//	      /\ history[j].status = Complete /\ history[j].index >= history[i].index
func (o *Observer) isOrderedChange(p string, i int) bool {
	h := o.History
	if !(h[i].Phase == Change && h[i].Event == p && h[i].Status == Complete) {
		return false
	}
	for j := 0; j < i; j++ {
		if h[j].Phase == Change && h[j].Event == p && h[j].Status == Complete && h[j].Index >= h[i].Index {
			return false
		}
	}
	return true
}

// IsOrderedRollback(p, i) ==
//
//	/\ history[i].phase = Rollback /\ history[i].event = p /\ history[i].status = Complete
//	/\ \E j \in DOMAIN history :
//	      /\ j < i /\ history[j].phase = Change /\ history[j].status = Complete
//	      /\ history[j].index = history[i].index
//	/\ ~\E j \in DOMAIN history :
//	      /\ j < i /\ history[j].phase = Change /\ history[j].event = p
//	      /\ history[j].status = Complete /\ history[j].index > history[i].index
//	      /\ ~\E k \in DOMAIN history :
//	            /\ k > j /\ k < i /\ history[k].phase = Rollback /\ history[k].event = p
//	            /\ history[j].status = Complete   \* (sic: j) /\ history[k].index = history[j].index
func (o *Observer) isOrderedRollback(p string, i int) bool {
	h := o.History
	if !(h[i].Phase == Rollback && h[i].Event == p && h[i].Status == Complete) {
		return false
	}
	found := false
	for j := 0; j < i; j++ {
		if h[j].Phase == Change && h[j].Status == Complete && h[j].Index == h[i].Index {
			found = true
		}
	}
	if !found {
		return false
	}
	for j := 0; j < i; j++ {
		if h[j].Phase == Change && h[j].Event == p && h[j].Status == Complete && h[j].Index > h[i].Index {
			rolledBack := false
			for k := j + 1; k < i; k++ {
				if h[k].Phase == Rollback && h[k].Event == p && h[j].Status == Complete && h[k].Index == h[j].Index {
					rolledBack = true
				}
			}
			if !rolledBack {
				return false
			}
		}
	}
	return true
}

func (o *Observer) whyUnordered(k int) string {
	h := o.History
	e := h[k]
	if e.Phase == Change {
		for j := 0; j < k; j++ {
			if h[j].Phase == Change && h[j].Event == e.Event && h[j].Status == Complete && h[j].Index >= e.Index {
				return fmt.Sprintf("the %s of change %d had already completed (history[%d])", strings.ToLower(e.Event), h[j].Index, j+1)
			}
		}
		return "not an ordered change"
	}
	found := false
	for j := 0; j < k; j++ {
		if h[j].Phase == Change && h[j].Status == Complete && h[j].Index == e.Index {
			found = true
		}
	}
	if !found {
		return fmt.Sprintf("change %d never completed a stage before its rollback did", e.Index)
	}
	return fmt.Sprintf("a later change completed its %s and was not rolled back before rollback %d", strings.ToLower(e.Event), e.Index)
}

// checkCommitBeforeApply: "each phase is committed before it is applied" (first
// guarantee listed in Transaction.tla; ReconcileChange/ReconcileRollback only
// enable Apply* when the commit of the same phase is Complete).
func (o *Observer) checkCommitBeforeApply(k int) {
	h := o.History
	e := h[k]
	if e.Event != Apply {
		return
	}
	for j := 0; j < k; j++ {
		if h[j].Phase == e.Phase && h[j].Event == Commit && h[j].Index == e.Index && h[j].Status == Complete {
			return
		}
	}
	// aborting the change's apply on behalf of a rollback is part of the rollback
	o.fail("apply before commit: history[%d] = %s but no earlier %s-Commit(%d)=Complete; history %s", k+1, e, e.Phase, e.Index, o.HistoryString())
}

// checkFailedBlocksLater is the second conjunct of Order as the property states
// it ("a change whose apply failed or was aborted keeps later changes from being
// applied until it is rolled back"). The TLA+ text reads
//
//	/\ \A i \in DOMAIN transactions :
//	      /\ transactions[i].change.apply = Failed
//	      /\ transactions[i].rollback.apply # Complete
//	      => ~\E j \in DOMAIN transactions :
//	            /\ j > i
//	            /\ transactions[i].change.apply \in {InProgress, Complete}
//
// whose last line names i where j is meant (as written it is vacuous); the Go
// predicate uses j and, following the property statement, Aborted beside Failed.
func (o *Observer) checkFailedBlocksLater(cur Snap) {
	for i := 1; i <= len(cur.Txs); i++ {
		t := cur.tx(i)
		if t == nil {
			continue
		}
		ca := status(t, Change, Apply)
		ra := status(t, Rollback, Apply)
		if ra == Failed {
			// not in the specification (its ApplyRollback cannot fail): the
			// implementation records a rollback the device refused as Failed and
			// moves on; for the blocking rule that rollback has been carried out
			o.w.X.Class("impl-only:rollback-apply-failed")
			continue
		}
		if (ca == Failed || ca == Aborted) && ra != Complete {
			for j := i + 1; j <= len(cur.Txs); j++ {
				u := cur.tx(j)
				if u == nil {
					continue
				}
				if s := status(u, Change, Apply); s == InProgress || s == Complete {
					o.fail("Order (second conjunct) violated: change %d has apply=%s and its rollback is not applied (rollback.apply=%s), yet the later change %d has apply=%s; history %s",
						i, ca, status(t, Rollback, Apply), j, s, o.HistoryString())
				}
			}
		}
	}
}

// ---------------------------------------------------------------------------
// Consistency

func pvEqual(a, b configapi.PathValue) bool {
	if a.Deleted || b.Deleted {
		return a.Deleted == b.Deleted
	}
	return a.Value.Type == b.Value.Type && bytes.Equal(a.Value.Bytes, b.Value.Bytes)
}

func pvString(v configapi.PathValue, ok bool) string {
	if !ok {
		return "<absent>"
	}
	if v.Deleted {
		return "<deleted>"
	}
	return fmt.Sprintf("%s(idx %d)", v.Value.ValueToString(), v.Index)
}

// holds reports whether configuration values `vals` hold transaction value want
// at its path; a deleted value is held by a tombstone or by absence.
func holds(vals map[string]configapi.PathValue, want configapi.PathValue) bool {
	got, ok := vals[want.Path]
	if want.Deleted {
		return !ok || got.Deleted
	}
	return ok && pvEqual(got, want)
}

// InSync is the premise of the device conjunct of Consistency:
//
//	/\ target.running
//	/\ configuration.applied.target = target.id
//	/\ configuration.state = Complete
//
// configuration.applied.target is, everywhere else in the specification, a
// transaction index; comparing it with the target's incarnation number is a
// left-over of an earlier revision of the spec in which the configuration
// remembered which incarnation it had been pushed to. The Go premise keeps that
// meaning: the configuration is SYNCHRONIZED in the current mastership term and
// the master connection of that term is still alive (stopping the target closes
// every connection, so a live master connection means the device has not
// restarted since the push). Because a device Set and the configuration write
// that follows it are two steps in the implementation (one in the spec), the
// conjunct is not evaluated between an accepted Set and the write that records it.
func (o *Observer) InSync(c *configapi.Configuration) bool {
	if !o.w.Running || c.Status.State != configapi.ConfigurationStatus_SYNCHRONIZED || c.Status.Mastership == nil {
		return false
	}
	m := c.Status.Mastership
	if m.Master == "" || c.Applied.Term != m.Term {
		return false
	}
	if _, ok := o.w.Conns.Get(context.Background(), sb.ConnID(m.Master)); !ok {
		return false
	}
	return o.acceptedSeen == o.cleanAccepted && o.accepted() == o.cleanAccepted
}

// checkConsistency:
//
//	Consistency ==
//	   /\ \A i \in DOMAIN transactions :
//	         /\ IsChangeCommitted(i)                       \* configuration.committed.revision = i
//	         /\ ~\E j \in DOMAIN transactions : j > i /\ IsChangeCommitted(j)
//	         => \A p \in DOMAIN transactions[i].change.values :
//	               configuration.committed.values[p] = transactions[i].change.values[p]
//	   /\ \A i \in DOMAIN transactions :
//	         /\ IsChangeApplied(i)                         \* configuration.applied.revision = i
//	         /\ ~\E j \in DOMAIN transactions : j > i /\ IsChangeApplied(j)
//	         => \A p \in DOMAIN transactions[i].change.values :
//	               /\ configuration.applied.values[p] = transactions[i].change.values[p]
//	               /\ (target.running /\ configuration.applied.target = target.id /\ configuration.state = Complete)
//	                  => target.values[p] = transactions[i].change.values[p]
//
// final = true evaluates the applied conjunct even if a values-only write is outstanding.
func (o *Observer) checkConsistency(cur Snap, final bool) {
	c := cur.Cfg
	if c == nil {
		return
	}
	if t := cur.tx(int(c.Committed.Revision)); t != nil {
		for _, p := range sortedPaths(t.Values) {
			want := t.Values[p]
			if !holds(c.Committed.Values, want) {
				got, ok := c.Committed.Values[p]
				o.consistencyFail("committed", int(c.Committed.Revision), p, pvString(want, true), pvString(got, ok), cur)
			}
		}
	}
	if t := cur.tx(int(c.Applied.Revision)); t != nil && (final || !o.valuesAhead) {
		inSync := o.InSync(c)
		var dev map[string]string
		if inSync {
			dev = o.w.DeviceFlat()
		}
		for _, p := range sortedPaths(t.Values) {
			want := t.Values[p]
			if !holds(c.Applied.Values, want) {
				got, ok := c.Applied.Values[p]
				o.consistencyFail("applied", int(c.Applied.Revision), p, pvString(want, true), pvString(got, ok), cur)
			}
			if inSync {
				got, ok := dev[p]
				exp := ""
				if !want.Deleted {
					exp = tvKey(want.Value)
				}
				if (want.Deleted && ok) || (!want.Deleted && got != exp) {
					if !ok {
						got = "<absent>"
					}
					o.consistencyFail("target", int(c.Applied.Revision), p, pvString(want, true), got, cur)
				}
			}
		}
	}
}

func (o *Observer) consistencyFail(side string, rev int, path, want, got string, cur Snap) {
	o.fail("Consistency violated: configuration.%s.revision = %d but %s.values[%s] = %s, transaction %d wrote %s; state %s",
		side, rev, side, path, got, rev, want, o.w.DescribeState())
}

func sortedPaths(m map[string]configapi.PathValue) []string {
	out := make([]string, 0, len(m))
	for p := range m {
		out = append(out, p)
	}
	sort.Strings(out)
	return out
}

// tvKey renders a v3 typed value in the key format of model.Value (independent
// of the code under test's own converter).
func tvKey(v configapi.TypedValue) string {
	switch v.Type {
	case configapi.ValueType_STRING:
		return model.Str(string(v.Bytes)).Key()
	case configapi.ValueType_UINT:
		var u uint64
		for _, b := range v.Bytes {
			u = u<<8 | uint64(b)
		}
		return model.Uint(u).Key()
	}
	return "?" + v.ValueToString()
}

// HistoryString renders the reconstructed history.
func (o *Observer) HistoryString() string {
	parts := make([]string, len(o.History))
	for i, e := range o.History {
		parts[i] = e.String()
	}
	return "<<" + strings.Join(parts, ", ") + ">>"
}

// ---------------------------------------------------------------------------
// Termination (safety form)

// IsChanged / IsRolledBack of Config.tla:
//
//	IsChanged(i)    == transactions[i].change.commit \in {Complete, Failed} /\ transactions[i].change.apply \in {Complete, Aborted, Failed}
//	IsRolledBack(i) == transactions[i].rollback.commit \in {Complete, Failed} /\ transactions[i].rollback.apply \in {Complete, Aborted, Failed}
//
// (a change whose commit Failed has apply = Canceled, which IsChanged forgets;
// it is terminal.)
func isChanged(t *configapi.Transaction) bool {
	c, a := status(t, Change, Commit), status(t, Change, Apply)
	return (c == Complete && (a == Complete || a == Aborted || a == Failed)) || (c == Failed && a == Canceled)
}

func isRolledBack(t *configapi.Transaction) bool {
	c, a := status(t, Rollback, Commit), status(t, Rollback, Apply)
	return (c == Complete || c == Failed) && (a == Complete || a == Aborted || a == Failed)
}
