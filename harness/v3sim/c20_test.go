package v3sim

import (
	"errors"
	"fmt"
	"testing"

	configapi "github.com/onosproject/onos-api/go/onos/config/v3"
	"google.golang.org/grpc/codes"

	"verif/harness/vstat"
)

const prop = "C20"

// Finding ids of C20 (see checks.fragment.json / the report).
const (
	fNilMap   = "F-v3-nil-committed-values"
	fAlias    = "F-v3-applied-aliases-committed"
	fLoopVar  = "F-v3-store-loopvar"
	fGrpcCode = "F-v3-grpc-code-unwrapped"
	fConflict = "F-v3-conflict-swallowed"
	fWakeup   = "F-v3-lost-wakeup"
)

// switches turns listed findings into counted exclusions.
func switches() Switches {
	return Switches{
		FixNilCommitted: vstat.IsListed(fNilMap),
		DistinctPaths:   vstat.IsListed(fAlias),
		OnePath:         vstat.IsListed(fLoopVar),
		NoTransient:     vstat.IsListed(fGrpcCode),
		AbortOnConflict: vstat.IsListed(fConflict),
	}
}

func noteExclusions(x *vstat.Ctx, sw Switches) {
	if sw.FixNilCommitted {
		x.Excluded(fNilMap)
	}
	if sw.DistinctPaths {
		x.Excluded(fAlias)
	}
	if sw.OnePath {
		x.Excluded(fLoopVar)
	}
	if sw.NoTransient {
		x.Excluded(fGrpcCode)
	}
	if sw.AbortOnConflict {
		x.Excluded(fConflict)
	}
}

// externalOf turns a generated action into a scheduler External.
func externalOf(w *World, x *vstat.Ctx, k int, a Action, facts *caseFacts) External {
	name := fmt.Sprintf("#%d %s", k+1, a.Describe())
	return External{Name: name, Fn: func() error {
		switch a.Kind {
		case "append":
			i, err := w.AppendChange(pathValues(a.Values, w.NTx+1))
			if err != nil {
				return err
			}
			x.Logf("    -> tx%d", i)
		case "rollback":
			var eligible []int
			for i := w.NTx; i >= 1; i-- {
				if RollbackGuard(w.Tx(i)) {
					eligible = append(eligible, i)
				}
			}
			if len(eligible) == 0 {
				x.Class("rollback:guard-false")
				x.Logf("    -> no transaction satisfies the guard of RollbackChange")
				return nil
			}
			i := eligible[a.Pick%len(eligible)]
			ok, err := w.RollbackChange(i)
			if err != nil {
				return err
			}
			if ok {
				facts.rollbacks++
				x.Logf("    -> tx%d phase := Rollback", i)
				if i != eligible[0] {
					x.Class("rollback:not-the-latest")
				}
			}
		case "disconnect":
			w.LinkDown()
		case "connect":
			if w.Links() == 0 {
				return w.LinkUp()
			}
		case "second-conn":
			if w.Links() == 1 {
				return w.LinkUp()
			}
		case "drop-master":
			w.DropMaster()
		case "stop":
			w.StopTarget()
			w.Obs.Observe("stop")
		case "start":
			w.StartTarget()
			return w.LinkUp()
		case "crash":
			facts.crashes++
			w.S.Crash()
		case "crash-at":
			facts.crashes++
			w.S.emu.Lock()
			w.S.CrashAt = w.S.effects + a.After
			w.S.CrashMid = a.Mid
			w.S.emu.Unlock()
		case "fault":
			facts.transient++
			w.Dev.InjectFaults(codes.Code(a.Code))
		}
		return nil
	}}
}

type caseFacts struct {
	rollbacks, crashes, transient int
}

// txTerminal reports whether transactions[i] reached the end of its current
// phase (IsChanged / IsRolledBack of Config.tla).
func txTerminal(t *configapi.Transaction) bool {
	if t.Status.Phase == configapi.TransactionStatus_ROLLBACK {
		return isRolledBack(t)
	}
	return isChanged(t)
}

func runC20(c C20Case, x *vstat.Ctx) error {
	sw := switches()
	noteExclusions(x, sw)
	mode := Atomic
	if c.Preempt {
		mode = Preempt
		x.Class("mode:pre-emptive")
	} else {
		x.Class("mode:atomic")
	}
	w, err := NewWorld(x, Options{Mode: mode, Drawn: true, FixNilCommitted: sw.FixNilCommitted, Online: c.Online})
	if err != nil {
		return err
	}
	defer w.Close()
	for _, id := range []string{fAlias} {
		if vstat.IsKnown(prop, id) {
			w.Obs.Tolerate[id] = true
		}
	}
	facts := &caseFacts{}
	var sample []string
	nAppend := 0
	for k, a := range c.Actions {
		w.S.Externals = append(w.S.Externals, externalOf(w, x, k, a, facts))
		sample = append(sample, a.Describe())
		if a.Kind == "append" {
			nAppend++
		}
	}
	x.Sample(map[string]any{"preempt": c.Preempt, "online": c.Online, "actions": sample})
	x.Class(fmt.Sprintf("appends:%d", nAppend))
	w.S.Budget = 5000
	w.S.AbortOnConflict = sw.AbortOnConflict
	w.S.Monitor = func(StepInfo) error { return w.Obs.Viol }

	finish := func(err error) error {
		if err == nil {
			err = w.Obs.Viol
		}
		for id, what := range w.Obs.Hits {
			x.Known(id, what)
		}
		if errors.Is(err, ErrBudget) {
			return vstat.Violf("did not terminate: %d reconcile steps were not enough to reach quiescence; state %s; history %s", w.S.Steps, w.DescribeState(), w.Obs.HistoryString())
		}
		return err
	}

	if err := w.S.Run(); err != nil || w.Obs.Viol != nil {
		return finish(err)
	}
	// The environment settles: target running, one connection, no pending fault.
	// What follows is the safety form of Termination: at quiescence with the
	// target connected every transaction must have finished its phase.
	w.S.emu.Lock()
	w.S.CrashAt = -1
	w.S.emu.Unlock()
	w.Dev.ClearFaults()
	x.Logf("-- environment settles: target running and connected")
	w.StartTarget()
	if w.Links() == 0 {
		if err := w.LinkUp(); err != nil {
			return err
		}
	}
	if err := w.S.Run(); err != nil || w.Obs.Viol != nil {
		return finish(err)
	}
	// Lost wake-ups: the controllers are idle. If reconciling every record once
	// more (what the replay of a process restart does) makes progress, then a
	// transaction was ready to move but nothing had enqueued it.
	for round := 0; ; round++ {
		before := w.DescribeState()
		n, err := w.S.ReconcileAll()
		if err != nil || w.Obs.Viol != nil {
			return finish(err)
		}
		if n == 0 {
			break
		}
		if !vstat.IsKnown(prop, fWakeup) {
			return finish(vstat.Violf("lost wake-up: the controllers were idle with the target connected, yet reconciling every record once more made progress (%d writes/device calls): nothing had enqueued the transaction that was ready; idle state %s; after the extra round %s",
				n, before, w.DescribeState()))
		}
		x.Known(fWakeup, "a transaction that is ready to move is not enqueued by anything (the failure, abort and rollback paths do not requeue the successor; the configuration watcher only wakes Committed.Target and Applied.Target)")
		x.Logf("-- known finding %s: an extra round over all records made progress (%d writes), continuing", fWakeup, n)
		if round > 8*(w.NTx+1) {
			return finish(vstat.Violf("did not terminate: every extra round over all records keeps making progress; state %s", w.DescribeState()))
		}
		if err := w.S.Run(); err != nil || w.Obs.Viol != nil {
			return finish(err)
		}
	}
	x.Logf("-- quiescent after %d steps: %s", w.S.Steps, w.DescribeState())
	x.Logf("-- history %s", w.Obs.HistoryString())

	// classes and the non-trivial rule
	if facts.rollbacks > 0 {
		x.Class("has:rollback")
	}
	if w.S.Crashes > 0 {
		x.Class("has:crash")
	}
	if w.S.MidCalls > 0 {
		x.Class("has:crash-between-sub-writes")
	}
	if w.Obs.SawPartialWrite || w.S.MidCalls > 0 {
		x.Class("has:partial-write")
	}
	if w.Obs.SawRefusedApply {
		x.Class("has:refused-apply")
	}
	if w.Obs.SawTermChange {
		x.Class("has:term-change")
	}
	if w.S.Conflicts > 0 {
		x.Class("has:write-conflict")
	}
	if w.NTx >= 2 {
		switch {
		case facts.rollbacks > 0:
			x.NonTrivial("rollback")
		case w.Obs.SawPartialWrite || w.S.MidCalls > 0:
			x.NonTrivial("partial write")
		case w.Obs.SawRefusedApply:
			x.NonTrivial("refused apply")
		case w.Obs.SawTermChange:
			x.NonTrivial("term change")
		}
	}

	// Termination
	cfg := w.Config()
	if cfg == nil {
		return vstat.Violf("the configuration record disappeared")
	}
	for i := 1; i <= w.NTx; i++ {
		t := w.Tx(i)
		if t == nil {
			return vstat.Violf("transaction %d disappeared from the log", i)
		}
		if txTerminal(t) {
			continue
		}
		if t.Status.Phase == configapi.TransactionStatus_ROLLBACK && status(t, Rollback, Commit) == Pending && cfg.Committed.Revision > configapi.Revision(i) {
			// rollbacks happen in reverse order: this one waits until the later
			// committed changes are rolled back, which nobody has asked for;
			// everything behind it in the log legitimately waits with it
			x.Class("end:rollback-waits-for-later-changes")
			break
		}
		return finish(vstat.Violf("did not terminate: the controllers are idle, the target is connected, but transaction %d has not finished its %v phase; state %s; history %s",
			i, t.Status.Phase, w.DescribeState(), w.Obs.HistoryString()))
	}

	// Consistency once more with nothing outstanding (the loop above already
	// established the fixed point: a full extra round wrote nothing)
	w.Obs.checkConsistency(w.Obs.snapshot(), true)
	if w.Obs.Viol != nil {
		return finish(nil)
	}
	return finish(nil)
}

// TestC20_OrderAndConsistency: generated histories of AppendChange /
// RollbackChange requests, connection, target and process faults against the
// real v3 stores and controllers under drawn interleavings; after every store
// write the spec's history is extended and Order, Consistency, Transition and
// the blocking rule are evaluated; at quiescence every transaction must be
// terminal and one more reconcile of everything must write nothing.
func TestC20_OrderAndConsistency(t *testing.T) {
	vstat.Run(t, prop, genC20(switches()), runC20)
}
