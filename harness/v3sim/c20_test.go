package v3sim

import (
	"errors"
	"fmt"
	"strings"
	"testing"

	configapi "github.com/onosproject/onos-api/go/onos/config/v3"
	"google.golang.org/grpc/codes"

	"verif/harness/vstat"
)

const prop = "C20"

// Finding ids C20 knows about. The first group is C20's own; the second group
// belongs to C15 (the stores) and is only used to exclude its shape here.
const (
	fNilMap     = "F-v3-nil-committed-values"
	fConflict   = "F-v3-conflict-swallowed"
	fWakeup     = "F-v3-lost-wakeup"
	fGrpcCode   = "F-v3-grpc-code-unwrapped"
	fRbStuck    = "F-v3-stuck-after-rollback"
	fRbRevision = "F-v3-rollback-marks-unapplied-revision"
	fRbWakeup   = "F-v3-lost-wakeup-rollback"
	fRbFailed   = "F-v3-rollback-behind-failed-change"
	fRbPartial  = "F-v3-rollback-after-partial-apply"

	fAlias   = "F-config-applied-aliases-committed" // C15
	fLoopVar = "F-v3-config-store-loopvar-alias"    // C15
	fLeak    = "F-config-failed-write-leaks-values" // C15
)

// switches turns listed findings into counted exclusions.
func switches() Switches {
	return Switches{
		FixNilCommitted:   vstat.IsListed(fNilMap),
		DistinctPaths:     vstat.IsListed(fAlias) && AppliedAliasesCommitted(),
		OnePath:           vstat.IsListed(fLoopVar),
		NoTransient:       vstat.IsListed(fGrpcCode),
		AbortOnConflict:   vstat.IsListed(fConflict),
		RbSingleTrailing:  vstat.IsListed(fRbStuck),
		RbOverAppliedOnly: vstat.IsListed(fRbRevision),
		RbNotBehindFailed: vstat.IsListed(fRbFailed),
		RbNotAfterPartial: vstat.IsListed(fRbPartial),
	}
}

func noteExclusions(x *vstat.Ctx, sw Switches) {
	for id, on := range map[string]bool{fNilMap: sw.FixNilCommitted, fAlias: sw.DistinctPaths, fLoopVar: sw.OnePath, fGrpcCode: sw.NoTransient,
		fConflict: sw.AbortOnConflict, fRbStuck: sw.RbSingleTrailing, fRbRevision: sw.RbOverAppliedOnly, fRbFailed: sw.RbNotBehindFailed, fRbPartial: sw.RbNotAfterPartial} {
		if on {
			x.Excluded(id)
		}
	}
}

type caseFacts struct {
	rollbacks, crashes, transient int
}

// rollbackCandidates lists the transactions a RollbackChange request may name:
// the spec's guard, narrowed by the exclusions of listed findings.
func rollbackCandidates(w *World, x *vstat.Ctx, sw Switches, facts *caseFacts) []int {
	var out []int
	cfg := w.Config()
	for i := w.NTx; i >= 1; i-- {
		t := w.Tx(i)
		if !RollbackGuard(t) {
			continue
		}
		if sw.RbSingleTrailing {
			// F-v3-stuck-after-rollback: after a rollback nothing else can be
			// committed, so only ONE rollback is requested, of the change the
			// configuration currently reflects, when no other commit is outstanding
			ok := facts.rollbacks == 0 && cfg != nil && cfg.Committed.Revision == configapi.Revision(i) &&
				cfg.Committed.Index == configapi.Index(i) && cfg.Committed.Target == configapi.Index(i) && i == w.NTx
			if !ok {
				x.Class("rollback:excluded:" + fRbStuck)
				continue
			}
		}
		if sw.RbNotAfterPartial && cfg != nil && status(t, Change, Apply) == Pending && cfg.Applied.Target == configapi.Index(i) {
			// F-v3-rollback-after-partial-apply: a crash has separated
			// "Applied.Target := i" from "Change.Apply := IN_PROGRESS" and the
			// change has not been reconciled since
			x.Class("rollback:excluded:" + fRbPartial)
			continue
		}
		if sw.RbNotBehindFailed {
			// F-v3-rollback-behind-failed-change: the rollback of change i cannot
			// start while Committed.Target names a later change that failed
			// validation (or is still being committed and may fail)
			ok := true
			for k := i + 1; k <= w.NTx; k++ {
				if u := w.Tx(k); u != nil && status(u, Change, Commit) != Complete {
					ok = false
				}
			}
			if !ok {
				x.Class("rollback:excluded:" + fRbFailed)
				continue
			}
		}
		if sw.RbOverAppliedOnly {
			// F-v3-rollback-marks-unapplied-revision: the rollback of change i
			// declares revision Rollback.Index applied; excluded when the change
			// of that index was never applied to the target
			if r := int(t.Status.Rollback.Index); r > 0 {
				if u := w.Tx(r); u == nil || status(u, Change, Apply) != Complete {
					x.Class("rollback:excluded:" + fRbRevision)
					continue
				}
			}
		}
		out = append(out, i)
	}
	return out
}

// externalOf turns a generated action into a scheduler External.
func externalOf(w *World, x *vstat.Ctx, sw Switches, k int, a Action, facts *caseFacts) External {
	name := fmt.Sprintf("#%d %s", k+1, a.Describe())
	deferred := false
	var self External
	self = External{Name: name, Fn: func() error {
		switch a.Kind {
		case "append":
			i, err := w.AppendChange(pathValues(a.Values, w.NTx+1))
			if err != nil {
				return err
			}
			x.Logf("    -> tx%d", i)
		case "rollback":
			eligible := rollbackCandidates(w, x, sw, facts)
			if len(eligible) == 0 && !deferred {
				// nothing can be rolled back yet: ask again as soon as the controllers are idle
				deferred = true
				again := self
				again.WhenIdle = true
				again.Name = name + " (again, controllers idle)"
				w.S.Externals = append([]External{again}, w.S.Externals...)
				x.Logf("    -> nothing to roll back yet, deferred until the controllers are idle")
				return nil
			}
			if len(eligible) == 0 {
				x.Class("rollback:not-requested")
				x.Logf("    -> no transaction to roll back (guard of RollbackChange, or excluded shape)")
				return nil
			}
			i := eligible[a.Pick%len(eligible)]
			ok, err := w.RollbackChange(i)
			if err != nil {
				return err
			}
			if ok {
				facts.rollbacks++
				x.Logf("    -> tx%d phase := Rollback", i)
				if i != eligible[0] {
					x.Class("rollback:not-the-latest")
				}
			}
		case "disconnect":
			w.LinkDown()
		case "connect":
			if w.Links() == 0 {
				return w.LinkUp()
			}
		case "second-conn":
			if w.Links() == 1 {
				return w.LinkUp()
			}
		case "drop-master":
			w.DropMaster()
		case "stop":
			w.StopTarget()
			w.Obs.Observe("stop")
		case "start":
			w.StartTarget()
			if w.Links() == 0 {
				return w.LinkUp()
			}
		case "crash":
			facts.crashes++
			w.S.Crash()
		case "crash-at":
			facts.crashes++
			w.S.emu.Lock()
			w.S.CrashAt = w.S.effects + a.After
			w.S.CrashMid = a.Mid
			w.S.emu.Unlock()
		case "fault":
			facts.transient++
			w.Dev.InjectFaults(codes.Code(a.Code))
		}
		return nil
	}}
	return self
}

// txTerminal reports whether transactions[i] reached the end of its current
// phase (IsChanged / IsRolledBack of Config.tla).
func txTerminal(t *configapi.Transaction) bool {
	if t.Status.Phase == configapi.TransactionStatus_ROLLBACK {
		return isRolledBack(t)
	}
	return isChanged(t)
}

// run is one execution of a case.
type run struct {
	w     *World
	x     *vstat.Ctx
	sw    Switches
	facts *caseFacts
}

func (r *run) finish(err error) error {
	w := r.w
	if err == nil {
		err = w.Obs.Viol
	}
	if errors.Is(err, ErrBudget) {
		return vstat.Violf("did not terminate: %d reconcile steps were not enough to reach quiescence; state %s; history %s", w.S.Steps, w.DescribeState(), w.Obs.HistoryString())
	}
	return err
}

// quiesce runs the controllers until nothing is left to do. Then it looks for
// lost wake-ups: if reconciling every record once more (what the replay after
// a process restart does) makes progress, a transaction was ready to move but
// nothing had enqueued it. done reports a verdict that ends the case.
func (r *run) quiesce(final bool) (done bool, err error) {
	w, x := r.w, r.x
	if err := w.S.Run(); err != nil || w.Obs.Viol != nil {
		return true, r.finish(err)
	}
	for round := 0; ; round++ {
		before := w.DescribeState()
		n, err := w.S.ReconcileAll()
		if err != nil || w.Obs.Viol != nil {
			return true, r.finish(err)
		}
		if n == 0 {
			return false, nil
		}
		id := fWakeup
		if r.facts.rollbacks > 0 {
			id = fRbWakeup
		}
		if !vstat.IsKnown(prop, id) {
			return true, r.finish(vstat.Violf("lost wake-up (%s): the controllers were idle, yet reconciling every record once more made progress (%d writes/device calls): nothing had enqueued the transaction that was ready to move; idle state %s; after the extra round %s",
				id, n, before, w.DescribeState()))
		}
		if id == fWakeup {
			x.Known(id, "a change that is ready to be committed, applied or aborted is never enqueued: the paths that fail a commit, fail an apply or abort an apply return without requeueing the successor, and the configuration watcher only wakes Committed.Target and Applied.Target")
		} else {
			x.Known(id, "after a rollback the transaction that is next by ordinal is not the one the controller requeues (index+1) nor one the configuration watcher wakes, so it is never reconciled")
		}
		x.Logf("-- known finding %s: an extra round over all records made progress (%d writes), continuing", id, n)
		if round > 8*(w.NTx+1) {
			return true, r.finish(vstat.Violf("did not terminate: every extra round over all records keeps making progress; state %s", w.DescribeState()))
		}
		if err := w.S.Run(); err != nil || w.Obs.Viol != nil {
			return true, r.finish(err)
		}
	}
}

func runC20(c C20Case, x *vstat.Ctx) error {
	sw := switches()
	noteExclusions(x, sw)
	mode := Atomic
	if c.Preempt {
		mode = Preempt
		x.Class("mode:pre-emptive")
	} else {
		x.Class("mode:atomic")
	}
	w, err := NewWorld(x, Options{Mode: mode, Drawn: true, FixNilCommitted: sw.FixNilCommitted, Online: c.Online})
	if err != nil {
		return err
	}
	defer w.Close()
	facts := &caseFacts{}
	r := &run{w: w, x: x, sw: sw, facts: facts}
	var sample []string
	nAppend := 0
	// With F-v3-stuck-after-rollback listed the single rollback request is only
	// made once everything appended before it has been committed: the history
	// is run in two parts, split at the rollback request.
	var parts [][]External
	var cur []External
	for k, a := range c.Actions {
		if a.Kind == "rollback" && sw.RbSingleTrailing && len(parts) == 0 {
			parts = append(parts, cur)
			cur = nil
		}
		cur = append(cur, externalOf(w, x, sw, k, a, facts))
		sample = append(sample, a.Describe())
		if a.Kind == "append" {
			nAppend++
		}
	}
	parts = append(parts, cur)
	x.Sample(map[string]any{"preempt": c.Preempt, "online": c.Online, "actions": sample})
	x.Class(fmt.Sprintf("appends:%d", nAppend))
	w.S.Budget = 6000
	w.S.AbortOnConflict = sw.AbortOnConflict
	w.S.Monitor = func(StepInfo) error { return w.Obs.Viol }

	for _, p := range parts {
		w.S.Externals = p
		if done, err := r.quiesce(false); done {
			return err
		}
	}
	// The environment settles: target running, one connection, no pending fault.
	// What follows is the safety form of Termination: at quiescence with the
	// target connected every transaction must have finished its phase.
	w.S.emu.Lock()
	w.S.CrashAt = -1
	w.S.emu.Unlock()
	w.Dev.ClearFaults()
	x.Logf("-- environment settles: target running and connected")
	w.StartTarget()
	if w.Links() == 0 {
		if err := w.LinkUp(); err != nil {
			return err
		}
	}
	if done, err := r.quiesce(true); done {
		return err
	}
	// Rollbacks happen in reverse order. A requested rollback that waits for
	// later changes gets what the spec's fairness assumption gives it
	// (WF on RollbackChange): those later changes are rolled back too.
	for n := 0; n < w.NTx && !sw.RbSingleTrailing; n++ {
		cfg := w.Config()
		waiting := false
		for i := 1; i <= w.NTx; i++ {
			if t := w.Tx(i); t != nil && t.Status.Phase == configapi.TransactionStatus_ROLLBACK && status(t, Rollback, Commit) == Pending && cfg != nil && cfg.Committed.Revision > configapi.Revision(i) {
				waiting = true
			}
		}
		if !waiting {
			break
		}
		cand := rollbackCandidates(w, x, sw, facts)
		if len(cand) == 0 || cfg.Committed.Revision != configapi.Revision(cand[0]) {
			break
		}
		ok, err := w.RollbackChange(cand[0])
		if err != nil {
			return err
		}
		if !ok {
			break
		}
		facts.rollbacks++
		x.Class("end:later-change-rolled-back-for-a-waiting-rollback")
		x.Logf("-- a rollback waits for later changes: RollbackChange(%d)", cand[0])
		if done, err := r.quiesce(true); done {
			return err
		}
	}
	x.Logf("-- quiescent after %d steps: %s", w.S.Steps, w.DescribeState())
	x.Logf("-- history %s", w.Obs.HistoryString())

	// classes and the non-trivial rule
	partial := w.Obs.SawPartialWrite || w.S.MidCalls > 0
	for name, on := range map[string]bool{"has:rollback": facts.rollbacks > 0, "has:crash": w.S.Crashes > 0, "has:crash-between-sub-writes": w.S.MidCalls > 0,
		"has:partial-write": partial, "has:refused-apply": w.Obs.SawRefusedApply, "has:term-change": w.Obs.SawTermChange,
		"has:write-conflict": w.S.Conflicts > 0, "has:invalid-change": w.Obs.SawInvalid, "has:aborted-apply": w.Obs.SawAborted} {
		if on {
			x.Class(name)
		}
	}
	if w.NTx >= 2 {
		if facts.rollbacks > 0 {
			x.NonTrivial("rollback")
		}
		if partial {
			x.NonTrivial("partial write")
		}
		if w.Obs.SawRefusedApply {
			x.NonTrivial("refused apply")
		}
		if w.Obs.SawTermChange {
			x.NonTrivial("term change")
		}
	}

	// Termination
	cfg := w.Config()
	if cfg == nil {
		return vstat.Violf("the configuration record disappeared")
	}
	for i := 1; i <= w.NTx; i++ {
		t := w.Tx(i)
		if t == nil {
			return vstat.Violf("transaction %d disappeared from the log", i)
		}
		if txTerminal(t) {
			continue
		}
		if t.Status.Phase == configapi.TransactionStatus_ROLLBACK && status(t, Rollback, Commit) == Pending && cfg.Committed.Revision > configapi.Revision(i) {
			// rollbacks happen in reverse order: this one waits until the later
			// committed changes are rolled back, which nobody has asked for;
			// everything behind it in the log legitimately waits with it
			x.Class("end:rollback-waits-for-later-changes")
			break
		}
		if t.Status.Phase == configapi.TransactionStatus_ROLLBACK && status(t, Change, Apply) == Pending && cfg.Applied.Target == configapi.Index(i) &&
			status(t, Rollback, Commit) == Complete && vstat.IsKnown(prop, fRbPartial) {
			x.Known(fRbPartial, fmt.Sprintf("the rollback of change %d is never applied: Applied.Target already names the change but its apply status is still PENDING (the status write was lost in a crash), a combination applyRollback has no branch for", i))
			break
		}
		if blockedBehindFailedChange(w, cfg, i, t) && vstat.IsKnown(prop, fRbFailed) {
			// an invalid change was appended after the rollback had been requested
			x.Known(fRbFailed, fmt.Sprintf("the rollback of change %d never starts: Committed.Target names the later change %d, which failed validation, and commitRollback only starts when Committed.Target is its own index", i, cfg.Committed.Target))
			break
		}
		return r.finish(vstat.Violf("did not terminate: the controllers are idle, the target is connected, but transaction %d has not finished its %v phase; state %s; history %s",
			i, t.Status.Phase, w.DescribeState(), w.Obs.HistoryString()))
	}

	// A transient device error must not fail a change for good.
	if err := checkTransient(w, x); err != nil {
		return r.finish(err)
	}

	// Consistency once more with nothing outstanding (quiesce already
	// established the fixed point: a full extra round wrote nothing)
	w.Obs.checkConsistency(w.Obs.snapshot(), true)
	return r.finish(nil)
}

// blockedBehindFailedChange is the trigger of F-v3-rollback-behind-failed-change:
// transaction i waits to commit its rollback, it IS the committed revision (so
// it is its turn), but Committed.Target names a later change whose commit Failed.
func blockedBehindFailedChange(w *World, cfg *configapi.Configuration, i int, t *configapi.Transaction) bool {
	if t.Status.Phase != configapi.TransactionStatus_ROLLBACK || status(t, Rollback, Commit) != Pending || cfg.Committed.Revision != configapi.Revision(i) {
		return false
	}
	k := int(cfg.Committed.Target)
	if k <= i || cfg.Committed.Index != cfg.Committed.Target {
		return false
	}
	u := w.Tx(k)
	return u != nil && status(u, Change, Commit) == Failed
}

// checkTransient: applyChange/applyRollback mean to retry Unavailable, Canceled
// and DeadlineExceeded (their own switch statement says so) and to record every
// other code as the failure of that change. A change recorded as Failed although
// the only thing the device ever answered to it was one transient error stays
// failed for ever and, by the blocking rule, stops the log until it is rolled back.
func checkTransient(w *World, x *vstat.Ctx) error {
	transient := 0
	for _, r := range w.Dev.Log() {
		if !r.Accepted && (r.Code == codes.Unavailable || r.Code == codes.Canceled || r.Code == codes.DeadlineExceeded) {
			transient++
		}
	}
	if transient == 0 {
		return nil
	}
	for i := 1; i <= w.NTx; i++ {
		t := w.Tx(i)
		if t == nil {
			continue
		}
		for _, p := range []*configapi.TransactionPhaseStatus{t.Status.Change.Apply, t.Status.Rollback.Apply} {
			if p != nil && p.State == configapi.TransactionPhaseStatus_FAILED && p.Failure != nil && strings.Contains(p.Failure.Description, "injected fault") {
				msg := fmt.Sprintf("transaction %d was recorded as FAILED (%v: %q) for a transient device error that the controller means to retry", i, p.Failure.Type, p.Failure.Description)
				if vstat.IsKnown(prop, fGrpcCode) {
					x.Known(fGrpcCode, msg)
					return nil
				}
				return vstat.Violf("%s; state %s", msg, w.DescribeState())
			}
		}
	}
	return nil
}

// TestC20_OrderAndConsistency: generated histories of AppendChange /
// RollbackChange requests, connection, target and process faults against the
// real v3 stores and controllers under drawn interleavings; after every store
// write the spec's history is extended and Order, Consistency, Transition and
// the blocking rule are evaluated; at quiescence every transaction must be
// terminal and one more reconcile of everything must write nothing.
const fRbRefusedCrash = "F-v3-crash-turns-refused-rollback-into-complete"

// refusedRollbackCrashShape: the device is asked to refuse one request with a HARD error (the generator
// injects transient codes only), the process is cut a number of effects later, and a rollback is requested
// after both - the shape of finding F-v3-crash-turns-refused-rollback-into-complete (directed seeds only).
func refusedRollbackCrashShape(c C20Case) bool {
	hard, cut := false, false
	for _, a := range c.Actions {
		switch a.Kind {
		case "fault":
			if a.Code != 14 && a.Code != 4 && a.Code != 1 {
				hard = true
			}
		case "crash-at":
			cut = cut || hard
		case "rollback":
			if hard && cut {
				return true
			}
		}
	}
	return false
}

func runC20WithDirected(c C20Case, x *vstat.Ctx) error {
	err := runC20(c, x)
	if err != nil && refusedRollbackCrashShape(c) && strings.HasPrefix(err.Error(), "Transition (AtomicStatusChange)") && vstat.IsKnown(prop, fRbRefusedCrash) {
		x.Known(fRbRefusedCrash, "the device refuses a rollback's own Set with a hard error, applyRollback writes the configuration (Applied.Ordinal := the rollback's) and the process ends before it writes Rollback.Apply = FAILED; after the restart the rollback is reported COMPLETE: "+firstLine(err.Error()))
		return nil
	}
	return err
}

func TestC20_OrderAndConsistency(t *testing.T) {
	vstat.Run(t, prop, genC20(switches()), runC20WithDirected)
}
