package v3sim

import (
	"fmt"
	"strings"

	configapi "github.com/onosproject/onos-api/go/onos/config/v3"
	"pgregory.net/rapid"

	"verif/harness/fakes"
	"verif/harness/model"
)

// PV is one path/value of a generated change (Val nil = delete the leaf).
type PV struct {
	Path string       `json:"path"`
	Val  *model.Value `json:"val,omitempty"`
}

// Action is one action of the environment (the spec's external actions plus faults).
type Action struct {
	// append | rollback | disconnect | connect | second-conn | drop-master | stop | start | crash | crash-at | fault
	Kind   string `json:"kind"`
	Values []PV   `json:"values,omitempty"` // append
	Pick   int    `json:"pick,omitempty"`   // rollback: which of the transactions whose guard holds (0 = latest)
	Code   int    `json:"code,omitempty"`   // fault: gRPC code of one transient device error
	After  int    `json:"after,omitempty"`  // crash-at: number of further effects (store writes, device Sets) before the crash
	Mid    bool   `json:"mid,omitempty"`    // crash-at: cut the store call between its two sub-writes
}

// C20Case is one generated history.
type C20Case struct {
	Preempt bool     `json:"preempt"` // every store/topology/southbound call is a yield point
	Online  bool     `json:"online"`  // target connected from the start
	Actions []Action `json:"actions"`
}

// Describe renders an action.
func (a Action) Describe() string {
	switch a.Kind {
	case "append":
		var p []string
		for _, v := range a.Values {
			if v.Val == nil {
				p = append(p, "delete "+v.Path)
			} else {
				p = append(p, v.Path+"="+v.Val.Short())
			}
		}
		return "AppendChange{" + strings.Join(p, "; ") + "}"
	case "rollback":
		return fmt.Sprintf("RollbackChange(pick %d)", a.Pick)
	case "crash-at":
		if a.Mid {
			return fmt.Sprintf("crash inside the store call that is effect +%d", a.After)
		}
		return fmt.Sprintf("crash before effect +%d", a.After)
	case "fault":
		return fmt.Sprintf("device answers code %d once", a.Code)
	}
	return a.Kind
}

// leaf pool: few paths so that transactions overlap; all are leaves of model M1.
type leafSpec struct {
	path string
	kind string // s | u16 | u32
}

var leafPool = []leafSpec{
	{"/a/b", "s"}, {"/a/bc", "s"}, {"/a/c/d", "s"}, {"/a/c/e", "u32"}, {"/mtu", "u16"}, {"/poison", "s"}, {"/a-b/z", "s"}, {"/l1[id=1]/v", "s"},
}

// refusal codes the fake device is asked to answer persistently for a value
// (pure predicate of the request): only codes the controller is meant to record
// as a failure. Unavailable / Canceled / DeadlineExceeded (retry for ever) and
// PermissionDenied (wait for a mastership change) would, by design, never terminate.
var refuseCodes = []int{2, 3, 5, 9, 13}

// Switches are the counted exclusions that keep the search going behind listed findings.
type Switches struct {
	FixNilCommitted   bool // F-v3-nil-committed-values: the decorator hands out an empty map for a nil Committed.Values
	DistinctPaths     bool // F-config-applied-aliases-committed: no path is written by two transactions
	OnePath           bool // F-v3-config-store-loopvar-alias: one path per transaction
	NoTransient       bool // F-v3-grpc-code-unwrapped: no transient Unavailable/Canceled/DeadlineExceeded from the device
	AbortOnConflict   bool // F-v3-conflict-swallowed: a reconcile ends at its first refused (conflicting) write
	RbSingleTrailing  bool // F-v3-stuck-after-rollback: one rollback request, of the latest change, nothing appended after it
	RbOverAppliedOnly bool // F-v3-rollback-marks-unapplied-revision: rollback only when every earlier change was applied
	RbNotAfterPartial bool // F-v3-rollback-after-partial-apply: no rollback of a change whose apply hand-shake was cut by a crash and not yet recovered
	RbNotBehindFailed bool // F-v3-rollback-behind-failed-change: no rollback of a change that has a failed or uncommitted change behind it
}

func genValue(rt *rapid.T, l leafSpec, allowRefuse bool) *model.Value {
	switch l.kind {
	case "u16", "u32":
		v := model.Uint(uint64(rapid.IntRange(0, 3).Draw(rt, "uint")))
		return &v
	}
	if l.path == "/poison" {
		// "bad" makes the fake plugin reject the whole configuration (pure predicate)
		v := model.Str(rapid.SampledFrom([]string{"bad", "bad", "ok"}).Draw(rt, "poison"))
		return &v
	}
	if allowRefuse && rapid.IntRange(0, 5).Draw(rt, "refuse") == 0 {
		v := model.Str(fmt.Sprintf("%s%d", fakes.RefusePrefix, rapid.SampledFrom(refuseCodes).Draw(rt, "code")))
		return &v
	}
	v := model.Str(rapid.SampledFrom([]string{"v1", "v2", "v3"}).Draw(rt, "str"))
	return &v
}

func genC20(sw Switches) func(rt *rapid.T) C20Case {
	return func(rt *rapid.T) C20Case {
		c := C20Case{
			Preempt: rapid.IntRange(0, 9).Draw(rt, "preempt") < 6,
			Online:  rapid.IntRange(0, 9).Draw(rt, "online") < 7,
		}
		nAppend := rapid.SampledFrom([]int{1, 2, 2, 2, 3, 3, 3, 4, 4, 4}).Draw(rt, "appends")
		nRollback := rapid.IntRange(0, 3).Draw(rt, "rollbacks")
		nEnv := rapid.IntRange(0, 4).Draw(rt, "envActions")
		if sw.RbSingleTrailing && nRollback > 1 {
			nRollback = 1
		}
		used := map[string]bool{}
		written := map[string]bool{}
		var acts []Action
		for i := 0; i < nAppend; i++ {
			n := 1
			if !sw.OnePath && rapid.IntRange(0, 2).Draw(rt, "twoPaths") == 0 {
				n = 2
			}
			a := Action{Kind: "append"}
			inThis := map[string]bool{}
			for k := 0; k < n; k++ {
				var cand []leafSpec
				for _, l := range leafPool {
					if inThis[l.path] || (sw.DistinctPaths && used[l.path]) {
						continue
					}
					cand = append(cand, l)
				}
				if len(cand) == 0 {
					break
				}
				l := rapid.SampledFrom(cand).Draw(rt, "leaf")
				inThis[l.path] = true
				used[l.path] = true
				if written[l.path] && l.path != "/poison" && rapid.IntRange(0, 4).Draw(rt, "delete") == 0 {
					a.Values = append(a.Values, PV{Path: l.path})
					continue
				}
				a.Values = append(a.Values, PV{Path: l.path, Val: genValue(rt, l, true)})
				written[l.path] = true
			}
			acts = append(acts, a)
		}
		// rollback requests and environment actions are inserted at drawn positions
		insert := func(a Action, min int) {
			pos := rapid.IntRange(min, len(acts)).Draw(rt, "pos")
			acts = append(acts[:pos:pos], append([]Action{a}, acts[pos:]...)...)
		}
		envKinds := []string{"disconnect", "connect", "second-conn", "drop-master", "stop", "start", "crash", "crash-at", "crash-at", "crash-at", "crash-at"}
		if !sw.NoTransient {
			envKinds = append(envKinds, "fault")
		}
		for i := 0; i < nEnv; i++ {
			a := Action{Kind: rapid.SampledFrom(envKinds).Draw(rt, "env")}
			switch a.Kind {
			case "crash-at":
				a.After = rapid.IntRange(0, 10).Draw(rt, "after")
				a.Mid = rapid.IntRange(0, 2).Draw(rt, "mid") == 0
			case "fault":
				a.Code = rapid.SampledFrom([]int{14, 14, 4, 1}).Draw(rt, "code")
			}
			insert(a, 0)
		}
		for i := 0; i < nRollback; i++ {
			a := Action{Kind: "rollback", Pick: rapid.SampledFrom([]int{0, 0, 0, 1, 2}).Draw(rt, "pick")}
			if sw.RbSingleTrailing {
				// after the last AppendChange
				last := 0
				for k, b := range acts {
					if b.Kind == "append" {
						last = k + 1
					}
				}
				a.Pick = 0
				insert(a, last)
				continue
			}
			insert(a, 1)
		}
		c.Actions = acts
		return c
	}
}

// pathValues renders the generated values as the v3 API's PathValue map. The
// harness plays the (missing) v3 northbound: like v2's transaction controller
// it stamps every value with the index of its transaction — the configuration
// store decides by that index whether an applied value has to be rewritten.
func pathValues(vals []PV, index int) map[string]configapi.PathValue {
	out := map[string]configapi.PathValue{}
	for _, v := range vals {
		pv := configapi.PathValue{Path: v.Path, Index: configapi.Index(index)}
		switch {
		case v.Val == nil:
			pv.Deleted = true
		case v.Val.T == "u":
			w := configapi.WidthThirtyTwo
			if v.Path == "/mtu" {
				w = configapi.WidthSixteen
			}
			pv.Value = *configapi.NewTypedValueUint(uint(v.Val.U), w)
		default:
			pv.Value = *configapi.NewTypedValueString(v.Val.S)
		}
		out[v.Path] = pv
	}
	return out
}

// DeviceFlat returns the device's leaves as path text -> value key.
func (w *World) DeviceFlat() map[string]string {
	out := map[string]string{}
	for k, v := range w.Dev.Leaves() {
		out[k] = model.FromGnmiValue(v).Key()
	}
	return out
}
