package v3sim

import (
	"context"

	topoapi "github.com/onosproject/onos-api/go/onos/topo"
	sb "github.com/onosproject/onos-config/pkg/southbound/gnmi"
	gpb "github.com/openconfig/gnmi/proto/gnmi"

	"verif/harness/fakes"
)

// topoView gates a reconciler's topology calls.
type topoView struct {
	t *fakes.Topo
	g *Gate
}

func (v *topoView) Create(ctx context.Context, o *topoapi.Object) error {
	if err := v.g.enter("topo.Create", true); err != nil {
		return err
	}
	return v.t.Create(ctx, o)
}
func (v *topoView) Update(ctx context.Context, o *topoapi.Object) error {
	if err := v.g.enter("topo.Update", true); err != nil {
		return err
	}
	return v.t.Update(ctx, o)
}
func (v *topoView) Get(ctx context.Context, id topoapi.ID) (*topoapi.Object, error) {
	if err := v.g.enter("topo.Get", false); err != nil {
		return nil, err
	}
	return v.t.Get(ctx, id)
}
func (v *topoView) List(ctx context.Context, f *topoapi.Filters) ([]topoapi.Object, error) {
	if err := v.g.enter("topo.List", false); err != nil {
		return nil, err
	}
	return v.t.List(ctx, f)
}
func (v *topoView) Delete(ctx context.Context, o *topoapi.Object) error {
	if err := v.g.enter("topo.Delete", true); err != nil {
		return err
	}
	return v.t.Delete(ctx, o)
}
func (v *topoView) Watch(ctx context.Context, ch chan<- topoapi.Event, f *topoapi.Filters) error {
	return v.t.Watch(ctx, ch, f)
}

// connsView gates a reconciler's southbound calls.
type connsView struct {
	m *fakes.Conns
	g *Gate
}

func (v *connsView) Get(ctx context.Context, id sb.ConnID) (sb.Conn, bool) {
	if err := v.g.enter("conns.Get", false); err != nil {
		return nil, false
	}
	c, ok := v.m.Get(ctx, id)
	if !ok {
		return nil, false
	}
	return &connView{Conn: c, g: v.g}, true
}
func (v *connsView) GetByTarget(ctx context.Context, id topoapi.ID) (sb.Client, error) {
	return v.m.GetByTarget(ctx, id)
}
func (v *connsView) Connect(ctx context.Context, target *topoapi.Object) error {
	if err := v.g.enter("conns.Connect", false); err != nil {
		return err
	}
	return v.m.Connect(ctx, target)
}
func (v *connsView) Disconnect(ctx context.Context, id topoapi.ID) error {
	if err := v.g.enter("conns.Disconnect", false); err != nil {
		return err
	}
	return v.m.Disconnect(ctx, id)
}
func (v *connsView) Watch(ctx context.Context, ch chan<- sb.Conn) error { return v.m.Watch(ctx, ch) }

type connView struct {
	sb.Conn
	g *Gate
}

func (c *connView) Set(ctx context.Context, r *gpb.SetRequest) (*gpb.SetResponse, error) {
	if err := c.g.enter("device.Set", true); err != nil {
		return nil, err
	}
	return c.Conn.Set(ctx, r)
}
func (c *connView) Get(ctx context.Context, r *gpb.GetRequest) (*gpb.GetResponse, error) {
	if err := c.g.enter("device.Get", false); err != nil {
		return nil, err
	}
	return c.Conn.Get(ctx, r)
}
func (c *connView) Capabilities(ctx context.Context, r *gpb.CapabilityRequest) (*gpb.CapabilityResponse, error) {
	if err := c.g.enter("device.Capabilities", false); err != nil {
		return nil, err
	}
	return c.Conn.Capabilities(ctx, r)
}
