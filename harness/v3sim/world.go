package v3sim

import (
	"context"
	"fmt"
	"os"
	"strings"
	"sync"
	"time"

	"github.com/atomix/go-sdk/pkg/test"
	adminapi "github.com/onosproject/onos-api/go/onos/config/admin"
	configapi "github.com/onosproject/onos-api/go/onos/config/v3"
	topoapi "github.com/onosproject/onos-api/go/onos/topo"
	ctlutils "github.com/onosproject/onos-config/pkg/controller/utils"
	cfgctl "github.com/onosproject/onos-config/pkg/controller/v3/configuration"
	mastctl "github.com/onosproject/onos-config/pkg/controller/v3/mastership"
	txctl "github.com/onosproject/onos-config/pkg/controller/v3/transaction"
	"github.com/onosproject/onos-config/pkg/pluginregistry"
	sb "github.com/onosproject/onos-config/pkg/southbound/gnmi"
	cfgstore "github.com/onosproject/onos-config/pkg/store/v3/configuration"
	txstore "github.com/onosproject/onos-config/pkg/store/v3/transaction"
	"github.com/onosproject/onos-lib-go/pkg/controller"
	"github.com/onosproject/onos-lib-go/pkg/errors"
	"github.com/onosproject/onos-lib-go/pkg/logging"

	"verif/harness/fakes"
	"verif/harness/model"
	"verif/harness/vstat"
)

func init() {
	logging.SetLevel(logging.FatalLevel)
	_ = os.Setenv("POD_ID", "onos-config-0")
}

// TargetName is the single target of a v3 world (the spec models one target).
const TargetName = "t1"

// Options configures a world.
type Options struct {
	Mode  Mode
	Drawn bool
	// FixNilCommitted: the configuration decorator hands out an empty map where
	// the store returns a nil Committed.Values (work-around for finding
	// F-v3-nil-committed-values; has exactly the effect of the proposed repair).
	FixNilCommitted bool
	// Online: the target is connected from the start.
	Online bool
}

// World is one assembled v3 system under test.
type World struct {
	X      *vstat.Ctx
	Opt    Options
	atomix *test.Client
	Topo   *fakes.Topo
	Conns  *fakes.Conns
	St     *Stores
	Plugin *fakes.Plugin
	Reg    pluginregistry.PluginRegistry
	S      *Sched
	Dev    *fakes.Device
	Obs    *Observer

	Target configapi.Target
	CfgID  configapi.ConfigurationID
	NodeID configapi.NodeID

	// what the harness (playing the environment of the spec) wants
	wantLink int  // number of connections wanted (0, 1 or 2)
	Running  bool // target.running of the spec
	// NTx is the number of transactions appended so far (= Len(transactions)).
	NTx int

	nbGate *Gate
	nbTx   *txView
	nbCfg  *cfgView

	mu     sync.Mutex
	closed bool
}

// NewWorld builds a world: REAL v3 transaction and configuration stores on a
// fresh in-memory Atomix client, REAL v3 transaction / configuration /
// mastership reconcilers and watchers under the harness scheduler, real plugin
// registry around the fake plugin, fake topology, fake connection manager with
// REAL southbound connections (bufconn) to the fake device.
func NewWorld(x *vstat.Ctx, opt Options) (*World, error) {
	w := &World{X: x, Opt: opt, Running: true}
	w.Target = configapi.Target{ID: TargetName, Type: model.M1Name, Version: model.M1Version}
	w.CfgID = configapi.ConfigurationID{Target: w.Target}
	w.NodeID = configapi.NodeID(ctlutils.GetOnosConfigID())
	w.atomix = test.NewClient()
	w.Topo = fakes.NewTopo()
	w.Conns = fakes.NewConns()
	w.St = &Stores{fixNilCommitted: opt.FixNilCommitted}
	var err error
	if w.St.Cfg, err = cfgstore.NewAtomixStore(w.atomix); err != nil {
		return nil, err
	}
	if w.St.Tx, err = txstore.NewAtomixStore(w.atomix); err != nil {
		return nil, err
	}
	w.Plugin = fakes.NewPlugin(model.M1Name, model.M1Version, model.M1)
	w.Reg = pluginregistry.NewPluginRegistry("fake-plugin:5152")
	w.Reg.NewClientFn(func(string) (adminapi.ModelPluginServiceClient, error) { return w.Plugin, nil })
	w.Reg.Start()

	ctx := context.Background()
	_ = w.Topo.Create(ctx, &topoapi.Object{ID: ctlutils.GetOnosConfigID(), Type: topoapi.Object_ENTITY,
		Obj: &topoapi.Object_Entity{Entity: &topoapi.Entity{KindID: topoapi.ONOS_CONFIG}}})
	o := &topoapi.Object{ID: topoapi.ID(TargetName), Type: topoapi.Object_ENTITY,
		Obj: &topoapi.Object_Entity{Entity: &topoapi.Entity{KindID: topoapi.ID(model.M1Name)}}}
	_ = o.SetAspect(&topoapi.Configurable{Type: model.M1Name, Version: model.M1Version, Target: TargetName, Address: "bufnet"})
	if err := w.Topo.Create(ctx, o); err != nil {
		return nil, err
	}
	w.Dev = fakes.NewDevice(TargetName)

	w.S = newSched(w, x)
	w.S.Mode = opt.Mode
	w.S.Drawn = opt.Drawn
	w.nbGate = &Gate{s: w.S, nb: true, name: "nb"}
	w.nbTx = &txView{st: w.St, g: w.nbGate}
	w.nbCfg = &cfgView{st: w.St, g: w.nbGate}

	w.Obs = newObserver(w)
	w.St.afterWrite = w.Obs.onWrite

	w.buildControllers()
	w.rebuildWatchers()
	if err := w.S.startWatchers(); err != nil {
		return nil, err
	}
	w.S.OnRestart = func() {
		w.Obs.noteCrash()
		n := w.wantLink
		w.wantLink = 0
		for i := 0; i < n; i++ {
			_ = w.LinkUp()
		}
	}

	// The spec's Init has the (single) configuration record in place; in v2 the
	// northbound Set handler creates it. v3 has no northbound, so the harness
	// creates the record the way a creator has to: Status.Mastership is a
	// pointer the mastership and configuration controllers dereference.
	cfg := &configapi.Configuration{ID: w.CfgID, Status: configapi.ConfigurationStatus{Mastership: &configapi.MastershipStatus{}}}
	if err := w.nbCfg.Create(ctx, cfg); err != nil {
		return nil, err
	}
	if opt.Online {
		if err := w.LinkUp(); err != nil {
			return nil, err
		}
	}
	return w, nil
}

var (
	aliasOnce    sync.Once
	aliasPresent bool
)

// AppliedAliasesCommitted reports (once per process, on a throw-away store)
// whether the v3 configuration store still keeps applied and committed values
// in one Atomix map (C15's finding F-config-applied-aliases-committed, which
// covers the v2 store as well and may stay listed for v2 after v3 is repaired):
// an applied value written through UpdateStatus shows up as a committed one.
func AppliedAliasesCommitted() bool {
	aliasOnce.Do(func() {
		client := test.NewClient()
		defer client.Close()
		st, err := cfgstore.NewAtomixStore(client)
		if err != nil {
			return
		}
		ctx := context.Background()
		id := configapi.ConfigurationID{Target: configapi.Target{ID: "alias-probe", Type: model.M1Name, Version: model.M1Version}}
		cfg := &configapi.Configuration{ID: id, Status: configapi.ConfigurationStatus{Mastership: &configapi.MastershipStatus{}}}
		if err := st.Create(ctx, cfg); err != nil {
			return
		}
		cfg.Applied.Values = map[string]configapi.PathValue{"/a/b": {Path: "/a/b", Value: *configapi.NewTypedValueString("x"), Index: 1}}
		if err := st.UpdateStatus(ctx, cfg); err != nil {
			return
		}
		got, err := st.Get(ctx, id)
		if err != nil {
			return
		}
		_, aliasPresent = got.Committed.Values["/a/b"]
		_ = st.Close(ctx)
	})
	return aliasPresent
}

func single(controller.ID) string { return "" }

func (w *World) buildControllers() {
	s := w.S
	s.addCtl("mastership", single, func(g *Gate) controller.Reconciler {
		return mastctl.NewReconcilerForVerif(&topoView{w.Topo, g}, &cfgView{w.St, g})
	})
	s.addCtl("configuration", single, func(g *Gate) controller.Reconciler {
		return cfgctl.NewReconcilerForVerif(&topoView{w.Topo, g}, &connsView{w.Conns, g}, &cfgView{w.St, g})
	})
	s.addCtl("transaction", single, func(g *Gate) controller.Reconciler {
		return txctl.NewReconcilerForVerif(w.NodeID, &txView{w.St, g}, &cfgView{w.St, g}, &connsView{w.Conns, g}, &topoView{w.Topo, g}, w.Reg)
	})
}

func (w *World) ctl(name string) *ctl {
	for _, c := range w.S.ctls {
		if c.name == name {
			return c
		}
	}
	return nil
}

// rebuildWatchers creates a fresh set of REAL watchers (after start and after every crash).
func (w *World) rebuildWatchers() {
	s := w.S
	s.watchers = nil
	tv := &topoView{w.Topo, nil}
	s.addWatcher(w.ctl("mastership"), "mastership/topo", mastctl.NewTopoWatcherForVerif(tv), 1)
	s.addWatcher(w.ctl("mastership"), "mastership/cfg", mastctl.NewConfigurationStoreWatcherForVerif(&cfgView{w.St, nil}), 1)
	s.addWatcher(w.ctl("configuration"), "configuration/cfg", cfgctl.NewWatcherForVerif(&cfgView{w.St, nil}), 1)
	s.addWatcher(w.ctl("configuration"), "configuration/topo", cfgctl.NewTopoWatcherForVerif(tv), 1)
	s.addWatcher(w.ctl("transaction"), "transaction/tx", txctl.NewWatcherForVerif(&txView{w.St, nil}), 1)
	// the transaction controller's configuration watcher maps one event to two IDs
	s.addWatcher(w.ctl("transaction"), "transaction/cfg", txctl.NewConfigurationWatcherForVerif(&cfgView{w.St, nil}), 2)
}

func (w *World) emitSentinels(gen int) {
	sid := fmt.Sprintf("%s%d", sentinelPrefix, gen)
	tgt := configapi.Target{ID: configapi.TargetID(sid), Type: "~s", Version: "0"}
	w.St.txHub.Emit(configapi.TransactionEvent{Transaction: configapi.Transaction{ID: configapi.TransactionID{Target: tgt, Index: 1}}})
	w.St.cfgHub.Emit(configapi.ConfigurationEvent{Configuration: configapi.Configuration{ID: configapi.ConfigurationID{Target: tgt},
		Committed: configapi.CommittedConfiguration{Target: 1}, Applied: configapi.AppliedConfiguration{Target: 2}}})
	ent := topoapi.Object{ID: topoapi.ID(sid), Type: topoapi.Object_ENTITY, Obj: &topoapi.Object_Entity{Entity: &topoapi.Entity{KindID: "~s"}}}
	_ = ent.SetAspect(&topoapi.Configurable{Type: "~s", Version: "0"})
	w.Topo.EmitRaw(topoapi.Event{Type: topoapi.EventType_NONE, Object: ent})
}

func (w *World) liveSubscriptions() int {
	return w.St.txHub.Len() + w.St.cfgHub.Len() + w.Topo.Watchers()
}

// dropVolatile drops what does not survive a process crash: connections (and
// with them the CONTROLS relations this node had created).
func (w *World) dropVolatile() {
	w.dropLinks()
}

func (w *World) deviceCalls() int { return w.Dev.LogLen() }

func (w *World) txID(i int) configapi.TransactionID {
	return configapi.TransactionID{Target: w.Target, Index: configapi.Index(i)}
}

func (w *World) allIDs() (map[string][]controller.ID, error) {
	out := map[string][]controller.ID{}
	for i := 1; i <= w.NTx; i++ {
		out["transaction"] = append(out["transaction"], controller.NewID(w.txID(i)))
	}
	out["configuration"] = []controller.ID{controller.NewID(w.CfgID)}
	out["mastership"] = []controller.ID{controller.NewID(w.CfgID)}
	return out, nil
}

// ---------------------------------------------------------------------------
// the environment's actions (Target.tla: Connect, Disconnect, Start, Stop)

// LinkUp is Target!Connect: a NEW connection (new id) from this node to the
// device, together with the CONTROLS relation the connection controller keeps
// for every live connection.
func (w *World) LinkUp() error {
	if !w.Running {
		return nil // Connect requires target.running
	}
	c, label, err := w.Conns.LinkUp(topoapi.ID(TargetName), w.Dev)
	if err != nil {
		return err
	}
	rel := &topoapi.Object{ID: topoapi.ID(c.ID()), Type: topoapi.Object_RELATION, Obj: &topoapi.Object_Relation{Relation: &topoapi.Relation{
		KindID: topoapi.CONTROLS, SrcEntityID: ctlutils.GetOnosConfigID(), TgtEntityID: topoapi.ID(TargetName)}}}
	if err := w.Topo.Create(context.Background(), rel); err != nil {
		return err
	}
	w.wantLink++
	w.X.Logf("  connect %s", label)
	return nil
}

func (w *World) dropConn(cid sb.ConnID) {
	label := w.Conns.Label(cid)
	w.Conns.LinkDown(cid)
	if rel, err := w.Topo.Get(context.Background(), topoapi.ID(cid)); err == nil {
		_ = w.Topo.Delete(context.Background(), rel)
	}
	w.X.Logf("  disconnect %s", label)
}

func (w *World) dropLinks() {
	for _, cid := range w.Conns.Live(topoapi.ID(TargetName)) {
		w.dropConn(cid)
	}
}

// LinkDown is Target!Disconnect for every connection.
func (w *World) LinkDown() {
	w.dropLinks()
	w.wantLink = 0
}

// DropMaster closes the connection that currently is the master (if it is
// live), leaving any other connection up: mastership has to move.
func (w *World) DropMaster() bool {
	c := w.Config()
	if c == nil || c.Status.Mastership == nil || c.Status.Mastership.Master == "" {
		return false
	}
	cid := sb.ConnID(c.Status.Mastership.Master)
	if _, ok := w.Conns.Get(context.Background(), cid); !ok {
		return false
	}
	w.dropConn(cid)
	if w.wantLink > 0 {
		w.wantLink--
	}
	return true
}

// StopTarget is Target!Stop: the device loses its configuration and every connection.
func (w *World) StopTarget() {
	if !w.Running {
		return
	}
	w.Running = false
	w.Dev.RestartEmpty()
	w.LinkDown()
	w.X.Logf("  target stopped (restarts empty)")
}

// StartTarget is Target!Start.
func (w *World) StartTarget() {
	if w.Running {
		return
	}
	w.Running = true
	w.X.Logf("  target started")
}

// Links returns the number of live connections.
func (w *World) Links() int { return len(w.Conns.Live(topoapi.ID(TargetName))) }

// ---------------------------------------------------------------------------
// the northbound's actions (Transaction.tla: AppendChange, RollbackChange)

// AppendChange is Transaction!AppendChange: a new log entry in phase Change
// with commit and apply Pending and no rollback status yet.
func (w *World) AppendChange(values map[string]configapi.PathValue) (int, error) {
	pending := configapi.TransactionPhaseStatus_PENDING
	t := &configapi.Transaction{
		ID:     configapi.TransactionID{Target: w.Target},
		Values: values,
		Status: configapi.TransactionStatus{
			Phase: configapi.TransactionStatus_CHANGE,
			Change: configapi.TransactionChangeStatus{
				Commit: &configapi.TransactionPhaseStatus{State: pending},
				Apply:  &configapi.TransactionPhaseStatus{State: pending},
			},
		},
	}
	if err := w.nbTx.Create(context.Background(), t); err != nil {
		return 0, err
	}
	w.NTx++
	if int(t.ID.Index) != w.NTx {
		return 0, fmt.Errorf("%w: appended transaction got index %d, expected %d", ErrInconclusive, t.ID.Index, w.NTx)
	}
	return w.NTx, nil
}

// RollbackGuard is the guard of Transaction!RollbackChange(i).
func RollbackGuard(t *configapi.Transaction) bool {
	return t != nil && t.Status.Phase == configapi.TransactionStatus_CHANGE &&
		t.Status.Change.Commit != nil && t.Status.Change.Commit.State == configapi.TransactionPhaseStatus_COMPLETE
}

// RollbackChange is Transaction!RollbackChange(i); it reports false (and does
// nothing) when the spec's guard does not hold.
func (w *World) RollbackChange(i int) (bool, error) {
	for attempt := 0; attempt < 3; attempt++ {
		t, err := w.St.Tx.Get(context.Background(), w.txID(i))
		if err != nil {
			if errors.IsNotFound(err) {
				return false, nil
			}
			return false, err
		}
		if !RollbackGuard(t) {
			return false, nil
		}
		pending := configapi.TransactionPhaseStatus_PENDING
		t.Status.Phase = configapi.TransactionStatus_ROLLBACK
		t.Status.Rollback.Commit = &configapi.TransactionPhaseStatus{State: pending}
		t.Status.Rollback.Apply = &configapi.TransactionPhaseStatus{State: pending}
		err = w.nbTx.UpdateStatus(context.Background(), t)
		if err == nil {
			return true, nil
		}
		if !errors.IsConflict(err) {
			return false, err
		}
	}
	return false, fmt.Errorf("%w: rollback request kept conflicting", ErrInconclusive)
}

// ---------------------------------------------------------------------------

// Config reads the configuration record straight from the real store (nil if none).
func (w *World) Config() *configapi.Configuration {
	c, err := w.St.Cfg.Get(context.Background(), w.CfgID)
	if err != nil {
		return nil
	}
	return c
}

// Tx reads a transaction straight from the real store (nil if none).
func (w *World) Tx(i int) *configapi.Transaction {
	t, err := w.St.Tx.Get(context.Background(), w.txID(i))
	if err != nil {
		return nil
	}
	return t
}

// Close tears the world down.
func (w *World) Close() {
	w.mu.Lock()
	if w.closed {
		w.mu.Unlock()
		return
	}
	w.closed = true
	w.mu.Unlock()
	w.S.stop()
	w.Conns.CloseAll()
	w.Dev.Stop()
	done := make(chan struct{})
	go func() {
		// the v3 transaction store's Close never returns once a log was opened
		// (WaitGroup.Add without Done), so it is not waited for
		go func() { _ = w.St.Tx.Close(context.Background()) }()
		_ = w.St.Cfg.Close(context.Background())
		w.atomix.Close()
		close(done)
	}()
	select {
	case <-done:
	case <-time.After(10 * time.Second):
	}
}

func phaseState(p *configapi.TransactionPhaseStatus) string {
	if p == nil {
		return "-"
	}
	s := p.State.String()
	if p.Failure != nil {
		s += ":" + p.Failure.Type.String()
	}
	return s
}

// DescribeState renders the persistent state compactly (for histories).
func (w *World) DescribeState() string {
	var b strings.Builder
	for i := 1; i <= w.NTx; i++ {
		t := w.Tx(i)
		if t == nil {
			fmt.Fprintf(&b, "[tx%d ?] ", i)
			continue
		}
		fmt.Fprintf(&b, "[tx%d %v chg(ord=%d %s/%s) rb(idx=%d ord=%d %s/%s)] ", i, t.Status.Phase, t.Status.Change.Ordinal,
			phaseState(t.Status.Change.Commit), phaseState(t.Status.Change.Apply), t.Status.Rollback.Index, t.Status.Rollback.Ordinal,
			phaseState(t.Status.Rollback.Commit), phaseState(t.Status.Rollback.Apply))
	}
	c := w.Config()
	if c == nil {
		b.WriteString("{no config}")
		return b.String()
	}
	m := c.Status.Mastership
	if m == nil {
		m = &configapi.MastershipStatus{}
	}
	fmt.Fprintf(&b, "{committed idx=%d chg=%d tgt=%d ord=%d rev=%d | applied idx=%d tgt=%d ord=%d rev=%d term=%d | %v mterm=%d master=%q links=%d}",
		c.Committed.Index, c.Committed.Change, c.Committed.Target, c.Committed.Ordinal, c.Committed.Revision,
		c.Applied.Index, c.Applied.Target, c.Applied.Ordinal, c.Applied.Revision, c.Applied.Term,
		c.Status.State, m.Term, w.Conns.Label(sb.ConnID(m.Master)), w.Links())
	return b.String()
}
