package v3sim

import (
	"strings"
	"testing"

	configapi "github.com/onosproject/onos-api/go/onos/config/v3"
	"google.golang.org/grpc/codes"
	"pgregory.net/rapid"

	"verif/harness/model"
	"verif/harness/vstat"
)

// The probes below are directed scenarios, one per listed finding of C20. The
// main generator excludes a listed finding's shape by construction (so that the
// search goes on behind it); the probe runs exactly that shape and records with
// x.Known that the tree still misbehaves. A probe does nothing when its finding
// is not listed: then the main generator produces the shape and any deviation
// is a violation there.

// ProbeCase is one attempt of a directed scenario.
type ProbeCase struct {
	Attempt int  `json:"attempt"`
	Preempt bool `json:"preempt,omitempty"`
}

func genProbe(rt *rapid.T) ProbeCase {
	return ProbeCase{Attempt: rapid.IntRange(0, 1<<20).Draw(rt, "attempt")}
}

func strVal(s string) *model.Value { v := model.Str(s); return &v }

// probeWorld builds a FIFO world (atomic reconciles, environment actions only
// when the controllers are idle) with the work-arounds of the OTHER listed
// findings switched on.
func probeWorld(x *vstat.Ctx, online bool, fixNil bool) (*World, error) {
	w, err := NewWorld(x, Options{Mode: Atomic, Drawn: false, FixNilCommitted: fixNil, Online: online})
	if err != nil {
		return nil, err
	}
	w.S.Budget = 3000
	return w, nil
}

// settle runs to quiescence and then, like a process restart would, reconciles
// every record until nothing moves any more (so that the scenario is not held
// up by the lost wake-ups, which have their own probe).
func settle(w *World) error {
	for round := 0; round < 40; round++ {
		if err := w.S.Run(); err != nil {
			return err
		}
		n, err := w.S.ReconcileAll()
		if err != nil {
			return err
		}
		if n == 0 {
			return nil
		}
	}
	return nil
}

// probeCap bounds the worlds a probe builds per process (every in-memory Atomix
// client pins memory for the life of the process), whatever -rapid.checks says.
const probeCap = 12

func runProbe(t *testing.T, id string, listed func() bool, scenario func(c ProbeCase, x *vstat.Ctx) error) {
	runs := 0
	vstat.Run(t, prop, genProbe, func(c ProbeCase, x *vstat.Ctx) error {
		if !listed() {
			return vstat.ErrSkip
		}
		if runs >= probeCap {
			return vstat.ErrSkip
		}
		runs++
		x.Class("probe:" + id)
		return scenario(c, x)
	})
}

// TestC20P_NilCommittedValues: F-v3-nil-committed-values. The first commit of
// the first transaction of a target writes into the nil Committed.Values map
// of the freshly created configuration.
func TestC20P_NilCommittedValues(t *testing.T) {
	runProbe(t, fNilMap, func() bool { return vstat.IsKnown(prop, fNilMap) }, func(c ProbeCase, x *vstat.Ctx) error {
		w, err := probeWorld(x, true, false)
		if err != nil {
			return err
		}
		defer w.Close()
		if err := w.S.Run(); err != nil {
			return err
		}
		if _, err := w.AppendChange(pathValues([]PV{{Path: "/a/b", Val: strVal("v1")}}, 1)); err != nil {
			return err
		}
		err = w.S.Run()
		if len(w.S.Panics) > 0 && strings.Contains(w.S.Panics[0], "assignment to entry in nil map") {
			x.Known(fNilMap, "the first commit of a target's first transaction panics in commitChange: assignment to entry in nil map (Committed.Values of a fresh configuration)")
			return nil
		}
		if err != nil {
			return err
		}
		x.Class("probe:conforming")
		return nil
	})
}

// TestC20P_ConflictSwallowed: F-v3-conflict-swallowed. Under a drawn
// pre-emptive schedule the configuration record is written by the mastership
// and configuration controllers while the transaction controller is between its
// read and its write; the refused write is swallowed and the reconcile carries
// on with the transaction status as if the configuration had moved.
func TestC20P_ConflictSwallowed(t *testing.T) {
	runProbe(t, fConflict, func() bool { return vstat.IsKnown(prop, fConflict) }, func(c ProbeCase, x *vstat.Ctx) error {
		sw := switches()
		w, err := NewWorld(x, Options{Mode: Preempt, Drawn: true, FixNilCommitted: sw.FixNilCommitted, Online: true})
		if err != nil {
			return err
		}
		defer w.Close()
		w.S.Budget = 3000
		w.S.AbortOnConflict = false
		w.S.Externals = []External{
			{Name: "AppendChange{/a/b=v1}", Fn: func() error {
				_, err := w.AppendChange(pathValues([]PV{{Path: "/a/b", Val: strVal("v1")}}, 1))
				return err
			}},
			{Name: "disconnect", Fn: func() error { w.LinkDown(); return nil }},
			{Name: "connect", Fn: func() error { return w.LinkUp() }},
			{Name: "AppendChange{/a/c/d=v2}", Fn: func() error {
				_, err := w.AppendChange(pathValues([]PV{{Path: "/a/c/d", Val: strVal("v2")}}, w.NTx+1))
				return err
			}},
		}
		if err := settle(w); err != nil && w.Obs.Viol == nil && len(w.S.Panics) == 0 {
			return err
		}
		stuck := false
		for i := 1; i <= w.NTx; i++ {
			if tx := w.Tx(i); tx != nil && !txTerminal(tx) {
				stuck = true
			}
		}
		switch {
		case w.S.ConflictCarriedOn > 0 && (w.Obs.Viol != nil || stuck):
			what := "a reconcile whose configuration write is refused for a version conflict carries on and writes the transaction status as if the configuration had moved"
			if w.Obs.Viol != nil {
				what += ": " + firstLine(w.Obs.Viol.Error())
			}
			x.Known(fConflict, what)
		case w.S.ConflictCarriedOn > 0:
			x.Class("probe:carried-on-without-visible-damage")
		default:
			x.Class("probe:no-conflict-in-this-schedule")
		}
		return nil
	})
}

// TestC20P_LostWakeup: F-v3-lost-wakeup. A valid change appended behind an
// invalid one is never reconciled again after the invalid one failed.
func TestC20P_LostWakeup(t *testing.T) {
	runProbe(t, fWakeup, func() bool { return vstat.IsKnown(prop, fWakeup) }, func(c ProbeCase, x *vstat.Ctx) error {
		w, err := probeWorld(x, true, switches().FixNilCommitted)
		if err != nil {
			return err
		}
		defer w.Close()
		if err := w.S.Run(); err != nil {
			return err
		}
		// both are appended before the controllers run: tx2 is looked at once, while tx1 is still being committed
		if _, err := w.AppendChange(pathValues([]PV{{Path: "/poison", Val: strVal("bad")}}, 1)); err != nil {
			return err
		}
		if _, err := w.AppendChange(pathValues([]PV{{Path: "/a/b", Val: strVal("v1")}}, 2)); err != nil {
			return err
		}
		if err := w.S.Run(); err != nil {
			return err
		}
		t1, t2 := w.Tx(1), w.Tx(2)
		if t1 == nil || t2 == nil {
			return nil
		}
		idle := w.DescribeState()
		n, err := w.S.ReconcileAll()
		if err != nil {
			return err
		}
		if status(t1, Change, Commit) == Failed && status(t2, Change, Commit) == Pending && n > 0 {
			x.Known(fWakeup, "the controllers go idle with change 2 still Pending behind the invalid change 1; reconciling it once more commits it: "+idle)
			return nil
		}
		x.Class("probe:conforming")
		return nil
	})
}

// TestC20P_TransientUnavailable: F-v3-grpc-code-unwrapped. One Unavailable
// answer of the device fails the change for good.
func TestC20P_TransientUnavailable(t *testing.T) {
	runProbe(t, fGrpcCode, func() bool { return vstat.IsKnown(prop, fGrpcCode) }, func(c ProbeCase, x *vstat.Ctx) error {
		w, err := probeWorld(x, true, switches().FixNilCommitted)
		if err != nil {
			return err
		}
		defer w.Close()
		if err := w.S.Run(); err != nil {
			return err
		}
		w.Dev.InjectFaults(codes.Unavailable)
		if _, err := w.AppendChange(pathValues([]PV{{Path: "/a/b", Val: strVal("v1")}}, 1)); err != nil {
			return err
		}
		if err := settle(w); err != nil {
			return err
		}
		t1 := w.Tx(1)
		if t1 != nil && status(t1, Change, Apply) == Failed && t1.Status.Change.Apply.Failure != nil {
			x.Known(fGrpcCode, "one Unavailable answer of the device is recorded as Change.Apply = FAILED ("+t1.Status.Change.Apply.Failure.Type.String()+") instead of being retried: status.Code() is applied to an error errors.FromGRPC has already converted")
			return nil
		}
		x.Class("probe:conforming")
		return nil
	})
}

// TestC20P_StuckAfterRollback: F-v3-stuck-after-rollback. After a completed
// rollback Committed.Index != Committed.Target for ever and no later change
// can be committed.
func TestC20P_StuckAfterRollback(t *testing.T) {
	runProbe(t, fRbStuck, func() bool { return vstat.IsKnown(prop, fRbStuck) }, func(c ProbeCase, x *vstat.Ctx) error {
		w, err := probeWorld(x, true, switches().FixNilCommitted)
		if err != nil {
			return err
		}
		defer w.Close()
		if _, err := w.AppendChange(pathValues([]PV{{Path: "/a/b", Val: strVal("v1")}}, 1)); err != nil {
			return err
		}
		if err := settle(w); err != nil {
			return err
		}
		if ok, err := w.RollbackChange(1); err != nil || !ok {
			return err
		}
		if err := settle(w); err != nil {
			return err
		}
		if _, err := w.AppendChange(pathValues([]PV{{Path: "/a/c/d", Val: strVal("v2")}}, 2)); err != nil {
			return err
		}
		if err := settle(w); err != nil {
			return err
		}
		if w.Obs.Viol != nil {
			return w.Obs.Viol
		}
		t1, t2, cfg := w.Tx(1), w.Tx(2), w.Config()
		if t1 != nil && t2 != nil && cfg != nil && isRolledBack(t1) && status(t2, Change, Commit) == Pending && cfg.Committed.Index != cfg.Committed.Target {
			x.Known(fRbStuck, "change 1 was rolled back completely; change 2, appended afterwards, stays commit=Pending for ever: commitChange returns while Committed.Index != Committed.Target, which a rollback leaves so: "+w.DescribeState())
			return nil
		}
		x.Class("probe:conforming")
		return nil
	})
}

// TestC20P_RollbackMarksUnappliedRevision: F-v3-rollback-marks-unapplied-revision.
// Change 1 is refused by the device, change 2 (another path) is aborted behind
// it; rolling back change 2 sets Applied.Revision = 1 although change 1 never
// reached the applied configuration or the device.
func TestC20P_RollbackMarksUnappliedRevision(t *testing.T) {
	runProbe(t, fRbRevision, func() bool { return vstat.IsKnown(prop, fRbRevision) }, func(c ProbeCase, x *vstat.Ctx) error {
		w, err := probeWorld(x, true, switches().FixNilCommitted)
		if err != nil {
			return err
		}
		defer w.Close()
		if _, err := w.AppendChange(pathValues([]PV{{Path: "/a/b", Val: strVal("REFUSE:3")}}, 1)); err != nil {
			return err
		}
		if _, err := w.AppendChange(pathValues([]PV{{Path: "/a/c/d", Val: strVal("v2")}}, 2)); err != nil {
			return err
		}
		if err := settle(w); err != nil {
			return err
		}
		if w.Obs.Viol != nil {
			return w.Obs.Viol
		}
		if ok, err := w.RollbackChange(2); err != nil || !ok {
			return err
		}
		err = settle(w)
		if v := w.Obs.Viol; v != nil && strings.Contains(v.Error(), "Consistency violated: configuration.applied.revision = 1") {
			x.Known(fRbRevision, "change 1 was refused by the device, change 2 aborted; the rollback of change 2 sets Applied.Revision = Rollback.Index = 1: "+firstLine(v.Error()))
			return nil
		}
		if err != nil {
			return err
		}
		if w.Obs.Viol != nil {
			return w.Obs.Viol
		}
		x.Class("probe:conforming")
		return nil
	})
}

// TestC20P_RollbackBehindFailedChange: F-v3-rollback-behind-failed-change. The
// rollback of change 1 never starts once a later change has failed validation.
func TestC20P_RollbackBehindFailedChange(t *testing.T) {
	runProbe(t, fRbFailed, func() bool { return vstat.IsKnown(prop, fRbFailed) }, func(c ProbeCase, x *vstat.Ctx) error {
		w, err := probeWorld(x, true, switches().FixNilCommitted)
		if err != nil {
			return err
		}
		defer w.Close()
		if _, err := w.AppendChange(pathValues([]PV{{Path: "/a/b", Val: strVal("v1")}}, 1)); err != nil {
			return err
		}
		if err := settle(w); err != nil {
			return err
		}
		if _, err := w.AppendChange(pathValues([]PV{{Path: "/poison", Val: strVal("bad")}}, 2)); err != nil {
			return err
		}
		if err := settle(w); err != nil {
			return err
		}
		if ok, err := w.RollbackChange(1); err != nil || !ok {
			return err
		}
		if err := settle(w); err != nil {
			return err
		}
		if w.Obs.Viol != nil {
			return w.Obs.Viol
		}
		t1, cfg := w.Tx(1), w.Config()
		if t1 != nil && cfg != nil && blockedBehindFailedChange(w, cfg, 1, t1) {
			x.Known(fRbFailed, "change 2 failed validation (Committed.Target = Committed.Index = 2, revision 1); the rollback of change 1 stays commit=Pending for ever because commitRollback only starts when Committed.Target is its own index: "+w.DescribeState())
			return nil
		}
		x.Class("probe:conforming")
		return nil
	})
}

// TestC20P_RollbackAfterPartialApply: F-v3-rollback-after-partial-apply. The
// process crashes between "Applied.Target := 1" and "Change.Apply :=
// IN_PROGRESS" and the change is rolled back before it is reconciled again:
// applyRollback has no branch for Change.Apply = PENDING with Applied.Target
// already naming the change.
func TestC20P_RollbackAfterPartialApply(t *testing.T) {
	runProbe(t, fRbPartial, func() bool { return vstat.IsKnown(prop, fRbPartial) }, func(c ProbeCase, x *vstat.Ctx) error {
		sw := switches()
		w, err := NewWorld(x, Options{Mode: Preempt, Drawn: false, FixNilCommitted: sw.FixNilCommitted, Online: true})
		if err != nil {
			return err
		}
		defer w.Close()
		w.S.Budget = 3000
		w.S.AbortOnConflict = sw.AbortOnConflict
		if err := w.S.Run(); err != nil {
			return err
		}
		done := false
		var rbErr error
		w.S.Monitor = func(StepInfo) error {
			if done {
				return nil
			}
			t1, cfg := w.Tx(1), w.Config()
			if t1 != nil && cfg != nil && cfg.Applied.Target == 1 && status(t1, Change, Apply) == Pending && status(t1, Change, Commit) == Complete {
				// the configuration write of ApplyChange/Pending has happened, the
				// status write has not: roll back and crash right here
				done = true
				_, rbErr = w.RollbackChange(1)
				w.S.Crash()
			}
			return nil
		}
		if _, err := w.AppendChange(pathValues([]PV{{Path: "/a/b", Val: strVal("v1")}}, 1)); err != nil {
			return err
		}
		if err := settle(w); err != nil {
			return err
		}
		if rbErr != nil {
			return rbErr
		}
		if w.Obs.Viol != nil {
			return w.Obs.Viol
		}
		t1, cfg := w.Tx(1), w.Config()
		if done && t1 != nil && cfg != nil && t1.Status.Phase == configapi.TransactionStatus_ROLLBACK && status(t1, Change, Apply) == Pending &&
			cfg.Applied.Target == 1 && status(t1, Rollback, Commit) == Complete && status(t1, Rollback, Apply) == Pending {
			x.Known(fRbPartial, "crash between Applied.Target := 1 and Change.Apply := IN_PROGRESS, then RollbackChange(1): the rollback is committed but never applied and the change's apply stays PENDING for ever: "+w.DescribeState())
			return nil
		}
		if !done {
			x.Class("probe:partial-state-not-reached")
			return nil
		}
		x.Class("probe:conforming")
		return nil
	})
}

// TestC20P_AppliedAliasesCommitted shows what C15's finding
// F-config-applied-aliases-committed (one Atomix map for committed and applied
// values) does to Consistency: change 2 rewrites a path while the target is
// away; the store then reports the applied value of change 1 as the committed one.
func TestC20P_AppliedAliasesCommitted(t *testing.T) {
	runProbe(t, fAlias, func() bool { return vstat.IsListed(fAlias) && AppliedAliasesCommitted() }, func(c ProbeCase, x *vstat.Ctx) error {
		w, err := probeWorld(x, true, switches().FixNilCommitted)
		if err != nil {
			return err
		}
		defer w.Close()
		if _, err := w.AppendChange(pathValues([]PV{{Path: "/a/b", Val: strVal("v1")}}, 1)); err != nil {
			return err
		}
		if err := settle(w); err != nil {
			return err
		}
		w.LinkDown()
		if _, err := w.AppendChange(pathValues([]PV{{Path: "/a/b", Val: strVal("v2")}}, 2)); err != nil {
			return err
		}
		err = settle(w)
		if v := w.Obs.Viol; v != nil && strings.Contains(v.Error(), "Consistency violated: configuration.committed.revision = 2") {
			x.Known(fAlias, "with one map for committed and applied values the committed configuration shows the applied value: "+firstLine(v.Error()))
			return nil
		}
		if err != nil {
			return err
		}
		if w.Obs.Viol != nil {
			return w.Obs.Viol
		}
		x.Class("probe:conforming")
		return nil
	})
}
