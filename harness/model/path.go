// Package model is the reference model the sim checks compare onos-config
// against. It is written from the gNMI specification and the property
// statements, not from the code under test: a configuration is a set of leaves
// keyed by a PARSED path, so "beneath" is an element-boundary relation by
// construction.
package model

import (
	"sort"
	"strings"

	gpb "github.com/openconfig/gnmi/proto/gnmi"
)

// Elem is one path element.
type Elem struct {
	Name string            `json:"n"`
	Keys map[string]string `json:"k,omitempty"`
}

// Path is a parsed gNMI path.
type Path []Elem

// String renders the path canonically (keys sorted by name). Names and key
// values of the model's alphabet need no escaping.
func (p Path) String() string {
	if len(p) == 0 {
		return "/"
	}
	var b strings.Builder
	for _, e := range p {
		b.WriteByte('/')
		b.WriteString(e.Name)
		ks := make([]string, 0, len(e.Keys))
		for k := range e.Keys {
			ks = append(ks, k)
		}
		sort.Strings(ks)
		for _, k := range ks {
			b.WriteString("[" + k + "=" + e.Keys[k] + "]")
		}
	}
	return b.String()
}

// Clone copies a path.
func (p Path) Clone() Path {
	q := make(Path, len(p))
	for i, e := range p {
		q[i] = Elem{Name: e.Name}
		if e.Keys != nil {
			q[i].Keys = make(map[string]string, len(e.Keys))
			for k, v := range e.Keys {
				q[i].Keys[k] = v
			}
		}
	}
	return q
}

// Gnmi converts to a gNMI path (no target).
func (p Path) Gnmi() *gpb.Path {
	out := &gpb.Path{}
	for _, e := range p {
		pe := &gpb.PathElem{Name: e.Name}
		if len(e.Keys) > 0 {
			pe.Key = make(map[string]string, len(e.Keys))
			for k, v := range e.Keys {
				pe.Key[k] = v
			}
		}
		out.Elem = append(out.Elem, pe)
	}
	return out
}

// FromGnmi converts gNMI elements to a Path.
func FromGnmi(elems []*gpb.PathElem) Path {
	p := make(Path, 0, len(elems))
	for _, e := range elems {
		x := Elem{Name: e.Name}
		if len(e.Key) > 0 {
			x.Keys = make(map[string]string, len(e.Key))
			for k, v := range e.Key {
				x.Keys[k] = v
			}
		}
		p = append(p, x)
	}
	return p
}

// Parse parses canonical text produced by String (model alphabet: no escapes,
// no '/' or ']' inside key values). It is the harness's own parser.
func Parse(s string) Path {
	var p Path
	s = strings.TrimPrefix(s, "/")
	if s == "" {
		return p
	}
	depth := 0
	start := 0
	var toks []string
	for i := 0; i < len(s); i++ {
		switch s[i] {
		case '[':
			depth++
		case ']':
			if depth > 0 {
				depth--
			}
		case '/':
			if depth == 0 {
				toks = append(toks, s[start:i])
				start = i + 1
			}
		}
	}
	toks = append(toks, s[start:])
	for _, t := range toks {
		e := Elem{}
		if i := strings.IndexByte(t, '['); i >= 0 {
			e.Name = t[:i]
			rest := t[i:]
			for len(rest) > 0 && rest[0] == '[' {
				j := strings.IndexByte(rest, ']')
				if j < 0 {
					break
				}
				kv := rest[1:j]
				if eq := strings.IndexByte(kv, '='); eq >= 0 {
					if e.Keys == nil {
						e.Keys = map[string]string{}
					}
					e.Keys[kv[:eq]] = kv[eq+1:]
				}
				rest = rest[j+1:]
			}
		} else {
			e.Name = t
		}
		p = append(p, e)
	}
	return p
}

// Covers reports whether node path d addresses leaf path l at element
// boundaries: d is an element-wise prefix of l; an element of d without keys
// addresses every entry of a list; keys that are given must be equal.
func Covers(d, l Path) bool {
	if len(d) > len(l) {
		return false
	}
	for i, e := range d {
		if e.Name != l[i].Name {
			return false
		}
		for k, v := range e.Keys {
			if lv, ok := l[i].Keys[k]; !ok || lv != v {
				return false
			}
		}
	}
	return true
}

// Matches reports whether query q (which may contain "*" as an element name,
// "*" as a key value and "..." as a multi-level wildcard) selects leaf l, as a
// prefix at element boundaries (a Get on a node returns its subtree).
func Matches(q, l Path) bool {
	return matchFrom(q, l)
}

func matchFrom(q, l Path) bool {
	if len(q) == 0 {
		return true
	}
	if q[0].Name == "..." {
		// "..." stands for one or more intermediate elements (the zero-element
		// reading is ambiguous in the gNMI conventions and is not generated)
		for skip := 1; skip <= len(l); skip++ {
			if matchFrom(q[1:], l[skip:]) {
				return true
			}
		}
		return false
	}
	if len(l) == 0 {
		return false
	}
	if q[0].Name != "*" && q[0].Name != l[0].Name {
		return false
	}
	for k, v := range q[0].Keys {
		lv, ok := l[0].Keys[k]
		if !ok || (v != "*" && lv != v) {
			return false
		}
	}
	return matchFrom(q[1:], l[1:])
}

// Equal reports element-wise equality.
func (p Path) Equal(o Path) bool { return p.String() == o.String() }

// Join concatenates prefix and path.
func Join(prefix, p Path) Path {
	out := make(Path, 0, len(prefix)+len(p))
	out = append(out, prefix.Clone()...)
	out = append(out, p.Clone()...)
	return out
}
