package model

import (
	"encoding/base64"
	"fmt"
	"math"
	"sort"
	"strings"

	gpb "github.com/openconfig/gnmi/proto/gnmi"
)

// Value is a JSON-serialisable scalar or leaf-list value.
type Value struct {
	T string  `json:"t"` // s i u b x d f | ls li lu lb
	S string  `json:"s,omitempty"`
	I int64   `json:"i,omitempty"`
	U uint64  `json:"u,omitempty"`
	B bool    `json:"b,omitempty"`
	X []byte  `json:"x,omitempty"`
	P uint32  `json:"p,omitempty"` // decimal precision (digits in I)
	F float32 `json:"f,omitempty"`
	L []Value `json:"l,omitempty"`
}

// Str makes a string value.
func Str(s string) Value { return Value{T: "s", S: s} }

// Uint makes an unsigned value.
func Uint(u uint64) Value { return Value{T: "u", U: u} }

// Int makes a signed value.
func Int(i int64) Value { return Value{T: "i", I: i} }

// Bool makes a boolean value.
func Bool(b bool) Value { return Value{T: "b", B: b} }

// Gnmi converts to a gNMI TypedValue.
func (v Value) Gnmi() *gpb.TypedValue {
	switch v.T {
	case "s":
		return &gpb.TypedValue{Value: &gpb.TypedValue_StringVal{StringVal: v.S}}
	case "i":
		return &gpb.TypedValue{Value: &gpb.TypedValue_IntVal{IntVal: v.I}}
	case "u":
		return &gpb.TypedValue{Value: &gpb.TypedValue_UintVal{UintVal: v.U}}
	case "b":
		return &gpb.TypedValue{Value: &gpb.TypedValue_BoolVal{BoolVal: v.B}}
	case "x":
		return &gpb.TypedValue{Value: &gpb.TypedValue_BytesVal{BytesVal: append([]byte{}, v.X...)}}
	case "d":
		return &gpb.TypedValue{Value: &gpb.TypedValue_DecimalVal{DecimalVal: &gpb.Decimal64{Digits: v.I, Precision: v.P}}}
	case "f":
		return &gpb.TypedValue{Value: &gpb.TypedValue_FloatVal{FloatVal: v.F}}
	case "lfinf":
		// a float leaf-list [1.5, +Inf]: the handlers store it, no JSON document can hold it (a kind of its own:
		// a case must stay JSON-encodable)
		return &gpb.TypedValue{Value: &gpb.TypedValue_LeaflistVal{LeaflistVal: &gpb.ScalarArray{Element: []*gpb.TypedValue{
			{Value: &gpb.TypedValue_FloatVal{FloatVal: 1.5}}, {Value: &gpb.TypedValue_FloatVal{FloatVal: float32(math.Inf(1))}}}}}}
	case "json":
		return &gpb.TypedValue{Value: &gpb.TypedValue_JsonVal{JsonVal: []byte(v.S)}}
	case "ls", "li", "lu", "lb":
		arr := &gpb.ScalarArray{}
		for _, e := range v.L {
			arr.Element = append(arr.Element, e.Gnmi())
		}
		return &gpb.TypedValue{Value: &gpb.TypedValue_LeaflistVal{LeaflistVal: arr}}
	}
	return nil
}

// FromGnmiValue converts a gNMI value into a model value.
func FromGnmiValue(tv *gpb.TypedValue) Value {
	if tv == nil {
		return Value{T: "nil"}
	}
	switch x := tv.Value.(type) {
	case *gpb.TypedValue_StringVal:
		return Value{T: "s", S: x.StringVal}
	case *gpb.TypedValue_AsciiVal:
		return Value{T: "s", S: x.AsciiVal}
	case *gpb.TypedValue_IntVal:
		return Value{T: "i", I: x.IntVal}
	case *gpb.TypedValue_UintVal:
		return Value{T: "u", U: x.UintVal}
	case *gpb.TypedValue_BoolVal:
		return Value{T: "b", B: x.BoolVal}
	case *gpb.TypedValue_BytesVal:
		return Value{T: "x", X: x.BytesVal}
	case *gpb.TypedValue_DecimalVal:
		return Value{T: "d", I: x.DecimalVal.GetDigits(), P: x.DecimalVal.GetPrecision()}
	case *gpb.TypedValue_FloatVal:
		return Value{T: "f", F: x.FloatVal}
	case *gpb.TypedValue_LeaflistVal:
		out := Value{T: "l?"}
		for _, e := range x.LeaflistVal.GetElement() {
			ev := FromGnmiValue(e)
			out.L = append(out.L, ev)
			out.T = "l" + ev.T
		}
		return out
	}
	return Value{T: "other", S: tv.String()}
}

// Key renders the value canonically for comparison.
func (v Value) Key() string {
	switch v.T {
	case "s":
		return "s:" + v.S
	case "i":
		return fmt.Sprintf("i:%d", v.I)
	case "u":
		return fmt.Sprintf("u:%d", v.U)
	case "b":
		return fmt.Sprintf("b:%v", v.B)
	case "x":
		return "x:" + base64.StdEncoding.EncodeToString(v.X)
	case "d":
		return fmt.Sprintf("d:%d/%d", v.I, v.P)
	case "f":
		return fmt.Sprintf("f:%v", v.F)
	}
	if strings.HasPrefix(v.T, "l") {
		parts := make([]string, len(v.L))
		for i, e := range v.L {
			parts[i] = e.Key()
		}
		return v.T + ":[" + strings.Join(parts, ",") + "]"
	}
	return v.T + ":" + v.S
}

// Short renders a value for histories.
func (v Value) Short() string {
	k := v.Key()
	if len(k) > 48 {
		return fmt.Sprintf("%s...(%d bytes)", k[:24], len(k))
	}
	return k
}

// Leaf is one configuration leaf.
type Leaf struct {
	Path  Path
	Value Value
}

// Config is a configuration: canonical path text -> leaf.
type Config map[string]Leaf

// Clone copies the configuration.
func (c Config) Clone() Config {
	out := make(Config, len(c))
	for k, v := range c {
		out[k] = v
	}
	return out
}

// Op is one operation of a Set request, already resolved to a target and an
// absolute path.
type Op struct {
	Kind   string `json:"kind"` // update | replace | delete
	Target string `json:"target"`
	Path   Path   `json:"path"`
	Val    *Value `json:"val,omitempty"`
}

// Describe renders an op.
func (o Op) Describe() string {
	if o.Kind == "delete" {
		return fmt.Sprintf("delete %s:%s", o.Target, o.Path)
	}
	return fmt.Sprintf("%s %s:%s=%s", o.Kind, o.Target, o.Path, o.Val.Short())
}

// Apply applies the operations addressed to one target with gNMI semantics:
// deletes first, then replaces, then updates. schema (may be nil) is used for
// the one documented special case: deleting a list KEY leaf removes the entry.
func (c Config) Apply(ops []Op, schema []LeafDef) {
	for _, o := range ops {
		if o.Kind != "delete" {
			continue
		}
		d := o.Path
		if schema != nil {
			if ld, ok := Lookup(schema, d); ok && ld.IsKey && len(d) > 1 {
				d = d[:len(d)-1]
			}
		}
		for k, l := range c {
			if Covers(d, l.Path) {
				delete(c, k)
			}
		}
	}
	for _, kind := range []string{"replace", "update"} {
		for _, o := range ops {
			if o.Kind == kind && o.Val != nil {
				c[o.Path.String()] = Leaf{Path: o.Path.Clone(), Value: *o.Val}
			}
		}
	}
}

// Select returns the leaves a query selects, sorted by path text.
func (c Config) Select(q Path) []Leaf {
	var out []Leaf
	for _, l := range c {
		if Matches(q, l.Path) {
			out = append(out, l)
		}
	}
	sort.Slice(out, func(i, j int) bool { return out[i].Path.String() < out[j].Path.String() })
	return out
}

// Flat renders the configuration as path text -> value key.
func (c Config) Flat() map[string]string {
	out := make(map[string]string, len(c))
	for k, l := range c {
		out[k] = l.Value.Key()
	}
	return out
}

// DiffFlat describes the difference between two flat maps ("" when equal).
func DiffFlat(got, want map[string]string) string {
	var msgs []string
	keys := map[string]bool{}
	for k := range got {
		keys[k] = true
	}
	for k := range want {
		keys[k] = true
	}
	ks := make([]string, 0, len(keys))
	for k := range keys {
		ks = append(ks, k)
	}
	sort.Strings(ks)
	for _, k := range ks {
		g, gok := got[k]
		w, wok := want[k]
		switch {
		case gok && !wok:
			msgs = append(msgs, fmt.Sprintf("unexpected %s=%s", k, short(g)))
		case !gok && wok:
			msgs = append(msgs, fmt.Sprintf("missing %s=%s", k, short(w)))
		case g != w:
			msgs = append(msgs, fmt.Sprintf("%s: got %s want %s", k, short(g), short(w)))
		}
	}
	return strings.Join(msgs, "; ")
}

func short(s string) string {
	if len(s) > 60 {
		return fmt.Sprintf("%s...(%d)", s[:30], len(s))
	}
	return s
}

// PluginAccepts is the fake model plugin's verdict as a pure predicate of the
// configuration: invalid iff /poison == "bad", or /limits/min > /limits/max
// when both are present.
func PluginAccepts(flat map[string]string) (bool, string) {
	if flat["/poison"] == "s:bad" {
		return false, "poison leaf is bad"
	}
	mn, ok1 := flat["/limits/min"]
	mx, ok2 := flat["/limits/max"]
	if ok1 && ok2 {
		var a, b uint64
		if _, err := fmt.Sscanf(mn, "u:%d", &a); err == nil {
			if _, err := fmt.Sscanf(mx, "u:%d", &b); err == nil && a > b {
				return false, fmt.Sprintf("limits/min %d > limits/max %d", a, b)
			}
		}
	}
	return true, ""
}
