package model

import (
	"fmt"
	"sort"
	"strings"

	adminapi "github.com/onosproject/onos-api/go/onos/config/admin"
	configapi "github.com/onosproject/onos-api/go/onos/config/v2"
	gpb "github.com/openconfig/gnmi/proto/gnmi"
)

// LeafDef is one read-write leaf of the synthetic model, in the format model
// plugins publish ("/cont1a/list2a[name=*]/tx-power", IsAKey, AttrName, TypeOpts).
type LeafDef struct {
	Schema string              // path with [key=*] placeholders, keys in alphabetical order
	Type   configapi.ValueType // leaf type
	Width  uint64              // TypeOpts[0] for ints/uints (8,16,32,64); precision for decimals; 0 = none
	IsKey  bool
	Tags   string // free text used by generators: "poison", "pad", "min", "max", "sibling"
}

// Attr returns the leaf's attribute name.
func (l LeafDef) Attr() string { return l.Schema[strings.LastIndex(l.Schema, "/")+1:] }

// Name/Version of the synthetic model.
const (
	M1Name    = "m1"
	M1Version = "1.0.0"
)

// M1 is the synthetic model: containers up to seven deep (with sibling leaves at depth 4 and 7); sibling names that are
// textual prefixes of each other and sort on both sides of '/' and '[';
// a single-key list, a two-key list, a list nested in a list; key leaves of
// string, uint8 and boolean type; a module-prefixed list; every value type.
var M1 = []LeafDef{
	// sibling-prefix leaves inside a container
	{Schema: "/a/b", Type: configapi.ValueType_STRING, Tags: "sibling"},
	{Schema: "/a/bc", Type: configapi.ValueType_STRING, Tags: "sibling"},
	{Schema: "/a/b-x", Type: configapi.ValueType_STRING, Tags: "sibling"},
	{Schema: "/a/b.x", Type: configapi.ValueType_STRING, Tags: "sibling"},
	// nested containers
	{Schema: "/a/c/d", Type: configapi.ValueType_STRING},
	{Schema: "/a/c/e", Type: configapi.ValueType_UINT, Width: 32},
	{Schema: "/a/c/f/g", Type: configapi.ValueType_STRING},
	{Schema: "/a/cx/d", Type: configapi.ValueType_STRING, Tags: "sibling"},
	// siblings four and seven elements deep (a change that writes both shares a parent of three resp. six elements)
	{Schema: "/a/c/f/h", Type: configapi.ValueType_UINT, Width: 16},
	{Schema: "/a/c/f/i/j/k/p", Type: configapi.ValueType_STRING},
	{Schema: "/a/c/f/i/j/k/q", Type: configapi.ValueType_STRING},
	// sibling-prefix containers: a, a-b, ab
	{Schema: "/a-b/z", Type: configapi.ValueType_STRING, Tags: "sibling"},
	{Schema: "/ab/z", Type: configapi.ValueType_STRING, Tags: "sibling"},
	// top level leaves, sibling prefixes
	{Schema: "/mtu", Type: configapi.ValueType_UINT, Width: 16, Tags: "sibling"},
	{Schema: "/mtu-x", Type: configapi.ValueType_UINT, Width: 16, Tags: "sibling"},
	{Schema: "/mtux", Type: configapi.ValueType_UINT, Width: 16, Tags: "sibling"},
	// validation-relevant leaves (the fake plugin's verdict is a pure predicate of these)
	{Schema: "/poison", Type: configapi.ValueType_STRING, Tags: "poison"},
	{Schema: "/limits/min", Type: configapi.ValueType_UINT, Width: 32, Tags: "min"},
	{Schema: "/limits/max", Type: configapi.ValueType_UINT, Width: 32, Tags: "max"},
	{Schema: "/pad", Type: configapi.ValueType_STRING, Tags: "pad"},
	// single-key list with a container inside and a nested list
	{Schema: "/l1[id=*]/id", Type: configapi.ValueType_STRING, IsKey: true},
	{Schema: "/l1[id=*]/v", Type: configapi.ValueType_STRING},
	{Schema: "/l1[id=*]/w", Type: configapi.ValueType_INT, Width: 64},
	{Schema: "/l1[id=*]/sub/x", Type: configapi.ValueType_STRING},
	{Schema: "/l1[id=*]/l3[n=*]/n", Type: configapi.ValueType_STRING, IsKey: true},
	{Schema: "/l1[id=*]/l3[n=*]/v", Type: configapi.ValueType_STRING},
	{Schema: "/l1[id=*]/l3[n=*]/deep/p", Type: configapi.ValueType_STRING},
	{Schema: "/l1[id=*]/l3[n=*]/deep/q", Type: configapi.ValueType_UINT, Width: 8},
	// list whose name has l1 as a textual prefix
	{Schema: "/l1x[id=*]/id", Type: configapi.ValueType_STRING, IsKey: true, Tags: "sibling"},
	{Schema: "/l1x[id=*]/v", Type: configapi.ValueType_STRING, Tags: "sibling"},
	// two-key list, keys of uint8 and boolean type
	{Schema: "/l2[k1=*][k2=*]/k1", Type: configapi.ValueType_UINT, Width: 8, IsKey: true},
	{Schema: "/l2[k1=*][k2=*]/k2", Type: configapi.ValueType_BOOL, IsKey: true},
	{Schema: "/l2[k1=*][k2=*]/v", Type: configapi.ValueType_STRING},
	// module-prefixed names
	{Schema: "/t1e:list4[id=*]/id", Type: configapi.ValueType_STRING, IsKey: true},
	{Schema: "/t1e:list4[id=*]/t1e:leaf", Type: configapi.ValueType_STRING},
	// every scalar type and width, and leaf-lists
	{Schema: "/types/i8", Type: configapi.ValueType_INT, Width: 8},
	{Schema: "/types/i16", Type: configapi.ValueType_INT, Width: 16},
	{Schema: "/types/i32", Type: configapi.ValueType_INT, Width: 32},
	{Schema: "/types/i64", Type: configapi.ValueType_INT, Width: 64},
	{Schema: "/types/u8", Type: configapi.ValueType_UINT, Width: 8},
	{Schema: "/types/u16", Type: configapi.ValueType_UINT, Width: 16},
	{Schema: "/types/u32", Type: configapi.ValueType_UINT, Width: 32},
	{Schema: "/types/u64", Type: configapi.ValueType_UINT, Width: 64},
	{Schema: "/types/bool", Type: configapi.ValueType_BOOL},
	{Schema: "/types/bytes", Type: configapi.ValueType_BYTES},
	{Schema: "/types/dec", Type: configapi.ValueType_DECIMAL, Width: 0},
	{Schema: "/types/float", Type: configapi.ValueType_FLOAT},
	{Schema: "/types/str", Type: configapi.ValueType_STRING},
	{Schema: "/types/lls", Type: configapi.ValueType_LEAFLIST_STRING},
	{Schema: "/types/lli", Type: configapi.ValueType_LEAFLIST_INT, Width: 64},
	{Schema: "/types/llu", Type: configapi.ValueType_LEAFLIST_UINT, Width: 32},
	{Schema: "/types/llb", Type: configapi.ValueType_LEAFLIST_BOOL},
}

// KeyPools gives the small pools key values are drawn from (overlaps are
// frequent and values share textual prefixes).
var KeyPools = map[string][]string{
	"id": {"1", "10", "1-0", "a", "ab"},
	"k1": {"1", "10", "2"},
	"k2": {"true", "false"},
	"n":  {"x", "xy", "x.y"},
}

// ModelInfo renders the schema as the admin API's ModelInfo (what a model
// plugin answers to GetModelInfo).
func ModelInfo(name, version string, leaves []LeafDef) *adminapi.ModelInfo {
	mi := &adminapi.ModelInfo{Name: name, Version: version, GetStateMode: 0}
	mi.ModelData = []*gpb.ModelData{{Name: name, Organization: "verif", Version: version}}
	mi.SupportedEncodings = []gpb.Encoding{gpb.Encoding_JSON_IETF, gpb.Encoding_PROTO}
	for _, l := range leaves {
		rw := &adminapi.ReadWritePath{Path: l.Schema, ValueType: l.Type, IsAKey: l.IsKey, AttrName: l.Attr()}
		if l.Width != 0 {
			rw.TypeOpts = []uint64{l.Width}
		}
		mi.ReadWritePath = append(mi.ReadWritePath, rw)
	}
	return mi
}

// SchemaOf maps a concrete path to its schema text ("[k=v]" -> "[k=*]").
func SchemaOf(p Path) string {
	q := p.Clone()
	for i := range q {
		for k := range q[i].Keys {
			q[i].Keys[k] = "*"
		}
	}
	return q.String()
}

// Lookup finds the leaf definition for a concrete leaf path.
func Lookup(leaves []LeafDef, p Path) (LeafDef, bool) {
	s := SchemaOf(p)
	for _, l := range leaves {
		if l.Schema == s {
			return l, true
		}
	}
	return LeafDef{}, false
}

// IsInterior reports whether p (concrete, possibly with an unkeyed last list
// element) is a proper ancestor of at least one schema leaf.
func IsInterior(leaves []LeafDef, p Path) bool {
	for _, l := range leaves {
		lp := Parse(l.Schema)
		if len(p) >= len(lp) {
			continue
		}
		ok := true
		for i, e := range p {
			if e.Name != lp[i].Name {
				ok = false
				break
			}
			for k := range e.Keys {
				if _, has := lp[i].Keys[k]; !has {
					ok = false
				}
			}
		}
		if ok {
			return true
		}
	}
	return false
}

// SortedSchemas returns the schema strings, sorted.
func SortedSchemas(leaves []LeafDef) []string {
	out := make([]string, len(leaves))
	for i, l := range leaves {
		out[i] = l.Schema
	}
	sort.Strings(out)
	return out
}

// Describe renders a leaf definition.
func (l LeafDef) Describe() string {
	return fmt.Sprintf("%s:%v/%d key=%v", l.Schema, l.Type, l.Width, l.IsKey)
}

// RemoveKeys strips every [k=v] group from path text.
func RemoveKeys(s string) string {
	var b strings.Builder
	depth := 0
	for i := 0; i < len(s); i++ {
		switch s[i] {
		case '[':
			depth++
		case ']':
			if depth > 0 {
				depth--
			}
		default:
			if depth == 0 {
				b.WriteByte(s[i])
			}
		}
	}
	return b.String()
}
