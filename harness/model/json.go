package model

import (
	"bytes"
	"encoding/base64"
	"encoding/json"
	"fmt"
	"math/big"
	"sort"
	"strconv"
	"strings"

	configapi "github.com/onosproject/onos-api/go/onos/config/v2"
)

// JSONKey is the canonical comparison key of a value as it should appear in an
// RFC 7951 document for leaf definition def. It is what FlattenJSON produces
// for a correct document.
func (v Value) JSONKey() string {
	switch v.T {
	case "d":
		r := new(big.Rat).SetFrac(big.NewInt(v.I), new(big.Int).Exp(big.NewInt(10), big.NewInt(int64(v.P)), nil))
		return "d:" + r.RatString()
	case "f":
		return "f:" + strconv.FormatFloat(float64(v.F), 'g', 6, 64)
	}
	return v.Key()
}

// Text renders a scalar value as plain text (the way it appears as a list key).
func (v Value) Text() string {
	switch v.T {
	case "s":
		return v.S
	case "i":
		return strconv.FormatInt(v.I, 10)
	case "u":
		return strconv.FormatUint(v.U, 10)
	case "b":
		return strconv.FormatBool(v.B)
	}
	return v.Key()
}

// FlattenJSON turns an RFC 7951 document into path text -> value key, using
// the schema to recognise lists, their keys and leaf types. It is independent
// of the code under test. Key leaves of list entries are reported like any
// other leaf. Unknown members are reported under "?<path>".
func FlattenJSON(doc []byte, schema []LeafDef) (map[string]string, error) {
	dec := json.NewDecoder(bytes.NewReader(doc))
	dec.UseNumber()
	var root any
	if err := dec.Decode(&root); err != nil {
		return nil, fmt.Errorf("document is not valid JSON: %v", err)
	}
	if dec.More() {
		return nil, fmt.Errorf("trailing data after JSON document")
	}
	obj, ok := root.(map[string]any)
	if !ok {
		return nil, fmt.Errorf("document root is not an object")
	}
	out := map[string]string{}
	if err := flattenObj(obj, "", nil, schema, out); err != nil {
		return nil, err
	}
	return out, nil
}

func listKeys(schema []LeafDef, prefix, name string) ([]string, string, bool) {
	want := prefix + "/" + name + "["
	for _, l := range schema {
		if strings.HasPrefix(l.Schema, want) {
			rest := l.Schema[len(prefix)+1+len(name):]
			// rest = "[k1=*][k2=*]/..."
			end := strings.Index(rest, "/")
			if end < 0 {
				end = len(rest)
			}
			seg := rest[:end]
			var keys []string
			for _, part := range strings.Split(strings.Trim(seg, "[]"), "][") {
				if eq := strings.IndexByte(part, '='); eq > 0 {
					keys = append(keys, part[:eq])
				}
			}
			sort.Strings(keys)
			return keys, prefix + "/" + name + seg, true
		}
	}
	return nil, "", false
}

func leafDef(schema []LeafDef, s string) (LeafDef, bool) {
	for _, l := range schema {
		if l.Schema == s {
			return l, true
		}
	}
	return LeafDef{}, false
}

func scalarText(v any) string {
	switch x := v.(type) {
	case string:
		return x
	case json.Number:
		return x.String()
	case bool:
		if x {
			return "true"
		}
		return "false"
	}
	return fmt.Sprint(v)
}

func flattenObj(obj map[string]any, sprefix string, concrete Path, schema []LeafDef, out map[string]string) error {
	names := make([]string, 0, len(obj))
	for n := range obj {
		names = append(names, n)
	}
	sort.Strings(names)
	for _, name := range names {
		val := obj[name]
		if keys, lschema, isList := listKeys(schema, sprefix, name); isList {
			arr, ok := val.([]any)
			if !ok {
				return fmt.Errorf("%s/%s: list is not rendered as an array", concrete, name)
			}
			seen := map[string]bool{}
			for _, ent := range arr {
				eo, ok := ent.(map[string]any)
				if !ok {
					return fmt.Errorf("%s/%s: list entry is not an object", concrete, name)
				}
				e := Elem{Name: name, Keys: map[string]string{}}
				for _, k := range keys {
					kv, ok := eo[k]
					if !ok {
						return fmt.Errorf("%s/%s: list entry lacks key member %q", concrete, name, k)
					}
					e.Keys[k] = scalarText(kv)
				}
				cp := append(concrete.Clone(), e)
				if seen[cp.String()] {
					return fmt.Errorf("list entry %s appears twice in the document (one entry split in two)", cp)
				}
				seen[cp.String()] = true
				if err := flattenObj(eo, lschema, cp, schema, out); err != nil {
					return err
				}
			}
			continue
		}
		cp := append(concrete.Clone(), Elem{Name: name})
		spath := sprefix + "/" + name
		if ld, ok := leafDef(schema, spath); ok {
			if ld.IsKey {
				// key leaves are compared by their text only: the document shows the
				// key of an entry whether or not the key leaf was set explicitly
				out[cp.String()] = "k:" + scalarText(val)
				continue
			}
			k, err := leafKey(ld, val)
			if err != nil {
				return fmt.Errorf("%s: %v", cp, err)
			}
			out[cp.String()] = k
			continue
		}
		if sub, ok := val.(map[string]any); ok {
			if err := flattenObj(sub, spath, cp, schema, out); err != nil {
				return err
			}
			continue
		}
		out["?"+cp.String()] = fmt.Sprint(val)
	}
	return nil
}

func leafKey(ld LeafDef, val any) (string, error) {
	num := func(signed bool, width uint64, v any) (string, error) {
		var txt string
		switch x := v.(type) {
		case json.Number:
			if width > 32 {
				return "", fmt.Errorf("%d-bit integer rendered as a JSON number %s (RFC 7951 wants a string)", width, x)
			}
			txt = x.String()
		case string:
			if width != 0 && width <= 32 {
				return "", fmt.Errorf("%d-bit integer rendered as a JSON string %q (RFC 7951 wants a number)", width, x)
			}
			txt = x
		default:
			return "", fmt.Errorf("integer rendered as %T", v)
		}
		if signed {
			n, err := strconv.ParseInt(txt, 10, 64)
			if err != nil {
				return "", fmt.Errorf("bad integer %q", txt)
			}
			return fmt.Sprintf("i:%d", n), nil
		}
		n, err := strconv.ParseUint(txt, 10, 64)
		if err != nil {
			return "", fmt.Errorf("bad unsigned integer %q", txt)
		}
		return fmt.Sprintf("u:%d", n), nil
	}
	switch ld.Type {
	case configapi.ValueType_STRING:
		s, ok := val.(string)
		if !ok {
			return "", fmt.Errorf("string leaf rendered as %T", val)
		}
		return "s:" + s, nil
	case configapi.ValueType_INT:
		return num(true, ld.Width, val)
	case configapi.ValueType_UINT:
		return num(false, ld.Width, val)
	case configapi.ValueType_BOOL:
		b, ok := val.(bool)
		if !ok {
			return "", fmt.Errorf("boolean leaf rendered as %T", val)
		}
		return fmt.Sprintf("b:%v", b), nil
	case configapi.ValueType_BYTES:
		s, ok := val.(string)
		if !ok {
			return "", fmt.Errorf("bytes leaf rendered as %T", val)
		}
		raw, err := base64.StdEncoding.DecodeString(s)
		if err != nil {
			return "", fmt.Errorf("bytes leaf is not base64: %q", s)
		}
		return "x:" + base64.StdEncoding.EncodeToString(raw), nil
	case configapi.ValueType_DECIMAL:
		s, ok := val.(string)
		if !ok {
			return "", fmt.Errorf("decimal64 leaf rendered as %T (RFC 7951 wants a string)", val)
		}
		r, ok := new(big.Rat).SetString(s)
		if !ok {
			return "", fmt.Errorf("bad decimal %q", s)
		}
		return "d:" + r.RatString(), nil
	case configapi.ValueType_FLOAT:
		txt := scalarText(val)
		f, err := strconv.ParseFloat(txt, 64)
		if err != nil {
			return "", fmt.Errorf("bad float %q", txt)
		}
		return "f:" + strconv.FormatFloat(f, 'g', 6, 64), nil
	case configapi.ValueType_LEAFLIST_STRING, configapi.ValueType_LEAFLIST_INT, configapi.ValueType_LEAFLIST_UINT, configapi.ValueType_LEAFLIST_BOOL:
		arr, ok := val.([]any)
		if !ok {
			return "", fmt.Errorf("leaf-list rendered as %T", val)
		}
		var et configapi.ValueType
		tag := ""
		switch ld.Type {
		case configapi.ValueType_LEAFLIST_STRING:
			et, tag = configapi.ValueType_STRING, "ls"
		case configapi.ValueType_LEAFLIST_INT:
			et, tag = configapi.ValueType_INT, "li"
		case configapi.ValueType_LEAFLIST_UINT:
			et, tag = configapi.ValueType_UINT, "lu"
		case configapi.ValueType_LEAFLIST_BOOL:
			et, tag = configapi.ValueType_BOOL, "lb"
		}
		parts := make([]string, len(arr))
		for i, e := range arr {
			k, err := leafKey(LeafDef{Type: et, Width: ld.Width}, e)
			if err != nil {
				return "", err
			}
			parts[i] = k
		}
		return tag + ":[" + strings.Join(parts, ",") + "]", nil
	}
	return "", fmt.Errorf("unsupported leaf type %v", ld.Type)
}

// WithImpliedKeys returns flat plus the key leaves implied by the list entries
// on the paths of its leaves (typed by the schema): a JSON document always
// shows a list entry's keys, whether or not the key leaf was set explicitly.
func WithImpliedKeys(c Config, schema []LeafDef) map[string]string {
	out := map[string]string{}
	for k, l := range c {
		if ld, ok := Lookup(schema, l.Path); ok && ld.IsKey {
			out[k] = "k:" + l.Value.Text()
		} else {
			out[k] = l.Value.JSONKey()
		}
		for i, e := range l.Path {
			for kn, kv := range e.Keys {
				kp := append(l.Path[:i+1].Clone(), Elem{Name: kn})
				if _, ok := Lookup(schema, kp); !ok {
					continue
				}
				if _, set := c[kp.String()]; set {
					continue
				}
				out[kp.String()] = "k:" + kv
			}
		}
	}
	return out
}

// FlattenJSONAt flattens a JSON value that is rooted at prefix (canonical path
// text, "/" or "" for the root) into typed onos-config values. Only string,
// unsigned, signed and boolean leaves are supported (enough for the JSON-valued
// Set class); anything else is an error.
func FlattenJSONAt(doc []byte, schema []LeafDef, prefix string) (map[string]*configapi.TypedValue, error) {
	dec := json.NewDecoder(bytes.NewReader(doc))
	dec.UseNumber()
	var root any
	if err := dec.Decode(&root); err != nil {
		return nil, fmt.Errorf("value is not valid JSON: %v", err)
	}
	obj, ok := root.(map[string]any)
	if !ok {
		return nil, fmt.Errorf("JSON value is not an object")
	}
	pp := Parse(prefix)
	flat := map[string]string{}
	if err := flattenObj(obj, SchemaOf(pp)[:len(SchemaOf(pp))*btoi(len(pp) > 0)], pp, schema, flat); err != nil {
		return nil, err
	}
	out := map[string]*configapi.TypedValue{}
	for k, v := range flat {
		if strings.HasPrefix(k, "?") {
			return nil, fmt.Errorf("unknown member %s", k[1:])
		}
		ld, _ := Lookup(schema, Parse(k))
		txt := v[2:]
		switch {
		case ld.Type == configapi.ValueType_STRING:
			out[k] = configapi.NewTypedValueString(txt)
		case ld.Type == configapi.ValueType_UINT:
			n, _ := strconv.ParseUint(txt, 10, 64)
			out[k] = configapi.NewTypedValueUint(uint(n), configapi.Width(ld.Width))
		case ld.Type == configapi.ValueType_INT:
			n, _ := strconv.ParseInt(txt, 10, 64)
			out[k] = configapi.NewTypedValueInt(int(n), configapi.Width(ld.Width))
		case ld.Type == configapi.ValueType_BOOL:
			out[k] = configapi.NewTypedValueBool(txt == "true")
		default:
			return nil, fmt.Errorf("unsupported leaf type for %s", k)
		}
	}
	return out, nil
}

func btoi(b bool) int {
	if b {
		return 1
	}
	return 0
}
