// Package storeconc checks property C15 ("stores never lose an update; watchers
// never miss the latest state") against the five real Atomix-backed stores of
// onos-config running on the in-memory Atomix test client.
package storeconc

import (
	"context"
	"fmt"
	"sort"
	"strings"

	"github.com/atomix/go-sdk/pkg/primitive"
	v2 "github.com/onosproject/onos-api/go/onos/config/v2"
	v3 "github.com/onosproject/onos-api/go/onos/config/v3"
	cfgv2 "github.com/onosproject/onos-config/pkg/store/v2/configuration"
	propv2 "github.com/onosproject/onos-config/pkg/store/v2/proposal"
	txv2 "github.com/onosproject/onos-config/pkg/store/v2/transaction"
	cfgv3 "github.com/onosproject/onos-config/pkg/store/v3/configuration"
	txv3 "github.com/onosproject/onos-config/pkg/store/v3/transaction"
)

// Store kinds.
const (
	KindV2Tx   = "v2tx"
	KindV2Prop = "v2prop"
	KindV2Cfg  = "v2cfg"
	KindV3Tx   = "v3tx"
	KindV3Cfg  = "v3cfg"
)

var allKinds = []string{KindV2Tx, KindV2Prop, KindV2Cfg, KindV3Tx, KindV3Cfg}

// view is the store-independent rendition of one stored object.
type view struct {
	Key      int
	Version  uint64
	Revision uint64
	Index    uint64          // log index (transaction stores), else 0
	Spec     string          // scalar part of the record that only Update is meant to change
	Status   string          // scalar part of the record that UpdateStatus changes
	Vals     map[string]pval // configuration stores: committed path values
	Applied  map[string]pval // configuration stores: applied path values
	ValsNil  bool            // the object carries no committed value map (nothing will be written)
	ApplNil  bool            // the object carries no applied value map
}

// pval is one path value (flat, never deleted in this check).
type pval struct {
	Val string
	Idx uint64
}

func canonVals(m map[string]pval) string {
	ks := make([]string, 0, len(m))
	for k := range m {
		ks = append(ks, k)
	}
	sort.Strings(ks)
	var b strings.Builder
	for _, k := range ks {
		fmt.Fprintf(&b, "%s=%s@%d;", k, m[k].Val, m[k].Idx)
	}
	return b.String()
}

// ev is one watch event as a consumer saw it.
type ev struct {
	Key      int
	Version  uint64
	Replayed bool
	Type     string
}

// api is the small adapter every store kind implements. Objects are the
// store's own typed records (*Transaction, *Proposal, *Configuration) passed
// around opaquely; the store mutates them exactly as it does for real callers.
type api interface {
	Kind() string
	HasIndex() bool
	IsConfig() bool
	LogOf(key int) int // which log assigns this key's index (v2: one log; v3: one per target)
	New(key, n int, seq *uint64) any
	Create(ctx context.Context, o any) error
	Get(ctx context.Context, key int, index uint64) (any, error)
	HasAlt() bool
	GetAlt(ctx context.Context, key int, index uint64) (any, error) // v2tx GetByIndex, v3tx GetKey
	List(ctx context.Context) ([]any, error)
	Update(ctx context.Context, o any) error
	UpdateStatus(ctx context.Context, o any) error
	// Watch subscribes; key<0 = all records. The adapter starts the consumer goroutine of w.
	Watch(ctx context.Context, key int, index uint64, replay bool, w *watcher) error
	Close(ctx context.Context) error
	Clone(o any) any
	View(o any) view
	SetSpec(o any, n int, seq *uint64)
	SetStatus(o any, n int, seq *uint64)
}

func keyName(k int) string { return fmt.Sprintf("k%d", k) }

func keyOf(name string) int {
	var k int
	if _, err := fmt.Sscanf(name, "k%d", &k); err != nil {
		return -1
	}
	return k
}

var paths = []string{"/a", "/b", "/c"}

func newAPI(kind string, client primitive.Client) (api, error) {
	switch kind {
	case KindV2Tx:
		s, err := txv2.NewAtomixStore(client)
		if err != nil {
			return nil, err
		}
		return &v2txAPI{s}, nil
	case KindV2Prop:
		s, err := propv2.NewAtomixStore(client)
		if err != nil {
			return nil, err
		}
		return &v2propAPI{s}, nil
	case KindV2Cfg:
		s, err := cfgv2.NewAtomixStore(client)
		if err != nil {
			return nil, err
		}
		return &v2cfgAPI{s}, nil
	case KindV3Tx:
		s, err := txv3.NewAtomixStore(client)
		if err != nil {
			return nil, err
		}
		return &v3txAPI{s}, nil
	case KindV3Cfg:
		s, err := cfgv3.NewAtomixStore(client)
		if err != nil {
			return nil, err
		}
		return &v3cfgAPI{s}, nil
	}
	return nil, fmt.Errorf("unknown store kind %q", kind)
}

// ---------------------------------------------------------------- v2 transaction

type v2txAPI struct{ s txv2.Store }

func (a *v2txAPI) Kind() string   { return KindV2Tx }
func (a *v2txAPI) HasIndex() bool { return true }
func (a *v2txAPI) IsConfig() bool { return false }
func (a *v2txAPI) LogOf(int) int  { return 0 }
func (a *v2txAPI) HasAlt() bool   { return true }
func v2pv(path string, n int, idx uint64) *v2.PathValue {
	return &v2.PathValue{Path: path, Index: v2.Index(idx), Value: v2.TypedValue{Bytes: []byte(fmt.Sprintf("%d", n)), Type: v2.ValueType_STRING}}
}
func (a *v2txAPI) New(key, n int, seq *uint64) any {
	t := &v2.Transaction{ID: v2.TransactionID(keyName(key))}
	a.SetSpec(t, n, seq)
	return t
}
func (a *v2txAPI) SetSpec(o any, n int, _ *uint64) {
	t := o.(*v2.Transaction)
	t.Username = fmt.Sprintf("u%d", n)
	t.Details = &v2.Transaction_Change{Change: &v2.ChangeTransaction{Values: map[v2.TargetID]*v2.PathValues{
		"tgt": {Values: map[string]*v2.PathValue{"/a": v2pv("/a", n, 0)}}}}}
}
func (a *v2txAPI) SetStatus(o any, n int, _ *uint64) {
	t := o.(*v2.Transaction)
	t.Status.State = v2.TransactionStatus_State(n % 5)
	t.Status.Proposals = []v2.ProposalID{v2.ProposalID(fmt.Sprintf("p%d", n))}
	t.Status.Failure = &v2.Failure{Description: fmt.Sprintf("f%d", n)}
}
func (a *v2txAPI) Create(ctx context.Context, o any) error {
	return a.s.Create(ctx, o.(*v2.Transaction))
}
func (a *v2txAPI) Update(ctx context.Context, o any) error {
	return a.s.Update(ctx, o.(*v2.Transaction))
}
func (a *v2txAPI) UpdateStatus(ctx context.Context, o any) error {
	return a.s.UpdateStatus(ctx, o.(*v2.Transaction))
}
func (a *v2txAPI) Get(ctx context.Context, key int, _ uint64) (any, error) {
	t, err := a.s.Get(ctx, v2.TransactionID(keyName(key)))
	if err != nil {
		return nil, err
	}
	return t, nil
}
func (a *v2txAPI) GetAlt(ctx context.Context, _ int, index uint64) (any, error) {
	t, err := a.s.GetByIndex(ctx, v2.Index(index))
	if err != nil {
		return nil, err
	}
	return t, nil
}
func (a *v2txAPI) List(ctx context.Context) ([]any, error) {
	l, err := a.s.List(ctx)
	if err != nil {
		return nil, err
	}
	out := make([]any, len(l))
	for i := range l {
		out[i] = l[i]
	}
	return out, nil
}
func (a *v2txAPI) Close(ctx context.Context) error { return a.s.Close(ctx) }
func (a *v2txAPI) Clone(o any) any {
	b, err := o.(*v2.Transaction).Marshal()
	if err != nil {
		panic(err)
	}
	n := &v2.Transaction{}
	if err := n.Unmarshal(b); err != nil {
		panic(err)
	}
	return n
}
func (a *v2txAPI) View(o any) view {
	t := o.(*v2.Transaction)
	spec := "user=" + t.Username
	if c := t.GetChange(); c != nil {
		ts := make([]string, 0, len(c.Values))
		for tg := range c.Values {
			ts = append(ts, string(tg))
		}
		sort.Strings(ts)
		for _, tg := range ts {
			m := map[string]pval{}
			if c.Values[v2.TargetID(tg)] != nil {
				for p, pv := range c.Values[v2.TargetID(tg)].Values {
					m[p] = pval{Val: string(pv.Value.Bytes), Idx: uint64(pv.Index)}
				}
			}
			spec += " " + tg + ":" + canonVals(m)
		}
	}
	st := fmt.Sprintf("state=%d proposals=%v", t.Status.State, t.Status.Proposals)
	if t.Status.Failure != nil {
		st += " failure=" + t.Status.Failure.Description
	}
	return view{Key: keyOf(string(t.ID)), Version: t.Version, Revision: uint64(t.Revision), Index: uint64(t.Index), Spec: spec, Status: st}
}
func (a *v2txAPI) Watch(ctx context.Context, key int, _ uint64, replay bool, w *watcher) error {
	var opts []txv2.WatchOption
	if key >= 0 {
		opts = append(opts, txv2.WithTransactionID(v2.TransactionID(keyName(key))))
	}
	if replay {
		opts = append(opts, txv2.WithReplay())
	}
	ch := make(chan v2.TransactionEvent)
	if err := a.s.Watch(ctx, ch, opts...); err != nil {
		return err
	}
	go consume(ch, func(e v2.TransactionEvent) ev {
		return ev{Key: keyOf(string(e.Transaction.ID)), Version: e.Transaction.Version, Replayed: e.Type == v2.TransactionEvent_REPLAYED, Type: e.Type.String()}
	}, w)
	return nil
}

// ---------------------------------------------------------------- v2 proposal

type v2propAPI struct{ s propv2.Store }

func (a *v2propAPI) Kind() string   { return KindV2Prop }
func (a *v2propAPI) HasIndex() bool { return false }
func (a *v2propAPI) IsConfig() bool { return false }
func (a *v2propAPI) LogOf(int) int  { return 0 }
func (a *v2propAPI) HasAlt() bool   { return false }
func (a *v2propAPI) New(key, n int, seq *uint64) any {
	p := &v2.Proposal{ID: v2.ProposalID(keyName(key)), TargetID: "tgt", TransactionIndex: v2.Index(key + 1)}
	a.SetSpec(p, n, seq)
	return p
}
func (a *v2propAPI) SetSpec(o any, n int, _ *uint64) {
	p := o.(*v2.Proposal)
	p.Details = &v2.Proposal_Change{Change: &v2.ChangeProposal{Values: map[string]*v2.PathValue{"/a": v2pv("/a", n, 0)}}}
	p.TargetTypeVersion = v2.TargetTypeVersion{TargetType: "ty", TargetVersion: v2.TargetVersion(fmt.Sprintf("%d", n))}
}
func (a *v2propAPI) SetStatus(o any, n int, _ *uint64) {
	p := o.(*v2.Proposal)
	p.Status.PrevIndex = v2.Index(n)
	p.Status.NextIndex = v2.Index(n + 1)
	p.Status.RollbackValues = map[string]*v2.PathValue{"/r": v2pv("/r", n, 0)}
}
func (a *v2propAPI) Create(ctx context.Context, o any) error {
	return a.s.Create(ctx, o.(*v2.Proposal))
}
func (a *v2propAPI) Update(ctx context.Context, o any) error {
	return a.s.Update(ctx, o.(*v2.Proposal))
}
func (a *v2propAPI) UpdateStatus(ctx context.Context, o any) error {
	return a.s.UpdateStatus(ctx, o.(*v2.Proposal))
}
func (a *v2propAPI) Get(ctx context.Context, key int, _ uint64) (any, error) {
	p, err := a.s.Get(ctx, v2.ProposalID(keyName(key)))
	if err != nil {
		return nil, err
	}
	return p, nil
}
func (a *v2propAPI) GetAlt(context.Context, int, uint64) (any, error) { return nil, nil }
func (a *v2propAPI) List(ctx context.Context) ([]any, error) {
	l, err := a.s.List(ctx)
	if err != nil {
		return nil, err
	}
	out := make([]any, len(l))
	for i := range l {
		out[i] = l[i]
	}
	return out, nil
}
func (a *v2propAPI) Close(ctx context.Context) error { return a.s.Close(ctx) }
func (a *v2propAPI) Clone(o any) any {
	b, err := o.(*v2.Proposal).Marshal()
	if err != nil {
		panic(err)
	}
	n := &v2.Proposal{}
	if err := n.Unmarshal(b); err != nil {
		panic(err)
	}
	return n
}
func (a *v2propAPI) View(o any) view {
	p := o.(*v2.Proposal)
	m := map[string]pval{}
	if c := p.GetChange(); c != nil {
		for k, pv := range c.Values {
			m[k] = pval{Val: string(pv.Value.Bytes), Idx: uint64(pv.Index)}
		}
	}
	spec := fmt.Sprintf("target=%s txindex=%d tv=%s change:%s", p.TargetID, p.TransactionIndex, p.TargetVersion, canonVals(m))
	r := map[string]pval{}
	for k, pv := range p.Status.RollbackValues {
		r[k] = pval{Val: string(pv.Value.Bytes), Idx: uint64(pv.Index)}
	}
	st := fmt.Sprintf("prev=%d next=%d rollback:%s", p.Status.PrevIndex, p.Status.NextIndex, canonVals(r))
	return view{Key: keyOf(string(p.ID)), Version: p.Version, Revision: uint64(p.Revision), Spec: spec, Status: st}
}
func (a *v2propAPI) Watch(ctx context.Context, key int, _ uint64, replay bool, w *watcher) error {
	var opts []propv2.WatchOption
	if key >= 0 {
		opts = append(opts, propv2.WithProposalID(v2.ProposalID(keyName(key))))
	}
	if replay {
		opts = append(opts, propv2.WithReplay())
	}
	ch := make(chan v2.ProposalEvent)
	if err := a.s.Watch(ctx, ch, opts...); err != nil {
		return err
	}
	go consume(ch, func(e v2.ProposalEvent) ev {
		return ev{Key: keyOf(string(e.Proposal.ID)), Version: e.Proposal.Version, Replayed: e.Type == v2.ProposalEvent_REPLAYED, Type: e.Type.String()}
	}, w)
	return nil
}

// ---------------------------------------------------------------- v2 configuration

type v2cfgAPI struct{ s cfgv2.Store }

func (a *v2cfgAPI) Kind() string   { return KindV2Cfg }
func (a *v2cfgAPI) HasIndex() bool { return false }
func (a *v2cfgAPI) IsConfig() bool { return true }
func (a *v2cfgAPI) LogOf(int) int  { return 0 }
func (a *v2cfgAPI) HasAlt() bool   { return false }
func (a *v2cfgAPI) New(key, n int, seq *uint64) any {
	c := &v2.Configuration{ID: v2.ConfigurationID(keyName(key)), TargetID: v2.TargetID(keyName(key))}
	a.SetSpec(c, n, seq)
	return c
}

// SetSpec changes the committed side: one path gets a new value carrying a
// fresh index (the store only rewrites a path whose index changed, as the real
// controller always supplies the transaction index with a value).
func (a *v2cfgAPI) SetSpec(o any, n int, seq *uint64) {
	c := o.(*v2.Configuration)
	c.Index = v2.Index(n)
	c.Status.Committed.Index = v2.Index(n)
	if c.Values == nil {
		c.Values = map[string]*v2.PathValue{}
	}
	*seq++
	p := paths[n%len(paths)]
	c.Values[p] = v2pv(p, n, *seq)
}
func (a *v2cfgAPI) SetStatus(o any, n int, seq *uint64) {
	c := o.(*v2.Configuration)
	c.Status.State = v2.ConfigurationStatus_State(n % 4)
	c.Status.Applied.Index = v2.Index(n)
	c.Status.Mastership.Term = v2.MastershipTerm(n)
	if c.Status.Applied.Values == nil {
		c.Status.Applied.Values = map[string]*v2.PathValue{}
	}
	*seq++
	p := paths[(n/2)%len(paths)]
	pv := v2pv(p, n, *seq)
	pv.Value.Bytes = []byte(fmt.Sprintf("applied%d", n))
	c.Status.Applied.Values[p] = pv
}
func (a *v2cfgAPI) Create(ctx context.Context, o any) error {
	return a.s.Create(ctx, o.(*v2.Configuration))
}
func (a *v2cfgAPI) Update(ctx context.Context, o any) error {
	return a.s.Update(ctx, o.(*v2.Configuration))
}
func (a *v2cfgAPI) UpdateStatus(ctx context.Context, o any) error {
	return a.s.UpdateStatus(ctx, o.(*v2.Configuration))
}
func (a *v2cfgAPI) Get(ctx context.Context, key int, _ uint64) (any, error) {
	c, err := a.s.Get(ctx, v2.ConfigurationID(keyName(key)))
	if err != nil {
		return nil, err
	}
	return c, nil
}
func (a *v2cfgAPI) GetAlt(context.Context, int, uint64) (any, error) { return nil, nil }
func (a *v2cfgAPI) List(ctx context.Context) ([]any, error) {
	l, err := a.s.List(ctx)
	if err != nil {
		return nil, err
	}
	out := make([]any, len(l))
	for i := range l {
		out[i] = l[i]
	}
	return out, nil
}
func (a *v2cfgAPI) Close(ctx context.Context) error { return a.s.Close(ctx) }
func (a *v2cfgAPI) Clone(o any) any {
	b, err := o.(*v2.Configuration).Marshal()
	if err != nil {
		panic(err)
	}
	n := &v2.Configuration{}
	if err := n.Unmarshal(b); err != nil {
		panic(err)
	}
	return n
}
func (a *v2cfgAPI) View(o any) view {
	c := o.(*v2.Configuration)
	v := view{Key: keyOf(string(c.ID)), Version: c.Version, Revision: uint64(c.Revision),
		Spec:   fmt.Sprintf("target=%s index=%d committed=%d", c.TargetID, c.Index, c.Status.Committed.Index),
		Status: fmt.Sprintf("state=%d applied=%d term=%d", c.Status.State, c.Status.Applied.Index, c.Status.Mastership.Term),
		Vals:   map[string]pval{}, Applied: map[string]pval{}, ValsNil: c.Values == nil, ApplNil: c.Status.Applied.Values == nil}
	for k, pv := range c.Values {
		v.Vals[k] = pval{Val: string(pv.Value.Bytes), Idx: uint64(pv.Index)}
	}
	for k, pv := range c.Status.Applied.Values {
		v.Applied[k] = pval{Val: string(pv.Value.Bytes), Idx: uint64(pv.Index)}
	}
	return v
}
func (a *v2cfgAPI) Watch(ctx context.Context, key int, _ uint64, replay bool, w *watcher) error {
	var opts []cfgv2.WatchOption
	if key >= 0 {
		opts = append(opts, cfgv2.WithConfigurationID(v2.ConfigurationID(keyName(key))))
	}
	if replay {
		opts = append(opts, cfgv2.WithReplay())
	}
	ch := make(chan v2.ConfigurationEvent)
	if err := a.s.Watch(ctx, ch, opts...); err != nil {
		return err
	}
	go consume(ch, func(e v2.ConfigurationEvent) ev {
		return ev{Key: keyOf(string(e.Configuration.ID)), Version: e.Configuration.Version, Replayed: e.Type == v2.ConfigurationEvent_REPLAYED, Type: e.Type.String()}
	}, w)
	return nil
}

// ---------------------------------------------------------------- v3 transaction

// Keys are spread over two targets (even keys on t0, odd keys on t1): the v3
// store keeps one log per target.
type v3txAPI struct{ s txv3.Store }

func v3target(key int) v3.Target {
	return v3.Target{ID: v3.TargetID(fmt.Sprintf("t%d", key%2)), Type: "ty", Version: "1"}
}
func v3pv(path string, n int, idx uint64) v3.PathValue {
	return v3.PathValue{Path: path, Index: v3.Index(idx), Value: v3.TypedValue{Bytes: []byte(fmt.Sprintf("%d", n)), Type: v3.ValueType_STRING}}
}
func (a *v3txAPI) Kind() string      { return KindV3Tx }
func (a *v3txAPI) HasIndex() bool    { return true }
func (a *v3txAPI) IsConfig() bool    { return false }
func (a *v3txAPI) LogOf(key int) int { return key % 2 }
func (a *v3txAPI) HasAlt() bool      { return true }
func (a *v3txAPI) New(key, n int, seq *uint64) any {
	t := &v3.Transaction{ID: v3.TransactionID{Target: v3target(key)}}
	t.Key = keyName(key)
	a.SetSpec(t, n, seq)
	return t
}
func (a *v3txAPI) SetSpec(o any, n int, _ *uint64) {
	t := o.(*v3.Transaction)
	t.Values = map[string]v3.PathValue{"/a": v3pv("/a", n, 0)}
}
func (a *v3txAPI) SetStatus(o any, n int, _ *uint64) {
	t := o.(*v3.Transaction)
	t.Status.Change.Ordinal = v3.Ordinal(n)
	t.Status.Change.Commit = &v3.TransactionPhaseStatus{State: v3.TransactionPhaseStatus_State(n % 6)}
}
func (a *v3txAPI) Create(ctx context.Context, o any) error {
	return a.s.Create(ctx, o.(*v3.Transaction))
}
func (a *v3txAPI) Update(ctx context.Context, o any) error {
	return a.s.Update(ctx, o.(*v3.Transaction))
}
func (a *v3txAPI) UpdateStatus(ctx context.Context, o any) error {
	return a.s.UpdateStatus(ctx, o.(*v3.Transaction))
}
func (a *v3txAPI) Get(ctx context.Context, key int, index uint64) (any, error) {
	t, err := a.s.Get(ctx, v3.TransactionID{Target: v3target(key), Index: v3.Index(index)})
	if err != nil {
		return nil, err
	}
	return t, nil
}
func (a *v3txAPI) GetAlt(ctx context.Context, key int, _ uint64) (any, error) {
	t, err := a.s.GetKey(ctx, v3target(key), keyName(key))
	if err != nil {
		return nil, err
	}
	return t, nil
}
func (a *v3txAPI) List(ctx context.Context) ([]any, error) {
	l, err := a.s.List(ctx)
	if err != nil {
		return nil, err
	}
	out := make([]any, len(l))
	for i := range l {
		t := l[i]
		out[i] = &t
	}
	return out, nil
}
func (a *v3txAPI) Close(ctx context.Context) error { return a.s.Close(ctx) }
func (a *v3txAPI) Clone(o any) any {
	b, err := o.(*v3.Transaction).Marshal()
	if err != nil {
		panic(err)
	}
	n := &v3.Transaction{}
	if err := n.Unmarshal(b); err != nil {
		panic(err)
	}
	return n
}
func (a *v3txAPI) View(o any) view {
	t := o.(*v3.Transaction)
	m := map[string]pval{}
	for k, pv := range t.Values {
		m[k] = pval{Val: string(pv.Value.Bytes), Idx: uint64(pv.Index)}
	}
	st := fmt.Sprintf("ordinal=%d", t.Status.Change.Ordinal)
	if t.Status.Change.Commit != nil {
		st += fmt.Sprintf(" commit=%d", t.Status.Change.Commit.State)
	}
	return view{Key: keyOf(t.Key), Version: t.Version, Revision: uint64(t.Revision), Index: uint64(t.ID.Index),
		Spec: fmt.Sprintf("target=%s values:%s", t.ID.Target.ID, canonVals(m)), Status: st}
}
func (a *v3txAPI) Watch(ctx context.Context, key int, index uint64, replay bool, w *watcher) error {
	var opts []txv3.WatchOption
	if key >= 0 {
		opts = append(opts, txv3.WithTransactionID(v3.TransactionID{Target: v3target(key), Index: v3.Index(index)}))
	}
	if replay {
		opts = append(opts, txv3.WithReplay())
	}
	ch := make(chan v3.TransactionEvent)
	if err := a.s.Watch(ctx, ch, opts...); err != nil {
		return err
	}
	go consume(ch, func(e v3.TransactionEvent) ev {
		return ev{Key: keyOf(e.Transaction.Key), Version: e.Transaction.Version, Replayed: e.Type == v3.TransactionEvent_REPLAYED, Type: e.Type.String()}
	}, w)
	return nil
}

// ---------------------------------------------------------------- v3 configuration

type v3cfgAPI struct{ s cfgv3.Store }

func v3cfgID(key int) v3.ConfigurationID {
	return v3.ConfigurationID{Target: v3.Target{ID: v3.TargetID(keyName(key)), Type: "ty", Version: "1"}}
}
func (a *v3cfgAPI) Kind() string   { return KindV3Cfg }
func (a *v3cfgAPI) HasIndex() bool { return false }
func (a *v3cfgAPI) IsConfig() bool { return true }
func (a *v3cfgAPI) LogOf(int) int  { return 0 }
func (a *v3cfgAPI) HasAlt() bool   { return false }
func (a *v3cfgAPI) New(key, n int, seq *uint64) any {
	c := &v3.Configuration{ID: v3cfgID(key)}
	a.SetSpec(c, n, seq)
	return c
}
func (a *v3cfgAPI) SetSpec(o any, n int, seq *uint64) {
	c := o.(*v3.Configuration)
	c.Committed.Index = v3.Index(n)
	c.Committed.Ordinal = v3.Ordinal(n + 1)
	if c.Committed.Values == nil {
		c.Committed.Values = map[string]v3.PathValue{}
	}
	*seq++
	p := paths[n%len(paths)]
	c.Committed.Values[p] = v3pv(p, n, *seq)
}
func (a *v3cfgAPI) SetStatus(o any, n int, seq *uint64) {
	c := o.(*v3.Configuration)
	c.Status.State = v3.ConfigurationStatus_State(n % 4)
	c.Applied.Index = v3.Index(n)
	c.Applied.Term = v3.MastershipTerm(n)
	if c.Applied.Values == nil {
		c.Applied.Values = map[string]v3.PathValue{}
	}
	*seq++
	p := paths[(n/2)%len(paths)]
	pv := v3pv(p, n, *seq)
	pv.Value.Bytes = []byte(fmt.Sprintf("applied%d", n))
	c.Applied.Values[p] = pv
}
func (a *v3cfgAPI) Create(ctx context.Context, o any) error {
	return a.s.Create(ctx, o.(*v3.Configuration))
}
func (a *v3cfgAPI) Update(ctx context.Context, o any) error {
	return a.s.Update(ctx, o.(*v3.Configuration))
}
func (a *v3cfgAPI) UpdateStatus(ctx context.Context, o any) error {
	return a.s.UpdateStatus(ctx, o.(*v3.Configuration))
}
func (a *v3cfgAPI) Get(ctx context.Context, key int, _ uint64) (any, error) {
	c, err := a.s.Get(ctx, v3cfgID(key))
	if err != nil {
		return nil, err
	}
	return c, nil
}
func (a *v3cfgAPI) GetAlt(context.Context, int, uint64) (any, error) { return nil, nil }
func (a *v3cfgAPI) List(ctx context.Context) ([]any, error) {
	l, err := a.s.List(ctx)
	if err != nil {
		return nil, err
	}
	out := make([]any, len(l))
	for i := range l {
		out[i] = l[i]
	}
	return out, nil
}
func (a *v3cfgAPI) Close(ctx context.Context) error { return a.s.Close(ctx) }
func (a *v3cfgAPI) Clone(o any) any {
	b, err := o.(*v3.Configuration).Marshal()
	if err != nil {
		panic(err)
	}
	n := &v3.Configuration{}
	if err := n.Unmarshal(b); err != nil {
		panic(err)
	}
	return n
}
func (a *v3cfgAPI) View(o any) view {
	c := o.(*v3.Configuration)
	v := view{Key: keyOf(string(c.ID.Target.ID)), Version: c.Version, Revision: uint64(c.Revision),
		Spec:   fmt.Sprintf("committed=%d ordinal=%d", c.Committed.Index, c.Committed.Ordinal),
		Status: fmt.Sprintf("state=%d applied=%d term=%d", c.Status.State, c.Applied.Index, c.Applied.Term),
		Vals:   map[string]pval{}, Applied: map[string]pval{}, ValsNil: c.Committed.Values == nil, ApplNil: c.Applied.Values == nil}
	for k, pv := range c.Committed.Values {
		v.Vals[k] = pval{Val: string(pv.Value.Bytes), Idx: uint64(pv.Index)}
	}
	for k, pv := range c.Applied.Values {
		v.Applied[k] = pval{Val: string(pv.Value.Bytes), Idx: uint64(pv.Index)}
	}
	return v
}
func (a *v3cfgAPI) Watch(ctx context.Context, key int, _ uint64, replay bool, w *watcher) error {
	var opts []cfgv3.WatchOption
	if key >= 0 {
		opts = append(opts, cfgv3.WithConfigurationID(v3cfgID(key)))
	}
	if replay {
		opts = append(opts, cfgv3.WithReplay())
	}
	ch := make(chan v3.ConfigurationEvent)
	if err := a.s.Watch(ctx, ch, opts...); err != nil {
		return err
	}
	go consume(ch, func(e v3.ConfigurationEvent) ev {
		return ev{Key: keyOf(string(e.Configuration.ID.Target.ID)), Version: e.Configuration.Version, Replayed: e.Type == v3.ConfigurationEvent_REPLAYED, Type: e.Type.String()}
	}, w)
	return nil
}

// trimV3 reduces the value map a v3 configuration write hands to the store to
// the one entry the write changed (the entry with the highest index). It
// returns true when entries were removed.
func trimV3(o any, kind string) bool {
	c, ok := o.(*v3.Configuration)
	if !ok {
		return false
	}
	m := c.Committed.Values
	if kind == "upstatus" {
		m = c.Applied.Values
	}
	if len(m) <= 1 {
		return false
	}
	best := ""
	for p, pv := range m {
		if best == "" || pv.Index > m[best].Index || (pv.Index == m[best].Index && p < best) {
			best = p
		}
	}
	for p := range m {
		if p != best {
			delete(m, p)
		}
	}
	return true
}

// stripValues removes the path value maps from a configuration object (mode B
// exercises the record's compare-and-set only).
func stripValues(o any) {
	switch c := o.(type) {
	case *v2.Configuration:
		c.Values, c.Status.Applied.Values = nil, nil
	case *v3.Configuration:
		c.Committed.Values, c.Applied.Values = nil, nil
	}
}
