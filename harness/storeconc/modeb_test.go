package storeconc

import (
	"context"
	"fmt"
	"sort"
	"strings"
	"sync"
	"sync/atomic"
	"testing"
	"time"

	"github.com/anishathalye/porcupine"
	"github.com/onosproject/onos-lib-go/pkg/errors"
	"pgregory.net/rapid"

	"verif/harness/vstat"
)

// Mode B: the same kinds of operations issued by real goroutines against one
// store; the recorded history (call/return stamps from a counter owned by the
// harness) must be linearizable with respect to a per-record versioned
// compare-and-set register. porcupine is the oracle only.

// POp is one operation of a client program.
type POp struct {
	T string `json:"t"` // create get update upstatus
	K int    `json:"k"`
	V int    `json:"v"`
}

// PCase is a set of client programs run in parallel against one store.
type PCase struct {
	Store string  `json:"store"`
	Keys  int     `json:"keys"`
	Progs [][]POp `json:"progs"`
}

func (c PCase) String() string {
	var b strings.Builder
	fmt.Fprintf(&b, "%s keys=%d", c.Store, c.Keys)
	for i, p := range c.Progs {
		fmt.Fprintf(&b, " | c%d:", i)
		for _, o := range p {
			fmt.Fprintf(&b, " %s(k%d,%d)", o.T, o.K, o.V)
		}
	}
	return b.String()
}

func genPCase(t *rapid.T) PCase {
	c := PCase{Store: rapid.SampledFrom(allKinds).Draw(t, "store")}
	c.Keys = rapid.IntRange(1, 2).Draw(t, "keys")
	n := rapid.IntRange(2, 4).Draw(t, "clients")
	payload := 0
	for i := 0; i < n; i++ {
		var prog []POp
		m := rapid.IntRange(3, 10).Draw(t, "len")
		for j := 0; j < m; j++ {
			payload++
			prog = append(prog, POp{
				T: rapid.SampledFrom([]string{"create", "get", "get", "update", "update", "upstatus", "upstatus"}).Draw(t, "op"),
				K: rapid.IntRange(0, c.Keys-1).Draw(t, "key"), V: payload})
		}
		c.Progs = append(c.Progs, prog)
	}
	return c
}

type regIn struct {
	Op      string // create get cas
	Key     int
	From    uint64
	Content string
	Client  int
}

type regOut struct {
	OK      bool
	Err     string // exists notfound conflict other:<text>
	Version uint64
	Content string
	Index   uint64
}

type regState struct {
	Exists  bool
	Version uint64
	Content string
}

var casModel = porcupine.Model{
	Partition: func(history []porcupine.Operation) [][]porcupine.Operation {
		by := map[int][]porcupine.Operation{}
		var keys []int
		for _, op := range history {
			k := op.Input.(regIn).Key
			if _, ok := by[k]; !ok {
				keys = append(keys, k)
			}
			by[k] = append(by[k], op)
		}
		sort.Ints(keys)
		out := make([][]porcupine.Operation, 0, len(keys))
		for _, k := range keys {
			out = append(out, by[k])
		}
		return out
	},
	Init: func() interface{} { return regState{} },
	Step: func(state, input, output interface{}) (bool, interface{}) {
		s, in, out := state.(regState), input.(regIn), output.(regOut)
		switch in.Op {
		case "create":
			if s.Exists {
				return !out.OK && out.Err == "exists", s
			}
			if !out.OK || out.Version == 0 {
				return false, s
			}
			return true, regState{Exists: true, Version: out.Version, Content: in.Content}
		case "get":
			if !s.Exists {
				return !out.OK && out.Err == "notfound", s
			}
			return out.OK && out.Version == s.Version && out.Content == s.Content, s
		case "cas":
			if s.Exists && s.Version == in.From {
				if !out.OK || out.Version <= s.Version {
					return false, s
				}
				return true, regState{Exists: true, Version: out.Version, Content: in.Content}
			}
			return !out.OK && out.Err == "conflict", s
		}
		return false, s
	},
	Equal: func(a, b interface{}) bool { return a.(regState) == b.(regState) },
	DescribeOperation: func(input, output interface{}) string {
		in, out := input.(regIn), output.(regOut)
		res := "ok v" + fmt.Sprint(out.Version)
		if !out.OK {
			res = out.Err
		}
		switch in.Op {
		case "get":
			return fmt.Sprintf("c%d get(k%d) -> %s %q", in.Client, in.Key, res, out.Content)
		case "create":
			return fmt.Sprintf("c%d create(k%d,%q) -> %s", in.Client, in.Key, in.Content, res)
		}
		return fmt.Sprintf("c%d cas(k%d from v%d,%q) -> %s", in.Client, in.Key, in.From, in.Content, res)
	},
}

func errClass(err error) string {
	switch {
	case err == nil:
		return ""
	case errors.IsAlreadyExists(err):
		return "exists"
	case errors.IsNotFound(err):
		return "notfound"
	case errors.IsConflict(err):
		return "conflict"
	}
	return "other:" + err.Error()
}

func runPCase(c PCase, x *vstat.Ctx) (err error) {
	if len(c.Progs) == 0 || c.Keys < 1 {
		return vstat.ErrSkip
	}
	x.Class("parallel:" + c.Store)
	x.Sample(c.String())
	base := Case{Store: c.Store, Clients: len(c.Progs), Keys: c.Keys}
	w, err := newWorld(base, x)
	if err != nil {
		return vstat.ErrSkip
	}
	defer w.teardown()
	defer func() {
		if err != nil {
			w.failed = true
		}
	}()
	a := w.a

	// one reading watcher of everything, subscribed before the clients start
	if err := w.doWatch(Op{C: 0, T: "watch"}); err != nil {
		return err
	}

	var clock atomic.Int64
	var mu sync.Mutex
	var hist []porcupine.Operation
	indexKnown := make([]atomic.Uint64, c.Keys) // log index of a record once some client learnt it (v3 Get needs it)
	record := func(cl int, in regIn, out regOut, call, ret int64) {
		mu.Lock()
		hist = append(hist, porcupine.Operation{ClientId: cl, Input: in, Call: call, Output: out, Return: ret})
		mu.Unlock()
	}
	content := func(v view) string { return v.Spec + " | " + v.Status }
	ctx, cancel := context.WithTimeout(context.Background(), 120*time.Second)
	defer cancel()
	var wg sync.WaitGroup
	start := make(chan struct{})
	for cl := range c.Progs {
		wg.Add(1)
		go func(cl int) {
			defer wg.Done()
			held := make([]any, c.Keys)
			<-start
			for _, op := range c.Progs[cl] {
				if op.K < 0 || op.K >= c.Keys {
					continue
				}
				switch op.T {
				case "create":
					var seq uint64
					obj := a.New(op.K, op.V, &seq)
					stripValues(obj)
					in := regIn{Op: "create", Key: op.K, Content: content(a.View(obj)), Client: cl}
					call := clock.Add(1)
					err := a.Create(ctx, obj)
					ret := clock.Add(1)
					out := regOut{OK: err == nil, Err: errClass(err)}
					if err == nil {
						v := a.View(obj)
						out.Version, out.Index = v.Version, v.Index
						indexKnown[op.K].Store(v.Index)
						held[op.K] = obj
					}
					record(cl, in, out, call, ret)
				case "get":
					idx := indexKnown[op.K].Load()
					if a.Kind() == KindV3Tx && idx == 0 {
						continue // a v3 transaction is addressed by its index: nothing to ask for yet
					}
					in := regIn{Op: "get", Key: op.K, Client: cl}
					call := clock.Add(1)
					obj, err := a.Get(ctx, op.K, idx)
					ret := clock.Add(1)
					out := regOut{OK: err == nil, Err: errClass(err)}
					if err == nil {
						v := a.View(obj)
						out.Version, out.Content, out.Index = v.Version, content(v), v.Index
						held[op.K] = obj
					}
					record(cl, in, out, call, ret)
				case "update", "upstatus":
					if held[op.K] == nil {
						continue
					}
					obj := a.Clone(held[op.K])
					from := a.View(obj).Version
					var seq uint64
					if op.T == "update" {
						a.SetSpec(obj, op.V, &seq)
					} else {
						a.SetStatus(obj, op.V, &seq)
					}
					stripValues(obj)
					in := regIn{Op: "cas", Key: op.K, From: from, Content: content(a.View(obj)), Client: cl}
					call := clock.Add(1)
					var err error
					if op.T == "update" {
						err = a.Update(ctx, obj)
					} else {
						err = a.UpdateStatus(ctx, obj)
					}
					ret := clock.Add(1)
					out := regOut{OK: err == nil, Err: errClass(err)}
					if err == nil {
						v := a.View(obj)
						out.Version, out.Index = v.Version, v.Index
						held[op.K] = obj
					}
					record(cl, in, out, call, ret)
				}
			}
		}(cl)
	}
	close(start)
	done := make(chan struct{})
	go func() { wg.Wait(); close(done) }()
	select {
	case <-done:
	case <-time.After(150 * time.Second):
		if p := stablyParked(); len(p) > 0 {
			return vstat.Violf("parallel clients did not finish; store goroutines parked in a channel send:\n%s", frames(p))
		}
		return vstat.ErrSkip
	}

	sort.Slice(hist, func(i, j int) bool { return hist[i].Call < hist[j].Call })
	for _, h := range hist {
		x.Logf("[%d,%d] %s", h.Call, h.Return, casModel.DescribeOperation(h.Input, h.Output))
	}

	// non-trivial: two clients attempted a write of one record from the same version
	from := map[[2]uint64]map[int]bool{}
	for _, h := range hist {
		in := h.Input.(regIn)
		if in.Op != "cas" {
			continue
		}
		k := [2]uint64{uint64(in.Key), in.From}
		if from[k] == nil {
			from[k] = map[int]bool{}
		}
		from[k][in.Client] = true
		if len(from[k]) >= 2 {
			x.NonTrivial("two clients wrote one key from the same version")
		}
	}

	// unexpected error classes are violations on their own (a call that ran into the deadline is no verdict)
	for _, h := range hist {
		if out := h.Output.(regOut); strings.HasPrefix(out.Err, "other:") {
			if ctx.Err() != nil || strings.Contains(out.Err, "deadline exceeded") || strings.Contains(out.Err, "context canceled") {
				x.Logf("inconclusive: %s", casModel.DescribeOperation(h.Input, h.Output))
				return vstat.ErrSkip
			}
			return vstat.Violf("store call failed with an error outside the documented classes: %s", casModel.DescribeOperation(h.Input, h.Output))
		}
	}

	res, info := porcupine.CheckOperationsVerbose(casModel, hist, 30*time.Second)
	_ = info
	switch res {
	case porcupine.Illegal:
		return vstat.Violf("the recorded history is not linearizable with respect to a per-record versioned compare-and-set register (%d operations)", len(hist))
	case porcupine.Unknown:
		x.Logf("porcupine timed out")
		return vstat.ErrSkip
	}

	// log indexes: unique per log, and ordered like the creates that did not overlap
	if a.HasIndex() {
		type cr struct {
			log        int
			idx        uint64
			call, retn int64
			key        int
		}
		var crs []cr
		for _, h := range hist {
			in, out := h.Input.(regIn), h.Output.(regOut)
			if in.Op == "create" && out.OK {
				crs = append(crs, cr{a.LogOf(in.Key), out.Index, h.Call, h.Return, in.Key})
			}
		}
		for i := range crs {
			for j := range crs {
				if i == j || crs[i].log != crs[j].log {
					continue
				}
				if crs[i].idx == crs[j].idx {
					return vstat.Violf("log index %d given to both %s and %s", crs[i].idx, keyName(crs[i].key), keyName(crs[j].key))
				}
				if crs[i].retn < crs[j].call && crs[i].idx >= crs[j].idx {
					return vstat.Violf("Create(%s) returned index %d before Create(%s) was called, which got the lower index %d", keyName(crs[i].key), crs[i].idx, keyName(crs[j].key), crs[j].idx)
				}
			}
		}
	}

	// the watcher must end up with the latest version of every record
	for k := 0; k < c.Keys; k++ {
		idx := indexKnown[k].Load()
		if a.Kind() == KindV3Tx && idx == 0 {
			continue
		}
		obj, err := a.Get(ctx, k, idx)
		if err != nil {
			if errors.IsNotFound(err) {
				continue
			}
			return vstat.Violf("final Get(%s) failed: %v", keyName(k), err)
		}
		v := a.View(obj)
		m := &w.keys[k]
		m.exists, m.version, m.revision, m.index, m.spec, m.status = true, v.Version, v.Revision, v.Index, v.Spec, v.Status
		m.vals, m.applied, m.shared = map[string]pval{}, map[string]pval{}, map[string]pval{}
		for _, wt := range w.ws {
			wt.mustSee[k] = true
		}
	}
	return w.syncAll("after the parallel clients finished")
}

// TestC15_ParallelCAS is mode B (thorough tier, built with -race by the driver).
func TestC15_ParallelCAS(t *testing.T) { vstat.Run(t, prop, genPCase, runPCase) }
