package storeconc

import (
	"context"
	"fmt"
	"os"
	"sort"
	"strings"
	"testing"
	"time"

	"github.com/onosproject/onos-lib-go/pkg/errors"
	"github.com/onosproject/onos-lib-go/pkg/logging"
	"pgregory.net/rapid"

	"verif/harness/vstat"
)

const prop = "C15"

// Finding ids (see checks.fragment.json / the report for triggers).
const (
	fPump      = "F-watch-pump-blocked"
	fDblClose  = "F-v3-tx-watch-double-close"
	fV3List    = "F-v3-tx-list-first-target-only"
	fAlias     = "F-config-applied-aliases-committed"
	fLeak      = "F-config-failed-write-leaks-values"
	fV3LoopVar = "F-v3-config-store-loopvar-alias"
	fEarly     = "F-watch-first-events-lost-multi-partition"
)

func TestMain(m *testing.M) {
	logging.SetLevel(logging.FatalLevel)
	os.Exit(m.Run())
}

// ---- case ---------------------------------------------------------------------

// Op is one operation of one logical client.
type Op struct {
	C    int    `json:"c"`              // client
	T    string `json:"t"`              // create get getalt list update upstatus watch pause resume cancel
	K    int    `json:"k,omitempty"`    // key
	V    int    `json:"v,omitempty"`    // payload
	W    int    `json:"w,omitempty"`    // watcher selector (among the client's watchers)
	One  bool   `json:"one,omitempty"`  // watch one key (else all)
	Rep  bool   `json:"rep,omitempty"`  // watch with replay
	Sync bool   `json:"sync,omitempty"` // wait for event delivery right after the op
}

// Case is a sequential interleaving of the operations of several clients of one store.
type Case struct {
	Store   string `json:"store"`
	Clients int    `json:"clients"`
	Keys    int    `json:"keys"`
	Ops     []Op   `json:"ops"`
}

func (o Op) String() string {
	s := fmt.Sprintf("c%d:%s", o.C, o.T)
	switch o.T {
	case "create", "update", "upstatus":
		s += fmt.Sprintf("(k%d,%d)", o.K, o.V)
	case "get", "getalt":
		s += fmt.Sprintf("(k%d)", o.K)
	case "watch":
		sc := "all"
		if o.One {
			sc = keyName(o.K)
		}
		if o.Rep {
			sc += ",replay"
		}
		s += "(" + sc + ")"
	case "pause", "resume", "cancel":
		s += fmt.Sprintf("(w%d)", o.W)
	case "stall":
		s += fmt.Sprintf("(%dms)", o.V)
	}
	if o.Sync {
		s += "!"
	}
	return s
}

func (c Case) String() string {
	parts := make([]string, len(c.Ops))
	for i, o := range c.Ops {
		parts[i] = o.String()
	}
	return fmt.Sprintf("%s clients=%d keys=%d: %s", c.Store, c.Clients, c.Keys, strings.Join(parts, " "))
}

// genCase builds a history with a light abstract state so that most operations
// are applicable; the runner tolerates any sequence (shrinking removes ops).
func genCase(kind string) func(t *rapid.T) Case {
	return func(t *rapid.T) Case {
		c := Case{Store: kind}
		c.Clients = rapid.IntRange(2, 4).Draw(t, "clients")
		c.Keys = rapid.IntRange(1, 3).Draw(t, "keys")
		n := rapid.IntRange(3, 30).Draw(t, "nops")
		created := make([]bool, c.Keys)
		holds := make([][]bool, c.Clients)
		for i := range holds {
			holds[i] = make([]bool, c.Keys)
		}
		nwatch := make([]int, c.Clients)
		payload := 0
		next := func() int { payload++; return payload }
		if stallMix(rapid.Uint64().Draw(t, "stalledcancel"))%80 == 0 {
			// a consumer that is slow for longer than a second of REAL time (a stalled client, a long pause) while
			// another watch of the same record is cancelled: the store's pump holds the cancelled watch's channel
			// when the cancel arrives and gets to it only after the stall
			k := rapid.IntRange(0, c.Keys-1).Draw(t, "stallkey")
			c.Ops = append(c.Ops, Op{C: 0, T: "create", K: k, V: next(), Sync: true},
				Op{C: 0, T: "watch", K: k, One: rapid.Bool().Draw(t, "slowone"), Rep: rapid.Bool().Draw(t, "slowreplay"), Sync: true},
				Op{C: 1, T: "watch", K: k, One: rapid.IntRange(0, 3).Draw(t, "cancelledone") != 0, Rep: rapid.Bool().Draw(t, "cancelledreplay"), Sync: true},
				// two writes: the slow watch's own goroutine takes the first event and waits for its consumer, the
				// store-wide pump then waits with the second one
				Op{C: 0, T: "pause", W: 0}, Op{C: 0, T: "get", K: k}, Op{C: 0, T: "upstatus", K: k, V: next()},
				Op{C: 0, T: "get", K: k}, Op{C: 0, T: "upstatus", K: k, V: next()},
				Op{C: 1, T: "cancel", W: 0}, Op{C: 1, T: "stall", V: 1200}, Op{C: 0, T: "resume", W: 0, Sync: true})
			created[k], holds[0][k] = true, true
			nwatch[0]++
			nwatch[1]++
		}
		for len(c.Ops) < n {
			cl := rapid.IntRange(0, c.Clients-1).Draw(t, "client")
			k := rapid.IntRange(0, c.Keys-1).Draw(t, "key")
			sync := rapid.IntRange(0, 2).Draw(t, "sync") == 0
			// weights: writes and reads dominate, watch management is frequent enough to matter
			kindOf := rapid.SampledFrom([]string{"create", "get", "get", "update", "update", "upstatus", "upstatus", "race",
				"list", "getalt", "watch", "watch", "pause", "resume", "cancel", "abandon"}).Draw(t, "op")
			switch kindOf {
			case "create":
				c.Ops = append(c.Ops, Op{C: cl, T: "create", K: k, V: next(), Sync: sync})
				if !created[k] {
					created[k] = true
					holds[cl][k] = true
				}
			case "get", "getalt":
				if !created[k] && rapid.IntRange(0, 3).Draw(t, "getmissing") != 0 {
					continue
				}
				c.Ops = append(c.Ops, Op{C: cl, T: kindOf, K: k})
				holds[cl][k] = holds[cl][k] || created[k]
			case "list":
				c.Ops = append(c.Ops, Op{C: cl, T: "list"})
				for i := range created {
					holds[cl][i] = holds[cl][i] || created[i]
				}
			case "update", "upstatus":
				if !holds[cl][k] {
					continue
				}
				c.Ops = append(c.Ops, Op{C: cl, T: kindOf, K: k, V: next(), Sync: sync})
			case "race":
				// the compare-and-set claim in one piece: two clients read the same version, both write
				if !created[k] {
					continue
				}
				other := (cl + 1 + rapid.IntRange(0, c.Clients-2).Draw(t, "other")) % c.Clients
				w1 := rapid.SampledFrom([]string{"update", "upstatus"}).Draw(t, "w1")
				w2 := rapid.SampledFrom([]string{"update", "upstatus"}).Draw(t, "w2")
				c.Ops = append(c.Ops, Op{C: cl, T: "get", K: k}, Op{C: other, T: "get", K: k},
					Op{C: cl, T: w1, K: k, V: next()}, Op{C: other, T: w2, K: k, V: next(), Sync: sync})
				holds[cl][k], holds[other][k] = true, true
			case "watch":
				c.Ops = append(c.Ops, Op{C: cl, T: "watch", K: k, One: rapid.Bool().Draw(t, "one"), Rep: rapid.Bool().Draw(t, "replay"), Sync: sync})
				nwatch[cl]++
			case "pause", "resume", "cancel":
				if nwatch[cl] == 0 {
					continue
				}
				c.Ops = append(c.Ops, Op{C: cl, T: kindOf, W: rapid.IntRange(0, nwatch[cl]-1).Draw(t, "w"), Sync: sync})
			case "abandon":
				// stop reading, let a write happen, cancel: the way a request handler leaves a watch behind
				if nwatch[cl] == 0 || !created[k] {
					continue
				}
				wi := rapid.IntRange(0, nwatch[cl]-1).Draw(t, "w")
				holder := -1
				for i := 0; i < c.Clients; i++ {
					if holds[(cl+i)%c.Clients][k] {
						holder = (cl + i) % c.Clients
						break
					}
				}
				if holder < 0 {
					continue
				}
				c.Ops = append(c.Ops, Op{C: cl, T: "pause", W: wi}, Op{C: holder, T: "get", K: k},
					Op{C: holder, T: "upstatus", K: k, V: next()}, Op{C: cl, T: "cancel", W: wi})
			}
		}
		return c
	}
}

// stallMix scrambles a drawn word (rapid prefers small integers, which would make a "1 in n" draw far more frequent).
func stallMix(z uint64) uint64 {
	z += 0x9e3779b97f4a7c15
	z = (z ^ (z >> 30)) * 0xbf58476d1ce4e5b9
	z = (z ^ (z >> 27)) * 0x94d049bb133111eb
	return z ^ (z >> 31)
}

// ---- reference model ----------------------------------------------------------

type keyModel struct {
	exists   bool
	version  uint64
	revision uint64
	index    uint64
	spec     string
	status   string
	vals     map[string]pval // configuration: committed values as a store with two maps keeps them
	applied  map[string]pval // configuration: applied values, ditto
	shared   map[string]pval // configuration: the single map the unchanged code keeps for both
	diverged bool            // vals != applied has been true at some point (aliasing observable)
}

func copyVals(m map[string]pval) map[string]pval {
	out := make(map[string]pval, len(m))
	for k, v := range m {
		out[k] = v
	}
	return out
}

// mergeIdx mirrors configurationStore.store for flat, undeleted values: a
// path is (re)written when absent or when its index differs.
func mergeIdx(cur, in map[string]pval) map[string]pval {
	out := copyVals(cur)
	for p, v := range in {
		if c, ok := out[p]; !ok || c.Idx != v.Idx {
			out[p] = v
		}
	}
	return out
}

type world struct {
	x      *vstat.Ctx
	c      Case
	a      api
	client *atomixClient
	keys   []keyModel
	last   map[int]uint64         // per log: highest index assigned
	used   map[int]map[uint64]int // per log: index -> key
	held   [][]any                // [client][key] snapshot as the client holds it
	ws     []*watcher
	byCl   [][]*watcher
	seq    uint64
	from   map[[2]uint64]map[int]bool // (key,version) -> clients that attempted a write from it
	writes int                        // successful writes so far
	// nontrivial bookkeeping
	cancelAt   []int // value of writes at each cancel
	listedPump bool
	listedDbl  bool
	listedLoop bool
	pumpDemo   map[string]bool // classes of abandoned watchers seen (for the known-finding demonstration)
	torn       bool
	failed     bool
	// keys for which a live event has reached some watcher through the store-wide pump (configuration stores)
	pumpConfirmed map[int]bool
	touched       map[int]bool // v3 transaction store: targets named in some call so far
}

func newWorld(c Case, x *vstat.Ctx) (*world, error) {
	markCaseStart()
	client := newAtomixClient()
	a, err := newAPI(c.Store, client)
	if err != nil {
		client.Close()
		return nil, err
	}
	w := &world{x: x, c: c, a: a, client: client, keys: make([]keyModel, c.Keys), last: map[int]uint64{}, used: map[int]map[uint64]int{},
		from: map[[2]uint64]map[int]bool{}, pumpDemo: map[string]bool{}, pumpConfirmed: map[int]bool{}, touched: map[int]bool{}}
	w.held = make([][]any, c.Clients)
	w.byCl = make([][]*watcher, c.Clients)
	for i := range w.held {
		w.held[i] = make([]any, c.Keys)
	}
	w.listedPump = vstat.IsListed(fPump)
	w.listedDbl = vstat.IsListed(fDblClose)
	w.listedLoop = vstat.IsListed(fV3LoopVar)
	return w, nil
}

const callBound = 20 * time.Second

// call runs one store call under a generous deadline; a store call that does
// not return is reported through the goroutine dump, never through the clock alone.
func (w *world) call(what string, f func(ctx context.Context) error) (error, error) {
	ctx, cancel := context.WithTimeout(context.Background(), callBound)
	defer cancel()
	done := make(chan error, 1)
	go func() { done <- f(ctx) }()
	select {
	case err := <-done:
		if err != nil && ctx.Err() != nil {
			// the generous deadline expired inside the call (overloaded machine): no verdict
			w.x.Logf("%s ran into the %v deadline: %v (inconclusive)", what, callBound, err)
			return nil, vstat.ErrSkip
		}
		return err, nil
	case <-time.After(callBound + 5*time.Second):
		if p := stablyParked(); len(p) > 0 {
			return nil, vstat.Violf("%s did not return within %v while store goroutines sit in a channel send:\n%s", what, callBound, frames(p))
		}
		w.x.Logf("%s did not return within %v (inconclusive)", what, callBound)
		return nil, vstat.ErrSkip
	}
}

func (w *world) validOp(o Op) bool {
	return o.C >= 0 && o.C < w.c.Clients && o.K >= 0 && o.K < w.c.Keys
}

// ---- content oracle -----------------------------------------------------------

// compare checks what the store returned for key k against the model.
// It returns "" when it matches the model exactly, "alias" when it matches
// only the single-map rendition of a configuration, or a description of the mismatch.
func (w *world) compare(got view, k int) string {
	m := &w.keys[k]
	if got.Key != k {
		return fmt.Sprintf("record of %s returned for %s", keyName(got.Key), keyName(k))
	}
	if got.Version != m.version {
		return fmt.Sprintf("version %d, model has %d", got.Version, m.version)
	}
	if got.Revision != m.revision {
		return fmt.Sprintf("revision %d, model has %d", got.Revision, m.revision)
	}
	if w.a.HasIndex() && got.Index != m.index {
		return fmt.Sprintf("index %d, model has %d", got.Index, m.index)
	}
	if got.Spec != m.spec {
		return fmt.Sprintf("spec %q, last successful write was %q", got.Spec, m.spec)
	}
	if got.Status != m.status {
		return fmt.Sprintf("status %q, last successful write was %q", got.Status, m.status)
	}
	if w.a.IsConfig() {
		gv, ga := canonVals(got.Vals), canonVals(got.Applied)
		if gv == canonVals(m.vals) && ga == canonVals(m.applied) {
			return ""
		}
		sh := canonVals(m.shared)
		if m.diverged && gv == sh && ga == sh {
			return "alias"
		}
		return fmt.Sprintf("values {%s} applied {%s}; written: values {%s} applied {%s} (as one shared map: {%s})", gv, ga, canonVals(m.vals), canonVals(m.applied), sh)
	}
	return ""
}

// verdict turns a comparison into nil / known finding / violation.
func (w *world) verdict(cmp string, k int, where string) error {
	switch cmp {
	case "":
		return nil
	case "alias":
		what := "applied values and committed values of a configuration live in one Atomix map: Get returns each side's writes in both"
		if vstat.IsKnown(prop, fAlias) {
			w.x.Known(fAlias, what)
			return nil
		}
		m := &w.keys[k]
		return vstat.Violf("%s [%s after %s]: %s: written values {%s}, written applied {%s}, Get returns {%s} for both", fAlias, keyName(k), where, what,
			canonVals(m.vals), canonVals(m.applied), canonVals(m.shared))
	}
	return vstat.Violf("%s after %s: store returned %s", keyName(k), where, cmp)
}

// readBack gets key k and compares with the model.
func (w *world) readBack(k int, where string) error {
	m := &w.keys[k]
	var o any
	err, bad := w.call("Get", func(ctx context.Context) (e error) { o, e = w.a.Get(ctx, k, m.index); return })
	if bad != nil {
		return bad
	}
	if err != nil {
		return vstat.Violf("%s after %s: Get failed: %v", keyName(k), where, err)
	}
	return w.verdict(w.compare(w.a.View(o), k), k, where)
}

// applyWritten moves the model to the state a successful write of object o
// (as handed to the store) leaves behind. in is the view of o before the call.
func (w *world) applyWritten(k int, in view, after view, kind string) {
	m := &w.keys[k]
	m.exists = true
	m.version = after.Version
	m.revision = after.Revision
	m.index = after.Index
	m.spec, m.status = in.Spec, in.Status
	if w.a.IsConfig() {
		w.absorbValues(k, in, kind)
	}
}

// absorbValues applies the value maps a write carried (the store persists them
// in separate maps before touching the record).
func (w *world) absorbValues(k int, in view, kind string) {
	m := &w.keys[k]
	if m.vals == nil {
		m.vals, m.applied, m.shared = map[string]pval{}, map[string]pval{}, map[string]pval{}
	}
	if kind == "upstatus" {
		if !in.ApplNil {
			m.applied = mergeIdx(m.applied, in.Applied)
			m.shared = mergeIdx(m.shared, in.Applied)
		}
	} else if !in.ValsNil {
		m.vals = mergeIdx(m.vals, in.Vals)
		m.shared = mergeIdx(m.shared, in.Vals)
		if kind == "update" && w.a.Kind() == KindV2Cfg {
			// v2 Update is given the COMPLETE set of committed values (its only caller writes back the map it
			// read): entries absent from it are removed (repair c11be0a of F-zombie-tombstone)
			for p := range m.vals {
				if _, ok := in.Vals[p]; !ok {
					delete(m.vals, p)
				}
			}
		}
	}
	if canonVals(m.vals) != canonVals(m.applied) {
		m.diverged = true
	}
}

// carriesNewValues tells whether a write carries a path value the store would persist.
func (w *world) carriesNewValues(k int, in view, kind string) bool {
	m := &w.keys[k]
	vals, isNil := in.Vals, in.ValsNil
	if kind == "upstatus" {
		vals, isNil = in.Applied, in.ApplNil
	}
	if isNil {
		return false
	}
	for p, v := range vals {
		if c, ok := m.shared[p]; !ok || c.Idx != v.Idx {
			return true
		}
	}
	return false
}

// ---- steps ----------------------------------------------------------------------

func (w *world) noteWrite(k int) {
	w.writes++
	for _, wt := range w.ws {
		if wt.cancelled || !wt.inScope(k) {
			continue
		}
		wt.mustSee[k] = true
		wt.pending++
	}
}

func (w *world) noteAttempt(cl, k int, fromVersion uint64) {
	key := [2]uint64{uint64(k), fromVersion}
	if w.from[key] == nil {
		w.from[key] = map[int]bool{}
	}
	w.from[key][cl] = true
	if len(w.from[key]) >= 2 {
		w.x.NonTrivial("two clients wrote one key from the same version")
	}
}

func (w *world) step(i int, o Op) error {
	if !w.validOp(o) {
		return nil
	}
	w.x.Logf("#%d %s", i, o)
	var err error
	switch o.T {
	case "create", "get", "getalt", "update", "upstatus":
		w.touched[w.a.LogOf(o.K)] = true
	}
	switch o.T {
	case "create":
		err = w.doCreate(o)
	case "get", "getalt":
		err = w.doGet(o)
	case "list":
		err = w.doList(o)
	case "update", "upstatus":
		err = w.doWrite(o)
	case "watch":
		err = w.doWatch(o)
	case "pause":
		err = w.doPause(o)
	case "resume":
		err = w.doResume(o)
	case "cancel":
		err = w.doCancel(o)
	case "stall":
		// real time passes while a consumer is not reading (at most 1.5 s per operation)
		if o.V > 0 && o.V <= 1500 {
			w.x.Class("watch:consumer-stalled-for-over-a-second")
			time.Sleep(time.Duration(o.V) * time.Millisecond)
		}
	}
	if err != nil {
		return err
	}
	if o.Sync {
		return w.syncAll(fmt.Sprintf("after #%d %s", i, o))
	}
	return nil
}

func (w *world) doCreate(o Op) error {
	k := o.K
	m := &w.keys[k]
	obj := w.a.New(k, o.V, &w.seq)
	in := w.a.View(obj)
	err, bad := w.call("Create", func(ctx context.Context) error { return w.a.Create(ctx, obj) })
	if bad != nil {
		return bad
	}
	if m.exists {
		w.x.Class("op:create-existing")
		if err == nil {
			return vstat.Violf("Create(%s) succeeded although the record exists (version %d)", keyName(k), m.version)
		}
		if !errors.IsAlreadyExists(err) {
			return vstat.Violf("Create(%s) of an existing record failed with %v, not with already-exists", keyName(k), err)
		}
		return w.afterFailedWrite(k, in, "create", fmt.Sprintf("refused Create(%s)", keyName(k)))
	}
	w.x.Class("op:create")
	if err != nil {
		return vstat.Violf("Create(%s) of a new record failed: %v", keyName(k), err)
	}
	after := w.a.View(obj)
	if after.Version == 0 || after.Revision != 1 {
		return vstat.Violf("Create(%s) returned version %d revision %d", keyName(k), after.Version, after.Revision)
	}
	if w.a.HasIndex() {
		lg := w.a.LogOf(k)
		if after.Index <= w.last[lg] {
			return vstat.Violf("Create(%s) was given log index %d, not above the highest index %d handed out before", keyName(k), after.Index, w.last[lg])
		}
		if w.used[lg] == nil {
			w.used[lg] = map[uint64]int{}
		}
		if prev, ok := w.used[lg][after.Index]; ok {
			return vstat.Violf("Create(%s) reuses log index %d of %s", keyName(k), after.Index, keyName(prev))
		}
		w.used[lg][after.Index] = k
		w.last[lg] = after.Index
	}
	w.applyWritten(k, in, after, "create")
	w.held[o.C][k] = obj
	w.noteWrite(k)
	return w.readBack(k, fmt.Sprintf("Create(%s)", keyName(k)))
}

// afterFailedWrite checks that a refused write changed nothing.
func (w *world) afterFailedWrite(k int, in view, kind, where string) error {
	m := &w.keys[k]
	var o any
	err, bad := w.call("Get", func(ctx context.Context) (e error) { o, e = w.a.Get(ctx, k, m.index); return })
	if bad != nil {
		return bad
	}
	if err != nil {
		return vstat.Violf("%s after %s: Get failed: %v", keyName(k), where, err)
	}
	got := w.a.View(o)
	cmp := w.compare(got, k)
	if cmp == "" || cmp == "alias" {
		return w.verdict(cmp, k, where)
	}
	if w.a.IsConfig() && w.carriesNewValues(k, in, kind) {
		// trigger of fLeak: a refused configuration write that carried path values
		saved := *m
		w.absorbValues(k, in, kind)
		cmp2 := w.compare(got, k)
		if cmp2 == "" || cmp2 == "alias" {
			what := "a configuration write refused with Conflict/AlreadyExists has already persisted the path values it carried"
			if vstat.IsKnown(prop, fLeak) {
				w.x.Known(fLeak, what)
				return w.verdict(cmp2, k, where)
			}
			return vstat.Violf("%s [%s]: %s: record unchanged (version %d) but values went from {%s} to {%s}", fLeak, where, what, m.version,
				canonVals(saved.shared), canonVals(m.shared))
		}
		*m = saved
		return vstat.Violf("%s after %s: store returned %s; not explained by the refused write's own values {%s} (nil=%v) either (%s)", keyName(k), where, cmp, canonVals(in.Vals), in.ValsNil, cmp2)
	}
	return vstat.Violf("%s after %s: store returned %s", keyName(k), where, cmp)
}

func (w *world) doGet(o Op) error {
	k := o.K
	m := &w.keys[k]
	alt := o.T == "getalt"
	if alt && !w.a.HasAlt() {
		alt = false
	}
	idx := m.index
	if !m.exists && w.a.HasIndex() {
		idx = w.last[w.a.LogOf(k)] + 1 // an index nobody was given yet
	}
	var obj any
	name := "Get"
	if alt {
		name = "GetByIndex/GetKey"
	}
	err, bad := w.call(name, func(ctx context.Context) (e error) {
		if alt {
			obj, e = w.a.GetAlt(ctx, k, idx)
		} else {
			obj, e = w.a.Get(ctx, k, idx)
		}
		return
	})
	if bad != nil {
		return bad
	}
	if !m.exists {
		w.x.Class("op:get-missing")
		if err == nil {
			return vstat.Violf("%s(%s) returned a record (%+v) that was never created", name, keyName(k), w.a.View(obj))
		}
		if !errors.IsNotFound(err) {
			return vstat.Violf("%s(%s) of a missing record failed with %v, not with not-found", name, keyName(k), err)
		}
		return nil
	}
	w.x.Class("op:get")
	if err != nil {
		return vstat.Violf("%s(%s) failed: %v", name, keyName(k), err)
	}
	if e := w.verdict(w.compare(w.a.View(obj), k), k, name); e != nil {
		return e
	}
	w.held[o.C][k] = obj
	return nil
}

func (w *world) doList(o Op) error {
	var objs []any
	err, bad := w.call("List", func(ctx context.Context) (e error) { objs, e = w.a.List(ctx); return })
	if bad != nil {
		return bad
	}
	if err != nil {
		return vstat.Violf("List failed: %v", err)
	}
	w.x.Class("op:list")
	seen := map[int]bool{}
	for _, obj := range objs {
		v := w.a.View(obj)
		if v.Key < 0 || v.Key >= w.c.Keys || !w.keys[v.Key].exists {
			return vstat.Violf("List returned a record that was never created: %+v", v)
		}
		if seen[v.Key] {
			return vstat.Violf("List returned %s twice", keyName(v.Key))
		}
		seen[v.Key] = true
		if e := w.verdict(w.compare(v, v.Key), v.Key, "List"); e != nil {
			return e
		}
		w.held[o.C][v.Key] = obj
	}
	var missing []string
	logs := map[int]bool{}
	seenLogs := map[int]bool{}
	for k := range w.keys {
		if !w.keys[k].exists {
			continue
		}
		logs[w.a.LogOf(k)] = true
		if seen[k] {
			seenLogs[w.a.LogOf(k)] = true
		} else {
			missing = append(missing, keyName(k))
		}
	}
	if len(missing) == 0 {
		return nil
	}
	// trigger of fV3List: the v3 transaction store knows two targets (any call naming a target registers it)
	// and what was listed is exactly the content of one target's log (possibly an empty one)
	_, _ = logs, seenLogs
	if w.c.Store == KindV3Tx && len(w.touched) >= 2 {
		complete := false
		for lg := range w.touched {
			same := true
			for k := range w.keys {
				if w.keys[k].exists && (w.a.LogOf(k) == lg) != seen[k] {
					same = false
				}
			}
			complete = complete || same
		}
		if complete {
			// The v3 transaction List returns after the first target's log. C15's
			// statement speaks of updates, versions, indexes and watchers, not of
			// List, so this is recorded as an observation (DESIGN.md), never reported.
			w.x.Class("observation:v3-tx-list-returns-first-target-only")
			return nil
		}
	}
	return vstat.Violf("List lost records: missing %v", missing)
}

func (w *world) doWrite(o Op) error {
	k := o.K
	heldObj := w.held[o.C][k]
	if heldObj == nil {
		w.x.Class("op:noop")
		return nil
	}
	m := &w.keys[k]
	obj := w.a.Clone(heldObj)
	before := w.a.View(obj)
	if o.T == "update" {
		w.a.SetSpec(obj, o.V, &w.seq)
	} else {
		w.a.SetStatus(obj, o.V, &w.seq)
	}
	if w.c.Store == KindV3Cfg && w.listedLoop && trimV3(obj, o.T) {
		w.x.Excluded(fV3LoopVar)
	}
	in := w.a.View(obj)
	w.noteAttempt(o.C, k, before.Version)
	name := "Update"
	if o.T == "upstatus" {
		name = "UpdateStatus"
	}
	err, bad := w.call(name, func(ctx context.Context) error {
		if o.T == "update" {
			return w.a.Update(ctx, obj)
		}
		return w.a.UpdateStatus(ctx, obj)
	})
	if bad != nil {
		return bad
	}
	where := fmt.Sprintf("%s(%s from version %d) by client %d", name, keyName(k), before.Version, o.C)
	if before.Version != m.version {
		w.x.Class("op:" + o.T + "-stale")
		if err == nil {
			return vstat.Violf("%s succeeded although the record is at version %d: an update was lost", where, m.version)
		}
		if !errors.IsConflict(err) {
			return vstat.Violf("%s failed with %v, not with a conflict", where, err)
		}
		return w.afterFailedWrite(k, in, o.T, "refused "+where)
	}
	w.x.Class("op:" + o.T + "-current")
	if err != nil {
		return vstat.Violf("%s failed although %d is the current version: %v", where, m.version, err)
	}
	after := w.a.View(obj)
	if after.Version <= m.version {
		return vstat.Violf("%s: version went from %d to %d", where, m.version, after.Version)
	}
	wantRev := before.Revision
	if o.T == "update" {
		wantRev++
	}
	if after.Revision != wantRev || after.Revision < m.revision {
		return vstat.Violf("%s: revision %d (snapshot had %d, record had %d)", where, after.Revision, before.Revision, m.revision)
	}
	if w.a.HasIndex() && after.Index != m.index {
		return vstat.Violf("%s: log index changed from %d to %d", where, m.index, after.Index)
	}
	w.applyWritten(k, in, after, o.T)
	w.held[o.C][k] = obj
	w.noteWrite(k)
	return w.readBack(k, where)
}

// ---- watch management ---------------------------------------------------------------

func (w *world) pick(cl, sel int) *watcher {
	l := w.byCl[cl]
	if len(l) == 0 {
		return nil
	}
	if sel < 0 {
		sel = -sel
	}
	return l[sel%len(l)]
}

func (w *world) doWatch(o Op) error {
	key := -1
	var index uint64
	if o.One {
		key = o.K
		if w.c.Store == KindV3Tx {
			// a v3 transaction is addressed by target and index: only an existing one can be watched by id
			if !w.keys[o.K].exists {
				key = -1
			} else {
				index = w.keys[o.K].index
			}
		}
	}
	wt := newWatcher(len(w.ws), o.C, key, o.Rep)
	err, bad := w.call("Watch", func(ctx context.Context) error { return w.a.Watch(wt.ctx, key, index, o.Rep, wt) })
	if bad != nil {
		return bad
	}
	if err != nil {
		return vstat.Violf("Watch failed: %v", err)
	}
	sc := "all"
	if key >= 0 {
		sc = "one"
	}
	if o.Rep {
		sc += "+replay"
		for k := range w.keys {
			if w.keys[k].exists && wt.inScope(k) {
				wt.mustSee[k] = true
				wt.replayKeys = append(wt.replayKeys, k)
			}
		}
	}
	w.x.Class("watch:" + sc)
	w.ws = append(w.ws, wt)
	w.byCl[o.C] = append(w.byCl[o.C], wt)
	return nil
}

func (w *world) backPressure() bool {
	for _, wt := range w.ws {
		if wt.paused && !wt.cancelled {
			return true
		}
	}
	return false
}

func (w *world) doPause(o Op) error {
	wt := w.pick(o.C, o.W)
	if wt == nil || wt.paused || wt.cancelled {
		return nil
	}
	// bring everybody up to date first so that "an event was in flight when the
	// watcher was abandoned" is a fact of the history, not of timing
	if err := w.syncAll("before pause"); err != nil {
		return err
	}
	wt.pause()
	wt.paused = true
	w.x.Class("watch:paused")
	return nil
}

func (w *world) doResume(o Op) error {
	wt := w.pick(o.C, o.W)
	if wt == nil || !wt.paused {
		return nil
	}
	wt.resume()
	wt.paused = false
	wt.abandoned = false
	return nil
}

func (w *world) doCancel(o Op) error {
	wt := w.pick(o.C, o.W)
	if wt == nil || wt.cancelled || wt.notCancelable {
		return nil
	}
	if w.c.Store == KindV3Tx {
		verdict, detail := v3DoubleCloseVerdict()
		switch {
		case w.listedDbl:
			// listed: never cancel a v3 transaction watch in this process
			wt.notCancelable = true
			w.x.Excluded(fDblClose)
			if wt.paused && wt.pending > 0 {
				w.x.Class("watch:abandoned-with-event-in-flight")
				w.x.Excluded(fPump)
				if wt.key >= 0 {
					w.pumpDemo["one"] = true
				} else {
					w.pumpDemo["all"] = true
				}
			}
			if verdict == "panics" && vstat.IsKnown(prop, fDblClose) {
				w.x.Known(fDblClose, "cancelling a v3 transaction watch closes the caller's channel twice: the store goroutine panics and takes the process down")
			}
			return nil
		case verdict == "panics":
			return vstat.Violf("%s: cancelling the context of a v3 transaction Watch kills the process (child process running watch+cancel died):\n%s", fDblClose, detail)
		case verdict != "clean":
			w.x.Logf("child process verdict %q: %s", verdict, detail)
			return vstat.ErrSkip
		}
	}
	if !wt.paused && !w.backPressure() {
		if err := w.syncAll("before cancel"); err != nil {
			return err
		}
	}
	if !wt.replayDone() && w.c.Store != KindV2Prop {
		// second trigger of fPump: the per-watch goroutine leaves the replay phase on cancellation without
		// anybody left to receive what the store-wide pump may already be sending to it
		w.x.Class("watch:cancelled-before-replay-observed")
		if w.listedPump {
			w.x.Excluded(fPump)
			wt.notCancelable = true
			return nil
		}
		wt.midReplay = true
	}
	wt.cancel()
	wt.cancelled = true
	w.cancelAt = append(w.cancelAt, w.writes)
	cls := "all"
	if wt.key >= 0 {
		cls = "one"
	}
	if wt.paused {
		w.x.Class("watch:cancelled-while-not-reading")
		if wt.pending > 0 {
			w.x.Class("watch:abandoned-with-event-in-flight")
			w.pumpDemo[cls] = true
		}
		if w.listedPump {
			// listed finding: the harness drains the abandoned channel so the pump survives
			if wt.pending > 0 {
				w.x.Excluded(fPump)
			}
			wt.resume()
			wt.paused = false
		} else {
			wt.abandoned = true
		}
	} else {
		w.x.Class("watch:cancelled-while-reading")
	}
	return nil
}

// ---- delivery oracle ------------------------------------------------------------

// checkOrder verifies that the live events of one key reach a watcher with non-decreasing versions.
func (w *world) checkOrder(wt *watcher) error {
	evs := wt.snapshot()
	lastLive := map[int]uint64{}
	for i, e := range evs {
		if e.Key < 0 || e.Key >= w.c.Keys {
			return vstat.Violf("watcher w%d received an event for an unknown record: %+v", wt.id, e)
		}
		if !wt.inScope(e.Key) {
			return vstat.Violf("watcher w%d of %s received an event of %s: %+v", wt.id, keyName(wt.key), keyName(e.Key), e)
		}
		if e.Replayed {
			continue
		}
		if e.Version < lastLive[e.Key] {
			return vstat.Violf("watcher w%d: event #%d of %s carries version %d after version %d", wt.id, i, keyName(e.Key), e.Version, lastLive[e.Key])
		}
		lastLive[e.Key] = e.Version
	}
	return nil
}

// syncAll waits until every live, reading watcher has been shown the latest
// version of every record it must have been shown.
func (w *world) syncAll(where string) error {
	if w.backPressure() {
		// a consumer that is not reading and has not cancelled holds the others back by design
		w.x.Class("sync:skipped(back-pressure)")
		return nil
	}
	for _, wt := range w.ws {
		if wt.cancelled || wt.paused {
			continue
		}
		keys := make([]int, 0, len(wt.mustSee))
		for k := range wt.mustSee {
			keys = append(keys, k)
		}
		sort.Ints(keys)
		for _, k := range keys {
			want := w.keys[k].version
			if w.waitDelivered(wt, k, func() bool { return wt.lastVersion(k) == want }) {
				continue
			}
			if err := w.diagnose(wt, k, want, where); err != nil {
				return err
			}
		}
		wt.pending = 0
		w.noteConfirmed(wt)
		if err := w.checkOrder(wt); err != nil {
			return err
		}
	}
	return nil
}

func (w *world) describeWatcher(wt *watcher) string {
	sc := "all records"
	if wt.key >= 0 {
		sc = keyName(wt.key)
	}
	r := ""
	if wt.replay {
		r = " with replay"
	}
	return fmt.Sprintf("w%d (client %d, %s%s)", wt.id, wt.client, sc, r)
}

// waitDelivered waits for an event. What makes a missing event a violation is
// never the length of this wait (see diagnose: a parked pump, or a later event
// of the same record overtaking the missing one), so the wait before the
// diagnosis can be moderate: one second, a quarter of a second while the
// subscription is still inside the window of fEarly. With an abandoned
// watcher in the history it ends as soon as the same store-wide pump sits in a
// channel send in three goroutine dumps in a row (keeps shrinking fast).
func (w *world) waitDelivered(wt *watcher, k int, cond func() bool) bool {
	if waitFor(20*time.Millisecond, cond) {
		return true
	}
	bound := time.Second
	if w.earlyWindow(wt, k) {
		bound = 250 * time.Millisecond
	}
	abandoned := false
	for _, o := range w.ws {
		abandoned = abandoned || o.abandoned || o.midReplay
	}
	if !abandoned {
		return waitFor(bound, cond)
	}
	streak := map[string]int{}
	deadline := time.Now().Add(bound)
	for time.Now().Before(deadline) {
		if waitFor(100*time.Millisecond, cond) {
			return true
		}
		cur := map[string]int{}
		for _, g := range pumpsOf(values(parkedInStore(dumpGoroutines()))) {
			cur[g.id] = streak[g.id] + 1
			if cur[g.id] >= 3 {
				return cond()
			}
		}
		streak = cur
	}
	return cond()
}

func values(m map[string]gInfo) []gInfo {
	out := make([]gInfo, 0, len(m))
	for _, g := range m {
		out = append(out, g)
	}
	return out
}

// noteConfirmed records for which records live events have demonstrably
// started to flow (see fEarly).
func (w *world) noteConfirmed(wt *watcher) {
	for _, e := range wt.snapshot() {
		if e.Replayed || e.Key < 0 || e.Key >= w.c.Keys {
			continue
		}
		wt.confirmed[e.Key] = true
		w.pumpConfirmed[e.Key] = true
	}
}

// earlyWindow tells whether a lost event falls into the window in which the
// Atomix map client has returned from Events() although not every partition
// has registered the listener yet (it returns on the first partition's
// acknowledgement): the proposal store subscribes per Watch call, the
// configuration stores once when the store is opened. The transaction logs are
// single-partition primitives and have no such window.
func (w *world) earlyWindow(wt *watcher, k int) bool {
	for _, e := range wt.snapshot() {
		if !e.Replayed && e.Key >= 0 && e.Key < w.c.Keys {
			wt.confirmed[e.Key] = true
		}
	}
	switch w.c.Store {
	case KindV2Prop:
		return !wt.confirmed[k]
	case KindV2Cfg, KindV3Cfg:
		for _, o := range w.ws {
			for _, e := range o.snapshot() {
				if !e.Replayed && e.Key == k {
					w.pumpConfirmed[k] = true
				}
			}
		}
		return !w.pumpConfirmed[k]
	}
	return false
}

// diagnose decides what a missing event means. Only two observations make a
// violation: a store goroutine parked for good in a channel send, or a later
// live event for the same record overtaking the missing one.
func (w *world) diagnose(wt *watcher, k int, want uint64, where string) error {
	got := wt.lastVersion(k)
	w.x.Logf("%s: %s has version %d of %s as its last event, the record is at %d; events: %+v", where, w.describeWatcher(wt), got, keyName(k), want, wt.snapshot())
	if p := pumpsOf(stablyParked()); len(p) > 0 {
		return w.pumpVerdict(wt, k, want, where, p)
	}
	earlyLoss := w.earlyWindow(wt, k)
	// marker: one more write of the same record; events of one record travel FIFO
	m := &w.keys[k]
	var o any
	err, bad := w.call("Get", func(ctx context.Context) (e error) { o, e = w.a.Get(ctx, k, m.index); return })
	if bad != nil || err != nil {
		return vstat.ErrSkip
	}
	w.a.SetStatus(o, 9000+int(w.seq%1000), &w.seq)
	if w.c.Store == KindV3Cfg && w.listedLoop {
		trimV3(o, "upstatus")
	}
	in := w.a.View(o)
	err, bad = w.call("UpdateStatus", func(ctx context.Context) error { return w.a.UpdateStatus(ctx, o) })
	if bad != nil || err != nil {
		return vstat.ErrSkip
	}
	after := w.a.View(o)
	w.applyWritten(k, in, after, "upstatus")
	w.noteWrite(k)
	if !waitFor(waitBound, func() bool { return wt.lastVersion(k) == after.Version }) {
		if p := pumpsOf(stablyParked()); len(p) > 0 {
			return w.pumpVerdict(wt, k, want, where, p)
		}
		w.x.Logf("marker write (version %d) not delivered either: inconclusive (slow)", after.Version)
		return vstat.ErrSkip
	}
	sawWanted, markerLive := false, false
	for _, e := range wt.snapshot() {
		if e.Key != k {
			continue
		}
		if e.Version == want || (e.Replayed && e.Version >= want) {
			sawWanted = true
		}
		if e.Version == after.Version && !e.Replayed {
			markerLive = true
		}
	}
	if !sawWanted && markerLive && earlyLoss {
		what := "the first event(s) after a subscription are lost: the Atomix map client returns from Events() on the first partition's acknowledgement, writes to records of the other partitions made right after Watch (proposal store) or right after the store was opened (configuration stores) are never delivered"
		if vstat.IsKnown(prop, fEarly) {
			w.x.Known(fEarly, what)
			return nil
		}
		return vstat.Violf("%s: %s: %s was never shown version %d of %s, a later write (version %d) was delivered. events: %+v", fEarly, what, w.describeWatcher(wt), want, keyName(k), after.Version, wt.snapshot())
	}
	if !sawWanted && markerLive {
		return vstat.Violf("%s: %s was never shown version %d of %s (the latest state for as long as the history lasted): a later write (version %d) was delivered, the missing event can no longer arrive. events: %+v",
			where, w.describeWatcher(wt), want, keyName(k), after.Version, wt.snapshot())
	}
	w.x.Logf("event arrived late: inconclusive (slow)")
	return vstat.ErrSkip
}

func (w *world) pumpVerdict(wt *watcher, k int, want uint64, where string, parked []gInfo) error {
	var culprits []string
	for _, o := range w.ws {
		if o.abandoned {
			culprits = append(culprits, w.describeWatcher(o)+" cancelled while not reading")
		} else if o.midReplay {
			culprits = append(culprits, w.describeWatcher(o)+" cancelled during its replay phase")
		}
	}
	msg := fmt.Sprintf("%s: %s is never shown version %d of %s: store goroutines are parked for good in a channel send\n%sall store goroutines:\n%s", where, w.describeWatcher(wt), want, keyName(k), frames(parked), storeGoroutines())
	if len(culprits) > 0 {
		return vstat.Violf("%s: the per-watch goroutine honours cancellation only in its main select (%s): cancelled while blocked in `ch <- event`, or leaving the replay phase without a receiver for its internal channel, it leaves the store-wide pump blocked for good and no watcher of the store receives anything any more. %s",
			fPump, strings.Join(culprits, ", "), msg)
	}
	return vstat.Violf("%s", msg)
}

// quiesce is the end of every history: every paused consumer reads again,
// a fresh watcher and a fresh round of writes prove that the store still
// serves writers and watchers, every reading watcher holds the latest state,
// every cancelled channel is closed.
func (w *world) quiesce() error {
	for _, wt := range w.ws {
		if wt.paused && !wt.cancelled {
			wt.resume()
			wt.paused = false
		}
	}
	if err := w.syncAll("at quiescence"); err != nil {
		return err
	}
	// liveness probe: "cancelling a watch never disturbs the store or other watchers"
	probeClient := 0
	if err := w.doWatch(Op{C: probeClient, T: "watch"}); err != nil {
		return err
	}
	for k := range w.keys {
		if !w.keys[k].exists {
			continue
		}
		if err := w.doGet(Op{C: probeClient, T: "get", K: k}); err != nil {
			return err
		}
		w.seq++
		if err := w.doWrite(Op{C: probeClient, T: "upstatus", K: k, V: 5000 + int(w.seq%1000)}); err != nil {
			return err
		}
	}
	if err := w.syncAll("after the final round of writes"); err != nil {
		return err
	}
	for _, at := range w.cancelAt {
		if w.writes > at {
			w.x.NonTrivial("a watcher was cancelled or abandoned while writes continued")
			break
		}
	}
	// abandoned watchers: now read what is left; every cancelled channel must end up closed
	for _, wt := range w.ws {
		if wt.cancelled && wt.paused {
			wt.resume()
			wt.paused = false
		}
	}
	for _, wt := range w.ws {
		if !wt.cancelled {
			continue
		}
		if w.c.Store == KindV2Prop {
			// the proposal store stops delivering on cancel but never closes the channel (nothing in the statement asks for it)
			w.x.Class("watch:proposal-channel-left-open")
			continue
		}
		if !waitFor(waitBound, wt.isClosed) {
			if p := stablyParked(); len(p) > 0 {
				return vstat.Violf("cancelled watcher %s: channel never closed, store goroutines parked in a channel send:\n%s", w.describeWatcher(wt), frames(p))
			}
			w.x.Logf("cancelled watcher %s: channel not closed within the bound (inconclusive)", w.describeWatcher(wt))
			return vstat.ErrSkip
		}
		if err := w.checkOrder(wt); err != nil {
			return err
		}
	}
	return nil
}

func (w *world) teardown() {
	if w.torn {
		return
	}
	w.torn = true
	canCancel := w.c.Store != KindV3Tx || (!w.listedDbl && v3DoubleCloseMemo() == "clean")
	if canCancel {
		for _, wt := range w.ws {
			wt.cancel()
		}
		if w.c.Store != KindV2Prop {
			for _, wt := range w.ws {
				if !wt.paused {
					waitFor(200*time.Millisecond, func() bool {
						select {
						case <-wt.done:
							return true
						default:
							return false
						}
					})
				}
			}
		}
	}
	for _, wt := range w.ws {
		wt.stop()
	}
	{
		// v3 transaction Close never returns once a log was opened (WaitGroup.Add without Done); it still
		// closes the logs in the background, so it is started and given a moment
		bound := 3 * time.Second
		if w.c.Store == KindV3Tx {
			bound = 20 * time.Millisecond
		}
		ctx, cancel := context.WithTimeout(context.Background(), 2*time.Second)
		done := make(chan struct{})
		go func() { _ = w.a.Close(ctx); close(done) }()
		select {
		case <-done:
			cancel()
		case <-time.After(bound):
			time.AfterFunc(2*time.Second, cancel)
		}
	}
	w.client.Close()
	if w.failed {
		// a failing case may leave store goroutines parked
		forgetParked()
	}
}

// ---- run -------------------------------------------------------------------------

func runCase(c Case, x *vstat.Ctx) error {
	if c.Clients < 1 || c.Keys < 1 {
		return vstat.ErrSkip
	}
	x.Class("store:" + c.Store)
	x.Sample(c.String())
	w, err := newWorld(c, x)
	if err != nil {
		x.Logf("cannot open the store: %v", err)
		return vstat.ErrSkip
	}
	defer w.teardown()
	for i, o := range c.Ops {
		if err := w.step(i, o); err != nil {
			w.failed = true
			return err
		}
	}
	if err := w.quiesce(); err != nil {
		w.failed = true
		return err
	}
	w.teardown()
	if c.Store == KindV3Cfg && w.listedLoop && vstat.IsKnown(prop, fV3LoopVar) {
		if reproduced, detail := loopVarDemo(); reproduced {
			x.Known(fV3LoopVar, detail)
		}
	}
	// listed pump finding: demonstrate it once per watcher class in a separate store
	if w.listedPump && vstat.IsKnown(prop, fPump) {
		classes := make([]string, 0, len(w.pumpDemo))
		for cls := range w.pumpDemo {
			classes = append(classes, cls)
		}
		sort.Strings(classes)
		for _, cls := range classes {
			if reproduced, detail := pumpDemo(c.Store, cls == "one"); reproduced {
				x.Known(fPump, detail)
			}
		}
	}
	return nil
}

func TestC15_V2Transaction(t *testing.T)   { vstat.Run(t, prop, genCase(KindV2Tx), runCase) }
func TestC15_V2Proposal(t *testing.T)      { vstat.Run(t, prop, genCase(KindV2Prop), runCase) }
func TestC15_V2Configuration(t *testing.T) { vstat.Run(t, prop, genCase(KindV2Cfg), runCase) }
func TestC15_V3Transaction(t *testing.T)   { vstat.Run(t, prop, genCase(KindV3Tx), runCase) }
func TestC15_V3Configuration(t *testing.T) { vstat.Run(t, prop, genCase(KindV3Cfg), runCase) }
