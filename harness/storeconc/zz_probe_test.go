package storeconc

import (
	"context"
	"fmt"
	"os"
	"testing"
	"time"

	"github.com/atomix/go-sdk/pkg/test"
	"github.com/onosproject/onos-lib-go/pkg/errors"
	"github.com/onosproject/onos-lib-go/pkg/logging"
)

func TestProbe(t *testing.T) {
	if os.Getenv("C15_PROBE") == "" {
		t.Skip()
	}
	logging.SetLevel(logging.FatalLevel)
	for _, kind := range allKinds {
		if k := os.Getenv("C15_PROBE_KIND"); k != "" && k != kind {
			continue
		}
		t0 := time.Now()
		client := test.NewClient()
		a, err := newAPI(kind, client)
		if err != nil {
			t.Fatal(err)
		}
		t.Logf("%s: open %v", kind, time.Since(t0))
		ctx := context.Background()
		var seq uint64
		o := a.New(0, 1, &seq)
		t0 = time.Now()
		err = a.Create(ctx, o)
		t.Logf("%s: create err=%v took %v view=%+v", kind, err, time.Since(t0), a.View(o))
		o2 := a.New(0, 2, &seq)
		err = a.Create(ctx, o2)
		t.Logf("%s: create again err=%v alreadyExists=%v", kind, err, errors.IsAlreadyExists(err))
		idx := a.View(o).Index
		g1, err := a.Get(ctx, 0, idx)
		t.Logf("%s: get err=%v view=%+v", kind, err, viewOrNil(a, g1))
		g2, _ := a.Get(ctx, 0, idx)
		_, err = a.Get(ctx, 1, idx+5)
		t.Logf("%s: get missing err=%v notfound=%v", kind, err, errors.IsNotFound(err))
		a.SetSpec(g1, 7, &seq)
		t0 = time.Now()
		err = a.Update(ctx, g1)
		t.Logf("%s: update err=%v took %v view=%+v", kind, err, time.Since(t0), a.View(g1))
		a.SetSpec(g2, 9, &seq)
		err = a.Update(ctx, g2)
		t.Logf("%s: stale update err=%v conflict=%v type=%v", kind, err, errors.IsConflict(err), errors.TypeOf(err))
		g3, err := a.Get(ctx, 0, idx)
		t.Logf("%s: get after stale err=%v view=%+v", kind, err, viewOrNil(a, g3))
		a.SetStatus(g3, 4, &seq)
		err = a.UpdateStatus(ctx, g3)
		t.Logf("%s: updatestatus err=%v view=%+v", kind, err, a.View(g3))
		g4, err := a.Get(ctx, 0, idx)
		t.Logf("%s: get after status err=%v view=%+v", kind, err, viewOrNil(a, g4))
		l, err := a.List(ctx)
		t.Logf("%s: list err=%v n=%d", kind, err, len(l))

		// watch: consuming watcher + cancel
		w := newWatcher(0, 0, -1, true)
		err = a.Watch(w.ctx, -1, 0, true, w)
		t.Logf("%s: watch err=%v", kind, err)
		ok := waitFor(waitBound, func() bool { return w.lastVersion(0) != 0 })
		t.Logf("%s: replay arrived=%v events=%+v", kind, ok, w.snapshot())
		if kind != KindV3Tx {
			w.cancel()
			ok = waitFor(time.Second, func() bool { return w.isClosed() })
			t.Logf("%s: closed after cancel=%v", kind, ok)
			time.Sleep(50 * time.Millisecond)
			n := 0
			for _, g := range dumpGoroutines() {
				if contains(g.stack, storePkgMarker) {
					n++
					t.Logf("%s: store goroutine after cancel: [%s] %s", kind, g.state, firstStoreFrame(g.stack))
				}
			}
			_ = n
		}
		w.stop()
		t0 = time.Now()
		done := make(chan error, 1)
		go func() { done <- a.Close(ctx) }()
		select {
		case err := <-done:
			t.Logf("%s: close err=%v took %v", kind, err, time.Since(t0))
		case <-time.After(2 * time.Second):
			t.Logf("%s: close HANGS", kind)
		}
		t0 = time.Now()
		client.Close()
		t.Logf("%s: client close took %v", kind, time.Since(t0))
		time.Sleep(100 * time.Millisecond)
		for _, g := range dumpGoroutines() {
			if contains(g.stack, storePkgMarker) {
				t.Logf("%s: store goroutine after close: [%s] %s", kind, g.state, firstStoreFrame(g.stack))
			}
		}
	}
}

func viewOrNil(a api, o any) string {
	if o == nil {
		return "<nil>"
	}
	return fmt.Sprintf("%+v", a.View(o))
}

func contains(s, sub string) bool {
	return len(sub) == 0 || (len(s) >= len(sub) && (indexOf(s, sub) >= 0))
}

func indexOf(s, sub string) int {
	for i := 0; i+len(sub) <= len(s); i++ {
		if s[i:i+len(sub)] == sub {
			return i
		}
	}
	return -1
}

func firstStoreFrame(stack string) string {
	lines := splitLines(stack)
	for i, l := range lines {
		if contains(l, storePkgMarker) && i+1 < len(lines) {
			return l + " " + lines[i+1]
		}
	}
	return ""
}

func splitLines(s string) []string {
	var out []string
	cur := ""
	for _, r := range s {
		if r == '\n' {
			out = append(out, cur)
			cur = ""
		} else {
			cur += string(r)
		}
	}
	return append(out, cur)
}
