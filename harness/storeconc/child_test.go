package storeconc

import (
	"context"
	"fmt"
	"os"
	"os/exec"
	"strings"
	"sync"
	"testing"
	"time"
)

// ---- child process: scenarios that kill the process from a store goroutine -----

const childEnv = "C15_CHILD"

var (
	dblMu      sync.Mutex
	dblDone    bool
	dblVerdict string
	dblDetail  string
)

// v3DoubleCloseMemo returns the verdict if the child already ran in this process ("" otherwise).
func v3DoubleCloseMemo() string {
	dblMu.Lock()
	defer dblMu.Unlock()
	return dblVerdict
}

// v3DoubleCloseVerdict runs "v3 transaction store: watch, cancel" in a child
// process, once per process: "panics" (child died with `close of closed
// channel`), "clean" (child survived) or "inconclusive".
func v3DoubleCloseVerdict() (string, string) {
	dblMu.Lock()
	defer dblMu.Unlock()
	if dblDone {
		return dblVerdict, dblDetail
	}
	dblDone = true
	dblVerdict, dblDetail = runChild("v3tx-cancel")
	return dblVerdict, dblDetail
}

func runChild(scenario string) (string, string) {
	dir, err := os.MkdirTemp("", "c15child")
	if err != nil {
		return "inconclusive", err.Error()
	}
	defer os.RemoveAll(dir)
	ctx, cancel := context.WithTimeout(context.Background(), 90*time.Second)
	defer cancel()
	cmd := exec.CommandContext(ctx, os.Args[0], "-test.run", "^TestZZChildC15$", "-test.count=1", "-test.timeout=60s", "-test.v")
	cmd.Dir = dir
	for _, e := range os.Environ() {
		if strings.HasPrefix(e, "VERIF_STATS=") || strings.HasPrefix(e, "VERIF_REPLAY=") || strings.HasPrefix(e, childEnv+"=") {
			continue
		}
		cmd.Env = append(cmd.Env, e)
	}
	cmd.Env = append(cmd.Env, childEnv+"="+scenario)
	out, err := cmd.CombinedOutput()
	s := string(out)
	switch {
	case strings.Contains(s, "panic: close of closed channel"):
		return "panics", excerpt(s, "panic: close of closed channel", 14)
	case err == nil && strings.Contains(s, "C15CHILD-OK"):
		return "clean", ""
	}
	return "inconclusive", fmt.Sprintf("err=%v\n%s", err, tailLines(s, 20))
}

func excerpt(s, from string, lines int) string {
	i := strings.Index(s, from)
	if i < 0 {
		return ""
	}
	return strings.Join(firstN(strings.Split(s[i:], "\n"), lines), "\n")
}

func firstN(l []string, n int) []string {
	if len(l) > n {
		return l[:n]
	}
	return l
}

func tailLines(s string, n int) string {
	l := strings.Split(s, "\n")
	if len(l) > n {
		l = l[len(l)-n:]
	}
	return strings.Join(l, "\n")
}

// TestZZChildC15 is the body of the child process (skipped in a normal run).
func TestZZChildC15(t *testing.T) {
	sc := os.Getenv(childEnv)
	if sc == "" {
		t.Skip("child-process body")
	}
	switch sc {
	case "v3tx-cancel":
		for _, variant := range []struct{ one, replay bool }{{false, true}, {true, false}} {
			client := newAtomixClient()
			a, err := newAPI(KindV3Tx, client)
			if err != nil {
				t.Fatal(err)
			}
			var seq uint64
			o := a.New(0, 1, &seq)
			if err := a.Create(context.Background(), o); err != nil {
				t.Fatal(err)
			}
			key, idx := -1, uint64(0)
			if variant.one {
				key, idx = 0, a.View(o).Index
			}
			w := newWatcher(0, 0, key, variant.replay)
			if err := a.Watch(w.ctx, key, idx, variant.replay, w); err != nil {
				t.Fatal(err)
			}
			if variant.replay && !waitFor(10*time.Second, func() bool { return w.lastVersion(0) != 0 }) {
				t.Fatal("replay did not arrive")
			}
			w.cancel()
			closed := waitFor(10*time.Second, w.isClosed)
			time.Sleep(300 * time.Millisecond) // a second close panics in the store goroutine right after the first
			fmt.Printf("variant one=%v replay=%v closed=%v\n", variant.one, variant.replay, closed)
			w.stop()
			client.Close()
		}
		fmt.Println("C15CHILD-OK")
	default:
		t.Fatalf("unknown child scenario %q", sc)
	}
}

// ---- in-process demonstration of the blocked pump (listed finding) ----------------

var (
	demoMu   sync.Mutex
	demoMemo = map[string][2]string{}
)

// pumpDemo runs the minimal history of F-watch-pump-blocked against a fresh
// store of the given kind, once per process and watcher class: a watcher that
// stopped reading is cancelled while an event for it is in flight; two more
// writes follow; a second, reading watcher must receive them. It reports
// whether the store-wide pump ended up parked for good.
func pumpDemo(kind string, one bool) (bool, string) {
	demoMu.Lock()
	defer demoMu.Unlock()
	key := fmt.Sprintf("%s/%v", kind, one)
	if r, ok := demoMemo[key]; ok {
		return r[0] == "y", r[1]
	}
	rep, detail := pumpDemoRun(kind, one)
	v := "n"
	if rep {
		v = "y"
	}
	demoMemo[key] = [2]string{v, detail}
	return rep, detail
}

func pumpDemoRun(kind string, one bool) (bool, string) {
	markCaseStart()
	client := newAtomixClient()
	defer forgetParked() // the demonstration leaves its pump parked
	defer client.Close()
	a, err := newAPI(kind, client)
	if err != nil {
		return false, err.Error()
	}
	ctx, cancel := context.WithTimeout(context.Background(), 30*time.Second)
	defer cancel()
	var seq uint64
	o := a.New(0, 1, &seq)
	if err := a.Create(ctx, o); err != nil {
		return false, err.Error()
	}
	idx := a.View(o).Index
	key := -1
	if one {
		key = 0
	}
	w1 := newWatcher(1, 0, key, true)
	w2 := newWatcher(2, 1, -1, false)
	defer w1.stop()
	defer w2.stop()
	if err := a.Watch(w1.ctx, key, idx, true, w1); err != nil {
		return false, err.Error()
	}
	if err := a.Watch(w2.ctx, -1, 0, false, w2); err != nil {
		return false, err.Error()
	}
	if !waitFor(waitBound, func() bool { return w1.lastVersion(0) != 0 }) {
		return false, "replay not delivered"
	}
	w1.pause()
	write := func(n int) (uint64, error) {
		g, err := a.Get(ctx, 0, idx)
		if err != nil {
			return 0, err
		}
		a.SetStatus(g, n, &seq)
		trimV3(g, "upstatus")
		if err := a.UpdateStatus(ctx, g); err != nil {
			return 0, err
		}
		return a.View(g).Version, nil
	}
	if _, err := write(2); err != nil {
		return false, err.Error()
	}
	// the event is in flight once the per-watch goroutine sits in `ch <- event`
	if !waitFor(waitBound, func() bool { return len(perWatchParked(dumpGoroutines())) > 0 }) {
		return false, "no per-watch goroutine parked in a channel send (nothing in flight)"
	}
	w1.cancel() // abandoned: w1 is never read again
	if _, err := write(3); err != nil {
		return false, err.Error()
	}
	v, err := write(4)
	if err != nil {
		return false, err.Error()
	}
	var parked []gInfo
	delivered := waitFor(waitBound, func() bool {
		if w2.lastVersion(0) == v {
			return true
		}
		for _, g := range parkedInStore(dumpGoroutines()) {
			if isPump(g) {
				parked = []gInfo{g}
			}
		}
		return len(parked) > 0
	}) && w2.lastVersion(0) == v
	if delivered {
		return false, "second watcher received every event"
	}
	if len(parked) == 0 {
		return false, "inconclusive"
	}
	// confirm it is stable
	time.Sleep(100 * time.Millisecond)
	still := false
	for _, g := range parkedInStore(dumpGoroutines()) {
		if g.id == parked[0].id {
			still = true
		}
	}
	if !still || w2.lastVersion(0) == v {
		return false, "pump recovered"
	}
	return true, fmt.Sprintf("a watcher that stopped reading and was then cancelled with an event in flight parks the store-wide pump for good; the other watcher stays at version %d of %d (%s)",
		w2.lastVersion(0), v, strings.TrimSpace(frames(parked)))
}

// ---- in-process demonstration of the v3 configuration store's loop-variable aliasing ----

var (
	loopMu   sync.Mutex
	loopDone bool
	loopRep  bool
	loopMsg  string
)

// loopVarDemo writes three committed values in one Update of a v3
// configuration (the generated histories hand the store one value at a time
// while the finding is listed) and reads them back; once per process.
func loopVarDemo() (bool, string) {
	loopMu.Lock()
	defer loopMu.Unlock()
	if loopDone {
		return loopRep, loopMsg
	}
	loopDone = true
	client := newAtomixClient()
	defer client.Close()
	a, err := newAPI(KindV3Cfg, client)
	if err != nil {
		return false, err.Error()
	}
	ctx, cancel := context.WithTimeout(context.Background(), 30*time.Second)
	defer cancel()
	defer func() { _ = a.Close(ctx) }()
	var seq uint64
	o := a.New(0, 0, &seq)
	if err := a.Create(ctx, o); err != nil {
		return false, err.Error()
	}
	g, err := a.Get(ctx, 0, 0)
	if err != nil {
		return false, err.Error()
	}
	a.SetSpec(g, 0, &seq) // /a
	a.SetSpec(g, 1, &seq) // /b
	a.SetSpec(g, 2, &seq) // /c
	want := canonVals(a.View(g).Vals)
	if err := a.Update(ctx, g); err != nil {
		return false, err.Error()
	}
	r, err := a.Get(ctx, 0, 0)
	if err != nil {
		return false, err.Error()
	}
	got := canonVals(a.View(r).Vals)
	if got == want {
		loopRep, loopMsg = false, "three values written in one Update read back intact"
		return loopRep, loopMsg
	}
	loopRep = true
	loopMsg = fmt.Sprintf("v3 configuration store: one Update carrying {%s} is read back as {%s}: every path written in one call gets the value of the last iterated map entry (`&pv` of the range variable, operations encoded at Commit)", want, got)
	return loopRep, loopMsg
}
