package storeconc

import (
	"context"
	"fmt"
	"regexp"
	"runtime"
	"strconv"
	"strings"
	"sync"
	"sync/atomic"
	"time"

	"github.com/atomix/go-sdk/pkg/test"
	"google.golang.org/grpc"
)

// atomixClient is the in-memory Atomix test client plus a record of the
// connections the stores' primitives opened through it: the stores close only
// part of their primitives (none in the v3 transaction store, not the per-target
// value maps in the configuration stores), each forgotten connection pins two
// 1 MiB pipes, and thousands of cases run in one process.
type atomixClient struct {
	inner *test.Client
	mu    sync.Mutex
	conns []*grpc.ClientConn
}

func newAtomixClient() *atomixClient { return &atomixClient{inner: test.NewClient()} }

// Connect implements primitive.Client.
func (c *atomixClient) Connect(ctx context.Context) (*grpc.ClientConn, error) {
	conn, err := c.inner.Connect(ctx)
	if err == nil {
		c.mu.Lock()
		c.conns = append(c.conns, conn)
		c.mu.Unlock()
	}
	return conn, err
}

// Close closes every connection handed out and stops the in-memory cluster.
func (c *atomixClient) Close() {
	c.mu.Lock()
	conns := c.conns
	c.conns = nil
	c.mu.Unlock()
	for _, conn := range conns {
		_ = conn.Close()
	}
	c.inner.Close()
}

// watcher is one subscription held by a logical client: the context handed to
// the store's Watch, the consumer goroutine reading the channel, and the
// harness-side bookkeeping of what the watcher must eventually be shown.
type watcher struct {
	id     int
	client int
	key    int // -1 = all records
	replay bool
	ctx    context.Context
	cancel context.CancelFunc

	mu     sync.Mutex
	events []ev
	closed bool // the store closed the channel

	pauseReq chan chan struct{}
	resumeCh chan struct{}
	quit     chan struct{}
	done     chan struct{}

	// harness-side state, touched only by the goroutine running the case
	paused        bool // the consumer is not reading
	cancelled     bool // ctx cancelled
	abandoned     bool // cancelled while not reading and nobody drains the channel
	notCancelable bool // cancel suppressed (listed v3 double close)
	mustSee       map[int]bool
	confirmed     map[int]bool // records for which a live event has been received
	replayKeys    []int        // records that existed (in scope) when a replaying watcher subscribed
	midReplay     bool         // cancelled before the end of the replay phase was observable
	pending       int          // in-scope writes issued since the watcher was last confirmed up to date
	checked       int          // events already verified for per-key order
	quitOnce      sync.Once
}

func newWatcher(id, client, key int, replay bool) *watcher {
	ctx, cancel := context.WithCancel(context.Background())
	return &watcher{id: id, client: client, key: key, replay: replay, ctx: ctx, cancel: cancel,
		pauseReq: make(chan chan struct{}), resumeCh: make(chan struct{}), quit: make(chan struct{}), done: make(chan struct{}),
		mustSee: map[int]bool{}, confirmed: map[int]bool{}}
}

func (w *watcher) inScope(key int) bool { return w.key < 0 || w.key == key }

// consume is the consumer side of a watch: it reads the channel the store
// writes to, can be told to stop reading (pause) and to read again (resume).
func consume[E any](ch <-chan E, conv func(E) ev, w *watcher) {
	defer close(w.done)
	for {
		select {
		case e, ok := <-ch:
			if !ok {
				w.mu.Lock()
				w.closed = true
				w.mu.Unlock()
				return
			}
			c := conv(e)
			w.mu.Lock()
			w.events = append(w.events, c)
			w.mu.Unlock()
		case ack := <-w.pauseReq:
			close(ack)
			select {
			case <-w.resumeCh:
			case <-w.quit:
				return
			}
		case <-w.quit:
			return
		}
	}
}

func (w *watcher) pause() {
	ack := make(chan struct{})
	select {
	case w.pauseReq <- ack:
		<-ack
	case <-w.done:
	}
}

func (w *watcher) resume() {
	select {
	case w.resumeCh <- struct{}{}:
	case <-w.done:
	}
}

func (w *watcher) stop() { w.quitOnce.Do(func() { close(w.quit) }) }

func (w *watcher) isClosed() bool {
	w.mu.Lock()
	defer w.mu.Unlock()
	return w.closed
}

func (w *watcher) snapshot() []ev {
	w.mu.Lock()
	defer w.mu.Unlock()
	return append([]ev(nil), w.events...)
}

// lastVersion returns the version carried by the last event received for key (0 = none).
func (w *watcher) lastVersion(key int) uint64 {
	w.mu.Lock()
	defer w.mu.Unlock()
	for i := len(w.events) - 1; i >= 0; i-- {
		if w.events[i].Key == key {
			return w.events[i].Version
		}
	}
	return 0
}

// waitBound is the generous bound of every "eventually" in this check; real
// latencies are well under a millisecond. Running into the bound is never by
// itself a verdict (see diagnose).
const waitBound = 3 * time.Second

// waitFor polls cond until it holds or the bound expires.
func waitFor(bound time.Duration, cond func() bool) bool {
	for i := 0; i < 50; i++ {
		if cond() {
			return true
		}
		runtime.Gosched()
	}
	deadline := time.Now().Add(bound)
	sleep := 20 * time.Microsecond
	for {
		if cond() {
			return true
		}
		if time.Now().After(deadline) {
			return cond()
		}
		time.Sleep(sleep)
		if sleep < 2*time.Millisecond {
			sleep *= 2
		}
	}
}

// ---- goroutine dump analysis -------------------------------------------------

type gInfo struct {
	id    string
	state string
	stack string
}

var gHeader = regexp.MustCompile(`^goroutine (\d+) \[([^\]]*)\]:`)

func dumpGoroutines() []gInfo {
	buf := make([]byte, 1<<20)
	for {
		n := runtime.Stack(buf, true)
		if n < len(buf) {
			buf = buf[:n]
			break
		}
		buf = make([]byte, 2*len(buf))
	}
	var out []gInfo
	for _, blk := range strings.Split(string(buf), "\n\n") {
		m := gHeader.FindStringSubmatch(blk)
		if m == nil {
			continue
		}
		out = append(out, gInfo{id: m[1], state: m[2], stack: blk})
	}
	return out
}

const storePkgMarker = "onos-config/pkg/store/"

// Store goroutines that an earlier case of this process left parked (a
// failing case, the demonstration of a listed finding, a v3 transaction store
// whose watches cannot be cancelled) belong to stores that no longer exist and
// must not be read as a symptom of the current case. Two filters: a case notes
// the id of a goroutine started at its beginning and only looks at younger
// ones (ids are handed out in per-P batches, so this is almost, not strictly,
// creation order), and cases known to leave parked goroutines behind register
// them explicitly when they end.
var (
	caseBaseline atomic.Int64
	leftMu       sync.Mutex
	leftBehind   = map[string]bool{}
)

func markCaseStart() {
	ch := make(chan int64, 1)
	go func() {
		buf := make([]byte, 64)
		n := runtime.Stack(buf, false)
		var id int64
		fmt.Sscanf(string(buf[:n]), "goroutine %d ", &id)
		ch <- id
	}()
	caseBaseline.Store(<-ch)
}

// forgetParked registers every store goroutine currently in a channel send as left behind.
func forgetParked() {
	gs := dumpGoroutines()
	leftMu.Lock()
	defer leftMu.Unlock()
	for _, g := range gs {
		if strings.HasPrefix(g.state, "chan send") && strings.Contains(g.stack, storePkgMarker) {
			leftBehind[g.id] = true
		}
	}
}

func currentCase(g gInfo) bool {
	leftMu.Lock()
	left := leftBehind[g.id]
	leftMu.Unlock()
	if left {
		return false
	}
	id, err := strconv.ParseInt(g.id, 10, 64)
	return err == nil && id > caseBaseline.Load()
}

// parkedInStore returns the goroutines of the store packages that sit in a
// channel send (the pump's or a per-watch goroutine's `ch <- event`).
func parkedInStore(gs []gInfo) map[string]gInfo {
	out := map[string]gInfo{}
	for _, g := range gs {
		if strings.HasPrefix(g.state, "chan send") && strings.Contains(g.stack, storePkgMarker) && currentCase(g) {
			out[g.id] = g
		}
	}
	return out
}

// stablyParked reports store goroutines that sit in a channel send in two
// dumps taken apart: with every live consumer reading, a send that does not
// complete has no receiver and never will.
func stablyParked() []gInfo {
	a := parkedInStore(dumpGoroutines())
	if len(a) == 0 {
		return nil
	}
	time.Sleep(100 * time.Millisecond)
	b := parkedInStore(dumpGoroutines())
	var out []gInfo
	for id, g := range b {
		if _, ok := a[id]; ok {
			out = append(out, g)
		}
	}
	return out
}

// frames renders the store frames of parked goroutines for a report.
func frames(gs []gInfo) string {
	var b strings.Builder
	for _, g := range gs {
		b.WriteString("goroutine " + g.id + " [" + g.state + "]:")
		lines := strings.Split(g.stack, "\n")
		for i, line := range lines {
			if strings.Contains(line, storePkgMarker) && !strings.HasPrefix(line, "\t") && !strings.HasPrefix(line, "created by") {
				fn := line
				if k := strings.LastIndex(fn, "/"); k >= 0 {
					fn = fn[k+1:]
				}
				if k := strings.Index(fn, "("); k > 0 && strings.HasSuffix(fn, ")") && !strings.Contains(fn[k:], "*") {
					fn = fn[:k]
				}
				loc := ""
				if i+1 < len(lines) {
					loc = strings.TrimSpace(lines[i+1])
					if k := strings.Index(loc, " +0x"); k > 0 {
						loc = loc[:k]
					}
				}
				b.WriteString(" " + fn + " at " + loc + ";")
			}
		}
		b.WriteString("\n")
	}
	return b.String()
}

// isPump tells whether a parked store goroutine is a store-wide event pump
// (open.func* in the v2 stores and the v3 configuration store, watch.func* per
// target log in the v3 transaction store) as opposed to a per-watch goroutine.
func isPump(g gInfo) bool {
	return strings.Contains(g.stack, ").open.func") || strings.Contains(g.stack, "transactionStore).watch.func")
}

// perWatchParked returns per-watch goroutines (Watch.func*, propagateEvents) parked in a channel send.
func perWatchParked(gs []gInfo) []gInfo {
	var out []gInfo
	for _, g := range parkedInStore(gs) {
		if !isPump(g) {
			out = append(out, g)
		}
	}
	return out
}

// pumpsOf filters the store-wide pumps out of a list of parked goroutines.
func pumpsOf(gs []gInfo) []gInfo {
	var out []gInfo
	for _, g := range gs {
		if isPump(g) {
			out = append(out, g)
		}
	}
	return out
}

// storeGoroutines lists the goroutines of the store packages started by the current case, for reports.
func storeGoroutines() string {
	var gs []gInfo
	for _, g := range dumpGoroutines() {
		if strings.Contains(g.stack, storePkgMarker) && currentCase(g) {
			gs = append(gs, g)
		}
	}
	return frames(gs)
}

// replayDone tells whether the watcher's goroutine has demonstrably left the
// replay phase: no replay asked, a live event received, or every record that
// existed at subscription has been shown (an empty replay is unobservable).
func (w *watcher) replayDone() bool {
	if !w.replay {
		return true
	}
	seen := map[int]bool{}
	for _, e := range w.snapshot() {
		if !e.Replayed {
			return true
		}
		seen[e.Key] = true
	}
	if len(w.replayKeys) == 0 {
		return false
	}
	for _, k := range w.replayKeys {
		if !seen[k] {
			return false
		}
	}
	return true
}
