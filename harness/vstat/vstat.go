// Package vstat is the glue between a property check written with rapid and
// the /verif driver: it runs the property, records what the generator actually
// produced (evaluations, distinct non-trivial cases, class histogram, samples,
// known-finding hits), writes the replay file of a failing case and re-executes
// replay files without rapid.
//
// Contract with the driver (../../check):
//
//	VERIF_STATS   path of the stats JSON this process must write (per test)
//	VERIF_REPLAY_DIR directory for replay files of failing cases
//	VERIF_REPLAY  when set: path of a replay file to re-execute instead of generating
//	VERIF_KNOWN   path of known_findings.jsonl
//	VERIF_TIER    quick | thorough
package vstat

import (
	"crypto/sha256"
	"encoding/hex"
	"encoding/json"
	"errors"
	"fmt"
	"os"
	"path/filepath"
	"regexp"
	"runtime/debug"
	"sort"
	"strings"
	"sync"
	"testing"
	"time"

	"pgregory.net/rapid"
)

// ErrSkip is returned by a run function for a generated case that is outside
// the property's domain (counted, never a violation).
var ErrSkip = errors.New("skip")

// Violation is the error a run function returns when the oracle fails.
type Violation struct {
	Msg string
}

func (v *Violation) Error() string { return v.Msg }

// Violf builds a violation.
func Violf(format string, args ...any) error {
	return &Violation{Msg: fmt.Sprintf(format, args...)}
}

// Ctx is handed to every execution of a case.
type Ctx struct {
	rt        *rapid.T // nil in replay mode
	tape      []int    // dynamic choices taken (recorded) or to take (replay)
	pos       int
	replaying bool

	classes    map[string]bool
	nontrivial []string
	known      map[string]string
	excluded   map[string]bool
	log        []string
	sample     any
	tier       string
}

// Tier returns "quick" or "thorough".
func (x *Ctx) Tier() string { return x.tier }

// Choose draws a dynamic choice in [0,n). Everything that decides a schedule,
// a crash point or a fault placement during execution goes through here so
// that it is owned by rapid (shrinks) and lands in the replay file.
func (x *Ctx) Choose(n int, label string) int {
	if n <= 1 {
		return 0
	}
	if x.replaying {
		v := 0
		if x.pos < len(x.tape) {
			v = x.tape[x.pos]
		}
		x.pos++
		if v >= n || v < 0 {
			v = v % n
			if v < 0 {
				v = 0
			}
		}
		return v
	}
	v := rapid.IntRange(0, n-1).Draw(x.rt, label)
	x.tape = append(x.tape, v)
	return v
}

// Class tags the case with a class name for the generator-distribution histogram.
func (x *Ctx) Class(name string) { x.classes[name] = true }

// NonTrivial marks the case as non-trivial by the property's rule; why names the clause.
func (x *Ctx) NonTrivial(why string) {
	x.nontrivial = append(x.nontrivial, why)
	x.classes["nontrivial:"+why] = true
}

// Known records that the trigger of a listed finding was observed and still misbehaves.
func (x *Ctx) Known(id, what string) {
	if _, ok := x.known[id]; !ok {
		x.known[id] = what
	}
}

// Excluded counts a shape that was not explored because it is a listed finding.
func (x *Ctx) Excluded(id string) { x.excluded[id] = true }

// Logf appends to the case's history, printed when the case fails.
func (x *Ctx) Logf(format string, args ...any) {
	if traceAll {
		fmt.Fprintf(os.Stderr, "TRACE "+format+"\n", args...)
	}
	if len(x.log) < 4000 {
		x.log = append(x.log, fmt.Sprintf(format, args...))
	}
}

// Sample sets the human-readable rendition of the case used for evidence samples.
func (x *Ctx) Sample(v any) { x.sample = v }

// ---------------------------------------------------------------------------

// traceAll (VERIF_TRACE=1, debugging only): histories are written to stderr as they happen.
var traceAll = os.Getenv("VERIF_TRACE") != ""

// currentCasePath is where the case being executed is noted ("" outside the driver).
func currentCasePath(test string) string {
	p := os.Getenv("VERIF_STATS")
	if p == "" {
		return ""
	}
	return p + "." + sanitize(test) + ".current.json"
}

// Tracing reports whether VERIF_TRACE is set.
func Tracing() bool { return traceAll }

type knownFinding struct {
	ID       string `json:"id"`
	Property string `json:"property"`
	Status   string `json:"status"` // known | fixed
	What     string `json:"what"`
}

var (
	knownOnce sync.Once
	knownSet  map[string]knownFinding
)

func loadKnown() {
	knownSet = map[string]knownFinding{}
	p := os.Getenv("VERIF_KNOWN")
	if p == "" {
		p = "/verif/known_findings.jsonl"
	}
	b, err := os.ReadFile(p)
	if err != nil {
		return
	}
	for _, line := range strings.Split(string(b), "\n") {
		line = strings.TrimSpace(line)
		if line == "" || strings.HasPrefix(line, "#") {
			continue
		}
		var k knownFinding
		if json.Unmarshal([]byte(line), &k) == nil && k.ID != "" {
			knownSet[k.ID] = k
		}
	}
}

// IsKnown reports whether finding id is listed with status "known" for property
// prop. A check calls this when (and only when) a failure matches the finding's
// trigger; an unlisted (or "fixed") finding is then reported as a violation.
func IsKnown(prop, id string) bool {
	knownOnce.Do(loadKnown)
	k, ok := knownSet[id]
	return ok && k.Status == "known" && (k.Property == prop || k.Property == "")
}

// IsListed reports whether id is listed as known for any property (used by
// generators of *other* properties to exclude the shape by construction).
func IsListed(id string) bool {
	knownOnce.Do(loadKnown)
	k, ok := knownSet[id]
	return ok && k.Status == "known"
}

// ---------------------------------------------------------------------------

// Stats is what a test process writes for the driver.
type Stats struct {
	Property     string            `json:"property"`
	Test         string            `json:"test"`
	Tier         string            `json:"tier"`
	Seed         uint64            `json:"seed"`
	Evaluations  int               `json:"evaluations"`
	Skipped      int               `json:"skipped"`
	NonTrivial   []string          `json:"nontrivial_hashes"`
	Classes      map[string]int    `json:"classes"`
	Known        map[string]string `json:"known"`
	KnownHits    map[string]int    `json:"known_hits"`
	Excluded     map[string]int    `json:"excluded"`
	Samples      []any             `json:"samples"`
	Violations   []ViolationRecord `json:"violations"`
	WallS        float64           `json:"wall_s"`
	Requested    int               `json:"requested"`
	Completed    bool              `json:"completed"`
	Extra        map[string]any    `json:"extra,omitempty"`
	ReplayedFrom string            `json:"replayed_from,omitempty"`
}

// ViolationRecord points at a replay file.
type ViolationRecord struct {
	Replay string `json:"replay"`
	Msg    string `json:"msg"`
}

// ReplayFile is the on-disk form of a failing (or corpus) case.
type ReplayFile struct {
	Property string          `json:"property"`
	Test     string          `json:"test"`
	Case     json.RawMessage `json:"case"`
	Tape     []int           `json:"tape"`
	Msg      string          `json:"msg,omitempty"`
	History  []string        `json:"history,omitempty"`
	Sample   any             `json:"sample,omitempty"`
}

type recorder struct {
	mu    sync.Mutex
	stats Stats
	nt    map[string]bool
	start time.Time
}

var (
	recMu sync.Mutex
	recs  = map[string]*recorder{}
)

func getRecorder(prop, test string) *recorder {
	recMu.Lock()
	defer recMu.Unlock()
	key := prop + "/" + test
	if r, ok := recs[key]; ok {
		return r
	}
	r := &recorder{nt: map[string]bool{}, start: time.Now()}
	r.stats = Stats{Property: prop, Test: test, Tier: Tier(), Classes: map[string]int{}, Known: map[string]string{},
		KnownHits: map[string]int{}, Excluded: map[string]int{}, Extra: map[string]any{}}
	recs[key] = r
	return r
}

// Tier returns the tier the driver asked for.
func Tier() string {
	if t := os.Getenv("VERIF_TIER"); t == "thorough" {
		return "thorough"
	}
	return "quick"
}

// Thorough is shorthand.
func Thorough() bool { return Tier() == "thorough" }

func (r *recorder) flush() {
	p := os.Getenv("VERIF_STATS")
	if p == "" {
		return
	}
	r.mu.Lock()
	defer r.mu.Unlock()
	r.stats.WallS = time.Since(r.start).Seconds()
	r.stats.NonTrivial = r.stats.NonTrivial[:0]
	for h := range r.nt {
		r.stats.NonTrivial = append(r.stats.NonTrivial, h)
	}
	sort.Strings(r.stats.NonTrivial)
	b, _ := json.Marshal(&r.stats)
	name := fmt.Sprintf("%s.%s.json", p, r.stats.Test)
	tmp := name + ".tmp"
	if err := os.WriteFile(tmp, b, 0o644); err == nil {
		_ = os.Rename(tmp, name)
	}
}

// SetExtra records a free-form measured value in the stats (merged by the driver).
func SetExtra(prop, test, key string, v any) {
	r := getRecorder(prop, test)
	r.mu.Lock()
	r.stats.Extra[key] = v
	r.mu.Unlock()
}

// SetExtraAdd adds n to a numeric extra value.
func SetExtraAdd(prop, test, key string, n int) {
	r := getRecorder(prop, test)
	r.mu.Lock()
	cur, _ := r.stats.Extra[key].(int)
	r.stats.Extra[key] = cur + n
	r.mu.Unlock()
}

const maxSamples = 6

func (r *recorder) account(x *Ctx, caseJSON []byte, err error) {
	r.mu.Lock()
	defer r.mu.Unlock()
	if errors.Is(err, ErrSkip) {
		r.stats.Skipped++
		// why a case was outside the domain is part of the evidence: classes named "skip:..." are kept
		for c := range x.classes {
			if strings.HasPrefix(c, "skip:") {
				r.stats.Classes[c]++
			}
		}
		return
	}
	r.stats.Evaluations++
	for c := range x.classes {
		r.stats.Classes[c]++
	}
	for id, what := range x.known {
		r.stats.Known[id] = what
		r.stats.KnownHits[id]++
	}
	for id := range x.excluded {
		r.stats.Excluded[id]++
	}
	if len(x.nontrivial) > 0 {
		h := sha256.New()
		h.Write(caseJSON)
		for _, v := range x.tape {
			fmt.Fprintf(h, ",%d", v)
		}
		key := hex.EncodeToString(h.Sum(nil))[:16]
		if !r.nt[key] {
			r.nt[key] = true
			if len(r.stats.Samples) < maxSamples {
				s := x.sample
				if s == nil {
					s = json.RawMessage(caseJSON)
				}
				r.stats.Samples = append(r.stats.Samples, s)
			}
		}
	}
}

func replayDir() string {
	d := os.Getenv("VERIF_REPLAY_DIR")
	if d == "" {
		d = "/verif/replays"
	}
	_ = os.MkdirAll(d, 0o755)
	return d
}

func seedFromFlags() uint64 {
	// rapid's flag is registered by the rapid package; read it back through the flag set.
	for _, a := range os.Args {
		if strings.HasPrefix(a, "-rapid.seed=") {
			var s uint64
			fmt.Sscanf(strings.TrimPrefix(a, "-rapid.seed="), "%d", &s)
			return s
		}
	}
	return 0
}

func checksFromFlags() int {
	for _, a := range os.Args {
		if strings.HasPrefix(a, "-rapid.checks=") {
			var s int
			fmt.Sscanf(strings.TrimPrefix(a, "-rapid.checks="), "%d", &s)
			return s
		}
	}
	return 100
}

// Run executes property prop. gen draws the static part of a case (must be
// JSON-serialisable and must round-trip through JSON); run executes it against
// the real code and returns nil, ErrSkip or a violation. A panic inside run is
// a violation too (the harness itself must not panic on valid cases).
func Run[C any](t *testing.T, prop string, gen func(*rapid.T) C, run func(c C, x *Ctx) error) {
	RunEnum(t, prop, nil, gen, run)
}

// shardOf reads the driver's VERIF_SHARD / VERIF_SHARDS (worker i of k); (0, 1) outside the driver.
func shardOf() (int, int) {
	var i, k int
	fmt.Sscanf(os.Getenv("VERIF_SHARD"), "%d", &i)
	fmt.Sscanf(os.Getenv("VERIF_SHARDS"), "%d", &k)
	if k <= 0 || i < 0 || i >= k {
		return 0, 1
	}
	return i, k
}

// RunEnum is Run preceded by an exhaustive pass: every case of enum (a small finite sub-domain written out in
// full) is executed once, in order, before the generated cases; worker i of k takes the cases whose position is
// i modulo k. Enumerated cases are accounted, reported and saved for replay exactly like generated ones.
func RunEnum[C any](t *testing.T, prop string, enum []C, gen func(*rapid.T) C, run func(c C, x *Ctx) error) {
	test := t.Name()
	rec := getRecorder(prop, test)
	rec.stats.Seed = seedFromFlags()
	rec.stats.Requested = checksFromFlags()
	defer rec.flush()

	exec := func(c C, x *Ctx) (err error) {
		defer func() {
			if p := recover(); p != nil {
				if isRapidControl(p) {
					panic(p)
				}
				err = Violf("panic while executing case: %v\n%s", p, CleanStack(string(debug.Stack())))
			}
		}()
		return run(c, x)
	}

	writeReplay := func(name string, c C, x *Ctx, msg string) string {
		cj, _ := json.Marshal(c)
		rf := ReplayFile{Property: prop, Test: test, Case: cj, Tape: x.tape, Msg: msg, History: x.log, Sample: x.sample}
		b, _ := json.MarshalIndent(&rf, "", " ")
		p := filepath.Join(replayDir(), name)
		_ = os.WriteFile(p, b, 0o644)
		return p
	}

	// ---- replay mode: one file, no rapid
	if rp := os.Getenv("VERIF_REPLAY"); rp != "" {
		files := []string{rp}
		if st, err := os.Stat(rp); err == nil && st.IsDir() {
			files, _ = filepath.Glob(filepath.Join(rp, "*.json"))
			sort.Strings(files)
		}
		for _, f := range files {
			b, err := os.ReadFile(f)
			if err != nil {
				t.Fatalf("replay: %v", err)
			}
			var rf ReplayFile
			if err := json.Unmarshal(b, &rf); err != nil {
				t.Fatalf("replay: %v", err)
			}
			if rf.Property != prop || (rf.Test != "" && rf.Test != test) {
				continue
			}
			var c C
			if err := json.Unmarshal(rf.Case, &c); err != nil {
				t.Fatalf("replay: bad case: %v", err)
			}
			x := newCtx(nil)
			x.replaying = true
			x.tape = rf.Tape
			err = exec(c, x)
			cj, _ := json.Marshal(c)
			rec.account(x, cj, err)
			rec.stats.ReplayedFrom = rp
			if err != nil && !errors.Is(err, ErrSkip) {
				rec.mu.Lock()
				rec.stats.Violations = append(rec.stats.Violations, ViolationRecord{Replay: f, Msg: firstLine(err.Error())})
				rec.mu.Unlock()
				t.Errorf("replay %s: %v\nhistory:\n%s", f, err, strings.Join(x.log, "\n"))
			}
		}
		rec.stats.Completed = true
		return
	}

	// ---- exhaustive pass over the enumerated sub-domain
	if len(enum) > 0 {
		si, sk := shardOf()
		for i, c := range enum {
			if i%sk != si {
				continue
			}
			x := newCtx(nil)
			x.replaying = true // no drawn choices in an enumerated case
			cj, _ := json.Marshal(c)
			if cur := currentCasePath(test); cur != "" {
				if b, e := json.Marshal(ReplayFile{Property: prop, Test: test, Case: cj, Msg: "the test process died while executing this case"}); e == nil {
					_ = os.WriteFile(cur, b, 0o644)
				}
			}
			err := exec(c, x)
			rec.account(x, cj, err)
			rec.mu.Lock()
			rec.stats.Classes["enumerated"]++
			rec.mu.Unlock()
			if err != nil && !errors.Is(err, ErrSkip) {
				f := writeReplay(fmt.Sprintf("%s-%s-enum%d.json", prop, sanitize(test), i), c, x, err.Error())
				rec.mu.Lock()
				rec.stats.Violations = append(rec.stats.Violations, ViolationRecord{Replay: f, Msg: firstLine(err.Error())})
				rec.mu.Unlock()
				rec.flush()
				t.Errorf("enumerated case %d: %v\nhistory:\n%s", i, err, strings.Join(x.log, "\n"))
			}
		}
		if t.Failed() {
			return
		}
	}

	// ---- generation mode
	failName := fmt.Sprintf("%s-%s-seed%d.json", prop, sanitize(test), rec.stats.Seed)
	var lastFail string
	rapid.Check(t, func(rt *rapid.T) {
		c := gen(rt)
		cj, err := json.Marshal(c)
		if err != nil {
			rt.Fatalf("case does not serialise: %v", err)
		}
		x := newCtx(rt)
		// write-ahead: should the process die while this case runs (a panic of the code under test on a
		// goroutine nothing can guard), the driver finds the case here and turns it into a replay file
		if cur := currentCasePath(test); cur != "" {
			if b, e := json.Marshal(ReplayFile{Property: prop, Test: test, Case: cj, Msg: "the test process died while executing this case"}); e == nil {
				_ = os.WriteFile(cur, b, 0o644)
			}
		}
		err = exec(c, x)
		rec.account(x, cj, err)
		if err != nil && !errors.Is(err, ErrSkip) {
			// Every failing execution overwrites the file, so the one left on
			// disk is the last (= most shrunk) failing case rapid executed.
			lastFail = writeReplay(failName, c, x, err.Error())
			rec.mu.Lock()
			rec.stats.Violations = []ViolationRecord{{Replay: lastFail, Msg: firstLine(err.Error())}}
			rec.mu.Unlock()
			rec.flush()
			// the history goes to the log, not into the error text: rapid compares
			// error texts of two runs of one case and only shrinks when they agree
			rt.Logf("history of the failing case:\n%s", strings.Join(x.log, "\n"))
			rt.Fatalf("%v", err)
		}
	})
	rec.stats.Completed = !t.Failed()
}

func newCtx(rt *rapid.T) *Ctx {
	return &Ctx{rt: rt, classes: map[string]bool{}, known: map[string]string{}, excluded: map[string]bool{}, tier: Tier()}
}

func firstLine(s string) string {
	if i := strings.IndexByte(s, '\n'); i >= 0 {
		s = s[:i]
	}
	if len(s) > 400 {
		s = s[:400]
	}
	return s
}

func sanitize(s string) string {
	return strings.Map(func(r rune) rune {
		if r == '/' || r == ' ' {
			return '_'
		}
		return r
	}, s)
}

var (
	reArgs   = regexp.MustCompile(`\([^()]*0x[0-9a-f][^()]*\)`)
	reOff    = regexp.MustCompile(` \+0x[0-9a-f]+`)
	reGor    = regexp.MustCompile(`goroutine \d+`)
	reInGor  = regexp.MustCompile(`in goroutine \d+`)
	rePtr    = regexp.MustCompile(`0x[0-9a-f]{6,}`)
	reHarnes = regexp.MustCompile(`(?m)^(testing\.|pgregory\.net/rapid\.|verif/harness/vstat\.|runtime/debug\.Stack|created by testing).*\n(\t.*\n)?`)
)

// CleanStack makes a stack trace reproducible from run to run (no goroutine
// ids, argument words, pc offsets) and drops the test-framework frames, so
// that rapid sees the same failure message while shrinking (it only accepts a
// shrink step whose error text is unchanged).
func CleanStack(s string) string {
	s = reHarnes.ReplaceAllString(s, "")
	s = reArgs.ReplaceAllString(s, "(...)")
	s = reOff.ReplaceAllString(s, "")
	s = reInGor.ReplaceAllString(s, "in goroutine N")
	s = reGor.ReplaceAllString(s, "goroutine N")
	s = rePtr.ReplaceAllString(s, "0xPTR")
	if len(s) > 6000 {
		s = s[:6000] + "\n...(stack truncated)"
	}
	return s
}

// rapid signals "invalid data / stop" by panicking with private types; those
// must propagate untouched.
func isRapidControl(p any) bool {
	s := fmt.Sprintf("%T", p)
	return strings.HasPrefix(s, "rapid.") || strings.HasPrefix(s, "*rapid.")
}
